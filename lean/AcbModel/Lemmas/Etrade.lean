/-
  Lemmas about the E*TRADE sell-to-cover matching model (`AcbModel/Broker/Etrade.lean`).
-/
import AcbModel.Broker.Etrade
namespace Acb.Etrade

/-! ### combinations -/

theorem combos_spec {α : Type} : ∀ (k : Nat) (l c : List α), c ∈ combos k l → c.Sublist l ∧ c.length = k := by
  intro k l
  induction l generalizing k with
  | nil =>
    intro c hc
    cases k with
    | zero => simp [combos] at hc; subst hc; simp
    | succ k => simp [combos] at hc
  | cons x xs ih =>
    intro c hc
    cases k with
    | zero => simp [combos] at hc; subst hc; simp
    | succ k =>
      simp only [combos, List.mem_append, List.mem_map] at hc
      rcases hc with ⟨c', hc', rfl⟩ | hc
      · have := ih k c' hc'
        exact ⟨List.Sublist.cons_cons x this.1, by simp [this.2]⟩
      · have := ih (k + 1) c hc
        exact ⟨List.Sublist.cons x this.1, this.2⟩

theorem allMatching_spec {sec : Nat} {sold : Rat} {cands c : List Trade} (h : c ∈ allMatching sec sold cands) :
    c.Sublist cands ∧ c ≠ [] ∧ (∀ t ∈ c, t.sec = sec) ∧ sumShares c = sold := by
  simp only [allMatching, List.mem_flatMap, List.mem_map, List.mem_reverse, List.mem_range,
    List.mem_filter] at h
  obtain ⟨k, ⟨k0, _, rfl⟩, hc, hm⟩ := h
  have ⟨hs, hl⟩ := combos_spec _ _ _ hc
  simp only [isMatch, Bool.and_eq_true, List.all_eq_true, beq_iff_eq, decide_eq_true_eq] at hm
  refine ⟨hs, ?_, hm.1, hm.2⟩
  intro hnil; subst hnil; simp at hl

theorem insertBy_perm {α : Type} (le : α → α → Bool) (x : α) : ∀ l : List α, (insertBy le x l).Perm (x :: l) := by
  intro l
  induction l with
  | nil => simp [insertBy]
  | cons y ys ih =>
    simp only [insertBy]
    split
    · exact List.Perm.refl _
    · exact (List.Perm.cons y ih).trans (List.Perm.swap x y ys)

theorem sortBy_perm {α : Type} (le : α → α → Bool) : ∀ l : List α, (sortBy le l).Perm l := by
  intro l
  induction l with
  | nil => simp [sortBy]
  | cons x xs ih => exact (insertBy_perm le x _).trans (List.Perm.cons x ih)

theorem insertBy_pairwise {α : Type} (le : α → α → Bool)
    (trans : ∀ a b c, le a b = true → le b c = true → le a c = true)
    (total : ∀ a b, (le a b || le b a) = true) (x : α) :
    ∀ l : List α, l.Pairwise (fun a b => le a b = true) → (insertBy le x l).Pairwise (fun a b => le a b = true) := by
  intro l
  induction l with
  | nil => intro _; simp [insertBy]
  | cons y ys ih =>
    intro h
    have h' := List.pairwise_cons.mp h
    simp only [insertBy]
    split
    · rename_i hxy
      refine List.pairwise_cons.mpr ⟨?_, h⟩
      intro z hz
      rcases List.mem_cons.mp hz with hz | hz
      · subst hz; exact hxy
      · exact trans _ _ _ hxy (h'.1 z hz)
    · rename_i hxy
      have hyx : le y x = true := by
        have := total x y
        simp only [Bool.or_eq_true] at this
        rcases this with h1 | h1
        · exact absurd h1 hxy
        · exact h1
      refine List.pairwise_cons.mpr ⟨?_, ih h'.2⟩
      intro z hz
      have := (insertBy_perm le x ys).subset hz
      rcases List.mem_cons.mp this with hz' | hz'
      · subst hz'; exact hyx
      · exact h'.1 z hz'

theorem sortBy_pairwise {α : Type} (le : α → α → Bool)
    (trans : ∀ a b c, le a b = true → le b c = true → le a c = true)
    (total : ∀ a b, (le a b || le b a) = true) :
    ∀ l : List α, (sortBy le l).Pairwise (fun a b => le a b = true) := by
  intro l
  induction l with
  | nil => simp [sortBy]
  | cons x xs ih => exact insertBy_pairwise le trans total x _ ih

theorem sortBy_of_pairwise {α : Type} (le : α → α → Bool) :
    ∀ l : List α, l.Pairwise (fun a b => le a b = true) → sortBy le l = l := by
  intro l
  induction l with
  | nil => intro _; rfl
  | cons x xs ih =>
    intro h
    have h' := List.pairwise_cons.mp h
    simp only [sortBy, ih h'.2]
    cases xs with
    | nil => rfl
    | cons y ys => simp [insertBy, h'.1 y (by simp)]

/-- the set that is chosen is one of the matching combinations — never a guess -/
theorem findSet_mem {sec : Nat} {sold : Rat} {p : Option Rat} {cands m : List Trade}
    (h : findSet sec sold p cands = .ok m) : m ∈ allMatching sec sold cands := by
  unfold findSet at h
  split at h
  · cases h
  · rename_i c hc
    simp only [Except.ok.injEq] at h; subst h; rw [hc]; simp
  · rename_i c1 c2 cs hc
    split at h
    · cases h
    · split at h
      · cases h
      · rename_i pr
        split at h
        · cases h
        · rename_i best rest hs
          simp only [Except.ok.injEq] at h; subst h
          have : best ∈ sortBy (fun a b => decide (rabs (pr - avgPrice a) ≤ rabs (pr - avgPrice b))) (c1 :: c2 :: cs) := by
            rw [hs]; simp
          rw [hc]
          exact (sortBy_perm _ _).subset this

/-- no matching combination ⇒ error -/
theorem findSet_noMatch {sec : Nat} {sold : Rat} {p : Option Rat} {cands : List Trade}
    (h : allMatching sec sold cands = []) : findSet sec sold p cands = .error .noMatch := by
  unfold findSet; rw [h]

/-! ### removal of the matched trades from the pool -/

theorem filterMap_congr' {α β : Type} {f g : α → Option β} : ∀ {l : List α}, (∀ x ∈ l, f x = g x) →
    l.filterMap f = l.filterMap g := by
  intro l
  induction l with
  | nil => intro _; rfl
  | cons a l ih =>
    intro h
    simp only [List.filterMap_cons, h a (by simp), ih (fun x hx => h x (by simp [hx]))]


theorem eraseIdxsDesc_spec {α : Type} : ∀ (ds : List Nat) (l : List α),
    ds.Pairwise (· > ·) → (∀ i ∈ ds, i < l.length) →
    ∃ r, eraseIdxsDesc l ds = .ok r ∧ r.Sublist l ∧ l.Perm (ds.filterMap (l[·]?) ++ r) := by
  intro ds
  induction ds with
  | nil => intro l _ _; exact ⟨l, rfl, List.Sublist.refl l, by simp⟩
  | cons i is ih =>
    intro l hp hlt
    have hi : i < l.length := hlt i (by simp)
    have hp' := List.pairwise_cons.mp hp
    have hlen : (l.eraseIdx i).length = l.length - 1 := List.length_eraseIdx_of_lt hi
    have hlt' : ∀ j ∈ is, j < (l.eraseIdx i).length := by
      intro j hj
      have := hp'.1 j hj
      omega
    obtain ⟨r, hr, hsub, hperm⟩ := ih (l.eraseIdx i) hp'.2 hlt'
    refine ⟨r, by simp [eraseIdxsDesc, hi, hr], hsub.trans (List.eraseIdx_sublist l i), ?_⟩
    have hfm : is.filterMap ((l.eraseIdx i)[·]?) = is.filterMap (l[·]?) := by
      apply filterMap_congr'
      intro j hj
      exact List.getElem?_eraseIdx_of_lt (hp'.1 j hj)
    rw [hfm] at hperm
    have hl : l = l.take i ++ l[i] :: l.drop (i + 1) := by
      rw [← List.drop_eq_getElem_cons hi, List.take_append_drop]
    have he : l.eraseIdx i = l.take i ++ l.drop (i + 1) := List.eraseIdx_eq_take_drop_succ l i
    have h1 : l.Perm (l[i] :: l.eraseIdx i) := by
      rw [he]
      conv => lhs; rw [hl]
      exact List.perm_middle
    have h2 : (i :: is).filterMap (l[·]?) = l[i] :: is.filterMap (l[·]?) := by
      simp [List.filterMap_cons, List.getElem?_eq_getElem hi]
    rw [h2]
    exact h1.trans (List.Perm.cons _ hperm)

theorem idxOf_cons_ne {a t : Trade} {l : List Trade} (h : a ≠ t) : (a :: l).idxOf t = l.idxOf t + 1 := by
  rw [List.idxOf_cons]
  have : (a == t) = false := by simpa using h
  simp [this]

/-- positions of a sub-sequence of a duplicate-free pool are strictly increasing -/
theorem idxOf_sublist_increasing : ∀ {m pool : List Trade}, m.Sublist pool → pool.Nodup →
    (m.map (fun t => pool.idxOf t)).Pairwise (· < ·) := by
  intro m pool hs
  induction hs with
  | slnil => intro _; simp
  | cons a hs ih =>
    rename_i m l
    intro hn
    have hn' := List.nodup_cons.mp hn
    have := ih hn'.2
    have hmap : m.map (fun t => (a :: l).idxOf t) = (m.map (fun t => l.idxOf t)).map (· + 1) := by
      rw [List.map_map]
      apply List.map_congr_left
      intro t ht
      have : a ≠ t := by intro h; subst h; exact hn'.1 (hs.subset ht)
      simp [idxOf_cons_ne this]
    rw [hmap]
    exact List.Pairwise.map _ (fun _ _ h => by omega) this
  | cons_cons a hs ih =>
    rename_i m l
    intro hn
    have hn' := List.nodup_cons.mp hn
    have := ih hn'.2
    have hmap : m.map (fun t => (a :: l).idxOf t) = (m.map (fun t => l.idxOf t)).map (· + 1) := by
      rw [List.map_map]
      apply List.map_congr_left
      intro t ht
      have : a ≠ t := by intro h; subst h; exact hn'.1 (hs.subset ht)
      simp [idxOf_cons_ne this]
    simp only [List.map_cons, List.idxOf_cons_self, List.pairwise_cons]
    rw [hmap]
    refine ⟨?_, List.Pairwise.map _ (fun _ _ h => by omega) this⟩
    intro j hj
    simp only [List.mem_map] at hj
    obtain ⟨k, _, rfl⟩ := hj
    omega

/-- With a duplicate-free pool, "remove by position of an equal element" removes exactly the
    matched trades. -/
theorem removeMatched_spec {pool m : List Trade} (hn : pool.Nodup) (hs : m.Sublist pool) :
    ∃ r, removeMatched pool m = .ok r ∧ r.Sublist pool ∧ pool.Perm (m ++ r) := by
  have hall : (m.all fun t => pool.contains t) = true := by
    simp only [List.all_eq_true, List.contains_eq_mem, decide_eq_true_eq]
    exact fun t ht => hs.subset ht
  have hinc := idxOf_sublist_increasing hs hn
  have hle : (m.map (fun t => pool.idxOf t)).Pairwise (fun a b => decide (a ≤ b) = true) :=
    hinc.imp (fun h => by simpa using Nat.le_of_lt h)
  have hsort : sortBy (fun a b => decide (a ≤ b)) (m.map (fun t => pool.idxOf t)) = m.map (fun t => pool.idxOf t) :=
    sortBy_of_pairwise _ _ hle
  have hdesc : (m.map (fun t => pool.idxOf t)).reverse.Pairwise (· > ·) := by
    rw [List.pairwise_reverse]; exact hinc.imp (fun h => h)
  have hlt : ∀ i ∈ (m.map (fun t => pool.idxOf t)).reverse, i < pool.length := by
    intro i hi
    simp only [List.mem_reverse, List.mem_map] at hi
    obtain ⟨t, ht, rfl⟩ := hi
    exact List.idxOf_lt_length_of_mem (hs.subset ht)
  obtain ⟨r, hr, hsub, hperm⟩ := eraseIdxsDesc_spec _ pool hdesc hlt
  refine ⟨r, by unfold removeMatched; rw [if_pos hall, hsort, hr], hsub, ?_⟩
  have hfm : (m.map (fun t => pool.idxOf t)).filterMap (pool[·]?) = m := by
    rw [List.filterMap_map]
    have : ∀ t ∈ m, ((fun i => pool[i]?) ∘ fun t => pool.idxOf t) t = some t := by
      intro t ht
      have hlt := List.idxOf_lt_length_of_mem (hs.subset ht)
      simp only [Function.comp, List.getElem?_eq_getElem hlt, List.getElem_idxOf hlt]
    rw [filterMap_congr' this]
    simp
  have hrev : ((m.map (fun t => pool.idxOf t)).reverse.filterMap (pool[·]?)).Perm m := by
    have := (List.reverse_perm (m.map (fun t => pool.idxOf t))).filterMap (pool[·]?)
    rw [hfm] at this; exact this
  exact hperm.trans (List.Perm.append_right r hrev)

/-! ### the amend loop -/

/-- what `amend_benefit_sales` may change in a benefit: the sell-to-cover dates only -/
def SameBut (b b' : Benefit) : Prop :=
  b' = { b with stcTxDate := b'.stcTxDate, stcSettle := b'.stcSettle }

/-- a matched set is a real sell-to-cover of its benefit -/
structure MatchedOK (b : Benefit) (m : List Trade) (b' : Benefit) : Prop where
  sec : ∀ t ∈ m, t.sec = b.sec
  sell : ∀ t ∈ m, t.act = .sell
  window : ∀ t ∈ m, b.acqDate ≤ t.tradeDate ∧ t.tradeDate ≤ b.acqDate + Gen.stcWindowDays
  sum : b.stcShares = some (sumShares m)
  dated : ∃ t0 rest, m = t0 :: rest ∧ b'.stcTxDate = some t0.tradeDate ∧ b'.stcSettle = some t0.settle

structure Inv (benefits : List Benefit) (trades : List Trade) (k : Nat) (st : AmendState) : Prop where
  len : st.done.length = k
  nodup : st.pool.Nodup
  perm : trades.Perm ((st.matched.map (·.2)).flatten ++ st.pool)
  sub : st.pool.Sublist trades
  ok : ∀ im ∈ st.matched, ∃ b b', benefits[im.1]? = some b ∧ st.done[im.1]? = some b' ∧
        MatchedOK b im.2 b' ∧ im.2.Sublist trades
  keep : ∀ (i : Nat) (b' : Benefit), st.done[i]? = some b' → ∃ b, benefits[i]? = some b ∧ SameBut b b' ∧
        (b.stcShares = none → b' = b)
  cover : ∀ (i : Nat) (b : Benefit), i < k → benefits[i]? = some b → b.stcShares.isSome = true →
        (∃ m, (i, m) ∈ st.matched) ∨ (∃ e, (i, e) ∈ st.errors)
  mono : (st.matched.map (·.1)).Pairwise (· < ·)

theorem getElem?_append_new {α : Type} (l : List α) (x : α) : (l ++ [x])[l.length]? = some x := by
  simp

theorem getElem?_append_old {α : Type} {l : List α} {x y : α} {i : Nat} (h : l[i]? = some y) :
    (l ++ [x])[i]? = some y := by
  have hi : i < l.length := by
    rcases Nat.lt_or_ge i l.length with h' | h'
    · exact h'
    · rw [List.getElem?_eq_none h'] at h; cases h
  rw [List.getElem?_append_left hi]; exact h

theorem getElem?_append_cases {α : Type} {l : List α} {x y : α} {i : Nat} (h : (l ++ [x])[i]? = some y) :
    l[i]? = some y ∨ (i = l.length ∧ y = x) := by
  rcases Nat.lt_or_ge i l.length with h' | h'
  · rw [List.getElem?_append_left h'] at h; exact Or.inl h
  · rw [List.getElem?_append_right h'] at h
    rcases Nat.eq_or_lt_of_le h' with h'' | h''
    · subst h''; simp at h; exact Or.inr ⟨rfl, h.symm⟩
    · have : 0 < i - l.length := by omega
      have : [x][i - l.length]? = none := by
        apply List.getElem?_eq_none; simp; omega
      rw [this] at h; cases h

theorem amendStep_inv {benefits : List Benefit} {trades : List Trade} {k : Nat} {b : Benefit}
    {st st' : AmendState} (hinv : Inv benefits trades k st) (hb : benefits[k]? = some b)
    (hstep : amendStep k b st = .ok st') : Inv benefits trades (k + 1) st' := by
  unfold amendStep at hstep
  split at hstep
  · -- no sell-to-cover: benefit passes through
    rename_i hnone
    simp only [Except.ok.injEq] at hstep; subst hstep
    exact {
      len := by simp [hinv.len]
      nodup := hinv.nodup
      perm := hinv.perm
      sub := hinv.sub
      ok := by
        intro im him
        obtain ⟨b0, b0', h1, h2, h3, h4⟩ := hinv.ok im him
        exact ⟨b0, b0', h1, getElem?_append_old h2, h3, h4⟩
      keep := by
        intro i b' hi
        rcases getElem?_append_cases hi with h | ⟨h1, h2⟩
        · exact hinv.keep i b' h
        · rw [h2, h1, hinv.len]
          exact ⟨b, hb, rfl, fun _ => rfl⟩
      cover := by
        intro i b0 hi hb0 hs
        rcases Nat.lt_or_ge i k with h | h
        · exact hinv.cover i b0 h hb0 hs
        · have : i = k := by omega
          subst this; rw [hb] at hb0; cases hb0; rw [hnone] at hs; cases hs
      mono := hinv.mono }
  · rename_i sold hsold
    split at hstep
    · -- no set found: recorded as an error
      rename_i e he
      simp only [Except.ok.injEq] at hstep; subst hstep
      exact {
        len := by simp [hinv.len]
        nodup := hinv.nodup
        perm := hinv.perm
        sub := hinv.sub
        ok := by
          intro im him
          obtain ⟨b0, b0', h1, h2, h3, h4⟩ := hinv.ok im him
          exact ⟨b0, b0', h1, getElem?_append_old h2, h3, h4⟩
        keep := by
          intro i b' hi
          rcases getElem?_append_cases hi with h | ⟨h1, h2⟩
          · exact hinv.keep i b' h
          · rw [h2, h1, hinv.len]
            exact ⟨b, hb, rfl, fun _ => rfl⟩
        cover := by
          intro i b0 hi hb0 hs
          rcases Nat.lt_or_ge i k with h | h
          · rcases hinv.cover i b0 h hb0 hs with h' | ⟨e', he'⟩
            · exact Or.inl h'
            · exact Or.inr ⟨e', by simp [he']⟩
          · have : i = k := by omega
            subst this
            exact Or.inr ⟨e, by simp⟩
        mono := hinv.mono }
    · rename_i m hm
      have hmem := findSet_mem hm
      have ⟨hsubc, hne, hsec, hsum⟩ := allMatching_spec hmem
      have hsubp : m.Sublist st.pool := hsubc.trans List.filter_sublist
      have hwin : ∀ t ∈ m, inWindow b t = true := by
        intro t ht
        exact (List.mem_filter.mp (hsubc.subset ht)).2
      split at hstep
      · exact absurd rfl hne
      · rename_i t0 rest
        obtain ⟨r, hr, hrsub, hrperm⟩ := removeMatched_spec hinv.nodup hsubp
        rw [hr] at hstep
        simp only [Except.ok.injEq] at hstep; subst hstep
        have hmok : MatchedOK b (t0 :: rest) { b with stcTxDate := some t0.tradeDate, stcSettle := some t0.settle } := {
          sec := hsec
          sell := by
            intro t ht
            have := hwin t ht
            simp only [inWindow, Bool.and_eq_true, beq_iff_eq, decide_eq_true_eq] at this
            exact this.1.1
          window := by
            intro t ht
            have := hwin t ht
            simp only [inWindow, Bool.and_eq_true, beq_iff_eq, decide_eq_true_eq] at this
            exact ⟨this.1.2, this.2⟩
          sum := by rw [hsold, hsum]
          dated := ⟨t0, rest, rfl, rfl, rfl⟩ }
        exact {
          len := by simp [hinv.len]
          nodup := hrsub.nodup hinv.nodup
          perm := by
            simp only [List.map_append, List.map_cons, List.map_nil, List.flatten_append, List.flatten_cons,
              List.flatten_nil, List.append_nil, List.append_assoc]
            exact hinv.perm.trans (List.Perm.append_left _ hrperm)
          sub := hrsub.trans hinv.sub
          ok := by
            intro im him
            rcases List.mem_append.mp him with him | him
            · obtain ⟨b0, b0', h1, h2, h3, h4⟩ := hinv.ok im him
              exact ⟨b0, b0', h1, getElem?_append_old h2, h3, h4⟩
            · simp only [List.mem_singleton] at him; subst him
              refine ⟨b, _, hb, ?_, hmok, hsubp.trans hinv.sub⟩
              have := getElem?_append_new st.done { b with stcTxDate := some t0.tradeDate, stcSettle := some t0.settle }
              rw [hinv.len] at this; exact this
          keep := by
            intro i b' hi
            rcases getElem?_append_cases hi with h | ⟨h1, h2⟩
            · exact hinv.keep i b' h
            · rw [h2, h1, hinv.len]
              refine ⟨b, hb, rfl, fun hn => ?_⟩
              rw [hn] at hsold; cases hsold
          cover := by
            intro i b0 hi hb0 hs
            rcases Nat.lt_or_ge i k with h | h
            · rcases hinv.cover i b0 h hb0 hs with ⟨m', hm'⟩ | h'
              · exact Or.inl ⟨m', by simp [hm']⟩
              · exact Or.inr h'
            · have : i = k := by omega
              subst this
              exact Or.inl ⟨t0 :: rest, by simp⟩
          mono := by
            have hold : ∀ im ∈ st.matched, im.1 < k := by
              intro im him
              obtain ⟨_, b0', _, h2, _, _⟩ := hinv.ok im him
              rcases Nat.lt_or_ge im.1 st.done.length with h' | h'
              · rw [← hinv.len]; exact h'
              · rw [List.getElem?_eq_none h'] at h2; cases h2
            simp only [List.map_append, List.map_cons, List.map_nil]
            apply List.pairwise_append.mpr
            refine ⟨hinv.mono, by simp, ?_⟩
            intro a ha c hc
            simp only [List.mem_singleton] at hc; subst hc
            obtain ⟨im, him, rfl⟩ := List.mem_map.mp ha
            exact hold im him }

theorem amendLoop_inv {benefits : List Benefit} {trades : List Trade} :
    ∀ (bs : List Benefit) (k : Nat) (st st' : AmendState), benefits.drop k = bs → Inv benefits trades k st →
      amendLoop k bs st = .ok st' → Inv benefits trades benefits.length st' := by
  intro bs
  induction bs with
  | nil =>
    intro k st st' hdrop hinv hl
    simp only [amendLoop, Except.ok.injEq] at hl; subst hl
    have : benefits.length ≤ k := by
      have := congrArg List.length hdrop
      simp at this; omega
    -- `k` cannot exceed the number of benefits processed: `done` has one entry per benefit
    have hk : k ≤ benefits.length := by
      rcases Nat.lt_or_ge benefits.length k with h | h
      · exfalso
        have hlen := hinv.len
        have : st.done[k - 1]? ≠ none := by
          intro hn
          have := List.getElem?_eq_none_iff.mp hn
          omega
        cases hd : st.done[k - 1]? with
        | none => exact this hd
        | some b' =>
          obtain ⟨b, hb, _⟩ := hinv.keep (k - 1) b' hd
          have : k - 1 < benefits.length := by
            rcases Nat.lt_or_ge (k - 1) benefits.length with h' | h'
            · exact h'
            · rw [List.getElem?_eq_none h'] at hb; cases hb
          omega
      · exact h
    have : k = benefits.length := by omega
    subst this; exact hinv
  | cons b bs ih =>
    intro k st st' hdrop hinv hl
    simp only [amendLoop] at hl
    split at hl
    · cases hl
    · rename_i st1 hst1
      have hk : k < benefits.length := by
        rcases Nat.lt_or_ge k benefits.length with h | h
        · exact h
        · rw [List.drop_of_length_le h] at hdrop; cases hdrop
      have hb : benefits[k]? = some b := by
        rw [List.getElem?_eq_getElem hk]
        have := List.drop_eq_getElem_cons hk
        rw [hdrop] at this
        injection this with h1 _
        rw [h1]
      have hdrop' : benefits.drop (k + 1) = bs := by
        have := List.drop_eq_getElem_cons hk
        rw [hdrop] at this
        injection this with _ h2
        exact h2.symm
      exact ih (k + 1) st1 st' hdrop' (amendStep_inv hinv hb hst1) hl

theorem inv_init (benefits : List Benefit) (trades : List Trade) (hn : trades.Nodup) :
    Inv benefits trades 0 { done := [], pool := trades, matched := [], errors := [] } := {
  len := rfl
  nodup := hn
  perm := by simp
  sub := List.Sublist.refl _
  ok := by intro im him; cases him
  keep := by intro i b' h; simp at h
  cover := by intro i b hi; omega
  mono := by simp }

/-- everything the property needs from `amend_benefit_sales`, in one place -/
theorem amend_ok_inv {benefits bs' : List Benefit} {trades left : List Trade} {matched : List (Nat × List Trade)}
    (hn : trades.Nodup) (h : amend benefits trades = .ok bs' left matched) :
    ∃ st, Inv benefits trades benefits.length st ∧ st.done = bs' ∧ st.pool = left ∧ st.matched = matched ∧
      st.errors = [] := by
  unfold amend at h
  split at h
  · cases h
  · rename_i st hst
    split at h
    · rename_i he
      injection h with h1 h2 h3
      refine ⟨st, amendLoop_inv benefits 0 _ st (by simp) (inv_init benefits trades hn) hst, h1, h2, h3, ?_⟩
      simpa using he
    · cases h

/-! ### txs_from_data -/

def isBuySrc (r : Row) : Bool := match r.src with | .buy _ => true | _ => false
def manualOf (r : Row) : Option Trade := match r.src with | .manual t => some t | _ => none
def stcIdxOf (r : Row) : Option Nat := match r.src with | .stc i => some i | _ => none

/-- one purchase per benefit: released/purchased shares at the stated FMV on the benefit date -/
def expectedBuys : Nat → List Benefit → List Row
  | _, [] => []
  | i, b :: bs => buyRow i b :: expectedBuys (i + 1) bs

/-- indexes of the benefits that carry sold shares -/
def expectedStcIdx : Nat → List Benefit → List Nat
  | _, [] => []
  | i, b :: bs => (if b.stcShares.isSome then [i] else []) ++ expectedStcIdx (i + 1) bs

theorem stcData_some_iff {b : Benefit} {o : Option Stc} (h : stcData b = .ok o) : o.isSome = b.stcShares.isSome := by
  unfold stcData at h
  split at h
  · rename_i h1 h2 h3 h4 h5; injection h with h; subst h; simp [h4]
  · rename_i h1 h2 h3 h4 h5; injection h with h; subst h; simp [h4]
  · cases h

theorem stcData_fields {b : Benefit} {s : Stc} (h : stcData b = .ok (some s)) :
    b.stcTxDate = some s.txDate ∧ b.stcSettle = some s.settle ∧ b.stcPrice = some s.price ∧
    b.stcShares = some s.shares ∧ b.stcFee = some s.fee := by
  unfold stcData at h
  split at h
  · cases h
  · rename_i h1 h2 h3 h4 h5; injection h with h; injection h with h; subst h
    exact ⟨h1, h2, h3, h4, h5⟩
  · cases h

theorem benefitRows_spec : ∀ (bs : List Benefit) (i : Nat) (rs : List Row), benefitRows i bs = .ok rs →
    rs.filter isBuySrc = expectedBuys i bs ∧ rs.filterMap manualOf = [] ∧
    rs.filterMap stcIdxOf = expectedStcIdx i bs ∧
    (∀ r ∈ rs, (∃ j b, bs[j]? = some b ∧ r = buyRow (i + j) b) ∨
               (∃ j b s, bs[j]? = some b ∧ stcData b = .ok (some s) ∧ r = stcRow (i + j) b s)) := by
  intro bs
  induction bs with
  | nil =>
    intro i rs h
    simp only [benefitRows, Except.ok.injEq] at h; subst h
    simp [expectedBuys, expectedStcIdx]
  | cons b bs ih =>
    intro i rs h
    simp only [benefitRows] at h
    split at h
    · cases h
    · rename_i hsd
      split at h
      · cases h
      · rename_i rs' hrs'
        simp only [Except.ok.injEq] at h; subst h
        have ⟨h1, h2, h3, h4⟩ := ih (i + 1) rs' hrs'
        have hn := stcData_some_iff hsd
        simp only [Option.isSome_none] at hn
        refine ⟨?_, ?_, ?_, ?_⟩
        · simp [List.filter_cons, isBuySrc, buyRow, expectedBuys, h1]
        · simp [List.filterMap_cons, manualOf, buyRow, h2]
        · simp [List.filterMap_cons, stcIdxOf, buyRow, expectedStcIdx, h3, ← hn]
        · intro r hr
          rcases List.mem_cons.mp hr with hr | hr
          · exact Or.inl ⟨0, b, by simp, by simp [hr]⟩
          · rcases h4 r hr with ⟨j, b', hj, hr'⟩ | ⟨j, b', s, hj, hs, hr'⟩
            · exact Or.inl ⟨j + 1, b', by simpa using hj, by rw [hr']; congr 1; omega⟩
            · exact Or.inr ⟨j + 1, b', s, by simpa using hj, hs, by rw [hr']; congr 1; omega⟩
    · rename_i s hsd
      split at h
      · cases h
      · rename_i rs' hrs'
        simp only [Except.ok.injEq] at h; subst h
        have ⟨h1, h2, h3, h4⟩ := ih (i + 1) rs' hrs'
        have hn := stcData_some_iff hsd
        simp only [Option.isSome_some] at hn
        refine ⟨?_, ?_, ?_, ?_⟩
        · simp [List.filter_cons, isBuySrc, buyRow, stcRow, expectedBuys, h1]
        · simp [List.filterMap_cons, manualOf, buyRow, stcRow, h2]
        · simp [List.filterMap_cons, stcIdxOf, buyRow, stcRow, expectedStcIdx, h3, ← hn]
        · intro r hr
          rcases List.mem_cons.mp hr with hr | hr
          · exact Or.inl ⟨0, b, by simp, by simp [hr]⟩
          · rcases List.mem_cons.mp hr with hr | hr
            · exact Or.inr ⟨0, b, s, by simp, hsd, by simp [hr]⟩
            · rcases h4 r hr with ⟨j, b', hj, hr'⟩ | ⟨j, b', s', hj, hs, hr'⟩
              · exact Or.inl ⟨j + 1, b', by simpa using hj, by rw [hr']; congr 1; omega⟩
              · exact Or.inr ⟨j + 1, b', s', by simpa using hj, hs, by rw [hr']; congr 1; omega⟩

theorem manualRows_spec : ∀ (ts : List Trade) (k : Nat),
    (manualRows k ts).filter isBuySrc = [] ∧ (manualRows k ts).filterMap manualOf = ts ∧
    (manualRows k ts).filterMap stcIdxOf = [] ∧
    (∀ r ∈ manualRows k ts, ∃ t idx, t ∈ ts ∧ r = manualRow idx t) := by
  intro ts
  induction ts with
  | nil => intro k; simp [manualRows]
  | cons t ts ih =>
    intro k
    have ⟨h1, h2, h3, h4⟩ := ih (k + 1)
    refine ⟨?_, ?_, ?_, ?_⟩
    · simp [manualRows, List.filter_cons, isBuySrc, manualRow, h1]
    · simp [manualRows, List.filterMap_cons, manualOf, manualRow, h2]
    · simp [manualRows, List.filterMap_cons, stcIdxOf, manualRow, h3]
    · intro r hr
      simp only [manualRows, List.mem_cons] at hr
      rcases hr with hr | hr
      · exact ⟨t, k, by simp, hr⟩
      · obtain ⟨t', idx, ht', hr'⟩ := h4 r hr
        exact ⟨t', idx, by simp [ht'], hr'⟩

theorem rowLe_trans (a b c : Row) : rowLe a b = true → rowLe b c = true → rowLe a c = true := by
  simp only [rowLe, Bool.or_eq_true, Bool.and_eq_true, decide_eq_true_eq]
  intro h1 h2; omega

theorem rowLe_total (a b : Row) : (rowLe a b || rowLe b a) = true := by
  simp only [rowLe, Bool.or_eq_true, Bool.and_eq_true, decide_eq_true_eq]
  omega

theorem rowLe_settle {a b : Row} (h : rowLe a b = true) : a.settle ≤ b.settle := by
  simp only [rowLe, Bool.or_eq_true, Bool.and_eq_true, decide_eq_true_eq] at h
  omega

theorem expected_congr : ∀ (bs bs' : List Benefit) (i : Nat), bs.length = bs'.length →
    (∀ (j : Nat) (b' : Benefit), bs'[j]? = some b' → ∃ b, bs[j]? = some b ∧ SameBut b b') →
    expectedBuys i bs' = expectedBuys i bs ∧ expectedStcIdx i bs' = expectedStcIdx i bs := by
  intro bs
  induction bs with
  | nil =>
    intro bs' i hl _
    cases bs' with
    | nil => simp [expectedBuys, expectedStcIdx]
    | cons _ _ => simp at hl
  | cons a l1 ih =>
    intro bs' i hl h
    cases bs' with
    | nil => simp at hl
    | cons b l2 =>
      obtain ⟨a', ha', hab⟩ := h 0 b (by simp)
      simp at ha'; subst ha'
      have ⟨h1, h2⟩ := ih l2 (i + 1) (by simpa using hl) (by
        intro j b' hb'
        obtain ⟨a'', ha'', hr'⟩ := h (j + 1) b' (by simpa using hb')
        exact ⟨a'', by simpa using ha'', hr'⟩)
      unfold SameBut at hab
      have hb : buyRow i b = buyRow i a := by rw [hab]; rfl
      have hs : b.stcShares = a.stcShares := by rw [hab]
      simp [expectedBuys, expectedStcIdx, h1, h2, hb, hs]

theorem acbAccepts_iff (r : Row) : acbAccepts r = true ↔
    (r.act = .buy ∨ r.act = .sell) ∧ 0 < r.shares ∧ 0 ≤ r.price ∧ 0 ≤ r.comm := by
  simp only [acbAccepts, Bool.and_eq_true, Bool.or_eq_true, beq_iff_eq, decide_eq_true_eq]
  constructor
  · rintro ⟨⟨⟨h1, h2⟩, h3⟩, h4⟩; exact ⟨h1, h2, h3, h4⟩
  · rintro ⟨h1, h2, h3, h4⟩; exact ⟨⟨⟨h1, h2⟩, h3⟩, h4⟩

/-- a successful run, taken apart -/
theorem run_ok_decomp {benefits : List Benefit} {trades : List Trade} {rows : List Row}
    (h : run benefits trades = .ok rows) :
    ∃ bs' left matched rs, amend benefits trades = .ok bs' left matched ∧ benefitRows 0 bs' = .ok rs ∧
      rows = sortBy rowLe (rs ++ manualRows rs.length left) := by
  unfold run at h
  split at h
  · cases h
  · cases h
  · rename_i bs' left matched ha
    split at h
    · cases h
    · rename_i rows' ht
      injection h with h; subst h
      unfold txsFromData at ht
      split at ht
      · cases ht
      · rename_i un hu
        injection ht with ht
        unfold unsortedRows at hu
        split at hu
        · cases hu
        · rename_i rs hrs
          injection hu with hu
          exact ⟨bs', left, matched, rs, ha, hrs, by rw [← ht, ← hu]⟩

end Acb.Etrade
