/-
  Split neutrality (C15), part 6: the rows before the inserted split (phase 1).  Their forward
  scans see the split rows and the restated rows instead of the original rows; only the
  per-affiliate adjustment factors of the scan differ, and those are discarded afterwards.
-/
import AcbModel.Lemmas.Scale5
namespace Acb

/-- scan states equal except for the split-adjustment factors -/
structure EqModAdj (s s' : Scan) : Prop where
  allEop : s'.allEop = s.allEop
  acquired : s'.acquired = s.acquired
  buyers : s'.buyers = s.buyers
  active : s'.active = s.active

def ResEqModAdj : Except Failure Scan → Except Failure Scan → Prop
  | .error e, .error e' => e = e'
  | .ok s, .ok s' => EqModAdj s s'
  | _, _ => False

theorem ResEqModAdj.refl (r : Except Failure Scan) : ResEqModAdj r r := by
  cases r with
  | error e => simp [ResEqModAdj]
  | ok s => exact ⟨rfl, rfl, rfl, rfl⟩

/-- the run with the split, past the split rows: factors divided by `f` -/
structure FwdRel (f : Rat) (As : List Aff) (s s' : Scan) : Prop extends EqModAdj s s' where
  adj : ∀ a, a ∈ As → s'.adj a = s.adj a / f

theorem scanFwd_restated {f : Rat} (hf : 0 < f) {t : Tracker} (lastDay : Int) (As : List Aff) :
    ∀ (r : List Tx), (∀ x ∈ r, x.aff ∈ As) → ∀ (s s' : Scan), FwdRel f As s s' →
      ResEqModAdj (scanFwd t lastDay s r) (scanFwd t lastDay s' (r.map (restateTx f))) := by
  have hfne : f ≠ 0 := by grind
  intro r
  induction r with
  | nil => intro _ s s' h; simp only [scanFwd, List.map_nil, ResEqModAdj]; exact h.toEqModAdj
  | cons x rest ih =>
    intro hr s s' h
    have hxA := hr x (by simp)
    have hr' : ∀ y ∈ rest, y.aff ∈ As := fun y hy => hr y (by simp [hy])
    have hadj := h.adj x.aff hxA
    simp only [List.map_cons]
    rw [scanFwd, scanFwd]
    have e1 : (restateTx f x).settle = x.settle := rfl
    have e2 : (restateTx f x).aff = x.aff := rfl
    rw [e1, e2]
    split
    · simp only [ResEqModAdj]; exact h.toEqModAdj
    · cases hx : x.act with
      | buy sh px comm rate crate =>
        simp only [restateTx, restateAct, hx]
        apply ih hr'
        have eb : sh * f * s'.adj x.aff = sh * s.adj x.aff := by rw [hadj]; grind
        refine ⟨⟨?_, ?_, ?_, ?_⟩, ?_⟩
        · simp only [eb, h.allEop]
        · simp only [eb, h.acquired]
        · simp only [h.buyers]
        · simp only [eb, h.active]
        · intro a ha; exact h.adj a ha
      | sell sh px comm rate crate spec =>
        simp only [restateTx, restateAct, hx]
        have eb : sh * f * s'.adj x.aff = sh * s.adj x.aff := by rw [hadj]; grind
        simp only [eb, h.allEop, h.active]
        split
        · simp [ResEqModAdj]
        · split
          · simp [ResEqModAdj]
          · apply ih hr'
            exact ⟨⟨rfl, h.acquired, h.buyers, rfl⟩, fun a ha => h.adj a ha⟩
      | roc ps rate =>
        simp only [restateTx, restateAct, hx]
        exact ih hr' s s' h
      | sfla sh ps =>
        simp only [restateTx, restateAct, hx]
        exact ih hr' s s' h
      | split po pr io =>
        simp only [restateTx, restateAct, hx]
        apply ih hr'
        refine ⟨⟨h.allEop, h.acquired, h.buyers, h.active⟩, ?_⟩
        intro a ha
        unfold upd
        by_cases hax : a = x.aff
        · simp only [hax, if_true]; rw [hadj]; grind
        · simp only [hax, if_false]; exact h.adj a ha

theorem scanFwd_cons_split {t : Tracker} {lastDay : Int} {s : Scan} {x : Tx} {rest : List Tx}
    {post pre : Rat} {io : Bool} (hx : x.act = .split post pre io) (hd : ¬ x.settle > lastDay) :
    scanFwd t lastDay s (x :: rest) =
      scanFwd t lastDay { s with adj := upd s.adj x.aff (s.adj x.aff / splitFactor post pre) } rest := by
  rw [scanFwd]
  simp only [hd, if_false, hx]

theorem scanFwd_splitRows {t : Tracker} (lastDay day : Int) (hd : ¬ day > lastDay) (idx : Nat) (post pre : Rat) :
    ∀ (L : List Aff), L.Nodup → ∀ (rest : List Tx) (s : Scan),
      ∃ s1, scanFwd t lastDay s (splitRows day idx post pre L ++ rest) = scanFwd t lastDay s1 rest ∧
        EqModAdj s s1 ∧
        (∀ a, a ∈ L → s1.adj a = s.adj a / splitFactor post pre) ∧ (∀ a, a ∉ L → s1.adj a = s.adj a) := by
  intro L
  induction L with
  | nil => intro _ rest s; exact ⟨s, by simp [splitRows], ⟨rfl, rfl, rfl, rfl⟩, by simp, by simp⟩
  | cons a L ih =>
    intro hnd rest s
    have haL : a ∉ L := (List.nodup_cons.mp hnd).1
    rw [splitRows_cons, List.cons_append,
      scanFwd_cons_split (x := splitRow day idx post pre a) (post := post) (pre := pre) (io := false) rfl hd]
    obtain ⟨s1, h1, h2, h3, h4⟩ := ih (List.nodup_cons.mp hnd).2 rest
      { s with adj := upd s.adj a (s.adj a / splitFactor post pre) }
    refine ⟨s1, h1, ⟨h2.allEop, h2.acquired, h2.buyers, h2.active⟩, ?_, ?_⟩
    · intro b hb
      simp only [List.mem_cons] at hb
      by_cases hba : b = a
      · subst hba; rw [h4 b haL]; simp [upd, splitRow]
      · have hbL : b ∈ L := by rcases hb with h | h; exact absurd h hba; exact h
        rw [h3 b hbL]; simp [upd, hba, splitRow]
    · intro b hb
      simp only [List.mem_cons, not_or] at hb
      rw [h4 b hb.2]; simp [upd, hb.1, splitRow]

/-- **Forward scan of a row before the split.** -/
theorem scanFwd_mixed {t : Tracker} (lastDay day : Int) (idx : Nat) (post pre : Rat)
    (hf : 0 < splitFactor post pre) (As : List Aff) (hn : As.Nodup)
    (r : List Tx) (hr : ∀ x ∈ r, x.aff ∈ As ∧ day ≤ x.settle) :
    ∀ (qs : List Tx) (s : Scan),
      ResEqModAdj (scanFwd t lastDay s (qs ++ r))
        (scanFwd t lastDay s (qs ++ splitRows day idx post pre As ++ r.map (restateTx (splitFactor post pre)))) := by
  intro qs
  induction qs with
  | nil =>
    intro s
    simp only [List.nil_append]
    by_cases hd : day > lastDay
    · -- both scans stop at once
      have hA : scanFwd t lastDay s r = .ok s := by
        cases r with
        | nil => simp [scanFwd]
        | cons x rest =>
          have := (hr x (by simp)).2
          rw [scanFwd]; simp only [show x.settle > lastDay by omega, if_true]
      have hB : scanFwd t lastDay s (splitRows day idx post pre As ++ r.map (restateTx (splitFactor post pre))) = .ok s := by
        cases As with
        | nil =>
          cases r with
          | nil => simp [splitRows, scanFwd]
          | cons x rest => have := (hr x (by simp)).1; simp at this
        | cons a As' =>
          rw [splitRows_cons, List.cons_append, scanFwd]
          simp only [splitRow, hd, if_true]
      rw [hA, hB]; exact ResEqModAdj.refl _
    · obtain ⟨s1, h1, h2, h3, _⟩ := scanFwd_splitRows (t := t) lastDay day hd idx post pre As hn
        (r.map (restateTx (splitFactor post pre))) s
      rw [h1]
      exact scanFwd_restated hf lastDay As r (fun x hx => (hr x hx).1) s s1 ⟨h2, h3⟩
  | cons x qs ih =>
    intro s
    simp only [List.cons_append]
    rw [scanFwd, scanFwd]
    split
    · exact ResEqModAdj.refl _
    · split
      · exact ih _
      · simp only
        split
        · simp [ResEqModAdj]
        · split
          · simp [ResEqModAdj]
          · exact ih _
      · exact ih _
      · exact ih _

end Acb
