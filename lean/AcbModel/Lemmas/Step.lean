/-
  One-row lemmas: what `deltaForTx` does to the status of the row's affiliate.
-/
import AcbModel.Ledger.Delta
import AcbModel.Ledger.Spec
import AcbModel.Ledger.Valid
namespace Acb
open Spec

def bookOf (s : Status) : Book := { shares := s.shares, acb := s.acb }

def sflLoss (o : Option SflInfo) : Rat := match o with | some i => i.loss | none => 0

theorem deltaForTx_shape {t : Tracker} {tx : Tx} {past future : List Tx} {d : Delta} {inj : List Tx}
    (h : deltaForTx t tx past future = .ok (d, inj)) :
    d.tx = tx ∧ d.pre = t.nextPre tx.aff ∧
    sanityCheck (t.nextPre tx.aff) tx.aff = .ok () ∧
    ∃ o, arm t tx (t.nextPre tx.aff) past future = .ok o ∧
      d.post = o.post ∧ d.gain = o.gain ∧ d.sfl = o.sfl ∧ inj = o.inj := by
  unfold deltaForTx at h
  simp only at h
  split at h
  · cases h
  · rename_i hs
    split at h
    · cases h
    · rename_i o ho
      simp only [Except.ok.injEq, Prod.mk.injEq] at h
      obtain ⟨h1, h2⟩ := h
      subst h1
      exact ⟨rfl, rfl, hs, o, ho, rfl, rfl, rfl, h2.symm⟩

/-- The Buy arm follows the average-cost rule. -/
theorem armBuy_spec (pre : Status) (sh px comm rate : Rat) (crate : Option Rat) :
    bookOf (armBuy pre sh px comm rate crate).post = stepBook (bookOf pre) (.buy sh px comm rate crate) ∧
    (armBuy pre sh px comm rate crate).gain = none := by
  unfold armBuy bookOf stepBook
  cases h : pre.acb <;> simp

theorem perShareAcb_some {s : Status} {aps : Rat} (h : perShareAcb s = some aps) :
    ∃ a, s.acb = some a ∧ aps = (if 0 < s.shares then a / s.shares else 0) := by
  unfold perShareAcb at h
  split at h
  · cases h
  · rename_i a ha; exact ⟨a, ha, by simpa using h.symm⟩

theorem perShareAcb_none {s : Status} (h : perShareAcb s = none) : s.acb = none := by
  unfold perShareAcb at h
  split at h
  · assumption
  · cases h

/-- The Sell arm follows the average-cost rule: cost removed in proportion to the shares sold,
    gain = proceeds − commission − cost removed − denied (superficial) loss. -/
theorem armSell_spec {t : Tracker} {tx : Tx} {pre : Status} {sh px comm rate : Rat} {crate : Option Rat}
    {spec : Option (Rat × Bool)} {past future : List Tx} {o : ArmOut} (hsh : 0 < sh)
    (h : armSell t tx pre sh px comm rate crate spec past future = .ok o) :
    bookOf o.post = stepBook (bookOf pre) (.sell sh px comm rate crate spec) ∧
    o.gain = (gain0 (bookOf pre) (.sell sh px comm rate crate spec)).map (fun g => g - sflLoss o.sfl) := by
  unfold armSell at h
  split at h
  · cases h
  · rename_i h1
    split at h
    · cases h
    · rename_i h2
      simp only at h
      have hS : 0 < pre.shares := by grind
      have hS' : pre.shares ≠ 0 := by grind
      split at h
      · rename_i hp
        have := perShareAcb_none hp
        split at h
        · cases h
        · simp only [Except.ok.injEq] at h
          subst h
          simp [bookOf, stepBook, gain0, this]
      · rename_i aps hp
        obtain ⟨a, ha, haps⟩ := perShareAcb_some hp
        simp only [hS, if_true] at haps
        subst haps
        have key : (pre.shares - sh) * (a / pre.shares) = a - a * sh / pre.shares := by grind
        have key2 : a / pre.shares * sh = a * sh / pre.shares := by grind
        split at h
        · split at h
          · cases h
          · simp only [Except.ok.injEq] at h; subst h
            simp [bookOf, stepBook, gain0, ha, key, key2, sflLoss] <;> grind
          · simp only [Except.ok.injEq] at h; subst h
            simp [bookOf, stepBook, gain0, ha, key, key2, sflLoss] <;> grind
        · split at h
          · cases h
          · simp only [Except.ok.injEq] at h; subst h
            simp [bookOf, stepBook, gain0, ha, key, key2, sflLoss] <;> grind

end Acb

namespace Acb
open Spec

theorem armRoc_spec {reg : Bool} {pre : Status} {ps rate : Rat} {o : ArmOut}
    (h : armRoc reg pre ps rate = .ok o) :
    bookOf o.post = stepBook (bookOf pre) (.roc ps rate) ∧ o.gain = none ∧ o.sfl = none := by
  unfold armRoc at h
  split at h
  · rename_i old ho
    split at h
    · cases h
    · simp only at h
      split at h
      · cases h
      · simp only [Except.ok.injEq] at h; subst h
        simp [bookOf, stepBook, ho]
  · split at h <;> cases h

theorem armSfla_spec {reg : Bool} {pre : Status} {sh ps : Rat} {o : ArmOut}
    (h : armSfla reg pre sh ps = .ok o) :
    bookOf o.post = stepBook (bookOf pre) (.sfla sh ps) ∧ o.gain = none ∧ o.sfl = none := by
  unfold armSfla at h
  split at h
  · rename_i old ho
    split at h
    · cases h
    · simp only [Except.ok.injEq] at h; subst h
      simp [bookOf, stepBook, ho]
  · split at h <;> cases h

theorem armSplit_spec {pre : Status} {post pre' : Rat} {io : Bool} {o : ArmOut}
    (h : armSplit pre post pre' io = .ok o) :
    bookOf o.post = stepBook (bookOf pre) (.split post pre' io) ∧ o.gain = none ∧ o.sfl = none := by
  unfold armSplit at h
  simp only at h
  split at h
  · cases h
  · split at h
    · cases h
    · simp only [Except.ok.injEq] at h; subst h
      simp [bookOf, stepBook, splitFactor]

/-- Every arm of `delta_for_tx` follows the average-cost rules of `Spec`. -/
theorem arm_spec {t : Tracker} {tx : Tx} {pre : Status} {past future : List Tx} {o : ArmOut}
    (hv : tx.Valid) (h : arm t tx pre past future = .ok o) :
    bookOf o.post = stepBook (bookOf pre) tx.act ∧
    o.gain = (gain0 (bookOf pre) tx.act).map (fun g => g - sflLoss o.sfl) := by
  unfold arm at h
  unfold Tx.Valid at hv
  split at h
  · rename_i sh px comm rate crate hact
    simp only [Except.ok.injEq] at h; subst h
    rw [hact]
    have := armBuy_spec pre sh px comm rate crate
    simp [this.1, this.2, gain0]
  · rename_i sh px comm rate crate spec hact
    rw [hact] at hv ⊢
    exact armSell_spec hv.1 h
  · rename_i ps rate hact
    rw [hact]
    have := armRoc_spec h
    simp [this.1, this.2.1, gain0]
  · rename_i sh ps hact
    rw [hact]
    have := armSfla_spec h
    simp [this.1, this.2.1, gain0]
  · rename_i post pre' io hact
    rw [hact]
    have := armSplit_spec h
    simp [this.1, this.2.1, gain0]

end Acb
