/-
  Lemmas for C16: the accumulator of the loop is a pure prefix, and a processed row that settles
  more than 30 days before every later row never influences a window scan.
-/
import AcbModel.Ledger.Delta
namespace Acb

def prependAcc (acc : List Delta) :
    (Tracker × List Tx × List Delta) ⊕ (List Delta × Failure) → (Tracker × List Tx × List Delta) ⊕ (List Delta × Failure)
  | .inl (t', past', out) => .inl (t', past', acc ++ out)
  | .inr (out, f) => .inr (acc ++ out, f)

theorem runInjected_acc :
    ∀ (inj : List Tx) (t : Tracker) (past : List Tx) (acc : List Delta) (future : List Tx),
    runInjected t past acc inj future = prependAcc acc (runInjected t past [] inj future) := by
  intro inj
  induction inj with
  | nil => intro t past acc future; simp [runInjected, prependAcc]
  | cons x xs ih =>
    intro t past acc future
    unfold runInjected
    cases hs : stepRow t x past (xs ++ future) with
    | error f => simp [prependAcc]
    | ok res =>
      obtain ⟨d, t', inj'⟩ := res
      simp only
      rw [ih t' (x :: past) (acc ++ [d]) future, ih t' (x :: past) ([] ++ [d]) future]
      cases runInjected t' (x :: past) [] xs future with
      | inl r => obtain ⟨a, b, c⟩ := r; simp [prependAcc]
      | inr r => obtain ⟨a, b⟩ := r; simp [prependAcc]

theorem deltaLoop_acc :
    ∀ (future : List Tx) (t : Tracker) (past : List Tx) (acc : List Delta),
    deltaLoop t past acc future =
      (acc ++ (deltaLoop t past [] future).1, (deltaLoop t past [] future).2) := by
  intro future
  induction future with
  | nil => intro t past acc; simp [deltaLoop]
  | cons tx rest ih =>
    intro t past acc
    unfold deltaLoop
    cases hs : stepRow t tx past rest with
    | error f => simp
    | ok res =>
      obtain ⟨d, t', inj⟩ := res
      simp only
      rw [runInjected_acc inj t' (tx :: past) (acc ++ [d]) rest,
          runInjected_acc inj t' (tx :: past) ([] ++ [d]) rest]
      cases runInjected t' (tx :: past) [] inj rest with
      | inl r =>
        obtain ⟨t'', past', out⟩ := r
        simp only [prependAcc]
        rw [ih t'' past' (acc ++ [d] ++ out), ih t'' past' ([] ++ [d] ++ out)]
        simp
      | inr r =>
        obtain ⟨out, f⟩ := r
        simp [prependAcc]

end Acb

namespace Acb

theorem scanBwd_append_old {t : Tracker} (firstDay : Int) (b : Tx) (hb : b.settle < firstDay) :
    ∀ (p : List Tx) (s : Scan), scanBwd t firstDay s (p ++ [b]) = scanBwd t firstDay s p := by
  intro p
  induction p with
  | nil => intro s; simp [scanBwd, hb]
  | cons x rest ih =>
    intro s
    simp only [List.cons_append]
    unfold scanBwd
    split
    · rfl
    · simp only
      split <;> exact ih _

theorem sflInfo_append_old {t : Tracker} {seller : Aff} {settle : Int} {sold : Rat} {past future : List Tx}
    (b : Tx) (hb : b.settle < settle - Gen.sflWindowBeforeDays) :
    sflInfo t seller settle sold (past ++ [b]) future = sflInfo t seller settle sold past future := by
  unfold sflInfo
  simp only [scanBwd_append_old _ b hb]

/-- a row `b` is "far before" `x` when `x` is a sale whose window cannot reach back to `b` -/
def FarBefore (b x : Tx) : Prop :=
  ∀ sh px comm rate crate spec, x.act = .sell sh px comm rate crate spec →
    b.settle < x.settle - Gen.sflWindowBeforeDays

theorem stepRow_append_old {t : Tracker} {tx : Tx} {past future : List Tx} (b : Tx) (hb : FarBefore b tx) :
    stepRow t tx (past ++ [b]) future = stepRow t tx past future := by
  unfold stepRow deltaForTx arm
  cases hact : tx.act with
  | sell sh px comm rate crate spec =>
    have := hb sh px comm rate crate spec hact
    simp only [armSell, deltaSflInfo, sflRatio, sflInfo_append_old b this]
  | buy sh px comm rate crate => rfl
  | roc ps rate => rfl
  | sfla sh ps => rfl
  | split post pre io => rfl

theorem FarBefore_of_sfla {b x : Tx} (h : ∃ sh ps, x.act = .sfla sh ps) : FarBefore b x := by
  obtain ⟨sh, ps, hx⟩ := h
  intro a1 a2 a3 a4 a5 a6 hact
  rw [hx] at hact; cases hact

theorem runInjected_append_old (b : Tx) :
    ∀ (inj : List Tx) (t : Tracker) (past : List Tx) (acc : List Delta) (future : List Tx),
    (∀ x ∈ inj, FarBefore b x) →
    runInjected t (past ++ [b]) acc inj future =
      match runInjected t past acc inj future with
      | .inl (t', past', out) => .inl (t', past' ++ [b], out)
      | .inr r => .inr r := by
  intro inj
  induction inj with
  | nil => intro t past acc future _; simp [runInjected]
  | cons x xs ih =>
    intro t past acc future h
    unfold runInjected
    rw [stepRow_append_old b (h x (by simp))]
    cases hs : stepRow t x past (xs ++ future) with
    | error f => simp
    | ok res =>
      obtain ⟨d, t', inj'⟩ := res
      simp only
      have := ih t' (x :: past) (acc ++ [d]) future (fun y hy => h y (by simp [hy]))
      simp only [List.cons_append] at this ⊢
      exact this

end Acb
