/-
  What `parseRow` (the cell-reading part of the row closure of `sheet_to_txs`) returns, by kind of
  row (C18: fields of trade rows, ignored activities, no silent loss).
-/
import AcbModel.Lemmas.QtConvert
namespace Acb.Qt

theorem ofOpt_ok {α : Type} {e : ErrKind} {x : Option α} {a : α} (h : ofOpt e x = .ok a) : x = some a := by
  cases x with
  | none => simp [ofOpt] at h
  | some b => simp only [ofOpt, Except.ok.injEq] at h; rw [h]

theorem Except.map_eq_ok' {ε α β : Type} {x : Except ε α} {f : α → β} {b : β} :
    x.map f = .ok b ↔ ∃ a, x = .ok a ∧ f a = b := by
  cases x with
  | error e => simp [Except.map]
  | ok a => simp [Except.map]

/-- The fields of a trade row: every one is the cell under its named header, with the
    quantity and the commission in absolute value. -/
structure TradeFields (rd : Reader) (n : Nat) (t : BTx) : Prop where
  action : ∃ a note, rd.getStr "Action" = .ok a ∧ tradeSide (upper a) = some (t.side, note)
  tradeDate : rd.getStr "Transaction Date" = .ok t.tradeStr ∧ parseDate t.tradeStr = some t.tradeDate
  settleDate : rd.getStr "Settlement Date" = .ok t.settleStr ∧ parseDate t.settleStr = some t.settleDate
  account : rd.getStr "Account Type" = .ok t.account.typ ∧ rd.getStr "Account #" = .ok t.account.num
  affiliate : t.registered = isRegistered t.account.typ
  symbol : ∃ sym, rd.getStr "Symbol" = .ok sym ∧ sym ≠ "" ∧
    t.security = (match aliasOf sym with | some (al, _) => al | none => sym)
  quantity : ∃ q, rd.getDec "Quantity" = .ok q ∧ t.shares = rabs q
  price : rd.getDec "Price" = .ok t.price
  commission : ∃ c, rd.getDec "Commission" = .ok c ∧ t.commission = rabs c
  currency : ∃ cur, rd.getStr "Currency" = .ok cur ∧ t.currency = currencyOf cur
  row : t.row = n
  noRate : t.rate = none
  noTiebreak : t.tiebreak = none

theorem parseRow_trade {rd : Reader} {n : Nat} {t : BTx} (h : parseRow rd n = .ok (.trade t)) :
    TradeFields rd n t := by
  unfold parseRow at h
  obtain ⟨a, hA, h⟩ := Except.bind_eq_ok'.mp h
  simp only at h
  split at h
  · cases h
  · split at h
    · obtain ⟨tds, hTds, h⟩ := Except.bind_eq_ok'.mp h
      obtain ⟨td, hTd, h⟩ := Except.bind_eq_ok'.mp h
      obtain ⟨sds, hSds, h⟩ := Except.bind_eq_ok'.mp h
      obtain ⟨sd, hSd, h⟩ := Except.bind_eq_ok'.mp h
      obtain ⟨typ, hTyp, h⟩ := Except.bind_eq_ok'.mp h
      obtain ⟨num, hNum, h⟩ := Except.bind_eq_ok'.mp h
      split at h
      · obtain ⟨cur, _, h⟩ := Except.bind_eq_ok'.mp h
        obtain ⟨amt, _, h⟩ := Except.bind_eq_ok'.mp h
        cases h
      · obtain ⟨sym, hSym, h⟩ := Except.bind_eq_ok'.mp h
        split at h
        · cases h
        · rename_i hsymne
          split at h
          · obtain ⟨cur, _, h⟩ := Except.bind_eq_ok'.mp h
            split at h
            · obtain ⟨amt, _, h⟩ := Except.bind_eq_ok'.mp h
              obtain ⟨f, _, h⟩ := Except.map_eq_ok'.mp h
              cases h
            · cases h
          · split at h
            · cases h
            · rename_i side note hside
              obtain ⟨price, hPrice, h⟩ := Except.bind_eq_ok'.mp h
              obtain ⟨qty, hQty, h⟩ := Except.bind_eq_ok'.mp h
              obtain ⟨comm, hComm, h⟩ := Except.bind_eq_ok'.mp h
              obtain ⟨cur, hCur, h⟩ := Except.bind_eq_ok'.mp h
              simp only [Except.ok.injEq, RowAct.trade.injEq] at h
              subst h
              exact {
                action := ⟨a, note, hA, hside⟩
                tradeDate := ⟨hTds, ofOpt_ok hTd⟩
                settleDate := ⟨hSds, ofOpt_ok hSd⟩
                account := ⟨hTyp, hNum⟩
                affiliate := rfl
                symbol := ⟨sym, hSym, hsymne, rfl⟩
                quantity := ⟨qty, hQty, rfl⟩
                price := hPrice
                commission := ⟨comm, hComm, rfl⟩
                currency := ⟨cur, hCur, rfl⟩
                row := rfl
                noRate := rfl
                noTiebreak := rfl }
    · cases h

/-- A dividend row that yields an FX row: USD, and the row carries the net amount. -/
theorem parseRow_income {rd : Reader} {n : Nat} {t : BTx} (h : parseRow rd n = .ok (.income t)) :
    ∃ a cur amt typ num, rd.getStr "Action" = .ok a ∧ upper a = "DIV" ∧
      rd.getStr "Currency" = .ok cur ∧ upper cur = "USD" ∧
      rd.getDec "Net Amount" = .ok amt ∧ signedShares t = amt ∧ t.shares = rabs amt ∧
      rd.getStr "Account Type" = .ok typ ∧ rd.getStr "Account #" = .ok num ∧
      t.account = { typ := typ, num := num } ∧ t.rate = none ∧ t.row = n := by
  unfold parseRow at h
  obtain ⟨a, hA, h⟩ := Except.bind_eq_ok'.mp h
  simp only at h
  split at h
  · cases h
  · split at h
    · obtain ⟨tds, hTds, h⟩ := Except.bind_eq_ok'.mp h
      obtain ⟨td, hTd, h⟩ := Except.bind_eq_ok'.mp h
      obtain ⟨sds, hSds, h⟩ := Except.bind_eq_ok'.mp h
      obtain ⟨sd, hSd, h⟩ := Except.bind_eq_ok'.mp h
      obtain ⟨typ, hTyp, h⟩ := Except.bind_eq_ok'.mp h
      obtain ⟨num, hNum, h⟩ := Except.bind_eq_ok'.mp h
      split at h
      · obtain ⟨cur, _, h⟩ := Except.bind_eq_ok'.mp h
        obtain ⟨amt, _, h⟩ := Except.bind_eq_ok'.mp h
        cases h
      · obtain ⟨sym, hSym, h⟩ := Except.bind_eq_ok'.mp h
        split at h
        · cases h
        · split at h
          · rename_i hdiv
            obtain ⟨cur, hCur, h⟩ := Except.bind_eq_ok'.mp h
            split at h
            · rename_i husd
              obtain ⟨amt, hAmt, h⟩ := Except.bind_eq_ok'.mp h
              obtain ⟨f, hf, h⟩ := Except.map_eq_ok'.mp h
              simp only [RowAct.income.injEq] at h
              subst h
              obtain ⟨_, _, _, _, _, hsh, hss, hacc, hrate, _, hrow, _⟩ := fxTx_ok hf
              exact ⟨a, cur, amt, typ, num, hA, hdiv, hCur, husd, hAmt, hss, hsh, hTyp, hNum, hacc, hrate, hrow⟩
            · cases h
          · split at h
            · cases h
            · obtain ⟨price, _, h⟩ := Except.bind_eq_ok'.mp h
              obtain ⟨qty, _, h⟩ := Except.bind_eq_ok'.mp h
              obtain ⟨comm, _, h⟩ := Except.bind_eq_ok'.mp h
              obtain ⟨cur, _, h⟩ := Except.bind_eq_ok'.mp h
              cases h
    · cases h

/-- A row is passed over in silence only if it is a documented non-trade activity or a dividend
    that is not in USD. -/
theorem parseRow_skip {rd : Reader} {n : Nat} (h : parseRow rd n = .ok .skip) :
    ∃ a, rd.getStr "Action" = .ok a ∧
      (Gen.qtIgnoredActions.contains (upper a) = true ∨
       (upper a = "DIV" ∧ ∃ cur, rd.getStr "Currency" = .ok cur ∧ upper cur ≠ "USD")) := by
  unfold parseRow at h
  obtain ⟨a, hA, h⟩ := Except.bind_eq_ok'.mp h
  refine ⟨a, hA, ?_⟩
  simp only at h
  split at h
  · rename_i hign
    exact Or.inl hign
  · split at h
    · obtain ⟨tds, hTds, h⟩ := Except.bind_eq_ok'.mp h
      obtain ⟨td, hTd, h⟩ := Except.bind_eq_ok'.mp h
      obtain ⟨sds, hSds, h⟩ := Except.bind_eq_ok'.mp h
      obtain ⟨sd, hSd, h⟩ := Except.bind_eq_ok'.mp h
      obtain ⟨typ, hTyp, h⟩ := Except.bind_eq_ok'.mp h
      obtain ⟨num, hNum, h⟩ := Except.bind_eq_ok'.mp h
      split at h
      · obtain ⟨cur, _, h⟩ := Except.bind_eq_ok'.mp h
        obtain ⟨amt, _, h⟩ := Except.bind_eq_ok'.mp h
        cases h
      · obtain ⟨sym, hSym, h⟩ := Except.bind_eq_ok'.mp h
        split at h
        · cases h
        · split at h
          · rename_i hdiv
            obtain ⟨cur, hCur, h⟩ := Except.bind_eq_ok'.mp h
            split at h
            · obtain ⟨amt, hAmt, h⟩ := Except.bind_eq_ok'.mp h
              obtain ⟨f, hf, h⟩ := Except.map_eq_ok'.mp h
              cases h
            · rename_i husd
              exact Or.inr ⟨hdiv, cur, hCur, husd⟩
          · split at h
            · cases h
            · obtain ⟨price, _, h⟩ := Except.bind_eq_ok'.mp h
              obtain ⟨qty, _, h⟩ := Except.bind_eq_ok'.mp h
              obtain ⟨comm, _, h⟩ := Except.bind_eq_ok'.mp h
              obtain ⟨cur, _, h⟩ := Except.bind_eq_ok'.mp h
              cases h
    · cases h

/-- An FXT row: its leg is the currency and the net amount under those headers. -/
theorem parseRow_fxt {rd : Reader} {n : Nat} {r : FxtRow} (h : parseRow rd n = .ok (.fxt r)) :
    ∃ a cur typ num tds, rd.getStr "Action" = .ok a ∧ upper a = "FXT" ∧
      rd.getStr "Currency" = .ok cur ∧ r.currency = currencyOf cur ∧
      rd.getDec "Net Amount" = .ok r.amount ∧
      rd.getStr "Account Type" = .ok typ ∧ rd.getStr "Account #" = .ok num ∧
      r.account = { typ := typ, num := num } ∧ r.registered = isRegistered typ ∧
      rd.getStr "Transaction Date" = .ok tds ∧ parseDate tds = some r.tradeDate ∧ r.row = n := by
  unfold parseRow at h
  obtain ⟨a, hA, h⟩ := Except.bind_eq_ok'.mp h
  simp only at h
  split at h
  · cases h
  · split at h
    · obtain ⟨tds, hTds, h⟩ := Except.bind_eq_ok'.mp h
      obtain ⟨td, hTd, h⟩ := Except.bind_eq_ok'.mp h
      obtain ⟨sds, hSds, h⟩ := Except.bind_eq_ok'.mp h
      obtain ⟨sd, hSd, h⟩ := Except.bind_eq_ok'.mp h
      obtain ⟨typ, hTyp, h⟩ := Except.bind_eq_ok'.mp h
      obtain ⟨num, hNum, h⟩ := Except.bind_eq_ok'.mp h
      split at h
      · rename_i hfxt
        obtain ⟨cur, hCur, h⟩ := Except.bind_eq_ok'.mp h
        obtain ⟨amt, hAmt, h⟩ := Except.bind_eq_ok'.mp h
        simp only [Except.ok.injEq, RowAct.fxt.injEq] at h
        subst h
        exact ⟨a, cur, typ, num, tds, hA, hfxt, hCur, rfl, hAmt, hTyp, hNum, rfl, rfl, hTds, ofOpt_ok hTd, rfl⟩
      · obtain ⟨sym, hSym, h⟩ := Except.bind_eq_ok'.mp h
        split at h
        · cases h
        · split at h
          · obtain ⟨cur, _, h⟩ := Except.bind_eq_ok'.mp h
            split at h
            · obtain ⟨amt, _, h⟩ := Except.bind_eq_ok'.mp h
              obtain ⟨f, _, h⟩ := Except.map_eq_ok'.mp h
              cases h
            · cases h
          · split at h
            · cases h
            · obtain ⟨price, _, h⟩ := Except.bind_eq_ok'.mp h
              obtain ⟨qty, _, h⟩ := Except.bind_eq_ok'.mp h
              obtain ⟨comm, _, h⟩ := Except.bind_eq_ok'.mp h
              obtain ⟨cur, _, h⟩ := Except.bind_eq_ok'.mp h
              cases h
    · cases h

theorem tradeSide_cases {x : String} {y : Side × String} (h : tradeSide x = some y) :
    x = "BUY" ∨ x = "SELL" ∨ x = "DIS" ∨ x = "LIQ" := by
  unfold tradeSide at h
  split at h
  · exact Or.inl ‹_›
  · split at h
    · exact Or.inr (Or.inl ‹_›)
    · split at h
      · exact Or.inr (Or.inr (Or.inl ‹_›))
      · split at h
        · exact Or.inr (Or.inr (Or.inr ‹_›))
        · cases h

/-- A BUY/SELL/DIS/LIQ row is never lost in silence: it yields its trade row or a row error. -/
theorem parseRow_trade_action {rd : Reader} {n : Nat} {a : String}
    (hA : rd.getStr "Action" = .ok a) (hT : (tradeSide (upper a)).isSome = true) :
    (∃ t, parseRow rd n = .ok (.trade t)) ∨ (∃ e, parseRow rd n = .error e) := by
  obtain ⟨y, hy⟩ := Option.isSome_iff_exists.mp hT
  have hcases := tradeSide_cases hy
  have hnotign : Gen.qtIgnoredActions.contains (upper a) = false := by
    rcases hcases with h | h | h | h <;> rw [h] <;> decide
  have hnotdiv : upper a ≠ "DIV" := by
    rcases hcases with h | h | h | h <;> rw [h] <;> decide
  have hnotfxt : upper a ≠ "FXT" := by
    rcases hcases with h | h | h | h <;> rw [h] <;> decide
  cases hp : parseRow rd n with
  | error e => exact Or.inr ⟨e, rfl⟩
  | ok act =>
    cases act with
    | trade t => exact Or.inl ⟨t, rfl⟩
    | skip =>
      obtain ⟨a', hA', h⟩ := parseRow_skip hp
      rw [hA] at hA'; simp only [Except.ok.injEq] at hA'; subst hA'
      rcases h with h | ⟨h, _⟩
      · rw [hnotign] at h; cases h
      · exact absurd h hnotdiv
    | income t =>
      obtain ⟨a', _, _, _, _, hA', h, _⟩ := parseRow_income hp
      rw [hA] at hA'; simp only [Except.ok.injEq] at hA'; subst hA'
      exact absurd h hnotdiv
    | fxt r =>
      obtain ⟨a', _, _, _, _, hA', h, _⟩ := parseRow_fxt hp
      rw [hA] at hA'; simp only [Except.ok.injEq] at hA'; subst hA'
      exact absurd h hnotfxt

/-- A documented non-trade activity produces nothing and no error, whatever its other cells hold. -/
theorem parseRow_ignored {rd : Reader} {n : Nat} {a : String}
    (hA : rd.getStr "Action" = .ok a) (hI : Gen.qtIgnoredActions.contains (upper a) = true) :
    parseRow rd n = .ok .skip := by
  unfold parseRow
  rw [hA]
  simp only [Except.bind]
  rw [if_pos hI]

end Acb.Qt
