/-
  Affiliate spellings (C11): the display name produced by `AffiliateData::from_strep` is a fixed
  point — reading it back gives the same id, name and registered flag — and it is trimmed and
  not blank.
-/
import AcbModel.App.CsvCodec
import AcbModel.Lemmas.CsvText
namespace Acb.Csv

/-! ### prefixes, suffixes, trimming -/

theorem head_dropWhile_not (p : Char → Bool) (l : Str) : ∀ x, (l.dropWhile p).head? = some x → p x = false := by
  intro x hx
  have := List.head?_dropWhile_not p l
  rw [hx] at this
  exact this

theorem trimEnd_prefix (s : Str) : ∃ rest, s = trimEnd s ++ rest := by
  refine ⟨(s.reverse.takeWhile isWs).reverse, ?_⟩
  unfold trimEnd
  rw [← List.reverse_append, List.takeWhile_append_dropWhile, List.reverse_reverse]

theorem trimStart_suffix (s : Str) : ∃ pre, s = pre ++ trimStart s :=
  ⟨s.takeWhile isWs, List.takeWhile_append_dropWhile.symm⟩

theorem trim_infix (s : Str) : ∃ a b, s = a ++ trim s ++ b := by
  obtain ⟨pre, h1⟩ := trimStart_suffix s
  obtain ⟨rest, h2⟩ := trimEnd_prefix (trimStart s)
  refine ⟨pre, rest, ?_⟩
  unfold trim
  rw [List.append_assoc, ← h2, ← h1]

theorem trim_head_not_ws (s : Str) : ∀ x, (trim s).head? = some x → isWs x = false := by
  intro x hx
  obtain ⟨rest, h2⟩ := trimEnd_prefix (trimStart s)
  have hne : trim s ≠ [] := by intro h; rw [h] at hx; cases hx
  unfold trim at hx hne
  have : (trimStart s).head? = some x := by
    rw [h2, List.head?_append, hx]; rfl
  exact head_dropWhile_not isWs s x this

theorem trim_last_not_ws (s : Str) : ∀ x, (trim s).getLast? = some x → isWs x = false := by
  intro x hx
  unfold trim trimEnd at hx
  rw [List.getLast?_reverse] at hx
  exact head_dropWhile_not isWs _ x hx

theorem trim_idem (s : Str) : trim (trim s) = trim s :=
  trim_eq_self _ (trim_head_not_ws s) (trim_last_not_ws s)

/-! ### `\([rR]\)` -/

/-- what `regAt` needs to see -/
theorem regAt_eq_true' {l : Str} (h : regAt l = true) :
    ∃ x r', l = '(' :: x :: ')' :: r' ∧ (x = 'r' ∨ x = 'R') := by
  unfold regAt at h
  split at h
  · rename_i c r; exact ⟨c, r, rfl, by simpa using h⟩
  · cases h

theorem regAt_mk (x : Char) (r' : Str) (hx : x = 'r' ∨ x = 'R') : regAt ('(' :: x :: ')' :: r') = true := by
  rcases hx with h | h <;> subst h <;> rfl

theorem regAt_append_of (t u : Str) (h : regAt t = true) : regAt (t ++ u) = true := by
  obtain ⟨x, r', rfl, hx⟩ := regAt_eq_true' h
  exact regAt_mk x (r' ++ u) hx

theorem hasReg_append_left (a b : Str) (h : hasReg a = true) : hasReg (a ++ b) = true := by
  induction a with
  | nil => simp [hasReg] at h
  | cons c r ih =>
    simp only [hasReg, Bool.or_eq_true] at h
    rcases h with h | h
    · have := regAt_append_of (c :: r) b h
      simp only [List.cons_append] at this ⊢
      simp [hasReg, this]
    · simp only [List.cons_append, hasReg, ih h, Bool.or_true]

theorem hasReg_append_right (a b : Str) (h : hasReg b = true) : hasReg (a ++ b) = true := by
  induction a with
  | nil => exact h
  | cons c r ih => simp only [List.cons_append, hasReg, ih, Bool.or_true]

theorem hasReg_false_of_infix (a m b : Str) (h : hasReg (a ++ m ++ b) = false) : hasReg m = false := by
  cases hm : hasReg m with
  | false => rfl
  | true =>
    have := hasReg_append_left (a ++ m) b (hasReg_append_right a m hm)
    rw [this] at h; cases h

theorem hasReg_cons_false {c : Char} {r : Str} (h : hasReg (c :: r) = false) :
    regAt (c :: r) = false ∧ hasReg r = false := by
  simpa [hasReg] using h

theorem regAt_eq_true {c : Char} {r : Str} (h : regAt (c :: r) = true) :
    c = '(' ∧ ∃ x r', r = x :: ')' :: r' ∧ (x = 'r' ∨ x = 'R') := by
  obtain ⟨x, r', hl, hx⟩ := regAt_eq_true' h
  simp only [List.cons.injEq] at hl
  exact ⟨hl.1, x, r', hl.2, hx⟩

/-- `regAt` of a three-character window: false as soon as one position is wrong. -/
theorem regAt_false_of {c : Char} {r : Str}
    (h : c ≠ '(' ∨ (∀ x r', r = x :: ')' :: r' → ¬ (x = 'r' ∨ x = 'R'))) : regAt (c :: r) = false := by
  cases hr : regAt (c :: r) with
  | false => rfl
  | true =>
    obtain ⟨h1, x, r', h2, h3⟩ := regAt_eq_true hr
    rcases h with h | h
    · exact absurd h1 h
    · exact absurd h3 (h x r' h2)

/-! ### replace_all -/

theorem head_replaceRegGo0 (l : Str) (h : (replaceRegGo 0 l).head? = some ')') : l.head? = some ')' := by
  cases l with
  | nil => simp [replaceRegGo] at h
  | cons y r =>
    simp only [replaceRegGo] at h
    split at h
    · simp at h
    · simpa using h

theorem hasReg_replaceRegGo (k : Nat) (s : Str) : hasReg (replaceRegGo k s) = false := by
  induction s generalizing k with
  | nil => cases k <;> rfl
  | cons c r ih =>
    cases k with
    | succ k => simp only [replaceRegGo]; exact ih k
    | zero =>
      simp only [replaceRegGo]
      split
      · simp only [hasReg, ih 2, Bool.or_false]
        exact regAt_false_of (Or.inl (by decide))
      · rename_i hreg
        have hreg' : regAt (c :: r) = false := by simpa using hreg
        simp only [hasReg, ih 0, Bool.or_false]
        apply regAt_false_of
        by_cases hc : c = '('
        · right
          subst hc
          intro x r' hx hxr
          -- the replaced tail starts with x, ')' : then so does r
          cases r with
          | nil => simp [replaceRegGo] at hx
          | cons y r1 =>
            simp only [replaceRegGo] at hx
            split at hx
            · simp only [List.cons.injEq] at hx
              rcases hxr with h | h <;> (rw [h] at hx; exact absurd hx.1 (by decide))
            · simp only [List.cons.injEq] at hx
              obtain ⟨hy, htail⟩ := hx
              subst hy
              have hh := head_replaceRegGo0 r1 (by rw [htail]; rfl)
              cases r1 with
              | nil => simp at hh
              | cons z r2 =>
                simp only [List.head?_cons, Option.some.injEq] at hh
                subst hh
                rw [regAt_mk y r2 hxr] at hreg'
                cases hreg'
        · exact Or.inl hc

theorem hasReg_replaceReg (s : Str) : hasReg (replaceReg s) = false := hasReg_replaceRegGo 0 s

/-- `regAt` does not see past a space that follows fewer than three characters. -/
theorem regAt_append_space (t u : Str) : regAt (t ++ ' ' :: u) = regAt t := by
  cases h : regAt t with
  | true => exact regAt_append_of t _ h
  | false =>
    cases h2 : regAt (t ++ ' ' :: u) with
    | false => rfl
    | true =>
      exfalso
      obtain ⟨x, r', hl, hx⟩ := regAt_eq_true' h2
      have hx0 : x ≠ ' ' := by rcases hx with h | h <;> (rw [h]; decide)
      match t, h, hl with
      | [], _, hl => simp at hl
      | [a], _, hl => simp at hl; exact hx0 hl.2.1.symm
      | [a, b], _, hl => simp at hl
      | a :: b :: c :: r, h, hl =>
        simp only [List.cons_append, List.cons.injEq] at hl
        obtain ⟨rfl, rfl, rfl, _⟩ := hl
        rw [regAt_mk _ r hx] at h
        cases h

theorem replaceRegGo0_append_space (P u : Str) (h : hasReg P = false) :
    replaceRegGo 0 (P ++ ' ' :: u) = P ++ replaceRegGo 0 (' ' :: u) := by
  induction P with
  | nil => rfl
  | cons c r ih =>
    obtain ⟨h1, h2⟩ := hasReg_cons_false h
    have : regAt (c :: r ++ ' ' :: u) = false := by
      have := regAt_append_space (c :: r) u
      rw [h1] at this
      simpa using this
    simp only [List.cons_append] at this ⊢
    simp only [replaceRegGo, this, Bool.false_eq_true, if_false, ih h2]

/-! ### runs of spaces -/

def noDbl : Str → Bool
  | c :: c2 :: r => !(c == ' ' && c2 == ' ') && noDbl (c2 :: r)
  | _ => true

theorem head_collapse (l : Str) : (collapseSpaces l).head? = l.head? := by
  induction l with
  | nil => rfl
  | cons c r ih =>
    simp only [collapseSpaces]
    split
    · rename_i h
      simp only [Bool.and_eq_true, beq_iff_eq] at h
      rw [ih, h.2, h.1]; rfl
    · rfl

theorem noDbl_collapse (l : Str) : noDbl (collapseSpaces l) = true := by
  induction l with
  | nil => rfl
  | cons c r ih =>
    simp only [collapseSpaces]
    split
    · exact ih
    · rename_i h
      have hh := head_collapse r
      cases hcr : collapseSpaces r with
      | nil => rfl
      | cons c2 r2 =>
        rw [hcr] at ih hh
        simp only [noDbl, ih, Bool.and_true, Bool.not_eq_true', Bool.and_eq_false_iff, beq_eq_false_iff_ne]
        by_cases hc : c = ' '
        · right
          intro hc2
          apply h
          simp only [List.head?_cons] at hh
          simp [hc, ← hh, hc2]
        · exact Or.inl hc

theorem collapse_of_noDbl (l : Str) (h : noDbl l = true) : collapseSpaces l = l := by
  induction l with
  | nil => rfl
  | cons c r ih =>
    cases r with
    | nil => simp [collapseSpaces]
    | cons c2 r2 =>
      simp only [noDbl, Bool.and_eq_true, Bool.not_eq_true'] at h
      have : (c == ' ' && ((c2 :: r2).head? == some ' ')) = false := by
        rw [Bool.and_eq_false_iff] at h ⊢
        rcases h.1 with h1 | h1
        · exact Or.inl h1
        · right; simpa using h1
      rw [collapseSpaces, this]
      simp only [Bool.false_eq_true, if_false]
      rw [ih h.2]

theorem noDbl_suffix (a b : Str) (h : noDbl (a ++ b) = true) : noDbl b = true := by
  induction a with
  | nil => exact h
  | cons c r ih =>
    apply ih
    cases hr : r ++ b with
    | nil => rfl
    | cons c2 r2 =>
      simp only [List.cons_append, hr, noDbl, Bool.and_eq_true] at h
      exact h.2

theorem noDbl_prefix (a b : Str) (h : noDbl (a ++ b) = true) : noDbl a = true := by
  induction a with
  | nil => rfl
  | cons c r ih =>
    cases r with
    | nil => rfl
    | cons c2 r2 =>
      simp only [List.cons_append, noDbl, Bool.and_eq_true] at h ⊢
      exact ⟨h.1, ih (by simpa using h.2)⟩

theorem noDbl_infix (a m b : Str) (h : noDbl (a ++ m ++ b) = true) : noDbl m = true := by
  rw [List.append_assoc] at h
  exact noDbl_prefix m b (noDbl_suffix a _ h)

/-- a collapsed string that does not end in a space, followed by two spaces -/
theorem collapse_append_two (P : Str) (hne : P ≠ []) (hnd : noDbl P = true)
    (hlast : ∀ x, P.getLast? = some x → x ≠ ' ') :
    collapseSpaces (P ++ [' ', ' ']) = P ++ [' '] := by
  induction P with
  | nil => exact absurd rfl hne
  | cons c r ih =>
    cases r with
    | nil =>
      have hc : c ≠ ' ' := hlast c rfl
      have : (c == ' ') = false := by simpa using hc
      simp [collapseSpaces, this]
    | cons c2 r2 =>
      simp only [noDbl, Bool.and_eq_true, Bool.not_eq_true'] at hnd
      have hcond : (c == ' ' && ((c2 :: r2 ++ [' ', ' ']).head? == some ' ')) = false := by
        rw [Bool.and_eq_false_iff] at hnd ⊢
        rcases hnd.1 with h1 | h1
        · exact Or.inl h1
        · right; simpa using h1
      simp only [List.cons_append] at hcond ⊢
      rw [collapseSpaces, hcond]
      simp only [Bool.false_eq_true, if_false]
      have := ih (by simp) hnd.2 (by
        intro x hx; apply hlast x
        rw [List.getLast?_cons_cons]; exact hx)
      simp only [List.cons_append] at this
      rw [this]

/-! ### `hasReg` through collapsing and trimming -/

theorem hasReg_collapse (l : Str) (h : hasReg l = false) : hasReg (collapseSpaces l) = false := by
  induction l with
  | nil => rfl
  | cons c r ih =>
    obtain ⟨h1, h2⟩ := hasReg_cons_false h
    simp only [collapseSpaces]
    split
    · exact ih h2
    · simp only [hasReg, ih h2, Bool.or_false]
      apply regAt_false_of
      by_cases hc : c = '('
      · right
        subst hc
        intro x r' hx hxr
        have hx0 : x ≠ ' ' := by rcases hxr with h | h <;> (rw [h]; decide)
        -- r starts with x (not a space), so collapsing keeps it in front
        have hh := head_collapse r
        rw [hx] at hh
        cases r with
        | nil => simp at hh
        | cons y r1 =>
          simp only [List.head?_cons, Option.some.injEq] at hh
          subst hh
          have hcy : (x == ' ') = false := by simpa using hx0
          simp only [collapseSpaces, hcy, Bool.false_and, Bool.false_eq_true, if_false, List.cons.injEq, true_and] at hx
          have hh2 := head_collapse r1
          rw [hx] at hh2
          cases r1 with
          | nil => simp at hh2
          | cons z r2 =>
            simp only [List.head?_cons, Option.some.injEq] at hh2
            subst hh2
            rw [regAt_mk x r2 hxr] at h1
            cases h1
      · exact Or.inl hc

/-! ### the display name -/

/-- the display name before the `(R)` suffix is added -/
def prettyOf (s : Str) : Str :=
  let p1 := trim (collapseSpaces (if hasReg s then replaceReg s else s))
  if p1.isEmpty then defaultName else p1

theorem fromStrep_eq (s : Str) :
    fromStrep s = if hasReg s then ⟨lower (prettyOf s) ++ regSuffix, prettyOf s ++ regSuffix, true⟩
                  else ⟨lower (prettyOf s), prettyOf s, false⟩ := rfl

structure Pretty (P : Str) : Prop where
  noReg : hasReg P = false
  ne : P ≠ []
  headOk : ∀ x, P.head? = some x → isWs x = false
  lastOk : ∀ x, P.getLast? = some x → isWs x = false
  nd : noDbl P = true

theorem pretty_default : Pretty defaultName := by
  constructor
  · decide
  · decide
  · intro x hx; have : x = 'D' := by simpa [defaultName, strOf] using hx.symm
    subst this; decide
  · intro x hx; have : x = 't' := by
      have : defaultName.getLast? = some 't' := by decide
      rw [this] at hx; exact (Option.some.inj hx).symm
    subst this; decide
  · decide

theorem pretty_prettyOf (s : Str) : Pretty (prettyOf s) := by
  unfold prettyOf
  simp only
  have h0 : hasReg (if hasReg s then replaceReg s else s) = false := by
    cases h : hasReg s with
    | true => simp only [if_true]; exact hasReg_replaceReg s
    | false => simpa using h
  generalize (if hasReg s then replaceReg s else s) = X at h0 ⊢
  by_cases hne : (trim (collapseSpaces X)).isEmpty = true
  · rw [if_pos hne]; exact pretty_default
  · rw [if_neg hne]
    have hne' : trim (collapseSpaces X) ≠ [] := by simpa using hne
    obtain ⟨a, b, hab⟩ := trim_infix (collapseSpaces X)
    constructor
    · apply hasReg_false_of_infix a _ b
      rw [← hab]
      exact hasReg_collapse _ h0
    · exact hne'
    · exact trim_head_not_ws _
    · exact trim_last_not_ws _
    · apply noDbl_infix a _ b
      rw [← hab]
      exact noDbl_collapse _

theorem Pretty.trim_eq {P : Str} (h : Pretty P) : trim P = P := trim_eq_self P h.headOk h.lastOk

theorem space_is_ws : isWs ' ' = true := by decide

/-- Reading a display name without the suffix gives the same display name. -/
theorem prettyOf_self {P : Str} (h : Pretty P) : hasReg P = false ∧ prettyOf P = P := by
  refine ⟨h.noReg, ?_⟩
  unfold prettyOf
  simp only [h.noReg, Bool.false_eq_true, if_false, collapse_of_noDbl P h.nd, h.trim_eq]
  have : P.isEmpty = false := by simpa using h.ne
  simp [this]

/-- Reading a display name with the `(R)` suffix gives the same display name, registered. -/
theorem prettyOf_suffix {P : Str} (h : Pretty P) :
    hasReg (P ++ regSuffix) = true ∧ prettyOf (P ++ regSuffix) = P := by
  have hs : hasReg (P ++ regSuffix) = true := hasReg_append_right P regSuffix (by decide)
  refine ⟨hs, ?_⟩
  unfold prettyOf
  simp only [hs, if_true]
  have hrs : regSuffix = ' ' :: ['(', 'R', ')'] := by decide
  have h1 : replaceReg (P ++ regSuffix) = P ++ [' ', ' '] := by
    unfold replaceReg
    rw [hrs, replaceRegGo0_append_space P _ h.noReg]
    rfl
  rw [h1]
  have hlast : ∀ x, P.getLast? = some x → x ≠ ' ' := by
    intro x hx hsp
    have := h.lastOk x hx
    rw [hsp, space_is_ws] at this
    cases this
  rw [collapse_append_two P h.ne h.nd hlast]
  have h2 : trim (P ++ [' ']) = P := by
    unfold trim
    have hstart : trimStart (P ++ [' ']) = P ++ [' '] := by
      unfold trimStart
      apply dropWhile_eq_self_of_head
      intro x hx
      obtain ⟨c, r, rfl⟩ := List.exists_cons_of_ne_nil h.ne
      simp at hx
      subst hx
      exact h.headOk _ rfl
    rw [hstart]
    unfold trimEnd
    simp only [List.reverse_append, List.reverse_singleton, List.singleton_append, List.dropWhile_cons,
      space_is_ws, if_true]
    rw [dropWhile_eq_self_of_head isWs P.reverse (by
      intro x hx; rw [List.head?_reverse] at hx; exact h.lastOk x hx)]
    simp
  rw [h2]
  have : P.isEmpty = false := by simpa using h.ne
  simp [this]

/-- **Affiliate name fixed point.** -/
theorem affiliate_name_fixpoint (s : Str) : fromStrep (fromStrep s).name = fromStrep s := by
  have hP := pretty_prettyOf s
  rw [fromStrep_eq s]
  cases hreg : hasReg s with
  | true =>
    simp only [if_true]
    obtain ⟨h1, h2⟩ := prettyOf_suffix hP
    rw [fromStrep_eq, h1, h2]
    rfl
  | false =>
    simp only [Bool.false_eq_true, if_false]
    obtain ⟨h1, h2⟩ := prettyOf_self hP
    rw [fromStrep_eq, h1, h2]
    rfl

theorem fromStrep_name_ne_nil (s : Str) : (fromStrep s).name ≠ [] := by
  have hP := pretty_prettyOf s
  rw [fromStrep_eq s]
  split
  · simp only; intro h; simp only [List.append_eq_nil_iff] at h; exact hP.ne h.1
  · exact hP.ne

theorem fromStrep_name_trimmed (s : Str) : trim (fromStrep s).name = (fromStrep s).name := by
  have hP := pretty_prettyOf s
  rw [fromStrep_eq s]
  split
  · simp only
    apply trim_eq_self
    · intro x hx
      obtain ⟨c, r, hcr⟩ := List.exists_cons_of_ne_nil hP.ne
      rw [hcr] at hx
      simp at hx
      subst hx
      exact hP.headOk _ (by rw [hcr]; rfl)
    · intro x hx
      have : regSuffix.getLast? = some ')' := by decide
      rw [List.getLast?_append, this] at hx
      simp at hx
      subst hx
      decide
  · exact hP.trim_eq

end Acb.Csv
