/-
  The cache file reads back what was written; the crash states of the write procedures.
-/
import AcbModel.Fx.CrashFs
namespace Acb.Fx

theorem splitChar_ne_nil (c : Char) (s : List Char) : splitChar c s ≠ [] := by
  induction s with
  | nil => simp [splitChar]
  | cons x xs ih =>
    simp only [splitChar]
    split
    · simp
    · split <;> simp

theorem splitChar_append_sep (c : Char) (a rest : List Char) (h : c ∉ a) :
    splitChar c (a ++ c :: rest) = a :: splitChar c rest := by
  induction a with
  | nil => simp [splitChar]
  | cons x xs ih =>
    have hx : ¬ x = c := by intro e; subst e; simp at h
    have hxs : c ∉ xs := by intro e; exact h (List.mem_cons_of_mem _ e)
    simp only [List.cons_append, splitChar, hx, if_false, ih hxs]

theorem splitChar_no_sep (c : Char) (a : List Char) (h : c ∉ a) : splitChar c a = [a] := by
  induction a with
  | nil => simp [splitChar]
  | cons x xs ih =>
    have hx : ¬ x = c := by intro e; subst e; simp at h
    have hxs : c ∉ xs := by intro e; exact h (List.mem_cons_of_mem _ e)
    simp only [splitChar, hx, if_false, ih hxs]

/-- rate texts contain no separators (they are decimal numbers) -/
def TextRow.Clean (r : TextRow) : Prop := ',' ∉ r.rate ∧ '\n' ∉ r.rate

instance (r : TextRow) : Decidable r.Clean := by unfold TextRow.Clean; infer_instance

/-- the value a row has when read back -/
def TextRow.value? (r : TextRow) : Option DailyRate := (parseDec r.rate).map (fun v => ⟨r.date, v⟩)

theorem lines_of_render (dt : DateText) {dom : Int → Prop} (hdt : dt.OK dom) (rows : List TextRow)
    (hc : ∀ r ∈ rows, r.Clean) (hd : ∀ r ∈ rows, dom r.date) :
    splitChar '\n' (renderRows dt rows) = rows.map (fun (r : TextRow) => dt.render r.date ++ ',' :: r.rate) ++ [[]] := by
  induction rows with
  | nil => simp [renderRows, splitChar]
  | cons r rs ih =>
    have hr := hc r (List.mem_cons_self ..)
    have hnl : '\n' ∉ dt.render r.date ++ ',' :: r.rate := by
      simp only [List.mem_append, List.mem_cons, not_or]
      exact ⟨hdt.noNewline _ (hd r (List.mem_cons_self ..)), by decide, hr.2⟩
    have : renderRows dt (r :: rs) = (dt.render r.date ++ ',' :: r.rate) ++ '\n' :: renderRows dt rs := by
      simp [renderRows, renderRow]
    rw [this, splitChar_append_sep _ _ _ hnl, ih (fun x hx => hc x (List.mem_cons_of_mem _ hx))
      (fun x hx => hd x (List.mem_cons_of_mem _ hx))]
    simp

theorem fields_of_line (dt : DateText) {dom : Int → Prop} (hdt : dt.OK dom) (r : TextRow) (hr : r.Clean)
    (hd : dom r.date) :
    splitChar ',' (dt.render r.date ++ ',' :: r.rate) = [dt.render r.date, r.rate] := by
  rw [splitChar_append_sep _ _ _ (hdt.noComma _ hd), splitChar_no_sep _ _ hr.1]

theorem readRecords_rendered (dt : DateText) {dom : Int → Prop} (hdt : dt.OK dom) (rows : List TextRow)
    (hc : ∀ r ∈ rows, r.Clean) (hd : ∀ r ∈ rows, dom r.date) (exp : Option Nat) (he : exp = none ∨ exp = some 2) :
    readRecords dt exp (rows.map (fun (r : TextRow) => [dt.render r.date, r.rate]) ++ [[[]]]) =
      rows.filterMap TextRow.value? := by
  induction rows generalizing exp with
  | nil => simp [readRecords]
  | cons r rs ih =>
    have hrs := ih (fun x hx => hc x (List.mem_cons_of_mem _ hx)) (fun x hx => hd x (List.mem_cons_of_mem _ hx))
    have hne : ¬ ([dt.render r.date, r.rate] = [[]]) := by simp
    have hrec : (parseRecord dt [dt.render r.date, r.rate]).toList = (r.value?).toList := by
      simp only [parseRecord, hdt.roundtrip _ (hd r (List.mem_cons_self ..)), TextRow.value?]
      cases parseDec r.rate <;> simp
    simp only [List.map_cons, List.cons_append, readRecords, hne, if_false]
    rcases he with he | he
    · subst he
      simp only [List.length_cons, List.length_nil, hrec]
      rw [hrs (some 2) (Or.inr rfl)]
      cases h : r.value? <;> simp [List.filterMap_cons, h]
    · subst he
      simp only [List.length_cons, List.length_nil, if_true, hrec]
      rw [hrs (some 2) (Or.inr rfl)]
      cases h : r.value? <;> simp [List.filterMap_cons, h]

/-- **The cache file reads back what was written**: `get_rates_from_csv (write_rates rows) = rows`
    (each rate with the value its text denotes). -/
theorem cachefile_roundtrip (dt : DateText) {dom : Int → Prop} (hdt : dt.OK dom) (rows : List TextRow)
    (hc : ∀ r ∈ rows, r.Clean) (hd : ∀ r ∈ rows, dom r.date) :
    parseFile dt (renderRows dt rows) = rows.filterMap TextRow.value? := by
  unfold parseFile
  rw [lines_of_render dt hdt rows hc hd]
  have : (rows.map (fun (r : TextRow) => dt.render r.date ++ ',' :: r.rate) ++ [[]]).map (splitChar ',') =
      rows.map (fun (r : TextRow) => [dt.render r.date, r.rate]) ++ [[[]]] := by
    simp only [List.map_append, List.map_map, List.map_cons, List.map_nil]
    congr 1
    · apply List.map_congr_left
      intro r hr
      exact fields_of_line dt hdt r (hc r hr) (hd r hr)
  rw [this]
  exact readRecords_rendered dt hdt rows hc hd none (Or.inl rfl)

/-! ### Crash states -/

/-- **Kill at any point of the repaired write procedure**: the cache file is the old complete file
    or the new complete file. -/
theorem writeProc_kill (live : Option File) (tmp : Option File) (content : List Char)
    (s : YearFiles) (hs : s ∈ crashStates { live := live, tmp := tmp } (writeProc content)) :
    (killView s).live = live.map (·.data) ∨ (killView s).live = some content := by
  simp only [writeProc, crashStates, partials, applyOp, YearFiles.set, YearFiles.get,
    List.mem_cons, List.mem_append, List.mem_map, List.mem_range, List.not_mem_nil, or_false,
    List.nil_append] at hs
  rcases hs with rfl | (rfl | ⟨n, _, rfl⟩) | rfl | rfl | rfl
  all_goals simp [killView]

/-- The old files are on stable storage (they were written by runs that completed). -/
def Settled (f : Option File) : Prop := ∀ x, f = some x → x.durable = x.data.length

theorem truncs_settled {f : Option File} (h : Settled f) : truncs f = [f.map (·.data)] := by
  cases f with
  | none => rfl
  | some x =>
    have := h x rfl
    simp [truncs, this]

/-- **Power loss at any point of the repaired write procedure**: the cache file is still the old
    complete file or the new complete one. -/
theorem writeProc_power_loss (live : Option File) (tmp : Option File) (content : List Char)
    (hl : Settled live)
    (s : YearFiles) (hs : s ∈ crashStates { live := live, tmp := tmp } (writeProc content))
    (v : View) (hv : v ∈ lossViews s) :
    v.live = live.map (·.data) ∨ v.live = some content := by
  have tl := truncs_settled hl
  simp only [writeProc, crashStates, partials, applyOp, YearFiles.set, YearFiles.get,
    List.mem_cons, List.mem_append, List.mem_map, List.mem_range, List.not_mem_nil, or_false,
    List.nil_append] at hs
  rcases hs with rfl | (rfl | ⟨n, _, rfl⟩) | rfl | rfl | rfl
  all_goals
    simp only [lossViews, tl, List.flatMap_cons, List.flatMap_nil, List.append_nil, List.mem_map,
      List.mem_append] at hv
  · obtain ⟨t, _, rfl⟩ := hv; exact Or.inl rfl
  · obtain ⟨t, _, rfl⟩ := hv; exact Or.inl rfl
  · obtain ⟨t, _, rfl⟩ := hv; exact Or.inl rfl
  · obtain ⟨t, _, rfl⟩ := hv; exact Or.inl rfl
  · obtain ⟨t, _, rfl⟩ := hv; exact Or.inl rfl
  · -- after the rename: the new file is fully durable; or the rename is not on disk yet
    have hnew : truncs (some ({ data := content, durable := content.length } : File)) =
        [some content] := by simp [truncs]
    rw [hnew] at hv
    simp only [truncs, List.flatMap_cons, List.flatMap_nil, List.append_nil, List.map_cons, List.map_nil,
      List.mem_cons, List.not_mem_nil, or_false, List.mem_map] at hv
    rcases hv with rfl | ⟨t, _, rfl⟩
    · exact Or.inr rfl
    · exact Or.inl rfl

end Acb.Fx
