/-
  Helper lemmas for Props/C17c.lean: the per-security row lists the pipeline feeds to the ledger are
  valid and in settlement-date order (after `all_txs.sort()`, `split_txs_by_security` and the
  expansion of global splits), and the securities are distinct.
-/
import AcbModel.Props.C01b
import AcbModel.Lemmas.SortRows
namespace Acb

theorem nodup_eraseDups_nat_aux : ∀ (n : Nat) (l : List Nat), l.length ≤ n → l.eraseDups.Nodup := by
  intro n
  induction n with
  | zero =>
    intro l hl
    have : l = [] := List.length_eq_zero_iff.mp (by omega)
    subst this; simp
  | succ n ih =>
    intro l hl
    cases l with
    | nil => simp
    | cons a as =>
      rw [List.eraseDups_cons]
      refine List.nodup_cons.mpr ⟨?_, ?_⟩
      · intro hmem
        have := List.mem_eraseDups.mp hmem
        simp at this
      · apply ih
        have := List.length_filter_le (fun b => !b == a) as
        simp only [List.length_cons] at hl
        omega

theorem RowsSorted.settle {l : List PRow} (h : RowsSorted l) :
    (l.map (·.tx)).Pairwise (fun a b => a.settle ≤ b.settle) := by
  induction l with
  | nil => exact List.Pairwise.nil
  | cons x xs ih =>
    simp only [List.map_cons]
    refine List.pairwise_cons.mpr ⟨?_, ih h.2⟩
    intro t ht
    obtain ⟨y, hy, rfl⟩ := List.mem_map.mp ht
    have := h.1 y hy
    unfold rowLe at this
    simp only [Bool.or_eq_true, decide_eq_true_eq, Bool.and_eq_true, beq_iff_eq] at this
    omega

theorem expandSplits_settle (affs : List Aff) {l : List PRow} (h : RowsSorted l) :
    (expandSplits affs l).Pairwise (fun a b => a.settle ≤ b.settle) := by
  unfold expandSplits
  induction l with
  | nil => exact List.Pairwise.nil
  | cons x xs ih =>
    rw [List.flatMap_cons]
    have hx : ∀ t ∈ (if isGlobalSplit x = true then affs.map (fun a => { x.tx with aff := a }) else [x.tx]),
        t.settle = x.tx.settle := by
      intro t ht
      split at ht
      · obtain ⟨a, _, rfl⟩ := List.mem_map.mp ht; rfl
      · simp only [List.mem_singleton] at ht; subst ht; rfl
    refine List.pairwise_append.mpr ⟨?_, ih h.2, ?_⟩
    · refine List.pairwise_iff_forall_sublist.mpr ?_
      intro a b hab
      have ha := hx a (hab.subset (by simp))
      have hb := hx b (hab.subset (by simp))
      rw [ha, hb]; exact Int.le_refl _
    · intro a ha b hb
      rw [hx a ha]
      simp only [List.mem_flatMap] at hb
      obtain ⟨y, hy, hb⟩ := hb
      have hby : b.settle = y.tx.settle := by
        split at hb
        · obtain ⟨a', _, rfl⟩ := List.mem_map.mp hb; rfl
        · simp only [List.mem_singleton] at hb; subst hb; rfl
      rw [hby]
      have := h.1 y hy
      unfold rowLe at this
      simp only [Bool.or_eq_true, decide_eq_true_eq, Bool.and_eq_true, beq_iff_eq] at this
      omega

/-- the rows one security contributes to the ledger (nothing when its split validation fails) -/
def secTxs (dflt : Aff) (init : Option Status) (sortedRowsS : List PRow) : List Tx :=
  (replaceGlobalSplits dflt (if init.isSome then [dflt] else []) sortedRowsS).getD []

theorem secResultSorted_fst (dflt : Aff) (init : Option Status) (R : List PRow) :
    (secResultSorted dflt init R).1 = (deltaList dflt init (secTxs dflt init R)).1 := by
  unfold secResultSorted secTxs
  cases replaceGlobalSplits dflt (if init.isSome then [dflt] else []) R with
  | none => simp [deltaList]
  | some txs => rfl

theorem secTxs_props (dflt : Aff) (init : Option Status) {R : List PRow} (hs : RowsSorted R)
    (hv : ∀ r ∈ R, r.tx.Valid) :
    (∀ tx ∈ secTxs dflt init R, tx.Valid) ∧
    (secTxs dflt init R).Pairwise (fun a b => a.settle ≤ b.settle) := by
  unfold secTxs replaceGlobalSplits
  split
  · exact ⟨by simp, List.Pairwise.nil⟩
  · split
    · refine ⟨?_, by simpa using hs.settle⟩
      intro tx htx
      simp only [Option.getD_some] at htx
      obtain ⟨r, hr, rfl⟩ := List.mem_map.mp htx
      exact hv r hr
    · exact ⟨by simpa using expandSplits_valid hv, by simpa using expandSplits_settle _ hs⟩

end Acb
