/-
  C10, carried-over rows, part 2: one row in the two runs.  (a) The same row: same result when the
  trackers agree on the observables and the histories are related as in part 1.  (b) A sale whose
  superficial loss was computed automatically, replayed with that amount declared: same figures,
  no generated adjustment rows.
-/
import AcbModel.Lemmas.Carry1
import AcbModel.App.Summary
namespace Acb

/-- how the processed rows of the two runs are related: a recent part `X`/`X'` equal up to declared
    amounts, and parts `P`/`P'` that only have to lie before the windows of later loss sales -/
structure PastSim (X X' : List Tx) : Prop where
  erase : X.map eraseSpec = X'.map eraseSpec

/-- how the rows to come are related -/
structure FutSim (f f' : List Tx) : Prop where
  asc : SettleAsc f
  asc' : SettleAsc f'
  core : core f = core f'

theorem sflRatio_sim {t t' : Tracker} (h : ObsEq t t') (seller : Aff) (settle : Int) (sold : Rat)
    {X X' : List Tx} (P P' : List Tx) {f f' : List Tx} (hX : PastSim X X')
    (hP : FarList P (settle - Gen.sflWindowBeforeDays))
    (hP' : FarList P' (settle - Gen.sflWindowBeforeDays)) (hf : FutSim f f') :
    sflRatio t' seller settle sold (X' ++ P') f' = sflRatio t seller settle sold (X ++ P) f := by
  unfold sflRatio
  rw [sflInfo_sim h seller settle sold X X' P P' f f' hX.erase hP hP' hf.asc hf.asc' hf.core]

/-- `deltaSflInfo` reads the tracker and the histories only through `sflRatio`, and of the row only
    its affiliate, dates and index -/
theorem deltaSflInfo_congr {t t' : Tracker} {x x' : Tx} {past past' f f' : List Tx} (sold : Rat)
    (spec : Option (Rat × Bool)) (loss : Rat)
    (hx : x'.aff = x.aff ∧ x'.settle = x.settle ∧ x'.trade = x.trade ∧ x'.idx = x.idx)
    (hr : sflRatio t' x.aff x.settle sold past' f' = sflRatio t x.aff x.settle sold past f) :
    deltaSflInfo t' x' sold spec loss past' f' = deltaSflInfo t x sold spec loss past f := by
  obtain ⟨h1, h2, h3, h4⟩ := hx
  unfold deltaSflInfo
  rw [h1, h2, hr]
  have hadj : ∀ csfl l, adjustTxs x' csfl l = adjustTxs x csfl l := by
    intro csfl l
    induction l with
    | nil => rfl
    | cons p l ih =>
      obtain ⟨af, n, d⟩ := p
      simp only [adjustTxs, ih, h2, h3, h4]
  simp only [hadj]

theorem arm_sim {t t' : Tracker} (h : ObsEq t t') (x : Tx) {X X' : List Tx} (P P' : List Tx)
    {f f' : List Tx} (hX : PastSim X X') (hf : FutSim f f')
    (hfar : IsLossSale t x → FarFor P x ∧ FarFor P' x) :
    arm t' x (t.nextPre x.aff) (X' ++ P') f' = arm t x (t.nextPre x.aff) (X ++ P) f := by
  unfold arm
  cases hact : x.act with
  | sell sh px comm rate crate spec =>
    simp only [armSell]
    split
    · rfl
    · split
      · rfl
      · cases hp : perShareAcb (t.nextPre x.aff) with
        | none => rfl
        | some aps =>
          simp only
          by_cases hg : px * sh * rate - comm * commRate rate crate - aps * sh < 0
          · obtain ⟨h1, h2⟩ := hfar ⟨sh, px, comm, rate, crate, spec, aps, hact, hp, hg⟩
            simp only [hg, if_true]
            rw [deltaSflInfo_congr sh spec _ ⟨rfl, rfl, rfl, rfl⟩
              (sflRatio_sim h x.aff x.settle sh P P' hX (h1 sh px comm rate crate spec hact)
                (h2 sh px comm rate crate spec hact) hf)]
          · simp only [hg, if_false]
  | buy sh px comm rate crate => rfl
  | roc ps rate => rfl
  | sfla sh ps => rfl
  | split post pre' io => rfl

/-- results of one iteration in the two runs (as `StepResEq`) -/
theorem stepRow_sim {t t' : Tracker} (h : ObsEq t t') (x : Tx) {X X' : List Tx} (P P' : List Tx)
    {f f' : List Tx} (hX : PastSim X X') (hf : FutSim f f')
    (hfar : IsLossSale t x → FarFor P x ∧ FarFor P' x) :
    StepResEq (stepRow t x (X ++ P) f) (stepRow t' x (X' ++ P') f') := by
  simp only [stepRow, deltaForTx, h.pre x.aff, arm_sim h x P P' hX hf hfar]
  cases sanityCheck (t.nextPre x.aff) x.aff with
  | error e => simp [StepResEq]
  | ok u =>
    simp only
    cases arm t x (t.nextPre x.aff) (X ++ P) f with
    | error e => simp [StepResEq]
    | ok o =>
      simp only
      have hs := setLatest_obs h x.aff o.post
      generalize t.setLatest x.aff o.post = S at hs ⊢
      generalize t'.setLatest x.aff o.post = S' at hs ⊢
      cases S with
      | error e =>
        cases S' with
        | error e' => simp only at hs; simp [StepResEq, hs]
        | ok _ => simp at hs
      | ok t2 =>
        cases S' with
        | error e' => simp at hs
        | ok t2' =>
          simp only at hs
          simpa [StepResEq] using hs

/-! ### (b) the automatic amount, declared -/

/-- the figures of a carried delta: everything but the row's `superficial loss` cell and the ratio
    recorded with the superficial loss -/
structure DeltaCarry (d d' : Delta) : Prop where
  tx : d'.tx = carryTx d
  pre : d'.pre = d.pre
  post : d'.post = d.post
  gain : d'.gain = d.gain
  sfl : d'.sfl.map (·.loss) = d.sfl.map (·.loss)

theorem DeltaCarry.refl_of {d : Delta} (h : carryTx d = d.tx) : DeltaCarry d d := ⟨h.symm, rfl, rfl, rfl, rfl⟩

/-- automatic → declared, inside `deltaSflInfo` -/
theorem deltaSflInfo_declared {t : Tracker} {x : Tx} {sold loss : Rat} {past f : List Tx}
    {info : SflInfo} {adj : List Tx}
    (h : deltaSflInfo t x sold none loss past f = .ok (some (info, adj))) :
    deltaSflInfo t x sold (some (info.loss, false)) loss past f =
      .ok (some ({ loss := info.loss, num := (info.loss / loss) * sold, den := sold, over := false }, [])) := by
  unfold deltaSflInfo at h ⊢
  cases hr : sflRatio t x.aff x.settle sold past f with
  | error e => rw [hr] at h; cases h
  | ok msfl =>
    rw [hr] at h
    simp only at h ⊢
    cases msfl with
    | none => simp at h
    | some r =>
      simp only at h ⊢
      split at h
      · cases h
      · rename_i hneg
        split at h
        · cases h
        · simp only [Except.ok.injEq, Option.some.injEq, Prod.mk.injEq] at h
          obtain ⟨h1, _⟩ := h
          have hl : info.loss = effCent (loss * (r.num / r.den)) := by rw [← h1]
          have hlt : effCent (loss * (r.num / r.den)) < 0 := by
            have := hneg; simpa using this
          rw [hl]
          have h0 : rabs (effCent (loss * (r.num / r.den)) - effCent (loss * (r.num / r.den))) = 0 := by
            generalize effCent (loss * (r.num / r.den)) = c
            unfold rabs
            have : c - c = 0 := by grind
            rw [this]; simp
          have hm : ¬ ((0 : Rat) > sflMaxDiff) := by decide +kernel
          simp [h0, hm, hlt]

end Acb
