/-
  Invariants of the superficial-loss window scan, and their consequence: none of the panic
  sites of superficial_loss.rs / get_delta_superficial_loss_info is reachable.
-/
import AcbModel.Lemmas.Wf
namespace Acb

structure ScanInv (s : Scan) : Prop where
  adjPos : ∀ a, 0 < s.adj a
  acqNonneg : 0 ≤ s.acquired
  buyersActive : ∀ a, a ∈ s.buyers → (s.active a).isSome = true
  acqBuyers : 0 < s.acquired → s.buyers ≠ []
  activeNonneg : ∀ a v, s.active a = some v → 0 ≤ v

theorem mem_insertAff {l : List Aff} {a x : Aff} : x ∈ insertAff l a ↔ x ∈ l ∨ x = a := by
  unfold insertAff
  split
  · rename_i h; constructor
    · intro hx; exact Or.inl hx
    · rintro (hx | rfl); exact hx; exact h
  · simp

theorem insertAff_ne_nil (l : List Aff) (a : Aff) : insertAff l a ≠ [] := by
  unfold insertAff
  split
  · rename_i h; intro e; rw [e] at h; simp at h
  · simp

theorem scanFwd_inv {t : Tracker} (hb : ∀ a, 0 ≤ t.bal a) (lastDay : Int) :
    ∀ (future : List Tx) (s s' : Scan), (∀ x ∈ future, x.Valid) → ScanInv s →
      scanFwd t lastDay s future = .ok s' → ScanInv s' := by
  intro future
  induction future with
  | nil => intro s s' _ hi h; simp [scanFwd] at h; subst h; exact hi
  | cons x rest ih =>
    intro s s' hv hi h
    have hvx : x.Valid := hv x (by simp)
    have hvr : ∀ y ∈ rest, y.Valid := fun y hy => hv y (by simp [hy])
    unfold scanFwd at h
    split at h
    · simp only [Except.ok.injEq] at h; subst h; exact hi
    · simp only at h
      unfold Tx.Valid at hvx
      split at h
      · -- buy
        rename_i sh px comm rate crate hact
        rw [hact] at hvx
        have hsh : 0 < sh := hvx.1
        have hq : 0 < sh * s.adj x.aff := Rat.mul_pos hsh (hi.adjPos _)
        apply ih _ _ hvr _ h
        constructor
        · exact hi.adjPos
        · have := hi.acqNonneg; simp; grind
        · intro a ha
          simp only [mem_insertAff] at ha
          simp only [upd]
          by_cases hax : a = x.aff
          · simp [hax]
          · simp only [hax, if_false]
            rcases ha with ha | ha
            · exact hi.buyersActive a ha
            · exact absurd ha hax
        · intro _; exact insertAff_ne_nil _ _
        · intro a v hav
          simp only [upd] at hav
          by_cases hax : a = x.aff
          · simp only [hax, if_true, Option.some.injEq] at hav
            subst hav
            have : 0 ≤ (s.active x.aff).getD (t.bal x.aff) := by
              cases hsa : s.active x.aff with
              | none => simpa using hb x.aff
              | some w => simpa using hi.activeNonneg _ _ hsa
            grind
          · simp only [hax, if_false] at hav; exact hi.activeNonneg a v hav
      · -- sell
        split at h
        · cases h
        · split at h
          · cases h
          · rename_i hge
            apply ih _ _ hvr _ h
            constructor
            · exact hi.adjPos
            · exact hi.acqNonneg
            · intro a ha
              simp only [upd]
              by_cases hax : a = x.aff
              · simp [hax]
              · simp only [hax, if_false]; exact hi.buyersActive a ha
            · exact hi.acqBuyers
            · intro a v hav
              simp only [upd] at hav
              by_cases hax : a = x.aff
              · simp only [hax, if_true, Option.some.injEq] at hav
                subst hav; grind
              · simp only [hax, if_false] at hav; exact hi.activeNonneg a v hav
      · -- split
        rename_i post pre io hact
        rw [hact] at hvx
        apply ih _ _ hvr _ h
        constructor
        · intro a
          simp only [upd]
          by_cases hax : a = x.aff
          · simp only [hax, if_true]
            exact div_pos' (hi.adjPos _) (div_pos' hvx.1 hvx.2)
          · simp only [hax, if_false]; exact hi.adjPos a
        · exact hi.acqNonneg
        · exact hi.buyersActive
        · exact hi.acqBuyers
        · exact hi.activeNonneg
      · exact ih _ _ hvr hi h

theorem scanBwd_inv {t : Tracker} (hb : ∀ a, 0 ≤ t.bal a) (firstDay : Int) :
    ∀ (past : List Tx) (s : Scan), (∀ x ∈ past, x.Valid) → ScanInv s →
      ScanInv (scanBwd t firstDay s past) := by
  intro past
  induction past with
  | nil => intro s _ hi; simpa [scanBwd] using hi
  | cons x rest ih =>
    intro s hv hi
    have hvx : x.Valid := hv x (by simp)
    have hvr : ∀ y ∈ rest, y.Valid := fun y hy => hv y (by simp [hy])
    unfold scanBwd
    split
    · exact hi
    · simp only
      unfold Tx.Valid at hvx
      split
      · rename_i sh px comm rate crate hact
        rw [hact] at hvx
        have hq : 0 < sh * s.adj x.aff := Rat.mul_pos hvx.1 (hi.adjPos _)
        apply ih _ hvr
        constructor
        · exact hi.adjPos
        · have := hi.acqNonneg; simp; grind
        · intro a ha
          simp only [mem_insertAff] at ha
          simp only
          split
          · rename_i hnone
            simp only [upd]
            by_cases hax : a = x.aff
            · simp [hax]
            · simp only [hax, if_false]
              rcases ha with ha | ha
              · exact hi.buyersActive a ha
              · exact absurd ha hax
          · rename_i hsome
            rcases ha with ha | ha
            · exact hi.buyersActive a ha
            · subst ha
              cases hx : s.active x.aff with
              | none => simp [hx] at hsome
              | some w => simp
        · intro _; exact insertAff_ne_nil _ _
        · intro a v hav
          simp only at hav
          split at hav
          · simp only [upd] at hav
            by_cases hax : a = x.aff
            · simp only [hax, if_true, Option.some.injEq] at hav; subst hav; exact hb _
            · simp only [hax, if_false] at hav; exact hi.activeNonneg a v hav
          · exact hi.activeNonneg a v hav
      · rename_i post pre io hact
        rw [hact] at hvx
        apply ih _ hvr
        constructor
        · intro a
          simp only [upd]
          by_cases hax : a = x.aff
          · simp only [hax, if_true]
            exact Rat.mul_pos (hi.adjPos _) (div_pos' hvx.1 hvx.2)
          · simp only [hax, if_false]; exact hi.adjPos a
        · exact hi.acqNonneg
        · exact hi.buyersActive
        · exact hi.acqBuyers
        · exact hi.activeNonneg
      · exact ih _ hvr hi

end Acb

namespace Acb

/-- The three `sanity_check_ptfs` errors. -/
def ErrKind.isSanity : ErrKind → Bool
  | .allLtShares | .regHasAcb | .nonregNoAcb => true
  | _ => false

/-- A failure the user can cause: a `Result::Err` other than the sanity checks. -/
def UserErr (f : Failure) : Prop := ∃ k, f = .err k ∧ k.isSanity = false

theorem scanFwd_err {t : Tracker} (lastDay : Int) :
    ∀ (future : List Tx) (s : Scan) (f : Failure), scanFwd t lastDay s future = .error f → UserErr f := by
  intro future
  induction future with
  | nil => intro s f h; simp [scanFwd] at h
  | cons x rest ih =>
    intro s f h
    unfold scanFwd at h
    split at h
    · cases h
    · simp only at h
      split at h
      · exact ih _ _ h
      · split at h
        · simp only [Except.error.injEq] at h; exact ⟨_, h.symm, rfl⟩
        · split at h
          · simp only [Except.error.injEq] at h; exact ⟨_, h.symm, rfl⟩
          · exact ih _ _ h
      · exact ih _ _ h
      · exact ih _ _ h

/-- What a `Superficial` scan result guarantees. -/
structure SliOk (i : SliInfo) : Prop where
  allPos : 0 < i.allEop
  acqPos : 0 < i.acquired
  buyersNe : i.buyers ≠ []
  buyersActive : ∀ a, a ∈ i.buyers → (i.active a).isSome = true
  activeNonneg : ∀ a v, i.active a = some v → 0 ≤ v

theorem sflInfo_ok {t : Tracker} (hb : ∀ a, 0 ≤ t.bal a) {seller : Aff} {settle : Int} {sold : Rat}
    {past future : List Tx} (hvp : ∀ x ∈ past, x.Valid) (hvf : ∀ x ∈ future, x.Valid) :
    (∀ f, sflInfo t seller settle sold past future = .error f → UserErr f) ∧
    (∀ i, sflInfo t seller settle sold past future = .ok (some i) → SliOk i) := by
  unfold sflInfo
  simp only
  split
  · exact ⟨fun f h => (by simp only [Except.error.injEq] at h; exact ⟨_, h.symm, rfl⟩), fun i h => (by cases h)⟩
  · split
    · exact ⟨fun f h => (by simp only [Except.error.injEq] at h; exact ⟨_, h.symm, rfl⟩), fun i h => (by cases h)⟩
    · rename_i h1 h2
      have hi0 : ScanInv { adj := fun _ => 1, allEop := t.latestPostAll - sold, acquired := 0, buyers := [],
                           active := upd (fun _ => none) seller (some (t.bal seller - sold)) } := by
        constructor
        · intro a; show (0:Rat) < 1; grind
        · simp
        · intro a ha; simp at ha
        · intro h; simp at h
        · intro a v hav
          simp only [upd] at hav
          by_cases hax : a = seller
          · simp only [hax, if_true, Option.some.injEq] at hav; subst hav; grind
          · simp [hax] at hav
      split
      · rename_i f hf
        exact ⟨fun f' h => (by simp only [Except.error.injEq] at h; subst h; exact scanFwd_err _ _ _ _ hf),
               fun i h => (by cases h)⟩
      · rename_i s1 hs1
        have hi1 := scanFwd_inv hb _ future _ s1 hvf hi0 hs1
        split
        · exact ⟨fun f h => (by cases h), fun i h => (by cases h)⟩
        · rename_i hall
          have hi1' : ScanInv { s1 with adj := fun _ => 1 } :=
            ⟨fun a => (by show (0:Rat) < 1; grind), hi1.acqNonneg, hi1.buyersActive, hi1.acqBuyers, hi1.activeNonneg⟩
          have hi2 := scanBwd_inv hb (settle - Gen.sflWindowBeforeDays) past _ hvp hi1'
          split
          · rename_i hacq
            refine ⟨fun f h => (by cases h), fun i h => ?_⟩
            simp only [Except.ok.injEq, Option.some.injEq] at h; subst h
            exact ⟨by simpa using hall, hacq, hi2.acqBuyers hacq, hi2.buyersActive, hi2.activeNonneg⟩
          · exact ⟨fun f h => (by cases h), fun i h => (by cases h)⟩

theorem portionsOf_ok {active : Aff → Option Rat} {tot : Rat} :
    ∀ (l : List Aff), (∀ a, a ∈ l → (active a).isSome = true) →
    ∃ r, portionsOf active tot l = .ok r ∧ ∀ p ∈ r, active p.1 = some p.2.1 ∧ p.2.2 = tot := by
  intro l
  induction l with
  | nil => intro _; exact ⟨[], by simp [portionsOf], by simp⟩
  | cons a as ih =>
    intro h
    obtain ⟨r, hr, hp⟩ := ih (fun b hb => h b (by simp [hb]))
    have ha := h a (by simp)
    unfold portionsOf
    cases hact : active a with
    | none => simp [hact] at ha
    | some v =>
      simp only [hr]
      refine ⟨(a, v, tot) :: r, rfl, ?_⟩
      intro p hp'
      simp only [List.mem_cons] at hp'
      rcases hp' with rfl | hp'
      · exact ⟨hact, rfl⟩
      · exact hp p hp'

/-- What a computed ratio guarantees. -/
structure RatioOk (sold : Rat) (r : SflRatio) : Prop where
  numPos : 0 < r.num
  den : r.den = sold
  portions : ∀ p ∈ r.portions, 0 ≤ p.2.1 ∧ 0 < p.2.2

theorem rmin_pos {a b : Rat} (ha : 0 < a) (hb : 0 < b) : 0 < rmin a b := by
  unfold rmin; split <;> assumption

theorem calcRatio_ok {sold : Rat} (hs : 0 < sold) {i : SliInfo} (hi : SliOk i) :
    ∃ r, calcRatio sold i = .ok r ∧ RatioOk sold r := by
  unfold calcRatio
  simp only
  have hlen : ¬ i.buyers.length = 0 := by
    intro h; exact hi.buyersNe (List.eq_nil_of_length_eq_zero h)
  simp only [hlen, if_false]
  have hnum : 0 < min3 sold i.acquired i.allEop := rmin_pos (rmin_pos hs hi.acqPos) hi.allPos
  split
  · rename_i f hf
    exfalso
    split at hf
    · obtain ⟨r, hr, _⟩ := portionsOf_ok (active := i.active) (tot := buyersTotal i) i.buyers hi.buyersActive
      rw [hr] at hf; cases hf
    · cases hf
  · rename_i portions hp
    refine ⟨_, rfl, hnum, rfl, ?_⟩
    split at hp
    · rename_i htot
      obtain ⟨r, hr, hpr⟩ := portionsOf_ok (active := i.active) (tot := buyersTotal i) i.buyers hi.buyersActive
      rw [hr] at hp
      simp only [Except.ok.injEq] at hp; subst hp
      intro p hpm
      obtain ⟨h1, h2⟩ := hpr p hpm
      exact ⟨hi.activeNonneg _ _ h1, by rw [h2]; exact htot⟩
    · simp only [Except.ok.injEq] at hp; subst hp; simp

theorem mem_insertByKey {x y : Aff × Rat × Rat} {l : List (Aff × Rat × Rat)} :
    y ∈ insertByKey x l ↔ y = x ∨ y ∈ l := by
  induction l with
  | nil => simp [insertByKey]
  | cons z zs ih =>
    unfold insertByKey
    split
    · simp
    · simp only [List.mem_cons, ih]
      constructor
      · rintro (h | h | h)
        · exact Or.inr (Or.inl h)
        · exact Or.inl h
        · exact Or.inr (Or.inr h)
      · rintro (h | h | h)
        · exact Or.inr (Or.inl h)
        · exact Or.inl h
        · exact Or.inr (Or.inr h)

theorem mem_sortByKey {y : Aff × Rat × Rat} {l : List (Aff × Rat × Rat)} : y ∈ sortByKey l ↔ y ∈ l := by
  unfold sortByKey
  induction l with
  | nil => simp
  | cons z zs ih => simp only [List.foldr_cons, mem_insertByKey, ih, List.mem_cons]

theorem adjustTxs_ok {tx : Tx} {c : Rat} (l : List (Aff × Rat × Rat)) : ∃ r, adjustTxs tx c l = .ok r := by
  induction l with
  | nil => exact ⟨[], by simp [adjustTxs]⟩
  | cons p ps ih =>
    obtain ⟨af, n, d⟩ := p
    obtain ⟨r, hr⟩ := ih
    unfold adjustTxs
    simp only [hr]
    split <;> exact ⟨_, rfl⟩

/-- `get_delta_superficial_loss_info` never panics: its failures are `Result::Err`s. -/
theorem deltaSflInfo_err {t : Tracker} (hb : ∀ a, 0 ≤ t.bal a) {tx : Tx} {sold : Rat} (hs : 0 < sold)
    {spec : Option (Rat × Bool)} {loss : Rat} {past future : List Tx}
    (hvp : ∀ x ∈ past, x.Valid) (hvf : ∀ x ∈ future, x.Valid) {f : Failure}
    (h : deltaSflInfo t tx sold spec loss past future = .error f) : UserErr f := by
  unfold deltaSflInfo sflRatio at h
  obtain ⟨he, hok⟩ := sflInfo_ok (t := t) hb (seller := tx.aff) (settle := tx.settle) (sold := sold) hvp hvf
  cases hsi : sflInfo t tx.aff tx.settle sold past future with
  | error f' =>
    simp only [hsi] at h
    simp only [Except.error.injEq] at h; subst h; exact he _ hsi
  | ok oi =>
    cases oi with
    | none =>
      simp only [hsi] at h
      split at h
      · rename_i v force
        split at h
        · simp only [Except.error.injEq] at h; exact ⟨_, h.symm, rfl⟩
        · split at h <;> cases h
      · cases h
    | some i =>
      have hio := hok i hsi
      obtain ⟨r, hr, hro⟩ := calcRatio_ok hs hio
      simp only [hsi, hr] at h
      split at h
      · rename_i v force
        split at h
        · simp only [Except.error.injEq] at h; exact ⟨_, h.symm, rfl⟩
        · split at h <;> cases h
      · split at h
        · cases h
        · obtain ⟨adj, hadj⟩ := adjustTxs_ok (tx := tx) (c := effCent (loss * (r.num / r.den)))
            (sortByKey r.portions)
          simp only [hadj] at h
          cases h

end Acb
