/-
  Bridge from the ledger to the --total-costs report (C17, C05): the deltas `txs_to_delta_list`
  emits — all of them, or the partial list before a failing row, including the deltas of the
  adjustment rows it generates itself — come out in settlement-date order whenever the rows went
  in in settlement-date order.  No tracker invariant is needed: only `d.tx = tx` of a step and
  "generated rows carry the date of the sale".
-/
import AcbModel.Lemmas.Carry7
namespace Acb

/-- `acc` is in date order and nothing in it is dated after `day` -/
def UpTo (day : Int) (acc : List Delta) : Prop := DSorted acc ∧ ∀ d ∈ acc, d.tx.settle ≤ day

theorem UpTo.nil (day : Int) : UpTo day [] := ⟨List.Pairwise.nil, by simp⟩

theorem UpTo.mono {day day' : Int} {acc : List Delta} (h : UpTo day acc) (hle : day ≤ day') :
    UpTo day' acc := ⟨h.1, fun d hd => Int.le_trans (h.2 d hd) hle⟩

theorem UpTo.snoc {day : Int} {acc : List Delta} {d : Delta} (h : UpTo day acc)
    (hd : d.tx.settle = day) : UpTo day (acc ++ [d]) := by
  refine ⟨?_, ?_⟩
  · refine List.pairwise_append.mpr ⟨h.1, List.pairwise_singleton _ _, ?_⟩
    intro a ha b hb
    simp only [List.mem_singleton] at hb
    subst hb; rw [hd]; exact h.2 a ha
  · intro e he
    simp only [List.mem_append, List.mem_singleton] at he
    rcases he with he | rfl
    · exact h.2 e he
    · rw [hd]; exact Int.le_refl _

theorem runInjected_upTo (day : Int) :
    ∀ (inj : List Tx) (t : Tracker) (past : List Tx) (acc : List Delta) (fu : List Tx),
      (∀ x ∈ inj, x.settle = day) → UpTo day acc →
      match runInjected t past acc inj fu with
      | .inl (_, _, acc') => UpTo day acc'
      | .inr (acc', _) => UpTo day acc' := by
  intro inj
  induction inj with
  | nil => intro t past acc fu _ h; simpa only [runInjected] using h
  | cons x xs ih =>
    intro t past acc fu hday h
    rw [runInjected]
    cases hstep : stepRow t x past (xs ++ fu) with
    | error e => exact h
    | ok r =>
      obtain ⟨d, t1, injd⟩ := r
      simp only
      have hd : d.tx.settle = day := by rw [stepRow_tx hstep]; exact hday x (by simp)
      exact ih t1 (x :: past) (acc ++ [d]) fu (fun y hy => hday y (by simp [hy])) (h.snoc hd)

theorem deltaLoop_sorted :
    ∀ (rest : List Tx) (t : Tracker) (past : List Tx) (acc : List Delta) (lo : Int),
      rest.Pairwise (fun a b => a.settle ≤ b.settle) → (∀ x ∈ rest, lo ≤ x.settle) → UpTo lo acc →
      DSorted (deltaLoop t past acc rest).1 := by
  intro rest
  induction rest with
  | nil => intro t past acc lo _ _ h; simpa only [deltaLoop] using h.1
  | cons tx rest ih =>
    intro t past acc lo hs hlo h
    rw [deltaLoop]
    cases hstep : stepRow t tx past rest with
    | error e => exact h.1
    | ok r =>
      obtain ⟨d, t1, inj⟩ := r
      simp only
      have h1 : UpTo tx.settle (acc ++ [d]) :=
        (h.mono (hlo tx (by simp))).snoc (by rw [stepRow_tx hstep])
      have hinj : ∀ x ∈ inj, x.settle = tx.settle := fun x hx =>
        (stepRow_inj_props (fun _ => True) (fun _ _ => trivial) (fun _ _ => trivial) hstep x hx).2
      have hR := runInjected_upTo tx.settle inj t1 (tx :: past) (acc ++ [d]) rest hinj h1
      generalize runInjected t1 (tx :: past) (acc ++ [d]) inj rest = R at hR ⊢
      cases R with
      | inr e => exact hR.1
      | inl s =>
        obtain ⟨t2, past2, acc2⟩ := s
        simp only at hR ⊢
        exact ih t2 past2 acc2 tx.settle (List.pairwise_cons.mp hs).2 (List.pairwise_cons.mp hs).1 hR

/-- The deltas of a run — complete or cut short by a failure — are in settlement-date order when
    the rows are. -/
theorem deltaList_sorted (dflt : Aff) (init : Option Status) (txs : List Tx)
    (hs : txs.Pairwise (fun a b => a.settle ≤ b.settle)) : DSorted (deltaList dflt init txs).1 := by
  unfold deltaList
  split
  · exact List.Pairwise.nil
  · split
    · exact List.Pairwise.nil
    · rename_i t _
      cases txs with
      | nil => simpa only [deltaLoop] using List.Pairwise.nil
      | cons x xs =>
        exact deltaLoop_sorted (x :: xs) t [] [] x.settle hs
          (by intro y hy
              simp only [List.mem_cons] at hy
              rcases hy with rfl | hy
              · exact Int.le_refl _
              · exact (List.pairwise_cons.mp hs).1 y hy)
          (UpTo.nil _)

end Acb
