/-
  C10, part 8: the sorted simple-mode summary rows for the deltas `A1`, read as the summary of the
  tracker that `A1` leads to (extracted from the proof of `C10_summary_then_later_partial`).
-/
import AcbModel.Lemmas.Carry7
import AcbModel.Lemmas.SummaryGlue4
namespace Acb

theorem simpleSummary_shape (af : Aff) (d : Delta) :
    simpleSummary af d = summaryRowsOf d.tx.settle af d.post.shares d.post.acb := by
  unfold simpleSummary summaryRowsOf zeroShareRows zeroRowsOf pricePer
  simp only
  split
  · rfl
  · cases d.post.acb <;> rfl

/-- the rows `make_summary_txs` emits for the summarisable deltas `A1` (followed by `rest`) -/
def sortedSummaryRows (A1 rest : List Delta) : List Tx :=
  (((((lastIdxPerAff (A1 ++ rest) (A1.length - 1)).flatMap (fun (p : Aff × Nat) =>
      match (A1 ++ rest)[p.2]? with | some d => simpleSummary p.1 d | none => [])).zipIdx.map
        (fun (t, i) => { t with idx := i })).foldr insertTx []).map (fun t => { t with idx := 0 }))

theorem summary_of_state (A1 rest : List Delta) (hne : A1 ≠ []) (tP : Tracker) (hTP : TrackInv tP A1)
    (hsP : DSorted A1) (others : List Aff) :
    ∃ (day : Aff → Int) (As' : List Aff), As'.Nodup ∧ (∀ d ∈ A1, d.tx.aff ∈ As') ∧ (∀ a ∈ others, a ∈ As') ∧
      summaryOfTracker tP day As' = sortedSummaryRows A1 rest ∧
      ∀ a, day a ≤ (A1.getLast hne).tx.settle := by
  generalize hlast : (A1.getLast hne).tx.settle = lastDate
  have hlastP : ∀ d ∈ A1, d.tx.settle ≤ lastDate := by
    intro d hd; rw [← hlast]; exact pairwise_le_getLast hne hsP d hd
  have hK := lastIdxPerAff_spec A1 rest hne
  unfold sortedSummaryRows
  generalize lastIdxPerAff (A1 ++ rest) (A1.length - 1) = K at hK
  let day : Aff → Int := fun a => ((lastD A1 a).map (·.tx.settle)).getD lastDate
  let g : Aff → List Tx := fun a => summaryRowsOf (day a) a (tP.bal a) (tP.acbOf a)
  have hrows : K.flatMap (fun (p : Aff × Nat) =>
        match (A1 ++ rest)[p.2]? with | some d => simpleSummary p.1 d | none => []) =
      (K.map (·.1)).flatMap g := by
    rw [List.flatMap_map]
    apply flatMap_congr_mem
    intro p hp
    obtain ⟨a, i⟩ := p
    obtain ⟨d, hdi, hdl⟩ := hK.sound a i hp
    have hi : i < A1.length := (List.getElem?_eq_some_iff.mp hdi).1
    have hget : (A1 ++ rest)[i]? = some d := by rw [List.getElem?_append_left hi]; exact hdi
    simp only [hget]
    rw [simpleSummary_shape]
    have hm := hTP a
    rw [hdl] at hm
    simp only [Option.map_some] at hm
    simp only [g, day, hdl, Option.map_some, Option.getD_some, Tracker.bal, Tracker.acbOf, hm, Function.comp]
  rw [hrows]
  have hidx0 : ∀ t ∈ (K.map (·.1)).flatMap g, t.idx = 0 := by
    intro t ht
    obtain ⟨a, _, hta⟩ := List.mem_flatMap.mp ht
    exact (summaryRowsOf_aff t hta).2.1
  have hperm := sortedSummary_perm ((K.map (·.1)).flatMap g) hidx0
  obtain ⟨extra, hnE, hmE⟩ := exists_nodup (others.filter (fun a => a ∉ K.map (·.1)))
  have hgE : ∀ a, a ∉ K.map (·.1) → g a = [] := by
    intro a ha
    have hnone : lastD A1 a = none := by
      cases hl : lastD A1 a with
      | none => rfl
      | some d => exact absurd (hK.complete a d hl) ha
    have hm := hTP a
    rw [hnone] at hm
    simp only [Option.map_none] at hm
    simp only [g, Tracker.bal, Tracker.acbOf, hm, Option.getD_none, defaultStatus, summaryRowsOf,
      zeroRowsOf]
    split
    · rename_i h; exact absurd h (by decide)
    · split
      · rename_i c hc
        split at hc
        · cases hc
        · simp only [Option.some.injEq] at hc; subst hc; simp
      · rfl
  have hall : (K.map (·.1) ++ extra).flatMap g = (K.map (·.1)).flatMap g := by
    rw [List.flatMap_append]
    have : extra.flatMap g = [] := by
      rw [List.flatMap_eq_nil_iff]
      intro a ha
      have := (hmE a).mp ha
      simp only [List.mem_filter, decide_eq_true_eq] at this
      exact hgE a this.2
    rw [this, List.append_nil]
  have hnAll : (K.map (·.1) ++ extra).Nodup := by
    refine List.nodup_append.mpr ⟨hK.nodup, hnE, ?_⟩
    intro x hx y hy e
    subst e
    have := (hmE x).mp hy
    simp only [List.mem_filter, decide_eq_true_eq] at this
    exact this.2 hx
  obtain ⟨As', hnA', hmA', hfA'⟩ := flatMap_reorder g (fun a y hy => (summaryRowsOf_aff y hy).1)
    (fun a => summaryRowsOf_length _ _ _ _) (K.map (·.1) ++ extra) hnAll _ (hperm.trans (by rw [hall]))
  refine ⟨day, As', hnA', ?_, ?_, hfA', ?_⟩
  · intro d hd
    refine (hmA' _).mpr ?_
    obtain ⟨e, he⟩ := lastD_isSome_of_mem hd
    exact List.mem_append.mpr (Or.inl (hK.complete _ e he))
  · intro a ha
    refine (hmA' _).mpr ?_
    by_cases hk : a ∈ K.map (·.1)
    · exact List.mem_append.mpr (Or.inl hk)
    · refine List.mem_append.mpr (Or.inr ((hmE _).mpr ?_))
      simp only [List.mem_filter, decide_eq_true_eq]
      exact ⟨ha, hk⟩
  · intro a
    simp only [day]
    cases hl : lastD A1 a with
    | none => simp
    | some e => simp only [Option.map_some, Option.getD_some]; exact hlastP e (lastD_some hl).2

end Acb
