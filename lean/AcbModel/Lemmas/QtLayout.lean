/-
  Layout independence (C18): a sheet that lays out some records converts exactly like the records.
-/
import AcbModel.Lemmas.QtRow
namespace Acb.Qt

theorem cellAt_layout {names : List String} {recs : List Record} {s : Sheet}
    (hl : IsLayout names recs s) (k : Nat) (h₁ : k < s.rows.length) (h₂ : k < recs.length)
    (x : String) (hx : x ∈ names) :
    cellAt s.hdr s.rows[k] x = (recs[k]).reader x := by
  obtain ⟨i, hi, hu, hc⟩ := hl.cols x hx
  exact cellAt_of_unique hi hu (hc k h₁ h₂)

theorem sheetToTxs_of_layout {recs : List Record} {s : Sheet} (hl : IsLayout usedNames recs s) :
    sheetToTxs s = convertReaders (recs.map Record.reader) := by
  unfold sheetToTxs convertReaders
  congr 1
  apply runRows_congr
  · simp [hl.nrows]
  · intro k h₁ h₂ x hx
    simp only [List.getElem_map]
    exact cellAt_layout hl k (by simpa using h₁) (by simpa using h₂) x hx

/-! Inserting a column whose header is not one of the names keeps a layout a layout. -/

theorem getElem?_insertCol_lt {α : Type} (k : Nat) (x : α) (l : List α) (j : Nat) (hj : j < k) (hk : k ≤ l.length) :
    (insertCol k x l)[j]? = l[j]? := by
  unfold insertCol
  rw [List.getElem?_append_left (by simp; omega)]
  simp [hj]

theorem getElem?_insertCol_eq {α : Type} (k : Nat) (x : α) (l : List α) (hk : k ≤ l.length) :
    (insertCol k x l)[k]? = some x := by
  unfold insertCol
  rw [List.getElem?_append_right (by simp; omega)]
  simp [Nat.min_eq_left hk]

theorem getElem?_insertCol_gt {α : Type} (k : Nat) (x : α) (l : List α) (j : Nat) (hj : k ≤ j) (hk : k ≤ l.length) :
    (insertCol k x l)[j + 1]? = l[j]? := by
  unfold insertCol
  rw [List.getElem?_append_right (by simp; omega)]
  simp only [List.length_take, Nat.min_eq_left hk]
  have : j + 1 - k = (j - k) + 1 := by omega
  rw [this]
  simp only [List.getElem?_cons_succ, List.getElem?_drop]
  congr 1; omega

/-- the sheet with one more column: header cell `h` before position `k`, row `i` filled with `fill i` -/
def Sheet.withColumn (s : Sheet) (k : Nat) (h : Cell) (fill : Nat → Cell) : Sheet :=
  { hdr := insertCol k h s.hdr
    rows := s.rows.zipIdx.map (fun p => insertCol k (fill p.2) p.1) }

theorem IsLayout.withColumn {names : List String} {recs : List Record} {s : Sheet}
    (hl : IsLayout names recs s) (hrect : ∀ r ∈ s.rows, r.length = s.hdr.length)
    (k : Nat) (hk : k ≤ s.hdr.length) (h : Cell) (hh : ∀ n ∈ names, h ≠ Cell.str n)
    (fill : Nat → Cell) : IsLayout names recs (s.withColumn k h fill) := by
  refine ⟨by simp [Sheet.withColumn, hl.nrows], ?_⟩
  intro n hn
  obtain ⟨i, hi, hu, hc⟩ := hl.cols n hn
  have hrow : ∀ (q : Nat) (h₁ : q < (s.withColumn k h fill).rows.length),
      ∃ h₀ : q < s.rows.length, (s.withColumn k h fill).rows[q] = insertCol k (fill q) s.rows[q] := by
    intro q h₁
    have h₀ : q < s.rows.length := by simpa [Sheet.withColumn] using h₁
    exact ⟨h₀, by simp [Sheet.withColumn]⟩
  by_cases hik : i < k
  · refine ⟨i, ?_, ?_, ?_⟩
    · simp only [Sheet.withColumn]; rw [getElem?_insertCol_lt k h s.hdr i hik hk]; exact hi
    · intro j hj
      simp only [Sheet.withColumn] at hj
      by_cases hjk : j < k
      · rw [getElem?_insertCol_lt k h s.hdr j hjk hk] at hj; exact hu j hj
      · by_cases hje : j = k
        · subst hje
          rw [getElem?_insertCol_eq j h s.hdr hk] at hj
          simp only [Option.some.injEq] at hj
          exact absurd hj (hh n hn)
        · obtain ⟨j', rfl⟩ : ∃ j', j = j' + 1 := ⟨j - 1, by omega⟩
          rw [getElem?_insertCol_gt k h s.hdr j' (by omega) hk] at hj
          have := hu j' hj
          omega
    · intro q h₁ h₂
      obtain ⟨h₀, he⟩ := hrow q h₁
      rw [he]
      have hlen : k ≤ (s.rows[q]).length := by rw [hrect _ (List.getElem_mem h₀)]; exact hk
      rw [getElem?_insertCol_lt k _ _ i hik hlen]
      exact hc q h₀ h₂
  · refine ⟨i + 1, ?_, ?_, ?_⟩
    · simp only [Sheet.withColumn]; rw [getElem?_insertCol_gt k h s.hdr i (by omega) hk]; exact hi
    · intro j hj
      simp only [Sheet.withColumn] at hj
      by_cases hjk : j < k
      · rw [getElem?_insertCol_lt k h s.hdr j hjk hk] at hj
        have := hu j hj
        omega
      · by_cases hje : j = k
        · subst hje
          rw [getElem?_insertCol_eq j h s.hdr hk] at hj
          simp only [Option.some.injEq] at hj
          exact absurd hj (hh n hn)
        · obtain ⟨j', rfl⟩ : ∃ j', j = j' + 1 := ⟨j - 1, by omega⟩
          rw [getElem?_insertCol_gt k h s.hdr j' (by omega) hk] at hj
          have := hu j' hj
          omega
    · intro q h₁ h₂
      obtain ⟨h₀, he⟩ := hrow q h₁
      rw [he]
      have hlen : k ≤ (s.rows[q]).length := by rw [hrect _ (List.getElem_mem h₀)]; exact hk
      rw [getElem?_insertCol_gt k _ _ i (by omega) hlen]
      exact hc q h₀ h₂

end Acb.Qt

namespace Acb.Qt

/-- executable check of `IsLayout` (used for concrete sheets) -/
def layoutCheck (names : List String) (recs : List Record) (s : Sheet) : Bool :=
  s.rows.length == recs.length &&
  names.all (fun n =>
    match headerIndex s.hdr n with
    | none => false
    | some i =>
      decide (∀ j, j < s.hdr.length → s.hdr[j]? = some (Cell.str n) → j = i) &&
      decide (∀ k, k < recs.length → (s.rows[k]?.bind (·[i]?)) = recs[k]?.map (fun r => r n)))

theorem isLayout_of_check {names : List String} {recs : List Record} {s : Sheet}
    (h : layoutCheck names recs s = true) : IsLayout names recs s := by
  unfold layoutCheck at h
  simp only [Bool.and_eq_true, beq_iff_eq, List.all_eq_true] at h
  obtain ⟨hn, hall⟩ := h
  refine ⟨hn, ?_⟩
  intro n hmem
  have := hall n hmem
  split at this
  · cases this
  · rename_i i hi
    simp only [Bool.and_eq_true, decide_eq_true_eq] at this
    obtain ⟨hu, hc⟩ := this
    refine ⟨i, headerIndex_sound hi, ?_, ?_⟩
    · intro j hj
      by_cases hlt : j < s.hdr.length
      · exact hu j hlt hj
      · rw [List.getElem?_eq_none (by omega)] at hj; cases hj
    · intro k h₁ h₂
      have := hc k h₂
      simpa [List.getElem?_eq_getElem h₁, List.getElem?_eq_getElem h₂] using this

end Acb.Qt
