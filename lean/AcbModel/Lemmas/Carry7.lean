/-
  C10, carried-over rows, part 7: what the range selection guarantees in the conflict case, and
  that a cut of the delta list at a strict increase of the settlement date is a cut of the rows.
-/
import AcbModel.Lemmas.Carry6
import AcbModel.Lemmas.SummaryGlue2
namespace Acb

abbrev DSorted (l : List Delta) : Prop := l.Pairwise (fun a b => a.tx.settle ≤ b.tx.settle)

/-- step 2 of the range selection, when it reports a conflict: the reported day is the window
    start of a flagged later delta, and no flagged later delta's window starts earlier -/
theorem firstConflict_some (lastDate : Int) :
    ∀ (B : List Delta), DSorted B → ∀ first, firstConflict lastDate B = some first →
      (∃ g ∈ B, first = g.tx.settle - Gen.sflWindowBeforeDays) ∧
      ∀ e ∈ B, e.isLossOrSfl = true → first ≤ e.tx.settle - Gen.sflWindowBeforeDays := by
  intro B
  induction B with
  | nil => intro _ first h; simp [firstConflict] at h
  | cons b B ih =>
    intro hs first h
    obtain ⟨hb, hs'⟩ := List.pairwise_cons.mp hs
    rw [firstConflict] at h
    by_cases hfl : b.isLossOrSfl = true
    · simp only [hfl, if_true] at h
      split at h
      · simp only [Option.some.injEq] at h
        subst h
        refine ⟨⟨b, by simp, rfl⟩, ?_⟩
        intro e he _
        simp only [List.mem_cons] at he
        rcases he with rfl | he
        · exact Int.le_refl _
        · have := hb e he; omega
      · cases h
    · simp only [hfl, Bool.false_eq_true, if_false] at h
      obtain ⟨⟨g, hg, hgf⟩, h2⟩ := ih hs' first h
      refine ⟨⟨g, by simp [hg], hgf⟩, ?_⟩
      intro e he hef
      simp only [List.mem_cons] at he
      rcases he with rfl | he
      · exact absurd hef hfl
      · exact h2 e he hef

/-- the cut the backwards walk chooses -/
def cutOf (o : Option Nat) : Nat := match o with | some i => i + 1 | none => 0

/-- **Step 3 of the range selection.**  `A` in settlement order, `first` not before any window
    start of `A`'s deltas: the walk cuts `A` into a summarisable part settling strictly before some
    day `F ≤ first` and a carried part none of whose deltas settles before `F` and none of whose
    flagged deltas has a window starting before `F`. -/
theorem walk_spec :
    ∀ (R A : List Delta), A = R.reverse → DSorted A → ∀ first : Int,
      (∀ d ∈ A, d.tx.settle - Gen.sflWindowBeforeDays ≤ first) →
      cutOf (latestSummarizable first (idxRev A)) ≤ A.length ∧
      ∃ F, F ≤ first ∧
        (∀ d ∈ A.take (cutOf (latestSummarizable first (idxRev A))), d.tx.settle < F) ∧
        (∀ e ∈ A.drop (cutOf (latestSummarizable first (idxRev A))),
          F ≤ e.tx.settle ∧ (e.isLossOrSfl = true → F ≤ e.tx.settle - Gen.sflWindowBeforeDays)) := by
  intro R
  induction R with
  | nil =>
    intro A hA _ first _
    subst hA
    simp only [List.reverse_nil, idxRev, List.zipIdx_nil, List.map_nil, latestSummarizable, cutOf]
    exact ⟨Nat.le_refl _, first, Int.le_refl _, by simp, by simp⟩
  | cons d R ih =>
    intro A hA hs first hub
    have hA' : A = R.reverse ++ [d] := by rw [hA]; simp
    subst hA'
    rw [idxRev_snoc, latestSummarizable]
    have hsA := List.pairwise_append.mp hs
    by_cases hlt : d.tx.settle < first
    · simp only [hlt, if_true, cutOf]
      refine ⟨by simp, first, Int.le_refl _, ?_, ?_⟩
      · intro e he
        have he' : e ∈ R.reverse ++ [d] := List.mem_of_mem_take he
        simp only [List.mem_append, List.mem_singleton] at he'
        rcases he' with he' | rfl
        · have := hsA.2.2 e he' d (by simp); omega
        · exact hlt
      · intro e he
        have : (R.reverse ++ [d]).drop (R.reverse.length + 1) = [] := by
          apply List.drop_eq_nil_of_le; simp
        rw [this] at he; simp at he
    · simp only [hlt, if_false]
      generalize hf' : (if d.isLossOrSfl = true then d.tx.settle - Gen.sflWindowBeforeDays else first) = first'
      have hle : first' ≤ first := by
        rw [← hf']; split
        · exact hub d (by simp)
        · exact Int.le_refl _
      have hub' : ∀ e ∈ R.reverse, e.tx.settle - Gen.sflWindowBeforeDays ≤ first' := by
        intro e he
        rw [← hf']; split
        · have := hsA.2.2 e he d (by simp); omega
        · exact hub e (by simp [he])
      obtain ⟨hk, F, hF, h1, h2⟩ := ih R.reverse rfl hsA.1 first' hub'
      generalize cutOf (latestSummarizable first' (idxRev R.reverse)) = k at hk h1 h2 ⊢
      refine ⟨by simp only [List.length_append, List.length_singleton]; omega, F, by omega, ?_, ?_⟩
      · intro e he
        rw [List.take_append_of_le_length hk] at he
        exact h1 e he
      · intro e he
        rw [List.drop_append_of_le_length hk] at he
        simp only [List.mem_append, List.mem_singleton] at he
        rcases he with he | rfl
        · exact h2 e he
        · constructor
          · omega
          · intro hfl
            rw [← hf'] at hF
            simp only [hfl, if_true] at hF
            exact hF

/-- **A cut of the deltas at a strict increase of the date is a cut of the rows.** -/
theorem loopPrefix_cut :
    ∀ (q r : List Tx) (t : Tracker) (past : List Tx) (acc : List Delta) (t2 : Tracker) (past2 : List Tx)
      (ext : List Delta), loopPrefix t past acc q r = .inl (t2, past2, acc ++ ext) →
      ∀ k, k ≤ ext.length → (∀ d ∈ ext.take k, ∀ e ∈ ext.drop k, d.tx.settle < e.tx.settle) →
      ∃ q1 q2 t1 past1, q = q1 ++ q2 ∧
        loopPrefix t past acc q1 (q2 ++ r) = .inl (t1, past1, acc ++ ext.take k) ∧
        loopPrefix t1 past1 (acc ++ ext.take k) q2 r = .inl (t2, past2, acc ++ ext) := by
  intro q
  induction q with
  | nil =>
    intro r t past acc t2 past2 ext h k hk _
    simp only [loopPrefix, Sum.inl.injEq, Prod.mk.injEq] at h
    obtain ⟨rfl, rfl, h3⟩ := h
    have : ext = [] := by simpa using h3.symm
    subst this
    exact ⟨[], [], t, past, rfl, by simp [loopPrefix], by simp [loopPrefix]⟩
  | cons x qs ih =>
    intro r t past acc t2 past2 ext h k hk hcut
    by_cases hk0 : k = 0
    · subst hk0
      exact ⟨[], x :: qs, t, past, rfl, by simp [loopPrefix], by simpa using h⟩
    · have h0 := h
      rw [loopPrefix] at h
      cases hstep : stepRow t x past (qs ++ r) with
      | error e => rw [hstep] at h; cases h
      | ok res =>
        obtain ⟨d, t1, inj⟩ := res
        rw [hstep] at h
        simp only at h
        cases hR : runInjected t1 (x :: past) (acc ++ [d]) inj (qs ++ r) with
        | inr e => rw [hR] at h; cases h
        | inl s =>
          obtain ⟨ta, pa, acca⟩ := s
          rw [hR] at h
          simp only at h
          obtain ⟨outinj, ho1, ho2⟩ := runInjected_txs _ _ _ _ _ _ _ _ hR
          obtain ⟨extR, heR1, _⟩ := loopPrefix_core qs r ta pa acca t2 past2 (acc ++ ext) h
          have hext : ext = d :: (outinj ++ extR) := by
            have : acc ++ ext = acc ++ (d :: (outinj ++ extR)) := by rw [heR1, ho1]; simp
            exact List.append_cancel_left this
          subst hext
          -- the block `d :: outinj` carries one date
          have hdate : ∀ e ∈ outinj, e.tx.settle = d.tx.settle := by
            intro e he
            have : e.tx ∈ inj := by rw [← ho2]; exact List.mem_map_of_mem he
            rw [(stepRow_inj_props (fun _ => True) (fun _ _ => trivial) (fun _ _ => trivial) hstep _ this).2,
              stepRow_tx hstep]
          -- so the cut is not inside it
          have hkb : 1 + outinj.length ≤ k := by
            apply Nat.le_of_not_lt
            intro hlt
            have hd : d ∈ (d :: (outinj ++ extR)).take k := by
              obtain ⟨k', rfl⟩ : ∃ k', k = k' + 1 := ⟨k - 1, by omega⟩
              simp
            have hidx : k - 1 < outinj.length := by omega
            have he : outinj[k - 1] ∈ (d :: (outinj ++ extR)).drop k := by
              obtain ⟨k', rfl⟩ : ∃ k', k = k' + 1 := ⟨k - 1, by omega⟩
              simp only [List.drop_succ_cons, Nat.add_sub_cancel]
              simp only [Nat.add_sub_cancel] at hidx
              rw [List.drop_append_of_le_length (by omega)]
              exact List.mem_append_left _ (List.mem_drop_iff_getElem.mpr ⟨0, by simpa using hidx, by simp⟩)
            have := hcut d hd _ he
            rw [hdate _ (List.getElem_mem _)] at this
            omega
          obtain ⟨k', rfl⟩ : ∃ k', k = 1 + outinj.length + k' := ⟨k - (1 + outinj.length), by omega⟩
          have htake : (d :: (outinj ++ extR)).take (1 + outinj.length + k') = d :: (outinj ++ extR.take k') := by
            rw [show 1 + outinj.length + k' = (outinj.length + k') + 1 by omega, List.take_succ_cons,
              List.take_append, List.take_of_length_le (by omega),
              show outinj.length + k' - outinj.length = k' by omega]
          have hdrop : (d :: (outinj ++ extR)).drop (1 + outinj.length + k') = extR.drop k' := by
            rw [show 1 + outinj.length + k' = (outinj.length + k') + 1 by omega, List.drop_succ_cons,
              List.drop_append, List.drop_of_length_le (by omega),
              show outinj.length + k' - outinj.length = k' by omega]
            simp
          rw [htake, hdrop] at hcut
          have hk' : k' ≤ extR.length := by simp at hk; omega
          have hacca : acca = (acc ++ [d] ++ outinj) := ho1
          rw [hacca] at h
          have h' : loopPrefix ta pa (acc ++ [d] ++ outinj) qs r = .inl (t2, past2, (acc ++ [d] ++ outinj) ++ extR) := by
            rw [h]; simp
          obtain ⟨q1, q2, tm, pm, hq, hl1, hl2⟩ := ih r ta pa (acc ++ [d] ++ outinj) t2 past2 extR h' k' hk'
            (fun a ha b hb => hcut a (by simp [ha]) b hb)
          refine ⟨x :: q1, q2, tm, pm, by simp [hq], ?_, ?_⟩
          · rw [htake, loopPrefix]
            have e1 : q1 ++ (q2 ++ r) = qs ++ r := by rw [hq]; simp
            rw [e1, hstep]
            simp only
            rw [hR]
            simp only
            rw [hacca, hl1]
            simp
          · rw [htake]
            have e2 : acc ++ d :: (outinj ++ List.take k' extR) = acc ++ [d] ++ outinj ++ List.take k' extR := by simp
            rw [e2, hl2]
            simp

end Acb
