/-
  Finite sums over a duplicate-free list of affiliates.
-/
import AcbModel.Ledger.Sfl
namespace Acb

@[simp] theorem sumOver_nil (f : Aff → Rat) : sumOver [] f = 0 := by simp [sumOver]

@[simp] theorem sumOver_cons (a : Aff) (l : List Aff) (f : Aff → Rat) :
    sumOver (a :: l) f = f a + sumOver l f := by simp [sumOver]

theorem sumOver_congr {l : List Aff} {f g : Aff → Rat} (h : ∀ a ∈ l, f a = g a) :
    sumOver l f = sumOver l g := by
  induction l with
  | nil => simp
  | cons x xs ih =>
    simp only [sumOver_cons]
    rw [h x (by simp), ih (fun a ha => h a (by simp [ha]))]

theorem sumOver_nonneg {l : List Aff} {f : Aff → Rat} (h : ∀ a ∈ l, 0 ≤ f a) : 0 ≤ sumOver l f := by
  induction l with
  | nil => simp
  | cons x xs ih =>
    simp only [sumOver_cons]
    have h1 := h x (by simp)
    have h2 := ih (fun a ha => h a (by simp [ha]))
    grind

theorem le_sumOver {l : List Aff} {f : Aff → Rat} (h : ∀ a ∈ l, 0 ≤ f a) {a : Aff} (ha : a ∈ l) :
    f a ≤ sumOver l f := by
  induction l with
  | nil => simp at ha
  | cons x xs ih =>
    simp only [sumOver_cons]
    have hx := h x (by simp)
    have hs := sumOver_nonneg (fun b hb => h b (by simp [hb]) : ∀ b ∈ xs, 0 ≤ f b)
    simp only [List.mem_cons] at ha
    rcases ha with rfl | ha
    · grind
    · have := ih (fun b hb => h b (by simp [hb])) ha
      grind

/-- Changing `f` at one point of a duplicate-free list changes the sum by the difference. -/
theorem sumOver_upd {l : List Aff} (hn : l.Nodup) {f : Aff → Rat} {a : Aff} (ha : a ∈ l) (v : Rat) :
    sumOver l (fun x => if x = a then v else f x) = sumOver l f - f a + v := by
  induction l with
  | nil => simp at ha
  | cons x xs ih =>
    simp only [sumOver_cons]
    have hnx : x ∉ xs := (List.nodup_cons.mp hn).1
    have hnn : xs.Nodup := (List.nodup_cons.mp hn).2
    simp only [List.mem_cons] at ha
    by_cases hxa : x = a
    · subst hxa
      have : sumOver xs (fun y => if y = x then v else f y) = sumOver xs f := by
        apply sumOver_congr
        intro b hb
        have : b ≠ x := fun e => hnx (e ▸ hb)
        simp [this]
      simp only [this, if_true]
      grind
    · have ha' : a ∈ xs := by
        rcases ha with rfl | h
        · exact absurd rfl hxa
        · exact h
      rw [ih hnn ha']
      simp only [hxa, if_false]
      grind

theorem sumOver_add (l : List Aff) (f g : Aff → Rat) :
    sumOver l (fun a => f a + g a) = sumOver l f + sumOver l g := by
  induction l with
  | nil => simp; grind
  | cons x xs ih => simp only [sumOver_cons, ih]; grind

theorem sumOver_mul_right (l : List Aff) (f : Aff → Rat) (c : Rat) :
    sumOver l (fun a => f a * c) = sumOver l f * c := by
  induction l with
  | nil => simp; try grind
  | cons x xs ih => simp only [sumOver_cons, ih]; grind

end Acb
