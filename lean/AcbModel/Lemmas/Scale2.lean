/-
  Split neutrality (C15), part 2: the superficial-loss computation and the arms under scaling.
-/
import AcbModel.Lemmas.Scale
namespace Acb

theorem rmin_scale {f : Rat} (hf : 0 < f) (a b : Rat) : rmin (a * f) (b * f) = rmin a b * f := by
  unfold rmin
  have : b * f < a * f ↔ b < a := by
    constructor
    · intro h
      by_cases hb : b < a
      · exact hb
      · have : (a - b) * f ≤ 0 := by
          have h1 : 0 ≤ (b - a) * f := Rat.mul_nonneg (by grind) (by grind)
          grind
        grind
    · intro h
      have : 0 < (a - b) * f := Rat.mul_pos (by grind) hf
      grind
  by_cases hb : b < a
  · simp [hb, this.mpr hb]
  · have : ¬ b * f < a * f := fun h => hb (this.mp h)
    simp [hb, this]

theorem min3_scale {f : Rat} (hf : 0 < f) (a b c : Rat) : min3 (a * f) (b * f) (c * f) = min3 a b c * f := by
  unfold min3; rw [rmin_scale hf, rmin_scale hf]

structure SliScaled (f : Rat) (i i' : SliInfo) : Prop where
  allEop : i'.allEop = i.allEop * f
  acquired : i'.acquired = i.acquired * f
  buyers : i'.buyers = i.buyers
  active : ∀ a, i'.active a = (i.active a).map (· * f)

def SliResScaled (f : Rat) : Except Failure (Option SliInfo) → Except Failure (Option SliInfo) → Prop
  | .error e, .error e' => e = e'
  | .ok none, .ok none => True
  | .ok (some i), .ok (some i') => SliScaled f i i'
  | _, _ => False

theorem pos_scale {x f : Rat} (hf : 0 < f) : 0 < x * f ↔ 0 < x := by
  constructor
  · intro h
    by_cases hx : 0 < x
    · exact hx
    · have : 0 ≤ (-x) * f := Rat.mul_nonneg (by grind) (by grind)
      grind
  · intro h; exact Rat.mul_pos h hf

theorem initScan_scaled {f : Rat} {t t' : Tracker} (ht : TrackerScaled f t t') (seller : Aff) (sold : Rat) :
    ScanScaled f (initScan t seller sold) (initScan t' seller (sold * f)) := by
  refine ⟨rfl, ?_, by simp [initScan], rfl, ?_⟩
  · simp only [initScan]; rw [ht.postAll]; grind
  · intro a
    simp only [initScan, upd]
    by_cases ha : a = seller
    · simp only [ha, if_true, Option.map_some, Option.some.injEq]; rw [ht.bal]; grind
    · simp [ha]

/-- **The window scan of a sale after the inserted split is the scaled scan.** -/
theorem sflInfo_scaled {f : Rat} (hf : 0 < f) {t t' : Tracker} (ht : TrackerScaled f t t')
    (seller : Aff) (settle : Int) (sold : Rat) (day : Int) (idx : Nat) (post pre : Rat)
    (hfac : f = splitFactor post pre) (As : List Aff) (hn : As.Nodup)
    (p0 : List Tx) (hp0 : ∀ x ∈ p0, x.aff ∈ As ∧ x.settle ≤ day)
    (p1 p1' : List Tx) (hrel : RowsRel f p1 p1') (hp1 : ∀ x ∈ p1, x.aff ∈ As) (future : List Tx) :
    SliResScaled f (sflInfo t seller settle sold (p1 ++ p0) future)
      (sflInfo t' seller settle (sold * f) (p1' ++ splitRows day idx post pre As ++ p0) (future.map (restateTx f))) := by
  unfold sflInfo
  simp only
  have e1 : t'.latestPostAll - sold * f = (t.latestPostAll - sold) * f := by rw [ht.postAll]; grind
  have e2 : t'.bal seller - sold * f = (t.bal seller - sold) * f := by rw [ht.bal]; grind
  rw [e1, e2]
  by_cases c1 : t.latestPostAll - sold < 0
  · simp [c1, (lt_zero_scale hf).mpr c1, SliResScaled]
  · have c1' : ¬ (t.latestPostAll - sold) * f < 0 := fun h => c1 ((lt_zero_scale hf).mp h)
    simp only [c1, c1', if_false]
    by_cases c2 : t.bal seller - sold < 0
    · simp [c2, (lt_zero_scale hf).mpr c2, SliResScaled]
    · have c2' : ¬ (t.bal seller - sold) * f < 0 := fun h => c2 ((lt_zero_scale hf).mp h)
      simp only [c2, c2', if_false]
      have hfwd := scanFwd_scaled hf ht (settle + Gen.sflWindowAfterDays) future _ _ (initScan_scaled ht seller sold)
      cases hA : scanFwd t (settle + Gen.sflWindowAfterDays) (initScan t seller sold) future with
      | error e =>
        cases hB : scanFwd t' (settle + Gen.sflWindowAfterDays) (initScan t' seller (sold * f)) (future.map (restateTx f)) with
        | error e' => rw [hA, hB] at hfwd; simpa [SliResScaled, ScanResScaled] using hfwd
        | ok s' => rw [hA, hB] at hfwd; simp [ScanResScaled] at hfwd
      | ok s1 =>
        cases hB : scanFwd t' (settle + Gen.sflWindowAfterDays) (initScan t' seller (sold * f)) (future.map (restateTx f)) with
        | error e' => rw [hA, hB] at hfwd; simp [ScanResScaled] at hfwd
        | ok s1' =>
          rw [hA, hB] at hfwd
          have hs : ScanScaled f s1 s1' := hfwd
          simp only
          have hpos : (0 < s1'.allEop) ↔ (0 < s1.allEop) := by rw [hs.allEop]; exact pos_scale hf
          by_cases c3 : 0 < s1.allEop
          · have c3' : 0 < s1'.allEop := hpos.mpr c3
            simp only [c3, c3', not_true_eq_false, if_false]
            have hb0 : BwdRel f 1 As { s1 with adj := fun _ => 1 } { s1' with adj := fun _ => 1 } :=
              ⟨fun a _ => by simp, hs.acquired, hs.buyers, hs.active⟩
            have hfin := scanBwd_mixed ht (settle - Gen.sflWindowBeforeDays) day idx post pre hfac As hn p0 hp0
              p1 p1' hrel _ _ hp1 hb0
            have hacq : (0 < (scanBwd t' (settle - Gen.sflWindowBeforeDays) { s1' with adj := fun _ => 1 }
                (p1' ++ splitRows day idx post pre As ++ p0)).acquired) ↔
                (0 < (scanBwd t (settle - Gen.sflWindowBeforeDays) { s1 with adj := fun _ => 1 } (p1 ++ p0)).acquired) := by
              rw [hfin.acquired]; exact pos_scale hf
            by_cases c4 : 0 < (scanBwd t (settle - Gen.sflWindowBeforeDays) { s1 with adj := fun _ => 1 } (p1 ++ p0)).acquired
            · simp only [c4, hacq.mpr c4, if_true, SliResScaled]
              exact ⟨hs.allEop, hfin.acquired, hfin.buyers, hfin.active⟩
            · have c4' : ¬ 0 < (scanBwd t' (settle - Gen.sflWindowBeforeDays) { s1' with adj := fun _ => 1 }
                  (p1' ++ splitRows day idx post pre As ++ p0)).acquired := fun h => c4 (hacq.mp h)
              simp only [c4, c4', if_false, SliResScaled]
          · have c3' : ¬ 0 < s1'.allEop := fun h => c3 (hpos.mp h)
            simp [c3, c3', SliResScaled]

end Acb

namespace Acb

def scalePortion (f : Rat) (p : Aff × Rat × Rat) : Aff × Rat × Rat := (p.1, p.2.1 * f, p.2.2 * f)

structure RatioScaled (f : Rat) (r r' : SflRatio) : Prop where
  num : r'.num = r.num * f
  den : r'.den = r.den * f
  portions : r'.portions = r.portions.map (scalePortion f)
  over : r'.over = r.over
  margin : r'.overMargin = r.overMargin * f

theorem buyersTotal_scaled {f : Rat} {i i' : SliInfo} (h : SliScaled f i i') :
    buyersTotal i' = buyersTotal i * f := by
  unfold buyersTotal
  rw [h.buyers, ← sumOver_mul_right]
  apply sumOver_congr
  intro a _
  rw [h.active a]; cases i.active a <;> simp

theorem portionsOf_scaled {f : Rat} {active active' : Aff → Option Rat} (tot : Rat)
    (h : ∀ a, active' a = (active a).map (· * f)) :
    ∀ (l : List Aff),
      portionsOf active' (tot * f) l =
        (match portionsOf active tot l with
         | .error e => .error e
         | .ok r => .ok (r.map (scalePortion f))) := by
  intro l
  induction l with
  | nil => simp [portionsOf]
  | cons a as ih =>
    unfold portionsOf
    rw [h a, ih]
    cases active a with
    | none => simp
    | some v =>
      simp only [Option.map_some]
      cases portionsOf active tot as with
      | error e => simp
      | ok r => simp [scalePortion]

theorem calcRatio_scaled {f : Rat} (hf : 0 < f) {sold : Rat} {i i' : SliInfo} (h : SliScaled f i i') :
    (match calcRatio sold i, calcRatio (sold * f) i' with
     | .error e, .error e' => e = e'
     | .ok r, .ok r' => RatioScaled f r r'
     | _, _ => False) := by
  unfold calcRatio
  simp only
  rw [h.buyers]
  by_cases hl : i.buyers.length = 0
  · simp [hl]
  · simp only [hl, if_false]
    have htot := buyersTotal_scaled h
    have hnum : min3 (sold * f) i'.acquired i'.allEop = min3 sold i.acquired i.allEop * f := by
      rw [h.acquired, h.allEop]; exact min3_scale hf _ _ _
    rw [htot]
    have hpos : (0 < buyersTotal i * f) ↔ (0 < buyersTotal i) := pos_scale hf
    by_cases ht : 0 < buyersTotal i
    · simp only [ht, hpos.mpr ht, if_true]
      rw [← h.buyers, portionsOf_scaled (buyersTotal i) h.active, h.buyers]
      cases portionsOf i.active (buyersTotal i) i.buyers with
      | error e => simp
      | ok r =>
        simp only
        refine ⟨hnum, rfl, rfl, ?_, ?_⟩
        · simp only [hnum]
          have : (buyersTotal i * f < min3 sold i.acquired i.allEop * f) ↔ (buyersTotal i < min3 sold i.acquired i.allEop) := by
            have := lt_zero_scale (x := buyersTotal i - min3 sold i.acquired i.allEop) hf
            constructor
            · intro h'; have := this.mp (by grind); grind
            · intro h'; have := this.mpr (by grind); grind
          simp [this]
        · simp only [hnum]; grind
    · have ht' : ¬ 0 < buyersTotal i * f := fun h' => ht (hpos.mp h')
      simp only [ht, ht', if_false]
      refine ⟨hnum, rfl, rfl, ?_, ?_⟩
      · simp only [hnum]
        have : (buyersTotal i * f < min3 sold i.acquired i.allEop * f) ↔ (buyersTotal i < min3 sold i.acquired i.allEop) := by
          have := lt_zero_scale (x := buyersTotal i - min3 sold i.acquired i.allEop) hf
          constructor
          · intro h'; have := this.mp (by grind); grind
          · intro h'; have := this.mpr (by grind); grind
        simp [this]
      · simp only [hnum]; grind

end Acb


namespace Acb

theorem insertByKey_scaled (f : Rat) (x : Aff × Rat × Rat) (l : List (Aff × Rat × Rat)) :
    insertByKey (scalePortion f x) (l.map (scalePortion f)) = (insertByKey x l).map (scalePortion f) := by
  induction l with
  | nil => simp [insertByKey]
  | cons y ys ih =>
    simp only [List.map_cons, insertByKey]
    have : (scalePortion f x).1.key ≤ (scalePortion f y).1.key ↔ x.1.key ≤ y.1.key := by simp [scalePortion]
    by_cases hk : x.1.key ≤ y.1.key
    · simp [hk, this.mpr hk]
    · have : ¬ (scalePortion f x).1.key ≤ (scalePortion f y).1.key := fun h => hk (this.mp h)
      simp [hk, this, ih]

theorem sortByKey_scaled (f : Rat) (l : List (Aff × Rat × Rat)) :
    sortByKey (l.map (scalePortion f)) = (sortByKey l).map (scalePortion f) := by
  unfold sortByKey
  induction l with
  | nil => simp
  | cons y ys ih => simp only [List.map_cons, List.foldr_cons, ih, insertByKey_scaled]

theorem scaled_ratio_eq {f : Rat} (hf : f ≠ 0) (n d : Rat) : n * f / (d * f) = n / d := by
  by_cases hd : d = 0
  · subst hd; simp [Rat.div_def]
  · grind

/-- The generated SfLA rows do not depend on the scaling: the per-affiliate shares `n/d` are
    ratios of share counts. -/
theorem adjustTxs_scaled {f : Rat} (hf : f ≠ 0) (tx : Tx) (c : Rat) :
    ∀ (l : List (Aff × Rat × Rat)),
      adjustTxs (restateTx f tx) c (l.map (scalePortion f)) = adjustTxs tx c l := by
  intro l
  induction l with
  | nil => simp [adjustTxs]
  | cons p ps ih =>
    obtain ⟨af, n, d⟩ := p
    simp only [List.map_cons, scalePortion]
    unfold adjustTxs
    rw [ih]
    simp only [scaled_ratio_eq hf]
    rfl

/-- the part of `get_delta_superficial_loss_info` after the ratio is known -/
def dsiFromRatio (tx : Tx) (sold : Rat) (spec : Option (Rat × Bool)) (loss : Rat)
    (msflE : Except Failure (Option SflRatio)) : Except Failure (Option (SflInfo × List Tx)) :=
  match msflE with
  | .error f => .error f
  | .ok msfl =>
    let csfl : Rat := match msfl with
      | none => 0
      | some r => effCent (loss * (r.num / r.den))
    match spec with
    | some (v, force) =>
      if !force && (rabs (csfl - v) > sflMaxDiff) then .error (.err .sflMismatch)
      else if v < 0 then
        .ok (some ({ loss := v, num := (v / loss) * sold, den := sold, over := false }, []))
      else .ok none
    | none =>
      match msfl with
      | none => .ok none
      | some r =>
        if ¬ (csfl < 0) then .ok none
        else
          match adjustTxs tx csfl (sortByKey r.portions) with
          | .error f => .error f
          | .ok adj =>
            .ok (some ({ loss := csfl, num := r.num, den := r.den, over := r.over, overMargin := r.overMargin }, adj))

theorem deltaSflInfo_eq (t : Tracker) (tx : Tx) (sold : Rat) (spec : Option (Rat × Bool)) (loss : Rat)
    (past future : List Tx) :
    deltaSflInfo t tx sold spec loss past future =
      dsiFromRatio tx sold spec loss (sflRatio t tx.aff tx.settle sold past future) := by
  unfold deltaSflInfo dsiFromRatio
  cases sflRatio t tx.aff tx.settle sold past future with
  | error e => rfl
  | ok msfl =>
    cases msfl with
    | none => cases spec <;> rfl
    | some r => cases spec <;> rfl

def sflInfoScaled (f : Rat) (a b : SflInfo) : Prop :=
  b.loss = a.loss ∧ b.num = a.num * f ∧ b.den = a.den * f ∧ b.over = a.over

def DsiResScaled (f : Rat) :
    Except Failure (Option (SflInfo × List Tx)) → Except Failure (Option (SflInfo × List Tx)) → Prop
  | .error e, .error e' => e = e'
  | .ok none, .ok none => True
  | .ok (some (i, adj)), .ok (some (i', adj')) => sflInfoScaled f i i' ∧ adj' = adj
  | _, _ => False

def RatioResScaled (f : Rat) : Except Failure (Option SflRatio) → Except Failure (Option SflRatio) → Prop
  | .error e, .error e' => e = e'
  | .ok none, .ok none => True
  | .ok (some r), .ok (some r') => RatioScaled f r r'
  | _, _ => False

theorem dsiFromRatio_scaled {f : Rat} (hf : f ≠ 0) (tx : Tx) (sold : Rat) (spec : Option (Rat × Bool)) (loss : Rat)
    {m m' : Except Failure (Option SflRatio)} (h : RatioResScaled f m m') :
    DsiResScaled f (dsiFromRatio tx sold spec loss m) (dsiFromRatio (restateTx f tx) (sold * f) spec loss m') := by
  cases m with
  | error e =>
    cases m' with
    | error e' => simpa [dsiFromRatio, DsiResScaled, RatioResScaled] using h
    | ok o' => cases o' <;> simp [RatioResScaled] at h
  | ok o =>
    cases m' with
    | error e' => cases o <;> simp [RatioResScaled] at h
    | ok o' =>
      cases o with
      | none =>
        cases o' with
        | some _ => simp [RatioResScaled] at h
        | none =>
          cases spec with
          | none => simp [dsiFromRatio, DsiResScaled]
          | some p =>
            obtain ⟨v, force⟩ := p
            simp only [dsiFromRatio]
            split
            · simp [DsiResScaled]
            · split
              · simp only [DsiResScaled, sflInfoScaled, and_true, true_and]; grind
              · simp [DsiResScaled]
      | some r =>
        cases o' with
        | none => simp [RatioResScaled] at h
        | some r' =>
          have hr : RatioScaled f r r' := h
          have eratio : r'.num / r'.den = r.num / r.den := by rw [hr.num, hr.den]; exact scaled_ratio_eq hf _ _
          cases spec with
          | some p =>
            obtain ⟨v, force⟩ := p
            simp only [dsiFromRatio, eratio]
            split
            · simp [DsiResScaled]
            · split
              · simp only [DsiResScaled, sflInfoScaled, and_true, true_and]; grind
              · simp [DsiResScaled]
          | none =>
            simp only [dsiFromRatio, eratio]
            split
            · simp [DsiResScaled]
            · rw [hr.portions, sortByKey_scaled, adjustTxs_scaled hf]
              cases adjustTxs tx (effCent (loss * (r.num / r.den))) (sortByKey r.portions) with
              | error e => simp [DsiResScaled]
              | ok adj => simp [DsiResScaled, sflInfoScaled, hr.num, hr.den, hr.over]

end Acb

namespace Acb

theorem sflRatio_scaled {f : Rat} (hf : 0 < f) {t t' : Tracker} (ht : TrackerScaled f t t')
    (seller : Aff) (settle : Int) (sold : Rat) (day : Int) (idx : Nat) (post pre : Rat)
    (hfac : f = splitFactor post pre) (As : List Aff) (hn : As.Nodup)
    (p0 : List Tx) (hp0 : ∀ x ∈ p0, x.aff ∈ As ∧ x.settle ≤ day)
    (p1 p1' : List Tx) (hrel : RowsRel f p1 p1') (hp1 : ∀ x ∈ p1, x.aff ∈ As) (future : List Tx) :
    RatioResScaled f (sflRatio t seller settle sold (p1 ++ p0) future)
      (sflRatio t' seller settle (sold * f) (p1' ++ splitRows day idx post pre As ++ p0) (future.map (restateTx f))) := by
  have hsli := sflInfo_scaled hf ht seller settle sold day idx post pre hfac As hn p0 hp0 p1 p1' hrel hp1 future
  unfold sflRatio
  generalize sflInfo t seller settle sold (p1 ++ p0) future = A at hsli ⊢
  generalize sflInfo t' seller settle (sold * f) (p1' ++ splitRows day idx post pre As ++ p0) (future.map (restateTx f)) = B at hsli ⊢
  cases A with
  | error e =>
    cases B with
    | error e' => simpa [RatioResScaled, SliResScaled] using hsli
    | ok o => cases o <;> simp [SliResScaled] at hsli
  | ok o =>
    cases B with
    | error e' => cases o <;> simp [SliResScaled] at hsli
    | ok o' =>
      cases o with
      | none =>
        cases o' with
        | some _ => simp [SliResScaled] at hsli
        | none => simp [RatioResScaled]
      | some i =>
        cases o' with
        | none => simp [SliResScaled] at hsli
        | some i' =>
          have hs : SliScaled f i i' := hsli
          have hcr := calcRatio_scaled hf (sold := sold) hs
          simp only
          generalize calcRatio sold i = C at hcr ⊢
          generalize calcRatio (sold * f) i' = D at hcr ⊢
          cases C with
          | error e =>
            cases D with
            | error e' => simpa [RatioResScaled] using hcr
            | ok r' => simp at hcr
          | ok r =>
            cases D with
            | error e' => simp at hcr
            | ok r' => simpa [RatioResScaled] using hcr

/-- `get_delta_superficial_loss_info` of a sale after the inserted split: same decision, same
    amount, same adjustment rows; the ratio's share counts scaled. -/
theorem deltaSflInfo_scaled {f : Rat} (hf : 0 < f) {t t' : Tracker} (ht : TrackerScaled f t t')
    (tx : Tx) (sold : Rat) (spec : Option (Rat × Bool)) (loss : Rat)
    (day : Int) (idx : Nat) (post pre : Rat)
    (hfac : f = splitFactor post pre) (As : List Aff) (hn : As.Nodup)
    (p0 : List Tx) (hp0 : ∀ x ∈ p0, x.aff ∈ As ∧ x.settle ≤ day)
    (p1 p1' : List Tx) (hrel : RowsRel f p1 p1') (hp1 : ∀ x ∈ p1, x.aff ∈ As) (future : List Tx) :
    DsiResScaled f (deltaSflInfo t tx sold spec loss (p1 ++ p0) future)
      (deltaSflInfo t' (restateTx f tx) (sold * f) spec loss
        (p1' ++ splitRows day idx post pre As ++ p0) (future.map (restateTx f))) := by
  rw [deltaSflInfo_eq, deltaSflInfo_eq]
  exact dsiFromRatio_scaled (by grind) tx sold spec loss
    (sflRatio_scaled hf ht tx.aff tx.settle sold day idx post pre hfac As hn p0 hp0 p1 p1' hrel hp1 future)

end Acb
