/-
  C10, carried-over rows, part 5: the loop over a stretch of rows, replayed over the carried forms
  of its deltas (phase C), and the loop over identical rows from related states (phase B).
-/
import AcbModel.Lemmas.Carry4
namespace Acb

theorem core_append (a b : List Tx) : core (a ++ b) = core a ++ core b := by
  unfold core; simp [List.filter_append]

theorem core_sfla_rows {l : List Tx} (h : ∀ x ∈ l, IsSflaRow x) : core l = [] := by
  unfold core
  have : l.filter (fun x => !isSflaB x) = [] := by
    apply List.filter_eq_nil_iff.mpr
    intro x hx
    simp [(isSflaB_iff x).mpr (h x hx)]
  rw [this]; rfl

theorem core_carry_single (d : Delta) : core [carryTx d] = core [d.tx] := by
  rw [carryTx_eq]
  have hp := carryOf_props d.sfl d.tx
  unfold core
  have hs : isSflaB (carryOf d.sfl d.tx) = isSflaB d.tx := by
    have := hp.2.2.2.2
    unfold isSflaB
    unfold eraseSpec at this
    have hact : eraseSpecAct (carryOf d.sfl d.tx).act = eraseSpecAct d.tx.act := by
      have := congrArg Tx.act this; simpa using this
    cases h1 : (carryOf d.sfl d.tx).act <;> cases h2 : d.tx.act <;> simp [h1, h2, eraseSpecAct] at hact ⊢
  simp only [List.filter_cons, hs, List.filter_nil]
  split
  · simp [hp.2.2.2.2]
  · rfl

/-- the carried forms of the deltas of a stretch of rows are those rows, up to declared amounts and
    adjustment rows -/
theorem loopPrefix_core :
    ∀ (q r : List Tx) (t : Tracker) (past : List Tx) (acc : List Delta) (t2 : Tracker) (past2 : List Tx)
      (acc2 : List Delta), loopPrefix t past acc q r = .inl (t2, past2, acc2) →
      ∃ ext, acc2 = acc ++ ext ∧ core (ext.map carryTx) = core q := by
  intro q
  induction q with
  | nil =>
    intro r t past acc t2 past2 acc2 h
    simp only [loopPrefix, Sum.inl.injEq, Prod.mk.injEq] at h
    exact ⟨[], by simp [h.2.2], rfl⟩
  | cons x qs ih =>
    intro r t past acc t2 past2 acc2 h
    rw [loopPrefix] at h
    cases hstep : stepRow t x past (qs ++ r) with
    | error e => rw [hstep] at h; cases h
    | ok res =>
      obtain ⟨d, t1, inj⟩ := res
      rw [hstep] at h
      simp only at h
      cases hR : runInjected t1 (x :: past) (acc ++ [d]) inj (qs ++ r) with
      | inr e => rw [hR] at h; cases h
      | inl s =>
        obtain ⟨ta, pa, acca⟩ := s
        rw [hR] at h
        simp only at h
        obtain ⟨outinj, ho1, ho2⟩ := runInjected_txs _ _ _ _ _ _ _ _ hR
        obtain ⟨ext, he1, he2⟩ := ih r ta pa acca t2 past2 acc2 h
        refine ⟨d :: (outinj ++ ext), by simp [he1, ho1], ?_⟩
        have hinjS : ∀ y ∈ inj, IsSflaRow y := fun y hy => stepRow_inj hstep y hy
        have hsf : ∀ e ∈ outinj, IsSflaRow e.tx := by
          intro e he; apply hinjS; rw [← ho2]; exact List.mem_map_of_mem he
        have hcar : outinj.map carryTx = outinj.map (·.tx) := by
          apply List.map_congr_left
          intro e he
          obtain ⟨sh, ps, hact⟩ := hsf e he
          rw [carryTx_eq]; unfold carryOf; cases e.sfl <;> simp [hact]
        have h1 : core ((d :: (outinj ++ ext)).map carryTx) =
            core [carryTx d] ++ (core (outinj.map carryTx) ++ core (ext.map carryTx)) := by
          rw [List.map_cons, List.map_append, ← core_append, ← core_append]; rfl
        rw [h1, core_carry_single, stepRow_tx hstep, hcar, ho2, core_sfla_rows hinjS, he2, List.nil_append,
          ← core_append]
        rfl

inductive DeltasCarry : List Delta → List Delta → Prop
  | nil : DeltasCarry [] []
  | cons {d d' : Delta} {l l' : List Delta} : DeltaCarry d d' → DeltasCarry l l' → DeltasCarry (d :: l) (d' :: l')

theorem DeltasCarry.append {a a' b b' : List Delta} (h1 : DeltasCarry a a') (h2 : DeltasCarry b b') :
    DeltasCarry (a ++ b) (a' ++ b') := by
  induction h1 with
  | nil => exact h2
  | cons hd _ ih => exact DeltasCarry.cons hd ih

theorem DeltasCarry.refl_sfla : ∀ (l : List Delta), (∀ e ∈ l, carryTx e = e.tx) → DeltasCarry l l := by
  intro l
  induction l with
  | nil => intro _; exact DeltasCarry.nil
  | cons e l ih =>
    intro h
    exact DeltasCarry.cons (DeltaCarry.refl_of (h e (by simp))) (ih (fun e' he' => h e' (by simp [he'])))

theorem PastSim.cons {X X' : List Tx} (h : PastSim X X') {x x' : Tx} (hx : eraseSpec x = eraseSpec x') :
    PastSim (x :: X) (x' :: X') := ⟨by simp [h.erase, hx]⟩

theorem PastSim.prepend {X X' : List Tx} (h : PastSim X X') (l : List Tx) : PastSim (l ++ X) (l ++ X') :=
  ⟨by simp [h.erase]⟩

/-- **Phase C.**  A stretch `q` of rows, processed without failure from the tracker `t` with the
    processed rows `X ++ P`, yielding the deltas `ext`; the carried forms of those deltas, processed
    from a tracker `t'` with the same observables and the processed rows `X' ++ P'`: no failure, the
    same figures row by row, and related states at the end. -/
theorem carry_sim (P P' : List Tx) :
    ∀ (q r : List Tx) (t t' : Tracker) (X X' : List Tx) (acc acc' : List Delta) (r' : List Tx)
      (t2 : Tracker) (past2 : List Tx) (acc2 : List Delta),
      ObsEq t t' → PastSim X X' →
      loopPrefix t (X ++ P) acc q r = .inl (t2, past2, acc2) →
      ∀ ext, acc2 = acc ++ ext →
      SettleAsc (q ++ r) → SettleAsc (ext.map carryTx ++ r') → core r = core r' →
      (∀ d ∈ ext, d.isLossOrSfl = true → FarFor P d.tx ∧ FarFor P' d.tx) →
      ∃ t2' X2 X2' ext', loopPrefix t' (X' ++ P') acc' (ext.map carryTx) r' = .inl (t2', X2' ++ P', acc' ++ ext') ∧
        past2 = X2 ++ P ∧ ObsEq t2 t2' ∧ PastSim X2 X2' ∧ DeltasCarry ext ext' := by
  intro q
  induction q with
  | nil =>
    intro r t t' X X' acc acc' r' t2 past2 acc2 h hX hl ext he _ _ _ _
    simp only [loopPrefix, Sum.inl.injEq, Prod.mk.injEq] at hl
    obtain ⟨rfl, rfl, rfl⟩ := hl
    have : ext = [] := by simpa using he
    subst this
    exact ⟨t', X, X', [], by simp [loopPrefix], rfl, h, hX, DeltasCarry.nil⟩
  | cons x qs ih =>
    intro r t t' X X' acc acc' r' t2 past2 acc2 h hX hl ext he hasc hasc' hcore hfar
    rw [loopPrefix] at hl
    cases hstep : stepRow t x (X ++ P) (qs ++ r) with
    | error e => rw [hstep] at hl; cases hl
    | ok res =>
      obtain ⟨d, t1, inj⟩ := res
      rw [hstep] at hl
      simp only at hl
      cases hR : runInjected t1 (x :: (X ++ P)) (acc ++ [d]) inj (qs ++ r) with
      | inr e => rw [hR] at hl; cases hl
      | inl s =>
        obtain ⟨ta, pa, acca⟩ := s
        rw [hR] at hl
        simp only at hl
        obtain ⟨outinj, ho1, ho2⟩ := runInjected_txs _ _ _ _ _ _ _ _ hR
        obtain ⟨extR, heR1, heR2⟩ := loopPrefix_core qs r ta pa acca t2 past2 acc2 hl
        -- the shape of `ext`
        have hext : ext = d :: (outinj ++ extR) := by
          have : acc ++ ext = acc ++ (d :: (outinj ++ extR)) := by rw [← he, heR1, ho1]; simp
          exact List.append_cancel_left this
        subst hext
        have hinjS : ∀ y ∈ inj, IsSflaRow y := fun y hy => stepRow_inj hstep y hy
        have hsf : ∀ e ∈ outinj, IsSflaRow e.tx := by
          intro e he'; apply hinjS; rw [← ho2]; exact List.mem_map_of_mem he'
        have hcar : ∀ e ∈ outinj, carryTx e = e.tx := by
          intro e he'
          obtain ⟨sh, ps, hact⟩ := hsf e he'
          rw [carryTx_eq]; unfold carryOf; cases e.sfl <;> simp [hact]
        have hmapinj : outinj.map carryTx = inj := by
          rw [← ho2]; exact List.map_congr_left hcar
        -- the rows to come, in the two runs
        have hlist : (d :: (outinj ++ extR)).map carryTx ++ r' = carryTx d :: (inj ++ (extR.map carryTx ++ r')) := by
          simp [hmapinj]
        rw [hlist] at hasc'
        have hf : FutSim (qs ++ r) (inj ++ (extR.map carryTx ++ r')) := by
          refine ⟨(List.pairwise_cons.mp hasc).2, (List.pairwise_cons.mp hasc').2, ?_⟩
          rw [core_append, core_append, core_append, core_sfla_rows hinjS, heR2, hcore]; rfl
        obtain ⟨hdx, hflag⟩ := stepRow_flag hstep
        have hfx : IsLossSale t x → FarFor P x ∧ FarFor P' x := by
          intro hl'
          have := hfar d (by simp) (hflag hl')
          rw [hdx] at this; exact this
        obtain ⟨d', t1', hst', hdc, hobs1⟩ := stepRow_carry h x P P' hX hf hfx hstep
        -- the injected rows, explicit
        have hXc : PastSim (x :: X) (carryTx d :: X') := by
          refine hX.cons ?_
          rw [carryTx_eq, hdx]; exact (carryOf_props d.sfl x).2.2.2.2.symm
        obtain ⟨ta', out, hout1, hout2, hout3, hobsa, hloop⟩ :=
          explicit_sfla inj hinjS t1 t1' hobs1 (x :: (X ++ P)) (carryTx d :: (X' ++ P')) (acc ++ [d]) (acc' ++ [d'])
            (qs ++ r) r' ta pa acca hR
        have hout : out = outinj := by
          have : acc ++ [d] ++ out = acc ++ [d] ++ outinj := by rw [← hout1, ho1]
          exact List.append_cancel_left this
        subst hout
        -- the rest
        have hXa : PastSim (inj.reverse ++ x :: X) (inj.reverse ++ carryTx d :: X') := hXc.prepend _
        have hpa : pa = (inj.reverse ++ x :: X) ++ P := by rw [hout2]; simp
        rw [hpa] at hl
        have hascR : SettleAsc (extR.map carryTx ++ r') := by
          have := (List.pairwise_cons.mp hasc').2
          exact (List.pairwise_append.mp this).2.1
        obtain ⟨t2', X2, X2', extR', hlR, hp2, hobs2, hX2, hdcR⟩ :=
          ih r ta ta' (inj.reverse ++ x :: X) (inj.reverse ++ carryTx d :: X') acca (acc' ++ [d'] ++ out) r' t2 past2 acc2
            hobsa hXa hl extR heR1 (List.pairwise_cons.mp hasc).2 hascR hcore
            (fun e he' hfl => hfar e (by simp [he']) hfl)
        refine ⟨t2', X2, X2', d' :: (out ++ extR'), ?_, hp2, hobs2, hX2, ?_⟩
        · rw [List.map_cons, loopPrefix]
          have hfut : (List.map carryTx (out ++ extR) ++ r') = inj ++ (extR.map carryTx ++ r') := by
            simp [hmapinj]
          rw [hfut, hst']
          simp only [runInjected]
          have := hloop (extR.map carryTx)
          rw [List.map_append, hmapinj, this]
          have e1 : inj.reverse ++ carryTx d :: (X' ++ P') = (inj.reverse ++ carryTx d :: X') ++ P' := by simp
          rw [e1, hlR]
          simp
        · exact DeltasCarry.cons hdc ((DeltasCarry.refl_sfla out hcar).append hdcR)

end Acb
