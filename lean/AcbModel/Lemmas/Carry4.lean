/-
  C10, carried-over rows, part 4: one iteration of the loop with the row carried; the generated
  adjustment rows replayed as explicit rows.
-/
import AcbModel.Lemmas.Carry3
import AcbModel.Lemmas.SummaryGlue
namespace Acb

theorem stepRow_shape {t t2 : Tracker} {x : Tx} {past f : List Tx} {d : Delta} {inj : List Tx}
    (hs : stepRow t x past f = .ok (d, t2, inj)) :
    d.tx = x ∧ d.pre = t.nextPre x.aff ∧ sanityCheck (t.nextPre x.aff) x.aff = .ok () ∧
      ∃ o, arm t x (t.nextPre x.aff) past f = .ok o ∧ d.post = o.post ∧ d.gain = o.gain ∧
        d.sfl = o.sfl ∧ inj = o.inj ∧ t.setLatest x.aff o.post = .ok t2 := by
  have hset := stepRow_setLatest hs
  unfold stepRow at hs
  split at hs
  · cases hs
  · rename_i d0 i0 hd
    split at hs
    · cases hs
    · simp only [Except.ok.injEq, Prod.mk.injEq] at hs
      obtain ⟨e1, _, e3⟩ := hs
      subst e1; subst e3
      obtain ⟨h1, h2, h3, o, ho, h4, h5, h6, h7⟩ := deltaForTx_shape hd
      exact ⟨h1, h2, h3, o, ho, h4, h5, h6, h7, by rw [← h4]; exact hset⟩

theorem stepRow_of_shape {t t2 : Tracker} {x : Tx} {past f : List Tx} {o : ArmOut}
    (h3 : sanityCheck (t.nextPre x.aff) x.aff = .ok ())
    (ho : arm t x (t.nextPre x.aff) past f = .ok o) (hset : t.setLatest x.aff o.post = .ok t2) :
    stepRow t x past f =
      .ok ({ tx := x, pre := t.nextPre x.aff, post := o.post, gain := o.gain, sfl := o.sfl }, t2, o.inj) := by
  unfold stepRow deltaForTx
  simp only [h3, ho, hset]

theorem IsLossSale_carry {t : Tracker} {x : Tx} (sfl : Option SflInfo) :
    IsLossSale t (carryOf sfl x) → IsLossSale t x := by
  rintro ⟨sh, px, comm, rate, crate, spec, aps, hact, hp, hg⟩
  have hp' := carryOf_props sfl x
  rw [hp'.1] at hp
  unfold carryOf at hact
  cases sfl with
  | none =>
    have : x.act = .sell sh px comm rate crate spec := by
      cases hx : x.act <;> simp only [hx] at hact <;> first | exact hact | cases hact
    exact ⟨sh, px, comm, rate, crate, spec, aps, this, hp, hg⟩
  | some s =>
    cases hx : x.act with
    | sell sh2 px2 comm2 rate2 crate2 spec2 =>
      simp only [hx, Action.sell.injEq] at hact
      obtain ⟨rfl, rfl, rfl, rfl, rfl, _⟩ := hact
      exact ⟨sh2, px2, comm2, rate2, crate2, spec2, aps, hx, hp, hg⟩
    | buy a b c d e => simp only [hx] at hact; cases hact
    | roc a b => simp only [hx] at hact; cases hact
    | sfla a b => simp only [hx] at hact; cases hact
    | split a b c => simp only [hx] at hact; cases hact

theorem FarFor_carry {P : List Tx} {x : Tx} (sfl : Option SflInfo) (h : FarFor P x) : FarFor P (carryOf sfl x) := by
  intro sh px comm rate crate spec hact
  have hp := carryOf_props sfl x
  rw [hp.2.1]
  unfold carryOf at hact
  cases sfl with
  | none =>
    have : x.act = .sell sh px comm rate crate spec := by
      cases hx : x.act <;> simp only [hx] at hact <;> first | exact hact | cases hact
    exact h sh px comm rate crate spec this
  | some s =>
    cases hx : x.act with
    | sell sh2 px2 comm2 rate2 crate2 spec2 => exact h sh2 px2 comm2 rate2 crate2 spec2 hx
    | buy a b c d e => simp only [hx] at hact; cases hact
    | roc a b => simp only [hx] at hact; cases hact
    | sfla a b => simp only [hx] at hact; cases hact
    | split a b c => simp only [hx] at hact; cases hact

/-- **One iteration, carried.** -/
theorem stepRow_carry {t t' : Tracker} (h : ObsEq t t') (x : Tx) {X X' : List Tx} (P P' : List Tx)
    {f f' : List Tx} (hX : PastSim X X') (hf : FutSim f f')
    (hfar : IsLossSale t x → FarFor P x ∧ FarFor P' x)
    {d : Delta} {t2 : Tracker} {inj : List Tx} (hs : stepRow t x (X ++ P) f = .ok (d, t2, inj)) :
    ∃ d' t2', stepRow t' (carryTx d) (X' ++ P') f' = .ok (d', t2', []) ∧ DeltaCarry d d' ∧ ObsEq t2 t2' := by
  obtain ⟨h1, h2, h3, o, ho, h4, h5, h6, h7, hset⟩ := stepRow_shape hs
  obtain ⟨o', ho', hp1, hp2, hp3, hp4⟩ := arm_carry ho
  have hcx : carryTx d = carryOf o.sfl x := by rw [carryTx_eq, h6, h1]
  have hprops := carryOf_props o.sfl x
  have hfar' : IsLossSale t (carryOf o.sfl x) → FarFor P (carryOf o.sfl x) ∧ FarFor P' (carryOf o.sfl x) := by
    intro hl
    obtain ⟨a, b⟩ := hfar (IsLossSale_carry o.sfl hl)
    exact ⟨FarFor_carry o.sfl a, FarFor_carry o.sfl b⟩
  have harm := arm_sim h (carryOf o.sfl x) P P' hX hf hfar'
  rw [hprops.1] at harm
  rw [ho'] at harm
  -- the tracker update
  have hs2 := setLatest_obs h x.aff o.post
  rw [hset] at hs2
  cases hset' : t'.setLatest x.aff o.post with
  | error e => rw [hset'] at hs2; simp at hs2
  | ok t2' =>
    rw [hset'] at hs2
    simp only at hs2
    have h3' : sanityCheck (t'.nextPre (carryOf o.sfl x).aff) (carryOf o.sfl x).aff = .ok () := by
      rw [hprops.1, h.pre x.aff]; exact h3
    have harm' : arm t' (carryOf o.sfl x) (t'.nextPre (carryOf o.sfl x).aff) (X' ++ P') f' = .ok o' := by
      rw [hprops.1, h.pre x.aff]; exact harm
    have hset'' : t'.setLatest (carryOf o.sfl x).aff o'.post = .ok t2' := by
      rw [hprops.1, hp1]; exact hset'
    have := stepRow_of_shape h3' harm' hset''
    rw [hp4] at this
    refine ⟨_, t2', by rw [hcx]; exact this, ?_, hs2⟩
    refine ⟨by simp only; exact hcx.symm, ?_, ?_, ?_, ?_⟩
    · simp only; rw [hprops.1, h.pre x.aff, h2]
    · simp only; rw [hp1, h4]
    · simp only; rw [hp2, h5]
    · simp only; rw [hp3, h6]

/-- a cost-base adjustment row: same result whatever the histories -/
theorem stepRow_sfla_any {t t' : Tracker} (h : ObsEq t t') {x : Tx} (hx : IsSflaRow x)
    (p p' f f' : List Tx) {d : Delta} {t2 : Tracker} {inj : List Tx}
    (hs : stepRow t x p f = .ok (d, t2, inj)) :
    inj = [] ∧ carryTx d = x ∧ ∃ t2', stepRow t' x p' f' = .ok (d, t2', []) ∧ ObsEq t2 t2' := by
  obtain ⟨h1, h2, h3, o, ho, h4, h5, h6, h7, hset⟩ := stepRow_shape hs
  obtain ⟨sh, ps, hact⟩ := hx
  have harm : ∀ tt pp ff, arm tt x (t.nextPre x.aff) pp ff = armSfla x.aff.registered (t.nextPre x.aff) sh ps := by
    intro tt pp ff; unfold arm; simp only [hact]
  rw [harm] at ho
  obtain ⟨hs1, hs2⟩ := armSfla_plain ho
  have hinj : inj = [] := by rw [h7, hs2]
  have hc : carryTx d = x := by
    rw [carryTx_eq, h6, hs1, carryOf_none, h1]
  refine ⟨hinj, hc, ?_⟩
  have hsl := setLatest_obs h x.aff o.post
  rw [hset] at hsl
  cases hset' : t'.setLatest x.aff o.post with
  | error e => rw [hset'] at hsl; simp at hsl
  | ok t2' =>
    rw [hset'] at hsl
    simp only at hsl
    refine ⟨t2', ?_, hsl⟩
    have h3' : sanityCheck (t'.nextPre x.aff) x.aff = .ok () := by rw [h.pre x.aff]; exact h3
    have harm' : arm t' x (t'.nextPre x.aff) p' f' = .ok o := by rw [h.pre x.aff, harm]; exact ho
    have := stepRow_of_shape h3' harm' hset'
    rw [this, hs2]
    congr 2
    cases d
    simp only at h1 h2 h4 h5 h6
    subst h1; subst h2; subst h4; subst h5; subst h6
    rw [h.pre]

/-- **The generated adjustment rows, replayed as explicit rows**: the main loop over them does what
    the injected-row loop did. -/
theorem explicit_sfla :
    ∀ (inj : List Tx), (∀ x ∈ inj, IsSflaRow x) →
    ∀ (t t' : Tracker), ObsEq t t' → ∀ (past past' : List Tx) (acc acc' : List Delta) (fa r' : List Tx)
      (t3 : Tracker) (past3 : List Tx) (acc3 : List Delta),
      runInjected t past acc inj fa = .inl (t3, past3, acc3) →
      ∃ t3' out, acc3 = acc ++ out ∧ past3 = inj.reverse ++ past ∧ out.map carryTx = inj ∧
        ObsEq t3 t3' ∧
        ∀ (q : List Tx), loopPrefix t' past' acc' (inj ++ q) r' =
          loopPrefix t3' (inj.reverse ++ past') (acc' ++ out) q r' := by
  intro inj
  induction inj with
  | nil =>
    intro _ t t' h past past' acc acc' fa r' t3 past3 acc3 hr
    simp only [runInjected, Sum.inl.injEq, Prod.mk.injEq] at hr
    obtain ⟨rfl, rfl, rfl⟩ := hr
    exact ⟨t', [], by simp, by simp, rfl, h, fun q => by simp⟩
  | cons x xs ih =>
    intro hinj t t' h past past' acc acc' fa r' t3 past3 acc3 hr
    have hx := hinj x (by simp)
    rw [runInjected] at hr
    cases hstep : stepRow t x past (xs ++ fa) with
    | error e => rw [hstep] at hr; cases hr
    | ok res =>
      obtain ⟨d, t1, injd⟩ := res
      rw [hstep] at hr
      simp only at hr
      have hany := fun f' => stepRow_sfla_any h hx past past' (xs ++ fa) f' hstep
      obtain ⟨_, hcd, _⟩ := hany []
      obtain ⟨t3', out, h1, h2, h3, h4, h5⟩ :=
        ih (fun y hy => hinj y (by simp [hy])) t1 (hany []).2.2.choose
          ((hany []).2.2.choose_spec.2) (x :: past) (x :: past') (acc ++ [d]) (acc' ++ [d]) fa r' t3 past3 acc3 hr
      refine ⟨t3', d :: out, by simp [h1], by simp [h2], by simp [hcd, h3], h4, ?_⟩
      intro q
      simp only [List.cons_append]
      rw [loopPrefix]
      obtain ⟨_, _, t2', hst, hobs⟩ := hany ((xs ++ q) ++ r')
      -- the tracker after the step does not depend on the future
      have ht2 : t2' = (hany []).2.2.choose := by
        have h0 := (hany []).2.2.choose_spec.1
        obtain ⟨_, _, _, o, ho, _, _, _, _, hset⟩ := stepRow_shape hst
        obtain ⟨_, _, _, o0, ho0, _, _, _, _, hset0⟩ := stepRow_shape h0
        obtain ⟨sh, ps, hact⟩ := hx
        have e1 : o = o0 := by
          unfold arm at ho ho0
          simp only [hact] at ho ho0
          rw [ho] at ho0
          simpa using ho0
        rw [e1] at hset
        rw [hset] at hset0
        simpa using hset0
      rw [hst]
      simp only [runInjected]
      rw [ht2]
      have := h5 q
      simp only [List.append_assoc, List.singleton_append, List.reverse_cons] at this ⊢
      exact this

end Acb
