/-
  Helper lemmas for Props/C09.lean: each modelled decision is independent of the hash orders.
-/
import AcbModel.App.Orders
import AcbModel.Props.C17
import AcbModel.Props.C06
namespace Acb.Orders
open Acb.Costs Acb.Gains Acb.Splits

theorem any_congr_perm {α : Type} {l₁ l₂ : List α} (h : l₁.Perm l₂) (p : α → Bool) : l₁.any p = l₂.any p := by
  rw [Bool.eq_iff_iff]
  simp only [List.any_eq_true]
  constructor
  · rintro ⟨x, hx, hp⟩; exact ⟨x, h.mem_iff.mp hx, hp⟩
  · rintro ⟨x, hx, hp⟩; exact ⟨x, h.mem_iff.mpr hx, hp⟩

theorem order_perm {α : Type} {σ σ' : List α → List α} (h : IsOrder σ) (h' : IsOrder σ') (l : List α) :
    (σ l).Perm (σ' l) := (h l).trans (h' l).symm

/-! ### split expansion -/

theorem splitAffiliates_congr {σ σ' : List Nat → List Nat} (h : IsOrder σ) (h' : IsOrder σ')
    (dflt : Nat) (txs : List STx) : splitAffiliates σ dflt txs = splitAffiliates σ' dflt txs := by
  unfold splitAffiliates
  have hp := order_perm h h' (nonGlobalAffiliates txs)
  have he : (σ (nonGlobalAffiliates txs)).isEmpty = (σ' (nonGlobalAffiliates txs)).isEmpty := by
    have := hp.length_eq
    cases h1 : σ (nonGlobalAffiliates txs) <;> cases h2 : σ' (nonGlobalAffiliates txs) <;> simp_all
  simp only [he]
  split
  · rfl
  · exact sortNats_congr hp

theorem expand_congr {σ σ' : List Nat → List Nat} (h : IsOrder σ) (h' : IsOrder σ')
    (dflt : Nat) (txs : List STx) : expand σ dflt txs = expand σ' dflt txs := by
  unfold expand
  rw [splitAffiliates_congr h h']

/-! ### two strictly increasing lists with the same members are equal -/

theorem eq_of_strict_sorted {l₁ l₂ : List Int} (h₁ : l₁.Pairwise (fun a b => a < b))
    (h₂ : l₂.Pairwise (fun a b => a < b)) (hm : ∀ x, x ∈ l₁ ↔ x ∈ l₂) : l₁ = l₂ := by
  have n₁ : l₁.Nodup := h₁.imp (fun h => by omega)
  have n₂ : l₂.Nodup := h₂.imp (fun h => by omega)
  have hp : l₁.Perm l₂ := (List.perm_ext_iff_of_nodup n₁ n₂).mpr hm
  exact List.Perm.eq_of_pairwise (le := fun a b => a ≤ b) (by intro a b _ _ h1 h2; omega)
    (h₁.imp (fun h => by omega)) (h₂.imp (fun h => by omega)) hp

/-! ### the cost tables -/

theorem costs_render_congr {yearOf : Int → Int} {rows : List Row}
    {σ σ' : List Nat → List Nat} {τ τ' : List Int → List Int}
    (hwf : WF rows) (hσ : IsOrder σ) (hτ : IsOrder τ) (hσ' : IsOrder σ') (hτ' : IsOrder τ')
    {c c' : Result} (h : calcTotalCosts yearOf rows σ τ = .ok c) (h' : calcTotalCosts yearOf rows σ' τ' = .ok c') :
    c.totalRows = c'.totalRows ∧ c.yearlyRows yearOf = c'.yearlyRows yearOf ∧ c.notes = c'.notes := by
  obtain ⟨st, inv, i2, hc⟩ := run_facts hwf hσ hτ h
  obtain ⟨st', inv', i2', hc'⟩ := run_facts hwf hσ' hτ' h'
  -- days
  have hn : (τ st.days).Nodup := (hτ st.days).nodup_iff.mpr inv.days_nodup
  have hn' : (τ' st'.days).Nodup := (hτ' st'.days).nodup_iff.mpr inv'.days_nodup
  have hdm : ∀ d, d ∈ sortDays (τ st.days) ↔ ∃ r ∈ counted rows, r.day = d := by
    intro d; rw [← inv.days_mem d]; exact ((sortDays_perm _).trans (hτ st.days)).mem_iff
  have hdm' : ∀ d, d ∈ sortDays (τ' st'.days) ↔ ∃ r ∈ counted rows, r.day = d := by
    intro d; rw [← inv'.days_mem d]; exact ((sortDays_perm _).trans (hτ' st'.days)).mem_iff
  have hdays : c.days = c'.days := by
    rw [hc, hc']
    exact eq_of_strict_sorted (sortDays_strict hn) (sortDays_strict hn') (fun d => by rw [hdm, hdm'])
  -- securities
  have hsecs : c.sortedSecs = c'.sortedSecs := by
    rw [hc, hc']
    apply sortNats_congr
    exact (List.perm_ext_iff_of_nodup inv.secs_nodup inv'.secs_nodup).mpr
      (fun s => by rw [inv.secs_mem, inv'.secs_mem])
  have hsm : ∀ s, s ∈ c.sortedSecs → s ∈ c.secs ∧ s ∈ c'.secs := by
    intro s hs
    refine ⟨(sortNats_perm _).mem_iff.mp hs, ?_⟩
    rw [hsecs] at hs; exact (sortNats_perm _).mem_iff.mp hs
  -- cells
  have hcell : ∀ d ∈ c.days, ∀ s ∈ c.sortedSecs, c.tab.cost d s = c'.tab.cost d s := by
    intro d hd s hs
    obtain ⟨v, hv, hf⟩ := C17_day_figures hwf hσ hτ h d hd s (hsm s hs).1
    obtain ⟨v', hv', hf'⟩ := C17_day_figures hwf hσ' hτ' h' d (hdays ▸ hd) s (hsm s hs).2
    rw [hv, hv', Figure_unique hf hf']
  have hrow : ∀ d ∈ c.days, c.rowOf d = c'.rowOf d := by
    intro d hd
    have hfigs : c.sortedSecs.map (c.tab.cost d) = c'.sortedSecs.map (c'.tab.cost d) := by
      rw [← hsecs]; exact List.map_congr_left (fun s hs => hcell d hd s hs)
    have ht := C17_row_total hwf hσ hτ h d
    have ht' := C17_row_total hwf hσ' hτ' h' d
    simp only [Result.rowOf] at ht ht' ⊢
    rw [hfigs] at ht
    rw [TableRow.mk.injEq]
    exact ⟨rfl, ht.trans ht'.symm, hfigs⟩
  have htot : ∀ d ∈ c.days, c.tab.total d = c'.tab.total d := by
    intro d hd; exact congrArg TableRow.total (hrow d hd)
  refine ⟨?_, ?_, ?_⟩
  · unfold Result.totalRows
    rw [← hdays]; exact List.map_congr_left hrow
  · unfold Result.yearlyRows
    have hyears : c.years yearOf = c'.years yearOf := by unfold Result.years; rw [hdays]
    rw [← hyears]
    apply List.map_congr_left
    intro y hy
    have hex : ∃ d ∈ c.days, yearOf d = y := (C17_years_listed yearOf c y).mp hy
    obtain ⟨b, hb, hbd, hby, hmax⟩ := C17_yearly_is_max hwf hσ hτ h y hex
    obtain ⟨b', hb', hbd', hby', hmax'⟩ := C17_yearly_is_max hwf hσ' hτ' h' y (hdays ▸ hex)
    have hbd'' : b' ∈ c.days := hdays ▸ hbd'
    have h1 := hmax b' hbd'' hby'
    have h2 := hmax' b (hdays ▸ hbd) hby
    rw [← htot b hbd, ← htot b' hbd''] at h2
    have heq : c.tab.total b' = c.tab.total b := by
      have := h1.1; have := h2.1; grind
    have hbb : b = b' := by
      have := h1.2 heq
      have := h2.2 heq.symm
      omega
    rw [hb, hb', ← hbb]
    simp only [Option.map_some]
    rw [hrow b hbd]
  · rw [C17_ignored_listed h, C17_ignored_listed h']

/-! ### the aggregate gains table -/

theorem aggTable_congr (yearOf : Int → Int) (rs : List SecResult)
    {σ σ' : List CG → List CG} {ρ ρ' : List Int → List Int}
    (hσ : IsOrder σ) (hρ : IsOrder ρ) (hσ' : IsOrder σ') (hρ' : IsOrder ρ') (full : Bool) :
    aggTable full (aggGains σ ρ (completed yearOf rs)) = aggTable full (aggGains σ' ρ' (completed yearOf rs)) := by
  obtain ⟨n1, m1, b1⟩ := C06_aggregate_year yearOf rs σ ρ hσ hρ
  obtain ⟨n2, m2, b2⟩ := C06_aggregate_year yearOf rs σ' ρ' hσ' hρ'
  have t1 := (C06_since_inception yearOf rs σ ρ hσ hρ).2
  have t2 := (C06_since_inception yearOf rs σ' ρ' hσ' hρ').2
  have hy : (aggGains σ ρ (completed yearOf rs)).sortedYears = (aggGains σ' ρ' (completed yearOf rs)).sortedYears := by
    unfold CG.sortedYears
    apply sortDays_congr
    exact (List.perm_ext_iff_of_nodup n1 n2).mpr (fun y => by rw [m1, m2])
  have hb : ∀ y, (aggGains σ ρ (completed yearOf rs)).byYear y = (aggGains σ' ρ' (completed yearOf rs)).byYear y := by
    intro y; rw [b1, b2]
  unfold aggTable
  rw [hy, t1, t2]
  congr 1
  apply List.map_congr_left
  intro y _
  rw [hb y]

theorem reverse_isOrder {α : Type} : IsOrder (List.reverse : List α → List α) := fun l => List.reverse_perm l
theorem id_isOrder {α : Type} : IsOrder (id : List α → List α) := fun l => List.Perm.refl l

end Acb.Orders
