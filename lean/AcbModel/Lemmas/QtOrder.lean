/-
  The ordering of `BrokerTx` (C18): the comparator as coded is the lexicographic order on
  (settlement date, settlement date-and-time text, tiebreak with `None` first, row number);
  hence a total preorder, so that the stable `Vec::sort` has exactly one possible result.
-/
import AcbModel.Broker.Spec
namespace Acb.Qt
open Std

/-- the comparator, written as a lexicographic combination -/
def lexCmp : BTx → BTx → Ordering :=
  compareLex (compareOn (·.settleDate))
    (compareLex (compareOn (·.settleStr))
      (compareLex (compareOn (·.tiebreak)) (compareOn (·.row))))

instance : TransCmp lexCmp := by unfold lexCmp; infer_instance

theorem cmpBTx_eq_lex (a b : BTx) : cmpBTx a b = lexCmp a b := by
  unfold cmpBTx lexCmp compareLex compareOn
  cases h1 : compare a.settleDate b.settleDate <;> simp [Ordering.then]
  cases h2 : compare a.settleStr b.settleStr <;> simp
  cases ha : a.tiebreak <;> cases hb : b.tiebreak <;> simp [compare, compareOfLessAndEq]
  rename_i x y
  by_cases hlt : x < y
  · simp [hlt]
  · by_cases heq : x = y <;> simp [hlt, heq]

theorem cmpBTx_swap (a b : BTx) : cmpBTx a b = (cmpBTx b a).swap := by
  rw [cmpBTx_eq_lex, cmpBTx_eq_lex]; exact OrientedCmp.eq_swap

theorem leBTx_trans (a b c : BTx) (h1 : leBTx a b = true) (h2 : leBTx b c = true) : leBTx a c = true := by
  unfold leBTx at *
  rw [cmpBTx_eq_lex] at *
  exact TransCmp.isLE_trans h1 h2

theorem leBTx_total (a b : BTx) : (leBTx a b || leBTx b a) = true := by
  unfold leBTx
  rw [cmpBTx_swap a b]
  cases cmpBTx b a <;> simp [Ordering.swap, Ordering.isLE]

theorem leBTx_refl (a : BTx) : leBTx a a = true := by
  have := leBTx_total a a
  simpa using this

/-- rows that compare equal agree on everything the comparator looks at -/
theorem cmpBTx_eq_iff (a b : BTx) :
    cmpBTx a b = .eq ↔ a.settleDate = b.settleDate ∧ a.settleStr = b.settleStr ∧
      a.tiebreak = b.tiebreak ∧ a.row = b.row := by
  rw [cmpBTx_eq_lex]
  simp only [lexCmp, compareLex, compareOn, Ordering.then_eq_eq, compare_eq_iff_eq]

theorem sortTxs_sorted (txs : List BTx) : (sortTxs txs).Pairwise (fun a b => leBTx a b = true) :=
  List.pairwise_mergeSort (le := leBTx) leBTx_trans leBTx_total txs

theorem sortTxs_perm (txs : List BTx) : (sortTxs txs).Perm txs := List.mergeSort_perm txs leBTx

end Acb.Qt
