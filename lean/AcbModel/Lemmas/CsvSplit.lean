/-
  Split-ratio cell round trip (C11): `SplitRatio::parse (ratio.to_string())` restores both numbers
  (as values) and the `reverse_integer_only` flag, and prints the same text again.
-/
import AcbModel.Lemmas.CsvCells
namespace Acb.Csv

def SplitRatio.Same (a b : SplitRatio) : Prop :=
  a.pre.Same b.pre ∧ a.post.Same b.post ∧ a.intOnly = b.intOnly

theorem forStr : strOf "-for-" = ['-', 'f', 'o', 'r', '-'] := by decide

theorem isDigitOrDot_not_ws {c : Char} (h : isDigitOrDot c = true) : isWs c = false := by
  unfold isDigitOrDot at h
  simp only [Bool.or_eq_true, beq_iff_eq] at h
  rcases h with h | h
  · exact isDigit_not_ws h
  · subst h; decide

/-! ### `\.\d` -/

theorem hasDotDigit_digits (s : Str) (h : ∀ c ∈ s, isDigit c = true) : hasDotDigit s = false := by
  induction s with
  | nil => rfl
  | cons c r ih =>
    have hc : isDigit c = true := h c (by simp)
    have : (c == '.') = false := by
      rw [beq_eq_false_iff_ne]; intro hh; subst hh; revert hc; decide
    simp only [hasDotDigit, this, Bool.false_and, Bool.false_or]
    exact ih (fun x hx => h x (by simp [hx]))

theorem hasDotDigit_point (W F : Str) (hF : F ≠ []) (hFd : ∀ c ∈ F, isDigit c = true) :
    hasDotDigit (W ++ '.' :: F) = true := by
  induction W with
  | nil =>
    obtain ⟨f, F', rfl⟩ := List.exists_cons_of_ne_nil hF
    simp [hasDotDigit, hFd f (by simp)]
  | cons w r ih => simp [hasDotDigit, ih]

theorem hasDotDigit_display_zero (d : Dec) (hn : d.neg = false) : hasDotDigit (d.display (some 0)) = false := by
  rw [display_some, hn]
  have : shownFrac d 0 = [] := by simp [shownFrac]
  simp only [this, if_true, List.append_nil, Bool.false_eq_true, if_false, List.nil_append]
  exact hasDotDigit_digits _ (wholeDigits_all_digit _)

theorem hasDotDigit_display_pos (d : Dec) (q : Nat) (hq : 0 < q) : hasDotDigit (d.display (some q)) = true := by
  rw [display_some]
  have hF : shownFrac d q ≠ [] := by
    intro h; have := shownFrac_length d q; rw [h] at this; simp at this; omega
  simp only [hF, if_false]
  exact hasDotDigit_point _ _ hF (shownFrac_all_digit d q)

/-! ### the regular expression on a written ratio -/

theorem parseSplit_shape (A B : Str) (hA : A ≠ []) (hB : B ≠ [])
    (hAc : ∀ c ∈ A, isDigitOrDot c = true) (hBc : ∀ c ∈ B, isDigitOrDot c = true)
    (post pre : Dec) (hpA : parseDec A = .ok post) (hpB : parseDec B = .ok pre) :
    parseSplit (A ++ strOf "-for-" ++ B) =
      if post.isPos && pre.isPos then
        some (if post.absLt pre then ⟨pre, post, !hasDotDigit A && !hasDotDigit B⟩ else ⟨pre, post, false⟩)
      else none := by
  have htrim : trim (A ++ strOf "-for-" ++ B) = A ++ strOf "-for-" ++ B := by
    apply trim_eq_self
    · intro x hx
      obtain ⟨a, A', rfl⟩ := List.exists_cons_of_ne_nil hA
      simp at hx; subst hx
      exact isDigitOrDot_not_ws (hAc _ (by simp))
    · intro x hx
      rw [List.getLast?_append, List.getLast?_eq_some_getLast hB] at hx
      simp at hx; subst hx
      exact isDigitOrDot_not_ws (hBc _ (List.getLast_mem hB))
  unfold parseSplit
  simp only [htrim]
  rw [forStr, List.append_assoc, takeWhile_append_of_all _ _ _ hAc, dropWhile_append_of_all _ _ _ hAc]
  have hdash : isDigitOrDot '-' = false := by decide
  simp only [List.cons_append, List.nil_append, List.takeWhile_cons, List.dropWhile_cons, hdash,
    Bool.false_eq_true, if_false, List.append_nil]
  have hAe : A.isEmpty = false := by simpa using hA
  have hBe : B.isEmpty = false := by simpa using hB
  have hBall : B.all isDigitOrDot = true := by simpa [List.all_eq_true] using hBc
  cases h1 : post.isPos <;> cases h2 : pre.isPos <;> cases h3 : post.absLt pre <;>
    simp [hAe, hBe, hBall, hpA, hpB, SplitRatio.isReverse, h1, h2, h3]

/-! ### the three written forms -/

theorem same_of_div (neg : Bool) (m s : Nat) (h : m % 10 ^ s = 0) :
    (Dec.mk neg (m / 10 ^ s) 0).Same (Dec.mk neg m s) := by
  refine ⟨rfl, ?_⟩
  show m / 10 ^ s * 10 ^ s = m * 10 ^ 0
  have := Nat.div_add_mod m (10 ^ s)
  rw [h, Nat.add_zero, Nat.mul_comm] at this
  rw [this]; simp

/-- `{:.0}` of an integer-valued positive decimal. -/
theorem parse_display_zero (d : Dec) (hn : d.neg = false) (hm : d.mant < pow2_96) (hi : d.isInteger = true) :
    ∃ d', parseDec (d.display (some 0)) = .ok d' ∧ d'.Same d := by
  obtain ⟨neg, m, s⟩ := d
  simp only at hn; subst hn
  simp only [Dec.isInteger, beq_iff_eq] at hi
  unfold parseDec
  rw [parseDecRaw_display _ _ hm]
  have : shownFrac ⟨false, m, s⟩ 0 = [] := by simp [shownFrac]
  simp only [this, ofDigits_nil, Nat.pow_zero, Nat.mul_one, Nat.add_zero, Nat.zero_le, true_and, Bool.false_and]
  have hle : m / 10 ^ s < pow2_96 := Nat.lt_of_le_of_lt (Nat.div_le_self _ _) hm
  simp only [hle, if_true]
  exact ⟨_, rfl, same_of_div false m s hi⟩

/-- `{:.1}` of an integer-valued positive decimal whose integer part has room for one more digit. -/
theorem parse_display_one (d : Dec) (hn : d.neg = false) (hm : d.mant < pow2_96) (hi : d.isInteger = true)
    (hroom : d.mant / 10 ^ d.scale * 10 < pow2_96) :
    ∃ d', parseDec (d.display (some 1)) = .ok d' ∧ d'.Same d := by
  obtain ⟨neg, m, s⟩ := d
  simp only at hn hroom; subst hn
  simp only [Dec.isInteger, beq_iff_eq] at hi
  unfold parseDec
  rw [parseDecRaw_display _ _ hm]
  by_cases hs : s ≤ 1
  · rw [shown_value_ge _ _ hs]
    have hlt : m * 10 ^ (1 - s) < pow2_96 := by
      rcases Nat.lt_or_ge s 1 with h0 | h1
      · have : s = 0 := by omega
        subst this
        simpa using hroom
      · have : s = 1 := by omega
        subst this
        simpa using hm
    simp only [hlt, Nat.le_refl, Nat.reduceLeDiff, and_self, if_true, Bool.false_and]
    refine ⟨_, rfl, ?_⟩
    obtain ⟨k, hk⟩ := Nat.exists_eq_add_of_le hs
    have hk' : 1 - s = k := by omega
    rw [hk', hk]
    exact same_mul_pow false m s k
  · obtain ⟨j, hj⟩ := Nat.exists_eq_add_of_le (by omega : 1 ≤ s)
    rw [shown_value_lt _ 1 j hj]
    have hle : m / 10 ^ j < pow2_96 := Nat.lt_of_le_of_lt (Nat.div_le_self _ _) hm
    simp only [hle, Nat.reduceLeDiff, and_self, if_true, Bool.false_and]
    refine ⟨_, rfl, ?_⟩
    have hdiv : m % 10 ^ j = 0 := by
      rw [hj, Nat.pow_add, Nat.mul_comm, Nat.mod_mul] at hi
      omega
    have hmant : m = m / 10 ^ j * 10 ^ j := by
      have := Nat.div_add_mod m (10 ^ j)
      rw [hdiv, Nat.add_zero, Nat.mul_comm] at this
      exact this.symm
    have := same_mul_pow false (m / 10 ^ j) 1 j
    rw [← hmant, ← hj] at this
    exact this.symm

theorem SplitRatio.Same.isReverse_eq {a b : SplitRatio} (h : a.Same b) : a.isReverse = b.isReverse := by
  unfold SplitRatio.isReverse
  exact Dec.Same.absLt_eq h.2.1 h.1

theorem renderable_zero {d : Dec} (h : d.renderable 0 = true) : d.scale ≤ 28 ∧ d.mant < pow2_96 := by
  simp only [Dec.renderable, Bool.and_eq_true, decide_eq_true_eq, Nat.zero_sub, Nat.pow_zero, Nat.mul_one] at h
  exact ⟨h.1.1, h.1.2⟩

theorem isPos_neg {d : Dec} (h : d.isPos = true) : d.neg = false := by
  simp only [Dec.isPos, Bool.and_eq_true, Bool.not_eq_true'] at h
  exact h.1

theorem SplitRatio.display_def (pre post : Dec) (x : Bool) : (SplitRatio.mk pre post x).display =
    if post.isInteger && pre.isInteger then
      if post.absLt pre && !x then post.display (some 1) ++ strOf "-for-" ++ pre.display (some 1)
      else post.display (some 0) ++ strOf "-for-" ++ pre.display (some 0)
    else post.display none ++ strOf "-for-" ++ pre.display none := rfl

theorem isReverse_def (pre post : Dec) (x : Bool) : (SplitRatio.mk pre post x).isReverse = post.absLt pre := rfl

/-- **Split-ratio cell round trip** for every written form (`N-for-M`, `N.0-for-M.0`, and
    non-integer ratios with all their digits). -/
theorem splitratio_display_parse (r : SplitRatio) (h : r.valid = true) :
    ∃ r', parseSplit r.display = some r' ∧ r'.Same r ∧ r'.display = r.display := by
  obtain ⟨pre, post, io⟩ := r
  simp only [SplitRatio.valid, Bool.and_eq_true, Bool.or_eq_true, Bool.not_eq_true', decide_eq_true_eq,
    isReverse_def] at h
  obtain ⟨⟨⟨⟨⟨hpp, hqp⟩, hpr⟩, hqr⟩, hio⟩, hroom⟩ := h
  have hpn := isPos_neg hpp
  have hqn := isPos_neg hqp
  obtain ⟨hps, hpm⟩ := renderable_zero hpr
  obtain ⟨hqs, hqm⟩ := renderable_zero hqr
  have hdispdef : ∀ x, (SplitRatio.mk pre post x).display =
      if post.isInteger && pre.isInteger then
        if post.absLt pre && !x then post.display (some 1) ++ strOf "-for-" ++ pre.display (some 1)
        else post.display (some 0) ++ strOf "-for-" ++ pre.display (some 0)
      else post.display none ++ strOf "-for-" ++ pre.display none := fun _ => rfl
  -- a parsed candidate (pre', post'), `Same` as the original
  have finish : ∀ (A B : Str) (pre' post' : Dec),
      A ≠ [] → B ≠ [] → (∀ c ∈ A, isDigitOrDot c = true) → (∀ c ∈ B, isDigitOrDot c = true) →
      parseDec A = .ok post' → parseDec B = .ok pre' → post'.Same post → pre'.Same pre →
      (SplitRatio.mk pre post io).display = A ++ strOf "-for-" ++ B →
      ((if post.absLt pre then (!hasDotDigit A && !hasDotDigit B) else false) = io) →
      (∀ io', (SplitRatio.mk pre' post' io').display = (SplitRatio.mk pre post io').display) →
      ∃ r', parseSplit (SplitRatio.mk pre post io).display = some r' ∧ r'.Same ⟨pre, post, io⟩ ∧
        r'.display = (SplitRatio.mk pre post io).display := by
    intro A B pre' post' hA hB hAc hBc hpA hpB hsA hsB hdisp hflag hdd
    rw [hdisp, parseSplit_shape A B hA hB hAc hBc post' pre' hpA hpB]
    have h1 : post'.isPos = true := by rw [hsA.isPos_eq]; exact hqp
    have h2 : pre'.isPos = true := by rw [hsB.isPos_eq]; exact hpp
    simp only [h1, h2, Bool.and_self, if_true]
    have hrev : post'.absLt pre' = post.absLt pre := Dec.Same.absLt_eq hsA hsB
    rw [hrev, ← hdisp]
    by_cases hr : post.absLt pre = true
    · rw [hr] at hflag
      simp only [if_true] at hflag
      simp only [hr, if_true]
      refine ⟨_, rfl, ⟨hsB, hsA, hflag⟩, ?_⟩
      rw [hflag]; exact hdd io
    · have hr' : post.absLt pre = false := by simpa using hr
      rw [hr'] at hflag
      simp only [Bool.false_eq_true, if_false] at hflag
      simp only [hr', Bool.false_eq_true, if_false]
      refine ⟨_, rfl, ⟨hsB, hsA, hflag⟩, ?_⟩
      rw [← hflag]; exact hdd false
  -- displays of re-read numbers
  have disp_same : ∀ (pre' post' : Dec), post'.Same post → pre'.Same pre →
      (post'.isInteger && pre'.isInteger) = true →
      ∀ io', (SplitRatio.mk pre' post' io').display = (SplitRatio.mk pre post io').display := by
    intro pre' post' hsA hsB hint io'
    have hint2 : (post.isInteger && pre.isInteger) = true := by
      rw [← hsA.isInteger_eq, ← hsB.isInteger_eq]; exact hint
    have hrev : post'.absLt pre' = post.absLt pre := Dec.Same.absLt_eq hsA hsB
    rw [SplitRatio.display_def, SplitRatio.display_def, hint, hint2, hrev, hsA.display_eq 1, hsA.display_eq 0,
      hsB.display_eq 1, hsB.display_eq 0]
    simp only [↓reduceIte]
  by_cases hint : (post.isInteger && pre.isInteger) = true
  · have hpi : pre.isInteger = true := by simp only [Bool.and_eq_true] at hint; exact hint.2
    have hqi : post.isInteger = true := by simp only [Bool.and_eq_true] at hint; exact hint.1
    by_cases hform : (post.absLt pre && !io) = true
    · -- N.0-for-M.0
      have hform' := hform
      simp only [Bool.and_eq_true, Bool.not_eq_true'] at hform'
      obtain ⟨hrev, hio0⟩ := hform'
      have hroom' : pre.mant / 10 ^ pre.scale * 10 < pow2_96 ∧ post.mant / 10 ^ post.scale * 10 < pow2_96 := by
        rcases hroom with h | h
        · rw [hpi, hqi, hrev, hio0] at h; simp at h
        · exact h
      obtain ⟨post', hpA, hsA⟩ := parse_display_one post hqn hqm hqi hroom'.2
      obtain ⟨pre', hpB, hsB⟩ := parse_display_one pre hpn hpm hpi hroom'.1
      refine finish (post.display (some 1)) (pre.display (some 1)) pre' post'
        (display_ne_nil _ _) (display_ne_nil _ _) (display_pos_chars _ _ hqn) (display_pos_chars _ _ hpn)
        hpA hpB hsA hsB ?_ ?_ ?_
      · rw [hdispdef, if_pos hint, if_pos hform]
      · rw [if_pos hrev, hasDotDigit_display_pos _ _ (by omega), hio0]; rfl
      · exact disp_same pre' post' hsA hsB (by rw [hsA.isInteger_eq, hsB.isInteger_eq]; exact hint)
    · -- N-for-M
      obtain ⟨post', hpA, hsA⟩ := parse_display_zero post hqn hqm hqi
      obtain ⟨pre', hpB, hsB⟩ := parse_display_zero pre hpn hpm hpi
      refine finish (post.display (some 0)) (pre.display (some 0)) pre' post'
        (display_ne_nil _ _) (display_ne_nil _ _) (display_pos_chars _ _ hqn) (display_pos_chars _ _ hpn)
        hpA hpB hsA hsB ?_ ?_ ?_
      · rw [hdispdef, if_pos hint, if_neg hform]
      · rw [hasDotDigit_display_zero _ hqn, hasDotDigit_display_zero _ hpn]
        by_cases hrev : post.absLt pre = true
        · rw [if_pos hrev]
          cases io
          · exact absurd (by rw [hrev]; rfl) hform
          · rfl
        · rw [if_neg hrev]
          cases io
          · rfl
          · rcases hio with h | h
            · exact absurd h (by decide)
            · exact absurd h.1.1 hrev
      · exact disp_same pre' post' hsA hsB (by rw [hsA.isInteger_eq, hsB.isInteger_eq]; exact hint)
  · -- a non-integer ratio: all digits are written, the same representation is read back
    have hio0 : io = false := by
      rcases hio with h | h
      · exact h
      · exact absurd (by rw [h.1.2, h.2]; rfl) hint
    have hsc : 0 < post.scale ∨ 0 < pre.scale := by
      rcases Nat.eq_zero_or_pos post.scale with h1 | h1
      · rcases Nat.eq_zero_or_pos pre.scale with h2 | h2
        · exfalso; apply hint
          simp [Dec.isInteger, h1, h2, Nat.mod_one]
        · exact Or.inr h2
      · exact Or.inl h1
    refine finish (post.display none) (pre.display none) pre post ?_ ?_ ?_ ?_ ?_ ?_
      (Dec.Same.refl _) (Dec.Same.refl _) ?_ ?_ (fun _ => rfl)
    · rw [display_none]; exact display_ne_nil _ _
    · rw [display_none]; exact display_ne_nil _ _
    · rw [display_none]; exact display_pos_chars _ _ hqn
    · rw [display_none]; exact display_pos_chars _ _ hpn
    · rw [display_none]; exact parseDec_display_full post hqn hqs hqm
    · rw [display_none]; exact parseDec_display_full pre hpn hps hpm
    · rw [hdispdef, if_neg hint]
    · rw [hio0]
      rcases hsc with h | h
      · rw [display_none post, hasDotDigit_display_pos post _ h]; simp
      · rw [display_none pre, hasDotDigit_display_pos pre _ h]; simp

end Acb.Csv
