/-
  Lemmas about the row loop of `sheet_to_txs` (C18).
-/
import AcbModel.Broker.Spec
import AcbModel.Lemmas.QtSheet
namespace Acb.Qt

theorem Except.bind_eq_ok' {ε α β : Type} {x : Except ε α} {f : α → Except ε β} {b : β} :
    x.bind f = .ok b ↔ ∃ a, x = .ok a ∧ f a = .ok b := by
  cases x with
  | error e => simp [Except.bind]
  | ok a => simp [Except.bind]

/-! ### the converter only looks at the cells under the names it uses -/

theorem parseRow_congr {rd rd' : Reader} (n : Nat)
    (h : ∀ x ∈ usedNames, rd x = rd' x) : parseRow rd n = parseRow rd' n := by
  have h1 := h "Action" (by simp [usedNames])
  have h2 := h "Transaction Date" (by simp [usedNames])
  have h3 := h "Settlement Date" (by simp [usedNames])
  have h4 := h "Account Type" (by simp [usedNames])
  have h5 := h "Account #" (by simp [usedNames])
  have h6 := h "Currency" (by simp [usedNames])
  have h7 := h "Net Amount" (by simp [usedNames])
  have h8 := h "Symbol" (by simp [usedNames])
  have h9 := h "Price" (by simp [usedNames])
  have h10 := h "Quantity" (by simp [usedNames])
  have h11 := h "Commission" (by simp [usedNames])
  simp only [parseRow, Reader.getStr, Reader.getDec, h1, h2, h3, h4, h5, h6, h7, h8, h9, h10, h11]

theorem stepRow_congr {rd rd' : Reader} (st : St) (n : Nat)
    (h : ∀ x ∈ usedNames, rd x = rd' x) : stepRow st n rd = stepRow st n rd' := by
  simp only [stepRow, parseRow_congr n h]

theorem runRows_congr (rds rds' : List Reader) (st : St) (n : Nat)
    (hl : rds.length = rds'.length)
    (h : ∀ (k : Nat) (h₁ : k < rds.length) (h₂ : k < rds'.length), ∀ x ∈ usedNames, rds[k] x = rds'[k] x) :
    runRows st n rds = runRows st n rds' := by
  induction rds generalizing rds' st n with
  | nil =>
    cases rds' with
    | nil => rfl
    | cons _ _ => simp at hl
  | cons rd rest ih =>
    cases rds' with
    | nil => simp at hl
    | cons rd' rest' =>
      have h0 : ∀ x ∈ usedNames, rd x = rd' x := fun x hx => h 0 (by simp) (by simp) x hx
      simp only [runRows, stepRow_congr st n h0]
      apply ih
      · simpa using hl
      · intro k h₁ h₂ x hx
        have := h (k + 1) (by simp; omega) (by simp; omega) x hx
        simpa using this

/-! ### trades: one per trade row, in row order -/

theorem St.addErr_trades (st : St) (n : Nat) (e : Option ErrKind) : (st.addErr n e).trades = st.trades := by
  cases e <;> rfl

theorem St.addErr_fx (st : St) (n : Nat) (e : Option ErrKind) : (st.addErr n e).fx = st.fx := by
  cases e <;> rfl

theorem stepRow_trades (st : St) (n : Nat) (rd : Reader) :
    (stepRow st n rd).trades = st.trades ++ (tradeOf n rd).toList := by
  unfold stepRow tradeOf
  cases hp : parseRow rd n with
  | error e => simp [St.addErr_trades]
  | ok act =>
    cases act with
    | skip => simp [applyAct]
    | fxt r => simp [applyAct, St.addErr_trades]
    | income t => simp [applyAct]
    | trade t =>
      simp only [applyAct]
      split <;> simp [St.addErr_trades]

theorem runRows_trades (rds : List Reader) (st : St) (n : Nat) :
    (runRows st n rds).trades = st.trades ++ tradesFrom n rds := by
  induction rds generalizing st n with
  | nil => simp [runRows, tradesFrom]
  | cons rd rest ih => simp [runRows, tradesFrom, ih, stepRow_trades]

end Acb.Qt

namespace Acb.Qt

/-! ### errors only accumulate -/

theorem St.addErr_errors_none {st : St} {n : Nat} {e : Option ErrKind}
    (h : (st.addErr n e).errors = st.errors) : e = none := by
  cases e with
  | none => rfl
  | some e => simp [St.addErr] at h

theorem St.addErr_errors (st : St) (n : Nat) (e : Option ErrKind) :
    ∃ l, (st.addErr n e).errors = st.errors ++ l := by
  cases e with
  | none => exact ⟨[], by simp [St.addErr]⟩
  | some e => exact ⟨[(n, e)], by simp [St.addErr]⟩

theorem applyAct_errors (st : St) (n : Nat) (act : RowAct) :
    ∃ l, (applyAct st n act).errors = st.errors ++ l := by
  cases act with
  | skip => exact ⟨[], by simp [applyAct]⟩
  | fxt r => simpa [applyAct] using St.addErr_errors { st with fx := (addFxtRow st.fx r).1 } n _
  | income t => exact ⟨[], by simp [applyAct]⟩
  | trade t =>
    simp only [applyAct]
    split
    · exact ⟨[], by simp⟩
    · simpa using St.addErr_errors { st with trades := st.trades ++ [t], fx := (addImplicit st.fx t).1 } n _

theorem stepRow_errors (st : St) (n : Nat) (rd : Reader) :
    ∃ l, (stepRow st n rd).errors = st.errors ++ l := by
  unfold stepRow
  split
  · exact St.addErr_errors st n _
  · exact applyAct_errors st n _

theorem runRows_errors (rds : List Reader) (st : St) (n : Nat) :
    ∃ l, (runRows st n rds).errors = st.errors ++ l := by
  induction rds generalizing st n with
  | nil => exact ⟨[], by simp [runRows]⟩
  | cons rd rest ih =>
    obtain ⟨l1, h1⟩ := stepRow_errors st n rd
    obtain ⟨l2, h2⟩ := ih (stepRow st n rd) (n + 1)
    exact ⟨l1 ++ l2, by simp [runRows, h2, h1]⟩

/-- If the whole run adds no error, neither does its first row nor the rest. -/
theorem runRows_no_error_split {rd : Reader} {rest : List Reader} {st : St} {n : Nat}
    (h : (runRows st n (rd :: rest)).errors = st.errors) :
    (stepRow st n rd).errors = st.errors ∧
    (runRows (stepRow st n rd) (n + 1) rest).errors = (stepRow st n rd).errors := by
  obtain ⟨l1, h1⟩ := stepRow_errors st n rd
  obtain ⟨l2, h2⟩ := runRows_errors rest (stepRow st n rd) (n + 1)
  simp only [runRows] at h
  rw [h2, h1, List.append_assoc] at h
  have : l1 ++ l2 = [] := by simpa using h
  have hl1 : l1 = [] := (List.append_eq_nil_iff.mp this).1
  have hl2 : l2 = [] := (List.append_eq_nil_iff.mp this).2
  subst hl1 hl2
  constructor
  · simpa using h1
  · simpa using h2

/-! ### FX rows -/

theorem fxSum_append (p : Account → Bool) (a b : List BTx) :
    fxSum p (a ++ b) = fxSum p a + fxSum p b := by
  induction a with
  | nil => simp only [List.nil_append, fxSum]; grind
  | cons t ts ih => simp only [List.cons_append, fxSum, ih]; grind

theorem fxSum_snoc (p : Account → Bool) (a : List BTx) (t : BTx) :
    fxSum p (a ++ [t]) = fxSum p a + (if p t.account then signedShares t else 0) := by
  rw [fxSum_append]; simp only [fxSum]; grind

/-- Everything `fx_tx` fixes about the row it builds. -/
theorem fxTx_ok {cur : String} {d : Nat} {s : String} {amt : Rat} {reg : Bool} {row : Nat}
    {acct : Account} {rate : Option Rat} {memo : String} {t : BTx}
    (h : fxTx cur d s amt reg row acct rate memo = .ok t) :
    cur = "USD" ∧ t.security = "USD.FX" ∧ t.currency = "USD" ∧ t.price = 1 ∧ t.commission = 0 ∧
    t.shares = rabs amt ∧ signedShares t = amt ∧ t.account = acct ∧ t.rate = rate ∧
    t.registered = reg ∧ t.row = row ∧ t.tradeDate = d ∧ t.settleDate = d ∧
    t.side = (if 0 < amt then Side.buy else Side.sell) := by
  unfold fxTx at h
  split at h
  · rename_i hc
    simp only [Except.ok.injEq] at h
    subst h hc
    have hsec : "USD" ++ ".FX" = "USD.FX" := by decide
    refine ⟨rfl, hsec, rfl, rfl, rfl, rfl, ?_, rfl, rfl, rfl, rfl, rfl, rfl, rfl⟩
    simp only [signedShares, rabs]
    by_cases hp : 0 < amt
    · have : ¬ amt < 0 := by grind
      simp [hp, this]
    · by_cases hn : amt < 0
      · simp [hp, hn]
      · have : amt = 0 := by grind
        simp [this]
  · cases h

end Acb.Qt

namespace Acb.Qt

/-- What a successful second FXT row establishes (the pairing checks of `add_fxt_row`). -/
structure Paired (adj r : FxtRow) (tx : BTx) : Prop where
  cadCur : (fxtCad adj r).currency = "CAD"
  usdCur : (fxtOther adj r).currency = "USD"
  sameDate : (fxtOther adj r).tradeDate = (fxtCad adj r).tradeDate
  sameAff : (fxtOther adj r).registered = (fxtCad adj r).registered
  sameAcct : (fxtOther adj r).account = (fxtCad adj r).account
  notSameSign : ¬ 0 < (fxtCad adj r).amount * (fxtOther adj r).amount
  cadNe : (fxtCad adj r).amount ≠ 0
  usdNe : (fxtOther adj r).amount ≠ 0
  built : fxTx "USD" (fxtOther adj r).tradeDate (fxtOther adj r).tradeStr (fxtOther adj r).amount
            (fxtOther adj r).registered r.row (fxtOther adj r).account
            (some (rabs ((fxtCad adj r).amount / (fxtOther adj r).amount))) "FXT" = .ok tx

/-- `add_fxt_row` without an error either parks the row or completes a well-formed pair. -/
theorem addFxtRow_ok {t t' : Tracker} {r : FxtRow} (h : addFxtRow t r = (t', none)) :
    (t.adjacent = none ∧ t' = { t with adjacent := some r }) ∨
    (∃ adj tx, t.adjacent = some adj ∧ t' = { adjacent := none, txs := t.txs ++ [tx] } ∧ Paired adj r tx) := by
  unfold addFxtRow at h
  split at h
  · rename_i hadj
    left
    simp only [Prod.mk.injEq, and_true] at h
    exact ⟨hadj, h.symm⟩
  · rename_i adj hadj
    right
    simp only at h
    split at h
    · rename_i hcur
      split at h
      · rename_i hdate
        split at h
        · rename_i hacct
          split at h
          · simp at h
          · rename_i hsign
            split at h
            · simp at h
            · rename_i hzero
              split at h
              · rename_i tx htx
                simp only [Prod.mk.injEq, and_true] at h
                have hu := (fxTx_ok htx).1
                refine ⟨adj, tx, hadj, h.symm, ?_⟩
                exact { cadCur := hcur.1, usdCur := hu, sameDate := hdate, sameAff := hacct.1,
                        sameAcct := hacct.2, notSameSign := hsign,
                        cadNe := fun hc => hzero (Or.inl hc), usdNe := fun hc => hzero (Or.inr hc),
                        built := by rw [← hu]; exact htx }
              · simp at h
        · simp at h
      · simp at h
    · simp at h

theorem addImplicit_ok {t t' : Tracker} {tx : BTx} (h : addImplicit t tx = (t', none)) :
    (implicitAmount tx = 0 ∧ t' = t) ∨
    (implicitAmount tx ≠ 0 ∧ tx.currency = "USD" ∧ ∃ f, t' = { t with txs := t.txs ++ [f] } ∧
      fxTx "USD" tx.tradeDate tx.tradeStr (implicitAmount tx) tx.registered tx.row tx.account none
        ("from " ++ tx.security ++ " " ++ tx.side.text) = .ok f) := by
  unfold addImplicit at h
  split at h
  · rename_i hz
    left
    simp only [Prod.mk.injEq, and_true] at h
    exact ⟨hz, h.symm⟩
  · rename_i hz
    right
    split at h
    · rename_i f hf
      simp only [Prod.mk.injEq, and_true] at h
      have hu := (fxTx_ok hf).1
      exact ⟨hz, hu, f, h.symm, by rw [← hu]; exact hf⟩
    · simp at h

/-! ### USD cash: one row -/

theorem applyAct_cash (p : Account → Bool) (st : St) (n : Nat) (act : RowAct)
    (h : (applyAct st n act).errors = st.errors) :
    fxSum p (applyAct st n act).fx.txs + pending p (applyAct st n act).fx.adjacent =
      fxSum p st.fx.txs + pending p st.fx.adjacent + rowCash p act := by
  cases act with
  | skip => simp only [applyAct, rowCash]; grind
  | income t =>
    simp only [applyAct, rowCash, addIncome, fxSum_snoc]; grind
  | fxt r =>
    simp only [applyAct] at h ⊢
    have hnone := St.addErr_errors_none h
    have hpair : addFxtRow st.fx r = ((addFxtRow st.fx r).1, none) := by rw [← hnone]
    simp only [St.addErr_fx, rowCash]
    rcases addFxtRow_ok hpair with ⟨ha, ht⟩ | ⟨adj, tx, ha, ht, hp⟩
    · rw [ht, ha]; simp only [pending]; grind
    · rw [ht, ha]
      simp only [pending, fxSum_snoc]
      obtain ⟨_, _, _, _, _, _, hss, hacc, _⟩ := fxTx_ok hp.built
      rw [hss, hacc]
      have hcad := hp.cadCur
      have husd := hp.usdCur
      have hsame := hp.sameAcct
      have hne : ("CAD" : String) ≠ "USD" := by decide
      unfold fxtCad fxtOther at *
      by_cases hc : adj.currency = "CAD"
      · simp only [hc, if_true] at hcad husd hsame ⊢
        have : ¬ ("CAD" = "USD") := hne
        simp [husd, this]; grind
      · simp only [hc, if_false] at hcad husd hsame ⊢
        have hr : ¬ (r.currency = "USD") := by rw [hcad]; exact hne
        simp [husd, hr]; try grind
  | trade t =>
    simp only [applyAct] at h ⊢
    split
    · rename_i hcad
      have hne : ¬ (t.currency = "USD") := by rw [hcad]; decide
      simp only [rowCash, hne, false_and, if_false]; grind
    · rename_i hcad
      rw [if_neg hcad] at h
      have hnone := St.addErr_errors_none h
      have hpair : addImplicit st.fx t = ((addImplicit st.fx t).1, none) := by rw [← hnone]
      simp only [St.addErr_fx, rowCash]
      rcases addImplicit_ok hpair with ⟨hz, ht⟩ | ⟨hz, hu, f, ht, hf⟩
      · rw [ht, hz]; grind
      · rw [ht]
        simp only [fxSum_snoc]
        obtain ⟨_, _, _, _, _, _, hss, hacc, _⟩ := fxTx_ok hf
        rw [hss, hacc]
        simp only [hu, true_and]; grind

theorem stepRow_cash (p : Account → Bool) (st : St) (n : Nat) (rd : Reader)
    (h : (stepRow st n rd).errors = st.errors) :
    fxSum p (stepRow st n rd).fx.txs + pending p (stepRow st n rd).fx.adjacent =
      fxSum p st.fx.txs + pending p st.fx.adjacent + rowCashOf p n rd := by
  unfold stepRow rowCashOf at *
  cases hp : parseRow rd n with
  | error e => rw [hp] at h; simp [St.addErr] at h
  | ok act =>
    rw [hp] at h
    simpa using applyAct_cash p st n act h

/-- **Cash invariant of the row loop.** -/
theorem runRows_cash (p : Account → Bool) (rds : List Reader) (st : St) (n : Nat)
    (h : (runRows st n rds).errors = st.errors) :
    fxSum p (runRows st n rds).fx.txs + pending p (runRows st n rds).fx.adjacent =
      fxSum p st.fx.txs + pending p st.fx.adjacent + cashFrom p n rds := by
  induction rds generalizing st n with
  | nil => simp only [runRows, cashFrom]; grind
  | cons rd rest ih =>
    obtain ⟨h1, h2⟩ := runRows_no_error_split h
    have s1 := stepRow_cash p st n rd h1
    have s2 := ih (stepRow st n rd) (n + 1) h2
    simp only [runRows, cashFrom]
    rw [s2, s1]; grind

end Acb.Qt

namespace Acb.Qt

/-- In a run without row errors every row parsed. -/
theorem runRows_no_error_parse (rds : List Reader) (st : St) (n : Nat)
    (h : (runRows st n rds).errors = st.errors) (k : Nat) (rd : Reader) (hk : rds[k]? = some rd) :
    ∃ act, parseRow rd (n + k) = .ok act := by
  induction rds generalizing st n k with
  | nil => simp at hk
  | cons r rest ih =>
    obtain ⟨h1, h2⟩ := runRows_no_error_split h
    cases k with
    | zero =>
      simp only [List.getElem?_cons_zero, Option.some.injEq] at hk
      subst hk
      unfold stepRow at h1
      cases hp : parseRow r n with
      | error e => rw [hp] at h1; simp [St.addErr] at h1
      | ok act => exact ⟨act, by simp⟩
    | succ k' =>
      have := ih (stepRow st n r) (n + 1) h2 k' (by simpa using hk)
      have e : n + (k' + 1) = n + 1 + k' := by omega
      rw [e]; exact this

theorem finish_errors_nil {st : St} (h : (finish st).errors = []) :
    st.errors = [] ∧ st.fx.adjacent = none := by
  unfold finish at h
  split at h
  · simp at h
  · rename_i hadj
    exact ⟨h, hadj⟩

end Acb.Qt
