/-
  Concrete data used by the non-vacuity examples of C12-C14.
-/
import AcbModel.Lemmas.FxSpec
import AcbModel.Lemmas.FxCivil
namespace Acb.Fx

/-- New Year 2020 (JDN 2458850 = 2020-01-01): rates on Dec 30, Jan 2, Jan 3, Jan 6; today Jan 21. -/
def exEnv : Env :=
  { cal := civil, today := 2458870, force := false,
    remote := fun y =>
      if y = 2020 then some [⟨2458851, 13/10⟩, ⟨2458852, 131/100⟩, ⟨2458855, 7/5⟩]
      else if y = 2019 then some [⟨2458848, 129/100⟩] else none }

theorem exEnv_wf : RemoteWF exEnv := by
  intro y l h
  simp only [exEnv] at h
  split at h
  · rename_i hy; subst hy
    simp only [Option.some.injEq] at h; subst h
    refine ⟨by simp [Sorted], ?_⟩
    intro x hx
    simp only [List.mem_cons, List.not_mem_nil, or_false] at hx
    rcases hx with rfl | rfl | rfl <;> decide +kernel
  · split at h
    · rename_i hy; subst hy
      simp only [Option.some.injEq] at h; subst h
      refine ⟨by simp [Sorted], ?_⟩
      intro x hx
      simp only [List.mem_cons, List.not_mem_nil, or_false] at hx
      rcases hx with rfl <;> decide +kernel
    · cases h


end Acb.Fx
