/-
  Concrete data used by the non-vacuity examples of C12-C14.
-/
import AcbModel.Lemmas.FxSpec
import AcbModel.Lemmas.FxCivil
import AcbModel.Lemmas.FxFile
namespace Acb.Fx

/-- New Year 2020 (JDN 2458850 = 2020-01-01): rates on Dec 30, Jan 2, Jan 3, Jan 6; today Jan 21. -/
def exEnv : Env :=
  { cal := civil, today := 2458870, force := false,
    remote := fun y =>
      if y = 2020 then some [⟨2458851, 13/10⟩, ⟨2458852, 131/100⟩, ⟨2458855, 7/5⟩]
      else if y = 2019 then some [⟨2458848, 129/100⟩] else none }

theorem exEnv_wf : RemoteWF exEnv := by
  intro y l h
  simp only [exEnv] at h
  split at h
  · rename_i hy; subst hy
    simp only [Option.some.injEq] at h; subst h
    refine ⟨by simp [Sorted], ?_⟩
    intro x hx
    simp only [List.mem_cons, List.not_mem_nil, or_false] at hx
    rcases hx with rfl | rfl | rfl <;> decide +kernel
  · split at h
    · rename_i hy; subst hy
      simp only [Option.some.injEq] at h; subst h
      refine ⟨by simp [Sorted], ?_⟩
      intro x hx
      simp only [List.mem_cons, List.not_mem_nil, or_false] at hx
      rcases hx with rfl <;> decide +kernel
    · cases h


/-- The same data seen on Jan 7, 2020 (JDN 2458856) … -/
def exEnvA : Env := { exEnv with today := 2458856 }

/-- … and on Jan 21, when a rate for Jan 8 (JDN 2458857) has been published as well. -/
def exEnvB : Env :=
  { cal := civil, today := 2458870, force := false,
    remote := fun y =>
      if y = 2020 then some [⟨2458851, 13/10⟩, ⟨2458852, 131/100⟩, ⟨2458855, 7/5⟩, ⟨2458857, 141/100⟩]
      else if y = 2019 then some [⟨2458848, 129/100⟩] else none }

theorem exEnvA_wf : RemoteWF exEnvA := by
  intro y l h
  obtain ⟨h1, h2⟩ := exEnv_wf y l h
  refine ⟨h1, fun x hx => ⟨(h2 x hx).1, (h2 x hx).2.1, ?_⟩⟩
  simp only [exEnvA, exEnv] at h
  split at h
  · simp only [Option.some.injEq] at h; subst h
    simp only [List.mem_cons, List.not_mem_nil, or_false] at hx
    rcases hx with rfl | rfl | rfl <;> decide +kernel
  · split at h
    · simp only [Option.some.injEq] at h; subst h
      simp only [List.mem_cons, List.not_mem_nil, or_false] at hx
      rcases hx with rfl <;> decide +kernel
    · cases h

theorem exEnvB_wf : RemoteWF exEnvB := by
  intro y l h
  simp only [exEnvB] at h
  split at h
  · rename_i hy; subst hy
    simp only [Option.some.injEq] at h; subst h
    refine ⟨by simp [Sorted], ?_⟩
    intro x hx
    simp only [List.mem_cons, List.not_mem_nil, or_false] at hx
    rcases hx with rfl | rfl | rfl | rfl <;> decide +kernel
  · split at h
    · rename_i hy; subst hy
      simp only [Option.some.injEq] at h; subst h
      refine ⟨by simp [Sorted], ?_⟩
      intro x hx
      simp only [List.mem_cons, List.not_mem_nil, or_false] at hx
      rcases hx with rfl <;> decide +kernel
    · cases h

theorem exEnvAB_consistent : Consistent exEnvA exEnvB := by
  refine ⟨rfl, by decide +kernel, ?_, ?_, ?_⟩
  · intro d hd
    have hd' : d < 2458856 := hd
    show pubOf civil exEnvB.remote d = pubOf civil exEnvA.remote d
    unfold pubOf
    simp only [exEnvA, exEnvB, exEnv]
    generalize civil.yearOf d = y
    by_cases h1 : y = 2020
    · have h3 : ¬ (2458857 : Int) = d := by omega
      simp [h1, lookupLast, h3]
    · by_cases h2 : y = 2019 <;> simp [h1, h2]
  · intro d r h
    revert h
    show pubOf civil exEnvA.remote d = some r → pubOf civil exEnvB.remote d = some r
    unfold pubOf
    simp only [exEnvA, exEnvB, exEnv]
    generalize civil.yearOf d = y
    by_cases h1 : y = 2020
    · simp only [h1, if_true, lookupLast]
      by_cases h3 : (2458857 : Int) = d
      · subst h3; simp
      · simp [h3]
    · by_cases h2 : y = 2019 <;> simp [h1, h2]
  · intro y h
    simp only [exEnvA, exEnvB, exEnv] at h ⊢
    by_cases h1 : y = 2020
    · simp [h1]
    · by_cases h2 : y = 2019 <;> simp_all

/-- Two runs: on Jan 7 a look-up of Jan 3; on Jan 21 a look-up of Jan 3 (covered by the cache),
    then of Jan 8 (newer than the cache) and of Jan 9. -/
def exHistory : List Run :=
  [⟨exEnvA, [2458852]⟩, ⟨exEnvB, [2458852, 2458857, 2458858]⟩]

theorem exHistory_good : GoodHistory none exHistory :=
  ⟨civil_ok, exEnvA_wf, trivial, civil_ok, exEnvB_wf, exEnvAB_consistent, trivial⟩

/-! The loader as it was before the repair of F-13: a year already in `year_rates` is never
    validated again. -/

def ensureLoadedOld (e : Env) (s : St) (d : Int) : Except FxErr (List DailyRate) × St :=
  let y := e.cal.yearOf d
  match s.loaded y with
  | some rows => (.ok rows, s)
  | none =>
    match fetch e s d with
    | (.ok rows, s') => (.ok rows, { s' with loaded := upd s'.loaded y (some rows) })
    | (.error er, s') => (.error er, s')

def getExactOld (e : Env) (s : St) (d : Int) : Except FxErr (Option DailyRate) × St :=
  match ensureLoadedOld e s d with
  | (.error er, s') => (.error er, s')
  | (.ok rows, s') =>
    match lookupLast rows d with
    | some r => if r = 0 then (.ok none, s') else (.ok (some ⟨d, r⟩), s')
    | none => if e.today ≤ d then (.error .noRateYet, s') else (.ok none, s')

def lookBackOld (e : Env) : Nat → St → Int → Except FxErr DailyRate × St
  | 0, s, _ => (.error .notFound, s)
  | n + 1, s, d =>
    match getExactOld e s (d - 1) with
    | (.error er, s') => (.error er, s')
    | (.ok (some r), s') => (.ok r, s')
    | (.ok none, s') => lookBackOld e n s' (d - 1)

def getEffectiveOld (e : Env) (s : St) (d : Int) : Except FxErr DailyRate × St :=
  match getExactOld e s d with
  | (.error er, s') => (.error er, s')
  | (.ok (some r), s') => (.ok r, s')
  | (.ok none, s') => lookBackOld e 7 s' d

/-- The year 2020 as the run of Jan 21 downloads and fills it (20 rows), with rate texts. -/
def exRateText (r : Rat) : List Char :=
  if r = 13/10 then "1.3".toList else if r = 131/100 then "1.31".toList
  else if r = 7/5 then "1.4".toList else if r = 141/100 then "1.41".toList else "0".toList

def exRows : List TextRow :=
  (fillUnknown civil exEnvB.today
      [⟨2458851, 13/10⟩, ⟨2458852, 131/100⟩, ⟨2458855, 7/5⟩, ⟨2458857, 141/100⟩] 2020).map
    (fun (r : DailyRate) => TextRow.mk r.date (exRateText r.rate))

end Acb.Fx
