/-
  C19 — E*TRADE extraction accounts for every benefit and every sold share once.

  Property theorems only.  Model: `AcbModel/Broker/Etrade.lean` (records after text parsing →
  `find_sell_to_cover_trade_set`, `amend_benefit_sales`, `txs_from_data`, sort); lemmas in
  `AcbModel/Lemmas/Etrade.lean`.  Domain: the trade confirmations are pairwise different records
  (`trades.Nodup`; the same confirmation file given twice is outside the property, see the
  counterexample at the end).
-/
import AcbModel.Lemmas.Etrade
namespace Acb
open Etrade

/-- the window the theorems speak about is the one in the source -/
theorem C19_window_is_five_days : Gen.stcWindowDays = 5 := by decide

/-- **One purchase per benefit.**  The Buy rows of the output are, up to order, exactly one per
    benefit confirmation: the released / purchased / exercised shares at the stated fair market
    value, dated (trade and settlement) at the benefit date, with no commission. -/
theorem C19_one_buy_per_benefit (benefits : List Benefit) (trades : List Trade) (rows : List Row)
    (hn : trades.Nodup) (h : run benefits trades = .ok rows) :
    (rows.filter isBuySrc).Perm (expectedBuys 0 benefits) := by
  obtain ⟨bs', left, matched, rs, ha, hrs, hrows⟩ := run_ok_decomp h
  obtain ⟨st, hinv, hd, _, _, _⟩ := amend_ok_inv hn ha
  have ⟨h1, _, _, _⟩ := benefitRows_spec bs' 0 rs hrs
  have ⟨m1, _, _, _⟩ := manualRows_spec left rs.length
  have hperm : rows.Perm (rs ++ manualRows rs.length left) := by rw [hrows]; exact sortBy_perm _ _
  have hf := hperm.filter isBuySrc
  rw [List.filter_append, h1, m1, List.append_nil] at hf
  have hc := expected_congr benefits bs' 0 (by rw [← hd, hinv.len])
    (by intro j b' hb'; rw [← hd] at hb'; obtain ⟨b, hb, hs, _⟩ := hinv.keep j b' hb'; exact ⟨b, hb, hs⟩)
  rw [hc.1] at hf
  exact hf

/-- **Every trade confirmation is used exactly once.**  With pairwise different confirmations,
    the trades are a permutation of (the sets matched to the sell-to-covers) ⊎ (the left-overs). -/
theorem C19_partition (benefits bs' : List Benefit) (trades left : List Trade) (matched : List (Nat × List Trade))
    (hn : trades.Nodup) (h : amend benefits trades = .ok bs' left matched) :
    trades.Perm ((matched.map (·.2)).flatten ++ left) := by
  obtain ⟨st, hinv, _, hp, hm, _⟩ := amend_ok_inv hn h
  rw [← hp, ← hm]; exact hinv.perm

/-- … the left-overs are exactly the "(manual trade)" rows of the output, each with its own
    security, dates, action, quantity, price and fees … -/
theorem C19_manual_rows (benefits : List Benefit) (trades : List Trade) (rows : List Row)
    (h : run benefits trades = .ok rows) :
    ∃ bs' left matched, amend benefits trades = .ok bs' left matched ∧
      (rows.filterMap manualOf).Perm left ∧
      ∀ r ∈ rows, ∀ t, r.src = .manual t → r = manualRow r.readIdx t := by
  obtain ⟨bs', left, matched, rs, ha, hrs, hrows⟩ := run_ok_decomp h
  have ⟨_, h2, _, h4⟩ := benefitRows_spec bs' 0 rs hrs
  have ⟨_, m2, _, m4⟩ := manualRows_spec left rs.length
  have hperm : rows.Perm (rs ++ manualRows rs.length left) := by rw [hrows]; exact sortBy_perm _ _
  refine ⟨bs', left, matched, ha, ?_, ?_⟩
  · have hf := hperm.filterMap manualOf
    rw [List.filterMap_append, h2, m2, List.nil_append] at hf
    exact hf
  · intro r hr t ht
    have hr' := hperm.subset hr
    rcases List.mem_append.mp hr' with hr' | hr'
    · rcases h4 r hr' with ⟨j, b, _, rfl⟩ | ⟨j, b, s, _, _, rfl⟩
      · simp [buyRow] at ht
      · simp [stcRow] at ht
    · obtain ⟨t', idx, _, rfl⟩ := m4 r hr'
      simp only [manualRow, Src.manual.injEq] at ht
      subst ht; rfl

/-- … and every matched set appears as exactly one sell-to-cover sale of its benefit: the
    benefit's security, a Sell of the set's total share count (= the benefit's sold shares), dated
    as the first matched trade, at the price and fee stated on the benefit confirmation. -/
theorem C19_stc_rows (benefits : List Benefit) (trades : List Trade) (rows : List Row)
    (hn : trades.Nodup) (h : run benefits trades = .ok rows) :
    ∃ bs' left matched, amend benefits trades = .ok bs' left matched ∧
      (rows.filterMap stcIdxOf).Perm (matched.map (·.1)) ∧ (matched.map (·.1)).Nodup ∧
      ∀ r ∈ rows, ∀ i, r.src = .stc i → ∃ b m t0 rest, benefits[i]? = some b ∧ (i, m) ∈ matched ∧
        m = t0 :: rest ∧ r.sec = b.sec ∧ r.act = .sell ∧ r.shares = sumShares m ∧
        r.tradeDate = t0.tradeDate ∧ r.settle = t0.settle ∧
        b.stcPrice = some r.price ∧ b.stcFee = some r.comm := by
  obtain ⟨bs', left, matched, rs, ha, hrs, hrows⟩ := run_ok_decomp h
  obtain ⟨st, hinv, hd, _, hm, he⟩ := amend_ok_inv hn ha
  have ⟨_, _, h3, h4⟩ := benefitRows_spec bs' 0 rs hrs
  have ⟨_, _, m3, m4⟩ := manualRows_spec left rs.length
  have hperm : rows.Perm (rs ++ manualRows rs.length left) := by rw [hrows]; exact sortBy_perm _ _
  have hc := expected_congr benefits bs' 0 (by rw [← hd, hinv.len])
    (by intro j b' hb'; rw [← hd] at hb'; obtain ⟨b, hb, hs, _⟩ := hinv.keep j b' hb'; exact ⟨b, hb, hs⟩)
  have hnd : (matched.map (·.1)).Nodup := by
    rw [← hm]; exact hinv.mono.imp (fun h => Nat.ne_of_lt h)
  -- membership in `expectedStcIdx`
  have hexp : ∀ (bs : List Benefit) (k i : Nat), i ∈ expectedStcIdx k bs ↔
      ∃ j b, bs[j]? = some b ∧ i = k + j ∧ b.stcShares.isSome = true := by
    intro bs
    induction bs with
    | nil => intro k i; simp [expectedStcIdx]
    | cons b bs ih =>
      intro k i
      simp only [expectedStcIdx, List.mem_append, ih]
      constructor
      · rintro (hi | ⟨j, b', hj, rfl, hs⟩)
        · split at hi
          · simp only [List.mem_singleton] at hi; subst hi
            exact ⟨0, b, by simp, by simp, by assumption⟩
          · cases hi
        · exact ⟨j + 1, b', by simpa using hj, by omega, hs⟩
      · rintro ⟨j, b', hj, rfl, hs⟩
        cases j with
        | zero => simp at hj; subst hj; left; simp [hs]
        | succ j => right; exact ⟨j, b', by simpa using hj, by omega, hs⟩
  have hnodupExp : ∀ (bs : List Benefit) (k : Nat), (expectedStcIdx k bs).Pairwise (· < ·) ∧
      ∀ i ∈ expectedStcIdx k bs, k ≤ i := by
    intro bs
    induction bs with
    | nil => intro k; simp [expectedStcIdx]
    | cons b bs ih =>
      intro k
      have ⟨p1, p2⟩ := ih (k + 1)
      constructor
      · simp only [expectedStcIdx]
        split
        · simp only [List.singleton_append, List.pairwise_cons]
          exact ⟨fun i hi => by have := p2 i hi; omega, p1⟩
        · simpa using p1
      · intro i hi
        simp only [expectedStcIdx, List.mem_append] at hi
        rcases hi with hi | hi
        · split at hi
          · simp at hi; omega
          · cases hi
        · have := p2 i hi; omega
  refine ⟨bs', left, matched, ha, ?_, hnd, ?_⟩
  · have hf := hperm.filterMap stcIdxOf
    rw [List.filterMap_append, h3, m3, List.append_nil, hc.2] at hf
    refine hf.trans ?_
    apply (List.perm_ext_iff_of_nodup ((hnodupExp benefits 0).1.imp (fun h => Nat.ne_of_lt h)) hnd).mpr
    intro i
    rw [hexp]
    constructor
    · rintro ⟨j, b, hj, rfl, hs⟩
      have hjl : j < benefits.length := by
        rcases Nat.lt_or_ge j benefits.length with h' | h'
        · exact h'
        · rw [List.getElem?_eq_none h'] at hj; cases hj
      rcases hinv.cover j b hjl hj hs with ⟨m, hm'⟩ | ⟨e, he'⟩
      · rw [hm] at hm'
        simp only [Nat.zero_add]
        exact List.mem_map.mpr ⟨(j, m), hm', rfl⟩
      · rw [he] at he'; cases he'
    · intro hi
      obtain ⟨im, him, rfl⟩ := List.mem_map.mp hi
      rw [← hm] at him
      obtain ⟨b, b', hb, _, hok, _⟩ := hinv.ok im him
      exact ⟨im.1, b, hb, by omega, by rw [hok.sum]; rfl⟩
  · intro r hr i hi
    have hr' := hperm.subset hr
    rcases List.mem_append.mp hr' with hr' | hr'
    · rcases h4 r hr' with ⟨j, b, _, rfl⟩ | ⟨j, b', s, hj, hs, rfl⟩
      · simp [buyRow] at hi
      · simp only [stcRow, Src.stc.injEq, Nat.zero_add] at hi; subst hi
        rw [← hd] at hj
        obtain ⟨b, hb, hsame, _⟩ := hinv.keep j b' hj
        have hf := stcData_fields hs
        unfold SameBut at hsame
        have hsh : b.stcShares = some s.shares := by rw [← hf.2.2.2.1, hsame]
        have hjl : j < benefits.length := by
          rcases Nat.lt_or_ge j benefits.length with h' | h'
          · exact h'
          · rw [List.getElem?_eq_none h'] at hb; cases hb
        rcases hinv.cover j b hjl hb (by rw [hsh]; rfl) with ⟨m, hm'⟩ | ⟨e, he'⟩
        · obtain ⟨b0, b0', hb0, hb0', hok, _⟩ := hinv.ok (j, m) hm'
          simp only at hb0 hb0'
          rw [hb] at hb0; cases hb0
          rw [hj] at hb0'; cases hb0'
          obtain ⟨t0, rest, hmeq, hd1, hd2⟩ := hok.dated
          rw [hm] at hm'
          refine ⟨b, m, t0, rest, hb, hm', hmeq, ?_, rfl, ?_, ?_, ?_, ?_, ?_⟩
          · simp only [stcRow, Nat.zero_add]; rw [hsame]
          · simp only [stcRow]
            have := hok.sum; rw [hsh] at this; injection this
          · simp only [stcRow]; rw [hf.1] at hd1; injection hd1
          · simp only [stcRow]; rw [hf.2.1] at hd2; injection hd2
          · simp only [stcRow]; rw [← hf.2.2.1, hsame]
          · simp only [stcRow]; rw [← hf.2.2.2.2, hsame]
        · rw [he] at he'; cases he'
    · obtain ⟨t', idx, _, rfl⟩ := m4 r hr'
      simp [manualRow] at hi

/-- **A matched set is a real sell-to-cover** of its benefit: trade confirmations (a sub-sequence
    of the input) of the same security, all Sells, traded on the benefit date or at most five days
    later, share counts adding up to the benefit's sold shares; the benefit's sale is dated as the
    first of them. -/
theorem C19_matched_ok (benefits bs' : List Benefit) (trades left : List Trade) (matched : List (Nat × List Trade))
    (hn : trades.Nodup) (h : amend benefits trades = .ok bs' left matched) :
    ∀ im ∈ matched, ∃ b b', benefits[im.1]? = some b ∧ bs'[im.1]? = some b' ∧ im.2.Sublist trades ∧
      (∀ t ∈ im.2, t.sec = b.sec ∧ t.act = .sell ∧ b.acqDate ≤ t.tradeDate ∧ t.tradeDate ≤ b.acqDate + 5) ∧
      b.stcShares = some (sumShares im.2) ∧
      ∃ t0 rest, im.2 = t0 :: rest ∧ b'.stcTxDate = some t0.tradeDate ∧ b'.stcSettle = some t0.settle := by
  obtain ⟨st, hinv, hd, _, hm, _⟩ := amend_ok_inv hn h
  intro im him
  rw [← hm] at him
  obtain ⟨b, b', hb, hb', hok, hsub⟩ := hinv.ok im him
  refine ⟨b, b', hb, by rw [← hd]; exact hb', hsub, ?_, hok.sum, hok.dated⟩
  intro t ht
  have := hok.window t ht
  rw [C19_window_is_five_days] at this
  exact ⟨hok.sec t ht, hok.sell t ht, this.1, this.2⟩

/-- **An unmatched sell-to-cover is an error, not a guess.**  If, for some benefit with sold
    shares, no set of trade confirmations of its security sold within the window adds up to the
    sold shares, the tool produces no output at all. -/
theorem C19_unmatched_is_error (benefits : List Benefit) (trades : List Trade) (hn : trades.Nodup)
    (i : Nat) (b : Benefit) (sold : Rat) (hb : benefits[i]? = some b) (hs : b.stcShares = some sold)
    (hno : ∀ m : List Trade, m.Sublist trades → m ≠ [] →
      (∀ t ∈ m, t.sec = b.sec ∧ t.act = .sell ∧ b.acqDate ≤ t.tradeDate ∧ t.tradeDate ≤ b.acqDate + 5) →
      sumShares m ≠ sold) :
    ∀ rows, run benefits trades ≠ .ok rows := by
  intro rows h
  obtain ⟨bs', left, matched, rs, ha, _, _⟩ := run_ok_decomp h
  obtain ⟨st, hinv, _, _, hm, he⟩ := amend_ok_inv hn ha
  have hil : i < benefits.length := by
    rcases Nat.lt_or_ge i benefits.length with h' | h'
    · exact h'
    · rw [List.getElem?_eq_none h'] at hb; cases hb
  rcases hinv.cover i b hil hb (by rw [hs]; rfl) with ⟨m, hm'⟩ | ⟨e, he'⟩
  · rw [hm] at hm'
    obtain ⟨b0, _, hb0, _, hsub, hall, hsum, t0, rest, hmeq, _⟩ := C19_matched_ok benefits bs' trades left matched hn ha (i, m) hm'
    simp only at hb0 hsub hall hsum hmeq
    rw [hb] at hb0; cases hb0
    rw [hs] at hsum; injection hsum with hsum
    exact hno m hsub (by rw [hmeq]; simp) hall hsum.symm
  · rw [he] at he'; cases he'

/-- The search itself never invents a set: what it returns is one of the combinations it found. -/
theorem C19_found_set_is_a_match (sec : Nat) (sold : Rat) (p : Option Rat) (cands m : List Trade)
    (h : findSet sec sold p cands = .ok m) :
    m.Sublist cands ∧ m ≠ [] ∧ (∀ t ∈ m, t.sec = sec) ∧ sumShares m = sold :=
  allMatching_spec (findSet_mem h)

/-- **Rows are ordered by settlement date.** -/
theorem C19_sorted (benefits : List Benefit) (trades : List Trade) (rows : List Row)
    (h : run benefits trades = .ok rows) : rows.Pairwise (fun a b => a.settle ≤ b.settle) := by
  obtain ⟨_, _, _, rs, _, _, hrows⟩ := run_ok_decomp h
  rw [hrows]
  exact (sortBy_pairwise rowLe rowLe_trans rowLe_total _).imp (fun h => rowLe_settle h)

/-- what the text layer guarantees by its regular expressions, plus positivity of share counts -/
def BenefitValid (b : Benefit) : Prop :=
  0 < b.shares ∧ 0 ≤ b.price ∧ (∀ s, b.stcShares = some s → 0 < s) ∧
  (∀ p, b.stcPrice = some p → 0 ≤ p) ∧ (∀ f, b.stcFee = some f → 0 ≤ f)

def TradeValid (t : Trade) : Prop :=
  (t.act = .buy ∨ t.act = .sell) ∧ 0 < t.shares ∧ 0 ≤ t.price ∧ 0 ≤ t.comm

/-- **Every emitted row is accepted by acb** (`Tx::try_from`: Buy/Sell with positive shares,
    non-negative price and commission). -/
theorem C19_accepted_by_acb (benefits : List Benefit) (trades : List Trade) (rows : List Row)
    (hn : trades.Nodup) (hbv : ∀ b ∈ benefits, BenefitValid b) (htv : ∀ t ∈ trades, TradeValid t)
    (h : run benefits trades = .ok rows) : ∀ r ∈ rows, acbAccepts r = true := by
  obtain ⟨bs', left, matched, rs, ha, hrs, hrows⟩ := run_ok_decomp h
  obtain ⟨st, hinv, hd, hp, _, _⟩ := amend_ok_inv hn ha
  have ⟨_, _, _, h4⟩ := benefitRows_spec bs' 0 rs hrs
  have ⟨_, _, _, m4⟩ := manualRows_spec left rs.length
  have hperm : rows.Perm (rs ++ manualRows rs.length left) := by rw [hrows]; exact sortBy_perm _ _
  intro r hr
  have hr' := hperm.subset hr
  have hvalid : ∀ (j : Nat) (b' : Benefit), bs'[j]? = some b' → ∃ b, BenefitValid b ∧ SameBut b b' := by
    intro j b' hj
    rw [← hd] at hj
    obtain ⟨b, hb, hsame, _⟩ := hinv.keep j b' hj
    exact ⟨b, hbv b (List.mem_of_getElem? hb), hsame⟩
  rcases List.mem_append.mp hr' with hr' | hr'
  · rcases h4 r hr' with ⟨j, b', hj, rfl⟩ | ⟨j, b', s, hj, hs, rfl⟩
    · obtain ⟨b, hv, hsame⟩ := hvalid j b' hj
      unfold SameBut at hsame
      have h1 : b'.shares = b.shares := by rw [hsame]
      have h2 : b'.price = b.price := by rw [hsame]
      rw [acbAccepts_iff]
      refine ⟨Or.inl rfl, ?_, ?_, ?_⟩
      · show 0 < b'.shares; rw [h1]; exact hv.1
      · show 0 ≤ b'.price; rw [h2]; exact hv.2.1
      · show (0 : Rat) ≤ 0; exact Rat.le_refl
    · obtain ⟨b, hv, hsame⟩ := hvalid j b' hj
      unfold SameBut at hsame
      have hf := stcData_fields hs
      have h1 : b.stcShares = some s.shares := by rw [← hf.2.2.2.1, hsame]
      have h2 : b.stcPrice = some s.price := by rw [← hf.2.2.1, hsame]
      have h3 : b.stcFee = some s.fee := by rw [← hf.2.2.2.2, hsame]
      rw [acbAccepts_iff]
      exact ⟨Or.inr rfl, hv.2.2.1 _ h1, hv.2.2.2.1 _ h2, hv.2.2.2.2 _ h3⟩
  · obtain ⟨t, idx, ht, rfl⟩ := m4 r hr'
    have htr : t ∈ trades := by
      rw [← hp] at ht; exact hinv.sub.subset ht
    have hv := htv t htr
    rw [acbAccepts_iff]
    exact hv

/-! ### a worked instance (non-vacuity): the shape of the recorded 2024 scenario -/

def exBenefit (tag : Nat) (date : Int) (shares sold price stcPrice fee : Rat) : Benefit :=
  { sec := 1, acqDate := date, acqSettle := date, price := price, shares := shares, stcTxDate := none,
    stcSettle := none, stcPrice := some stcPrice, stcShares := some sold, stcFee := some fee, tag := tag }

def exTrade (file : Nat) (date : Int) (shares price comm : Rat) : Trade :=
  { sec := 1, tradeDate := date, settle := date + 2, act := .sell, price := price, shares := shares,
    comm := comm, file := file, row := 1 }

def exBenefits : List Benefit := [exBenefit 0 50 100 25 105 106 4, exBenefit 1 50 50 10 110 111 1]
def exTrades : List Trade :=
  [exTrade 0 3 5 150 5, exTrade 1 16 11 150 0, exTrade 2 46 8 150 5, exTrade 3 52 10 111 1, exTrade 4 52 25 106 4,
   exTrade 5 56 10 150 5, exTrade 6 56 9 150 5]

example : expectedBuys 0 [exBenefit 0 50 100 25 105 106 4] =
    [({ sec := 1, tradeDate := 50, settle := 50, act := .buy, shares := 100, price := 105, comm := 0,
        readIdx := 0, src := .buy 0 } : Row)] := by decide +kernel

/-- the run succeeds: 2 Buys, 2 sell-to-covers (25 and 10 shares, dated day 52), 5 manual trades,
    in settlement order — note the second 10-share sale on day 56 is outside the window… no, inside
    (day 50 + 5 = 55 < 56): it stays a manual trade -/
example : (match run exBenefits exTrades with
    | .ok rows => rows.map (fun r => (r.settle, r.shares, match r.src with | .buy _ => 0 | .stc _ => 1 | .manual _ => 2))
    | _ => []) =
    [(5, 5, 2), (18, 11, 2), (48, 8, 2), (50, 100, 0), (50, 50, 0), (54, 25, 1), (54, 10, 1), (58, 10, 2), (58, 9, 2)] := by
  decide +kernel

example : exTrades.Nodup := by decide +kernel
example : ∀ b ∈ exBenefits, BenefitValid b := by
  intro b hb
  simp only [exBenefits, List.mem_cons, List.mem_singleton, List.not_mem_nil, or_false] at hb
  rcases hb with rfl | rfl <;>
    refine ⟨by decide +kernel, by decide +kernel, ?_, ?_, ?_⟩ <;> intro x hx <;>
    simp only [exBenefit, Option.some.injEq] at hx <;> subst hx <;> decide +kernel

/-- **Outside the domain: the same confirmation given twice.**  With the duplicated 5-share sale
    `t` around another sale `u`, the benefit's 10 sold shares are matched by `[t, t]`, but "remove
    by position of an equal element" removes `t` and `u`: the output keeps a third copy of `t` as
    a manual trade and `u`'s 3 shares vanish. -/
theorem C19_duplicate_trade_counterexample :
    let t := exTrade 0 51 5 100 1
    let u := exTrade 1 51 3 100 1
    (match amend [exBenefit 0 50 20 10 100 100 1] [t, u, t] with
     | .ok _ left matched => (left, matched.map (·.2))
     | _ => ([], [])) = ([t], [[t, t]]) := by
  decide +kernel

end Acb
