/-
  C17 / C05 — the --total-costs report on what the ledger really emits.

  `C17_no_panic` and the figure theorems of Props/C17.lean assume `WF rows` (cost bases not
  negative, a row with a post cost base has a pre cost base, rows of one security in date order).
  Here that hypothesis is discharged for the rows `run_acb_app_to_render_model` hands to
  `calc_total_costs`: for every set of securities, every opening position and every list of
  parsed rows per security sorted by settlement date (`all_txs.sort()`), the concatenation of the
  securities' delta lists — complete, or cut short by an error (`deltas_or_partial_deltas`),
  including the deltas of generated adjustment rows — is `WF`.  Hence neither
  `d.pre_status.total_acb.unwrap()` nor `panic!("Deltas for {sec} were not sorted …")` is
  reachable from the front end, whatever the input.
-/
import AcbModel.Props.C17
import AcbModel.Props.C04
import AcbModel.Lemmas.CostsBridge
namespace Acb
open Acb.Costs

/-- one security's input to the ledger: its id, opening position and parsed rows -/
structure SecLedger where
  sec : Nat
  init : Option Status
  txs : List Tx

/-- the row of the cost report for one delta (`isDefault` = `Affiliate::is_default`) -/
def rowOfDelta (isDefault : Aff → Bool) (sec : Nat) (d : Delta) : Row :=
  { sec := sec, day := d.tx.settle, pre := d.pre.acb, post := d.post.acb,
    dflt := isDefault d.tx.aff, aff := d.tx.aff.key }

/-- `all_deltas` of `run_acb_app_to_render_model`, as report rows -/
def ledgerRows (isDefault : Aff → Bool) (dflt : Aff) (L : List SecLedger) : List Row :=
  L.flatMap (fun l => (deltaList dflt l.init l.txs).1.map (rowOfDelta isDefault l.sec))

/-- **C17 (the ledger's output meets the report's precondition)**, for all securities, opening
    positions and rows of any length, whether or not a security's ledger fails part-way. -/
theorem C17_ledger_rows_wf (isDefault : Aff → Bool) (dflt : Aff) (L : List SecLedger)
    (hsec : L.Pairwise (fun a b => a.sec ≠ b.sec))
    (hv : ∀ l ∈ L, ∀ tx ∈ l.txs, tx.Valid) (hi : ∀ l ∈ L, InitOk dflt l.init)
    (hs : ∀ l ∈ L, l.txs.Pairwise (fun a b => a.settle ≤ b.settle)) :
    WF (ledgerRows isDefault dflt L) := by
  have hmem : ∀ r ∈ ledgerRows isDefault dflt L, ∃ l ∈ L, ∃ d ∈ (deltaList dflt l.init l.txs).1,
      r = rowOfDelta isDefault l.sec d := by
    intro r hr
    simp only [ledgerRows, List.mem_flatMap, List.mem_map] at hr
    obtain ⟨l, hl, d, hd, rfl⟩ := hr
    exact ⟨l, hl, d, hd, rfl⟩
  have hok : ∀ l ∈ L, ∀ d ∈ (deltaList dflt l.init l.txs).1, StatusOk d.tx.aff d.pre ∧ StatusOk d.tx.aff d.post := by
    intro l hl d hd
    obtain ⟨bs', h⟩ := ListP_mem (deltaList_wf dflt l.init l.txs (hv l hl) (hi l hl)).1 d hd
    exact ⟨h.pre, h.post⟩
  refine ⟨?_, ?_, ?_⟩
  · intro r hr p hp
    obtain ⟨l, hl, d, hd, rfl⟩ := hmem r hr
    obtain ⟨h1, h2⟩ := hok l hl d hd
    rcases hp with hp | hp
    · exact h2.acb p hp
    · exact h1.acb p hp
  · intro r hr hp
    obtain ⟨l, hl, d, hd, rfl⟩ := hmem r hr
    obtain ⟨h1, h2⟩ := hok l hl d hd
    have e1 := h1.reg
    have e2 := h2.reg
    simp only [rowOfDelta] at hp ⊢
    cases hpre : d.pre.acb with
    | some _ => rfl
    | none =>
      rw [hpre] at e1
      rw [← e1] at e2
      cases hpost : d.post.acb with
      | none => rw [hpost] at hp; cases hp
      | some _ => rw [hpost] at e2; cases e2
  · refine List.Pairwise.sublist (List.filter_sublist) ?_
    clear hmem hok
    unfold ledgerRows
    induction L with
    | nil => exact List.Pairwise.nil
    | cons l ls ih =>
      rw [List.flatMap_cons]
      refine List.pairwise_append.mpr ⟨?_, ?_, ?_⟩
      · have := deltaList_sorted dflt l.init l.txs (hs l (by simp))
        rw [List.pairwise_map]
        refine this.imp ?_
        intro a b h _
        exact h
      · exact ih (List.pairwise_cons.mp hsec).2 (fun l' hl' => hv l' (by simp [hl']))
          (fun l' hl' => hi l' (by simp [hl'])) (fun l' hl' => hs l' (by simp [hl']))
      · intro a ha b hb hab
        simp only [List.mem_map] at ha
        obtain ⟨d, _, rfl⟩ := ha
        simp only [List.mem_flatMap, List.mem_map] at hb
        obtain ⟨l', hl', d', _, rfl⟩ := hb
        exact absurd hab ((List.pairwise_cons.mp hsec).1 l' hl')

/-- **C17/C05 (the cost report never panics on ledger output).** -/
theorem C17_ledger_costs_no_panic (yearOf : Int → Int) (σ : List Nat → List Nat) (τ : List Int → List Int)
    (isDefault : Aff → Bool) (dflt : Aff) (L : List SecLedger)
    (hsec : L.Pairwise (fun a b => a.sec ≠ b.sec))
    (hv : ∀ l ∈ L, ∀ tx ∈ l.txs, tx.Valid) (hi : ∀ l ∈ L, InitOk dflt l.init)
    (hs : ∀ l ∈ L, l.txs.Pairwise (fun a b => a.settle ≤ b.settle)) :
    ∃ c, calcTotalCosts yearOf (ledgerRows isDefault dflt L) σ τ = .ok c :=
  C17_no_panic yearOf _ σ τ (C17_ledger_rows_wf isDefault dflt L hsec hv hi hs)

/-! Non-vacuity: two securities, the second with a registered affiliate, an opening position and an
    over-sale (so its ledger is cut short and the report is fed the partial list); the first with a
    superficial loss (a generated adjustment row).  The hypotheses hold and the report is computed. -/
private def bDflt : Aff := { key := 0, registered := false }
private def bReg : Aff := { key := 1, registered := true }
private def bL : List SecLedger := [
  { sec := 0, init := none, txs := [
      { trade := 1, settle := 3, idx := 0, aff := bDflt, act := .buy 10 20 5 1 none },
      { trade := 50, settle := 52, idx := 1, aff := bDflt, act := .sell 4 10 1 1 none none },
      { trade := 55, settle := 57, idx := 2, aff := bDflt, act := .buy 4 11 0 1 none } ] },
  { sec := 1, init := some { shares := 5, all := 5, acb := some 40 }, txs := [
      { trade := 2, settle := 4, idx := 3, aff := bReg, act := .buy 7 21 0 1 none },
      { trade := 9, settle := 9, idx := 4, aff := bDflt, act := .sell 2 30 0 1 none none },
      { trade := 20, settle := 22, idx := 5, aff := bDflt, act := .sell 9 30 0 1 none none },
      { trade := 30, settle := 32, idx := 6, aff := bDflt, act := .buy 1 1 0 1 none } ] } ]

example : bL.Pairwise (fun a b => a.sec ≠ b.sec) := by decide
example : ∀ l ∈ bL, ∀ tx ∈ l.txs, tx.Valid := by
  simp [bL, Tx.Valid, Action.Valid, optPos]
  grind
example : ∀ l ∈ bL, InitOk bDflt l.init := by
  intro l hl
  refine ⟨rfl, ?_⟩
  simp only [bL, List.mem_cons, List.not_mem_nil, or_false] at hl
  rcases hl with rfl | rfl
  · intro s h; cases h
  · intro s h
    simp only [Option.some.injEq] at h
    subst h
    exact ⟨rfl, by decide +kernel, 40, rfl, by decide +kernel⟩
example : ∀ l ∈ bL, l.txs.Pairwise (fun a b => a.settle ≤ b.settle) := by decide
example : bL.map (fun l => ((deltaList bDflt l.init l.txs).1.length, (deltaList bDflt l.init l.txs).2.isSome)) =
    [(4, false), (2, true)] := by decide +kernel
example : (ledgerRows (· == bDflt) bDflt bL).map (fun r => (r.sec, r.day, r.post, r.dflt)) =
    [(0, 3, some 205, true), (0, 52, some 123, true), (0, 52, some 166, true), (0, 57, some 210, true),
     (1, 4, none, false), (1, 9, some 24, true)] := by decide +kernel

end Acb
