/-
  C10, continued — the later rows.  Simple mode, for a summary point at which everything is
  summarisable: if every later sale's 30-day window starts after every summarised row and after
  every summary row, then the summary followed by the later rows reports, for each later row,
  exactly the delta (gain, superficial loss, balances, cost base, generated adjustment rows) and the
  same failure, if any, as the full history.
-/
import AcbModel.Props.C04
import AcbModel.Lemmas.Prefix5
import AcbModel.App.Summary
namespace Acb

theorem statusesOk_of_wf {U : List Aff} {t : Tracker} (hw : TrackerWFOn U t) : StatusesOk t := by
  refine ⟨hw.bal_nonneg, fun a => (hw.reg a).symm, ?_⟩
  intro a v hv
  unfold Tracker.acbOf at hv
  cases hm : t.m a with
  | none =>
    simp only [hm, Option.getD_none, defaultStatus] at hv
    split at hv
    · cases hv
    · simp only [Option.some.injEq] at hv; rw [← hv]; grind
  | some s =>
    simp only [hm, Option.getD_some] at hv
    exact (hw.ok a s hm).acb v hv

theorem mem_summaryOfTracker {tP : Tracker} {day : Aff → Int} {As : List Aff} {y : Tx}
    (h : y ∈ summaryOfTracker tP day As) : ∃ a ∈ As, y.settle = day a := by
  unfold summaryOfTracker at h
  simp only [List.mem_flatMap] at h
  obtain ⟨a, ha, hy⟩ := h
  refine ⟨a, ha, ?_⟩
  unfold summaryRowsOf zeroRowsOf at hy
  split at hy
  · simp only [List.mem_singleton] at hy; rw [hy]
  · split at hy
    · split at hy
      · simp only [List.mem_singleton] at hy; rw [hy]
      · simp at hy
    · simp at hy

/-- **C10 (later rows, simple mode — partial: the summary point is fully summarisable).**
    Let `pre ++ later` be a history of valid rows over the affiliates `As`, and suppose the ledger
    gets through `pre` (otherwise there is nothing to summarise), ending in the tracker `tP`.
    Let `S` be the simple-mode summary of that state — per affiliate, in any order, a purchase of
    its shares at its average cost (or an adjustment row for a cost base held with no shares),
    dated `day a`.  If the 30-day window of every later sale starts after every row of `pre` and
    after every summary row, then `S ++ later`, replayed from nothing, yields the summary rows'
    own deltas followed by **exactly** the deltas the full history yields for `later`, and the same
    failure or none. -/
theorem C10_later_rows_partial (dflt : Aff) (init : Option Status) (hi : InitOk dflt init)
    (pre later : List Tx) (As : List Aff) (hn : As.Nodup) (hd : init ≠ none → dflt ∈ As)
    (hpre : ∀ x ∈ pre, x.Valid ∧ x.aff ∈ As) (hlater : ∀ x ∈ later, x.Valid ∧ x.aff ∈ As)
    (day : Aff → Int)
    (hfarP : ∀ x ∈ later, ∀ sh px comm rate crate spec, x.act = .sell sh px comm rate crate spec →
      ∀ p ∈ pre, p.settle < x.settle - Gen.sflWindowBeforeDays)
    (hfarS : ∀ x ∈ later, ∀ sh px comm rate crate spec, x.act = .sell sh px comm rate crate spec →
      ∀ a ∈ As, day a < x.settle - Gen.sflWindowBeforeDays) :
    ∃ t0, Tracker.new dflt init = .ok t0 ∧
      match loopPrefix t0 [] [] pre later with
      | .inr _ => True
      | .inl (tP, _, accP) =>
        ∃ dS out f,
          deltaList dflt init (pre ++ later) = (accP ++ out, f) ∧
          deltaList dflt none (summaryOfTracker tP day As ++ later) = (dS ++ out, f) ∧
          dS.length = (summaryOfTracker tP day As).length := by
  obtain ⟨t0, ht0, hw0⟩ := Tracker.new_wf hi
  refine ⟨t0, ht0, ?_⟩
  have hinv0 : Inv2 As t0 := by
    refine ⟨⟨⟨_, hw0⟩, Tracker.new_sumInv hn hd ht0⟩, ?_⟩
    -- no status outside `As` initially
    intro a ha
    unfold Tracker.new at ht0
    cases init with
    | none => simp only [Except.ok.injEq] at ht0; subst ht0; rfl
    | some st =>
      simp only at ht0
      split at ht0
      · obtain ⟨_, _, rfl⟩ := setLatest_ok ht0
        have : a ≠ dflt := fun e => ha (e ▸ hd (by simp))
        simp [upd, this]
      · cases ht0
  have hinv := loopPrefix_inv2 hn later (fun x hx => hlater x hx) pre (pre.map (·.settle))
    (fun x hx => ⟨hpre x hx, by unfold DatedIn; exact List.mem_map_of_mem hx⟩) t0 [] [] hinv0 (by simp)
  cases hlp : loopPrefix t0 [] [] pre later with
  | inr e => trivial
  | inl s =>
    obtain ⟨tP, pastP, accP⟩ := s
    simp only [hlp] at hinv ⊢
    obtain ⟨hiP, hpastP⟩ := hinv
    obtain ⟨bs, hr, U, hwP⟩ := hiP.wf
    -- the replay of the summary
    obtain ⟨tS, dS, hS, hobs, hlen⟩ := summary_obsEq hn hiP.sum hiP.supp (statusesOk_of_wf hwP) day dflt later
    -- far conditions
    have hfar : ∀ x ∈ later, FarFor pastP x ∧ FarFor (summaryOfTracker tP day As).reverse x := by
      intro x hx
      constructor
      · intro sh px comm rate crate spec hact p hp
        have hpm : p ∈ pastP := List.mem_of_mem_head? hp
        have hdated := (hpastP p hpm).2
        unfold DatedIn at hdated
        obtain ⟨q, hq, hqs⟩ := List.mem_map.mp hdated
        rw [← hqs]
        exact hfarP x hx sh px comm rate crate spec hact q hq
      · intro sh px comm rate crate spec hact p hp
        have hpm : p ∈ (summaryOfTracker tP day As).reverse := List.mem_of_mem_head? hp
        obtain ⟨a, ha, hpa⟩ := mem_summaryOfTracker (List.mem_reverse.mp hpm)
        rw [hpa]
        exact hfarS x hx sh px comm rate crate spec hact a ha
    obtain ⟨out, g1, g2⟩ := deltaLoop_far pastP (summaryOfTracker tP day As).reverse later hfar tP tS hobs [] accP dS
    simp only [List.nil_append] at g1 g2
    refine ⟨dS, out, (deltaLoop tP pastP accP later).2, ?_, ?_, hlen⟩
    · rw [deltaList_eq_loop ht0, deltaLoop_prefix, hlp]
      exact g1
    · have hnew : Tracker.new dflt none = .ok { m := fun _ => none, latestAll := 0, latestAff := dflt } := rfl
      rw [deltaList_eq_loop hnew, deltaLoop_prefix, hS]
      exact g2

/-- **C10 (later rows, simple mode — partial, loss sales only).**  As `C10_later_rows_partial`, but
    the window condition is only asked of the later rows that the full, error-free run flags as a
    loss or superficial loss (`Delta.isLossOrSfl` — the very test `get_summary_range_delta_indicies`
    applies; a sale at a gain never looks at its window): if for each of those the 30-day window
    starts after every row of `pre` and after every summary row, then `S ++ later` replayed from
    nothing yields the summary rows' deltas followed by exactly the later deltas of the full run,
    without failure. -/
theorem C10_later_rows_loss_only_partial (dflt : Aff) (init : Option Status) (hi : InitOk dflt init)
    (pre later : List Tx) (As : List Aff) (hn : As.Nodup) (hd : init ≠ none → dflt ∈ As)
    (hpre : ∀ x ∈ pre, x.Valid ∧ x.aff ∈ As) (hlater : ∀ x ∈ later, x.Valid ∧ x.aff ∈ As)
    (day : Aff → Int) :
    ∃ t0, Tracker.new dflt init = .ok t0 ∧
      match loopPrefix t0 [] [] pre later with
      | .inr _ => True
      | .inl (tP, _, accP) =>
        (deltaList dflt init (pre ++ later)).2 = none →
        (∀ d ∈ (deltaList dflt init (pre ++ later)).1.drop accP.length, d.isLossOrSfl = true →
          (∀ p ∈ pre, p.settle < d.tx.settle - Gen.sflWindowBeforeDays) ∧
          (∀ a ∈ As, day a < d.tx.settle - Gen.sflWindowBeforeDays)) →
        ∃ dS, deltaList dflt none (summaryOfTracker tP day As ++ later) =
            (dS ++ (deltaList dflt init (pre ++ later)).1.drop accP.length, none) ∧
          dS.length = (summaryOfTracker tP day As).length := by
  obtain ⟨t0, ht0, hw0⟩ := Tracker.new_wf hi
  refine ⟨t0, ht0, ?_⟩
  have hinv0 : Inv2 As t0 := by
    refine ⟨⟨⟨_, hw0⟩, Tracker.new_sumInv hn hd ht0⟩, ?_⟩
    intro a ha
    unfold Tracker.new at ht0
    cases init with
    | none => simp only [Except.ok.injEq] at ht0; subst ht0; rfl
    | some st =>
      simp only at ht0
      split at ht0
      · obtain ⟨_, _, rfl⟩ := setLatest_ok ht0
        have : a ≠ dflt := fun e => ha (e ▸ hd (by simp))
        simp [upd, this]
      · cases ht0
  have hinv := loopPrefix_inv2 hn later (fun x hx => hlater x hx) pre (pre.map (·.settle))
    (fun x hx => ⟨hpre x hx, by unfold DatedIn; exact List.mem_map_of_mem hx⟩) t0 [] [] hinv0 (by simp)
  cases hlp : loopPrefix t0 [] [] pre later with
  | inr e => trivial
  | inl s =>
    obtain ⟨tP, pastP, accP⟩ := s
    simp only [hlp] at hinv ⊢
    obtain ⟨hiP, hpastP⟩ := hinv
    obtain ⟨bs, hr, U, hwP⟩ := hiP.wf
    intro hok hfar
    obtain ⟨tS, dS, hS, hobs, hlen⟩ := summary_obsEq hn hiP.sum hiP.supp (statusesOk_of_wf hwP) day dflt later
    -- the full run, from the summary point on
    have hfull : deltaList dflt init (pre ++ later) =
        (accP ++ (deltaLoop tP pastP [] later).1, (deltaLoop tP pastP [] later).2) := by
      rw [deltaList_eq_loop ht0, deltaLoop_prefix, hlp]
      exact deltaLoop_acc later tP pastP accP
    have hdrop : (deltaList dflt init (pre ++ later)).1.drop accP.length = (deltaLoop tP pastP [] later).1 := by
      rw [hfull]; simp
    rw [hdrop] at hfar ⊢
    have hok' : (deltaLoop tP ([] ++ pastP) [] later).2 = none := by
      rw [hfull] at hok; simpa using hok
    have hfar' : ∀ d ∈ (deltaLoop tP ([] ++ pastP) [] later).1, d.isLossOrSfl = true →
        FarFor pastP d.tx ∧ FarFor (summaryOfTracker tP day As).reverse d.tx := by
      intro d hdm hfl
      obtain ⟨h1, h2⟩ := hfar d (by simpa using hdm) hfl
      constructor
      · intro sh px comm rate crate spec hact p hp
        have hpm : p ∈ pastP := List.mem_of_mem_head? hp
        have hdated := (hpastP p hpm).2
        unfold DatedIn at hdated
        obtain ⟨q, hq, hqs⟩ := List.mem_map.mp hdated
        rw [← hqs]; exact h1 q hq
      · intro sh px comm rate crate spec hact p hp
        have hpm : p ∈ (summaryOfTracker tP day As).reverse := List.mem_of_mem_head? hp
        obtain ⟨a, ha, hpa⟩ := mem_summaryOfTracker (List.mem_reverse.mp hpm)
        rw [hpa]; exact h2 a ha
    have heng := deltaLoop_far2 pastP (summaryOfTracker tP day As).reverse later tP tS hobs [] hok' hfar'
    simp only [List.nil_append] at heng hok'
    refine ⟨dS, ?_, hlen⟩
    have hnew : Tracker.new dflt none = .ok { m := fun _ => none, latestAll := 0, latestAff := dflt } := rfl
    rw [deltaList_eq_loop hnew, deltaLoop_prefix, hS]
    simp only
    rw [deltaLoop_acc, heng, hok']

/-- What the range selection of the summary checks (`firstConflict`, step 2 of
    `get_summary_range_delta_indicies`): when it reports no conflict for the deltas after the
    summary point, settling in non-decreasing order, then every later delta flagged as a loss or
    superficial loss has its window start after `lastDate` — the hypothesis of the theorem above
    for the rows before the summary point. -/
theorem C10_no_conflict_is_far (lastDate : Int) :
    ∀ (dl : List Delta), dl.Pairwise (fun a b => a.tx.settle ≤ b.tx.settle) → firstConflict lastDate dl = none →
      ∀ d ∈ dl, d.isLossOrSfl = true → lastDate < d.tx.settle - Gen.sflWindowBeforeDays := by
  intro dl
  induction dl with
  | nil => intro _ _ d hd; simp at hd
  | cons a rest ih =>
    intro hs hfc d hd hfl
    have hsa := List.pairwise_cons.mp hs
    unfold firstConflict at hfc
    by_cases ha : a.isLossOrSfl = true
    · simp only [ha, if_true] at hfc
      split at hfc
      · cases hfc
      · rename_i hnot
        have hfar_a : lastDate < a.tx.settle - Gen.sflWindowBeforeDays := by omega
        simp only [List.mem_cons] at hd
        rcases hd with rfl | hd
        · exact hfar_a
        · have := hsa.1 d hd; omega
    · simp only [ha, Bool.false_eq_true, if_false] at hfc
      simp only [List.mem_cons] at hd
      rcases hd with rfl | hd
      · exact absurd hfl ha
      · exact ih hsa.2 hfc d hd hfl

/-- The rows `make_simple_summary_txs` emits for an affiliate (model `simpleSummary`) are the rows
    `summaryOfTracker` uses: they depend only on the affiliate's last status and are dated at its
    last summarised row. -/
theorem C10_summary_rows_shape (af : Aff) (d : Delta) :
    simpleSummary af d = summaryRowsOf d.tx.settle af d.post.shares d.post.acb := by
  unfold simpleSummary summaryRowsOf zeroShareRows zeroRowsOf pricePer
  simp only
  split
  · rfl
  · cases d.post.acb <;> rfl

/-! Non-vacuity: `pre` = Default buys 100 @10 (day 0), Spouse buys 50 @12 (day 5);
    `later` = Default sells 40 @8 on day 100 (a loss), Spouse buys 20 @8 on day 110 (inside the
    window: the loss is half superficial), Default sells 10 @15 on day 200.  Summary rows dated days
    0 and 5.  All hypotheses hold, the prefix succeeds, and both runs end with the same three later
    deltas (and the generated adjustment). -/
private def c0 : Aff := ⟨0, false⟩
private def c1 : Aff := ⟨1, false⟩
private def preX : List Tx := [
  { trade := 0, settle := 0, idx := 0, aff := c0, act := .buy 100 10 0 1 none },
  { trade := 5, settle := 5, idx := 1, aff := c1, act := .buy 50 12 0 1 none } ]
private def laterX : List Tx := [
  { trade := 100, settle := 100, idx := 2, aff := c0, act := .sell 40 8 0 1 none none },
  { trade := 110, settle := 110, idx := 3, aff := c1, act := .buy 20 8 0 1 none },
  { trade := 200, settle := 200, idx := 4, aff := c0, act := .sell 10 15 0 1 none none } ]
private def dayX : Aff → Int := fun a => if a = c0 then 0 else 5

example : ∃ t0, Tracker.new c0 none = .ok t0 ∧
    match loopPrefix t0 [] [] preX laterX with
    | .inr _ => True
    | .inl (tP, _, accP) =>
      ∃ dS out f, deltaList c0 none (preX ++ laterX) = (accP ++ out, f) ∧
        deltaList c0 none (summaryOfTracker tP dayX [c0, c1] ++ laterX) = (dS ++ out, f) ∧
        dS.length = (summaryOfTracker tP dayX [c0, c1]).length := by
  apply C10_later_rows_partial c0 none ⟨rfl, by simp⟩ preX laterX [c0, c1] (by decide) (by simp)
  · intro x hx
    simp only [preX, List.mem_cons, List.mem_nil_iff, or_false] at hx
    rcases hx with rfl | rfl <;> exact ⟨by simp [Tx.Valid, Action.Valid, optPos] <;> decide +kernel, by decide⟩
  · intro x hx
    simp only [laterX, List.mem_cons, List.mem_nil_iff, or_false] at hx
    rcases hx with rfl | rfl | rfl <;> exact ⟨by simp [Tx.Valid, Action.Valid, optPos] <;> decide +kernel, by decide⟩
  · intro x hx sh px comm rate crate spec hact p hp
    simp only [laterX, List.mem_cons, List.mem_nil_iff, or_false] at hx
    simp only [preX, List.mem_cons, List.mem_nil_iff, or_false] at hp
    rcases hx with rfl | rfl | rfl <;> rcases hp with rfl | rfl <;> simp [Gen.sflWindowBeforeDays]
  · intro x hx sh px comm rate crate spec hact a ha
    simp only [laterX, List.mem_cons, List.mem_nil_iff, or_false] at hx
    simp only [List.mem_cons, List.mem_nil_iff, or_false] at ha
    rcases hx with rfl | rfl | rfl <;> rcases ha with rfl | rfl <;> simp [Gen.sflWindowBeforeDays, dayX] <;> decide

/-- in that example the later rows indeed carry a superficial loss: −40 of the −80 loss is denied
    (20 of the 40 shares were bought back by the spouse), in the full run and in the replay -/
example : (deltaList c0 none (preX ++ laterX)).1.filterMap (fun d => d.sfl.map (·.loss)) = [-40] := by decide +kernel

end Acb
