/-
  C14 — An interrupted cache write cannot corrupt exchange rates.

  Property theorems only.  `writeProc` (AcbModel/Fx/CrashFs.lean) is the write procedure of the
  REPAIRED `CsvRatesCache::write_rates` (temp file, flush, sync, rename — repo commit "fix: write the
  exchange-rate cache to a temporary file and rename it into place", finding F-14);
  `crashStates` lists every state in which the process can die (after any operation, inside the
  append at any byte offset), `killView` / `lossViews` what a later process then finds in the
  directory after a kill / after a power loss; `parseFile` is the lenient reader.
-/
import AcbModel.Lemmas.FxFile
import AcbModel.Props.C13
import AcbModel.Lemmas.FxExamples
import AcbModel.Lemmas.FxDateText
namespace Acb
open Fx

/-- The write procedure found in the source is the one modelled by `writeProc`: the translator only
    produces these constants when `write_rates` creates `rates-Y.csv.tmp`, flushes, calls `sync_all`
    and then renames the temp file over `rates-Y.csv`, in this order. -/
theorem C14_write_procedure_as_modelled :
    Gen.fxWriteProcSteps = "open_rates_csv_tmp_file_write" ∧ Gen.fxCacheTmpSuffix = ".tmp" := ⟨rfl, rfl⟩

/-- **C14 (the cache file reads back what was written).** -/
theorem C14_cachefile_roundtrip (dt : DateText) (dom : Int → Prop) (hdt : dt.OK dom) (rows : List TextRow)
    (hc : ∀ r ∈ rows, r.Clean) (hd : ∀ r ∈ rows, dom r.date) :
    parseFile dt (renderRows dt rows) = rows.filterMap TextRow.value? :=
  cachefile_roundtrip dt hdt rows hc hd

/-- **C14 (the `YYYY-MM-DD` date text of the real file satisfies the laws)**: for every day of the
    years 0000-9999 the rendered date reads back as that day and contains neither `,` nor a newline. -/
theorem C14_date_text_ok : civilDateText.OK CivilDom := civilDateText_ok

/-- … so the real file format reads back what was written (rate texts without separators). -/
theorem C14_real_cachefile_roundtrip (rows : List TextRow) (hc : ∀ r ∈ rows, r.Clean)
    (hd : ∀ r ∈ rows, CivilDom r.date) :
    parseFile civilDateText (renderRows civilDateText rows) = rows.filterMap TextRow.value? :=
  cachefile_roundtrip civilDateText civilDateText_ok rows hc hd

/-- **C14 (kill).**  Whenever the process is killed while writing a year — after any step, or inside
    the write at any byte offset, and whatever temp file an earlier crash left behind — the cache
    file is the complete old file (or still absent) or the complete new file. -/
theorem C14_cache_file_old_or_new_after_kill (live tmp : Option File) (content : List Char)
    (s : YearFiles) (hs : s ∈ crashStates { live := live, tmp := tmp } (writeProc content)) :
    (killView s).live = live.map (·.data) ∨ (killView s).live = some content :=
  writeProc_kill live tmp content s hs

/-- **C14 (power loss).**  The same when the machine loses power: unsynced bytes may be cut off
    anywhere and the rename may not have reached the disk, but the cache file is still a complete
    old or new file (the old file being on stable storage, as a completed earlier run leaves it). -/
theorem C14_cache_file_old_or_new_after_power_loss (live tmp : Option File) (content : List Char)
    (hl : Settled live)
    (s : YearFiles) (hs : s ∈ crashStates { live := live, tmp := tmp } (writeProc content))
    (v : View) (hv : v ∈ lossViews s) :
    v.live = live.map (·.data) ∨ v.live = some content :=
  writeProc_power_loss live tmp content hl s hs v hv

/-- Everything a later process can find after a crash while year `y` was being written. -/
def CrashView (files : Int → Option (List Char)) (y : Int) (tmp : Option File) (content : List Char)
    (v : View) : Prop :=
  ∃ s ∈ crashStates { live := (files y).map (fun d => ⟨d, d.length⟩), tmp := tmp } (writeProc content),
    v = killView s ∨ v ∈ lossViews s

/-- **C14 (crash safety).**  Let the cache directory hold trustworthy files (`CacheOK` for the later
    run `e`), and let a run be interrupted at ANY point (kill or power loss) while it writes the rows
    `rows` of year `y` — rows that are themselves truthful for `e`, as a downloaded and filled year
    is.  Then in the later run every look-up, whatever was looked up before, returns exactly what a
    loader without any cache returns; in particular a rate it returns is the rate published for
    that rate's day.  (The temp file is never read: it does not occur in the later run's cache.) -/
theorem C14_crash_safe (dt : DateText) (dom : Int → Prop) (hdt : dt.OK dom) (e : Env) (hc : e.cal.OK)
    (hwf : RemoteWF e)
    (files : Int → Option (List Char)) (hfiles : CacheOK e (storeOfFiles dt files))
    (y : Int) (rows : List TextRow) (hclean : ∀ r ∈ rows, r.Clean) (hdom : ∀ r ∈ rows, dom r.date)
    (htrue : Truthful e y (rows.filterMap TextRow.value?)) (hav : (e.remote y).isSome = true)
    (tmp : Option File) (v : View) (hv : CrashView files y tmp (renderRows dt rows) v)
    (ds : List Int) :
    let after := St.init (storeOfFiles dt (upd files y v.live))
    (runLookups e after ds).1.map forget = ds.map (uncached e) ∧
    ∀ d r, (getEffective e after d).1 = .ok r → pubOf e.cal e.remote r.date = some r.rate := by
  -- the cache file is old or new
  have hlive : v.live = files y ∨ v.live = some (renderRows dt rows) := by
    obtain ⟨s, hs, hv⟩ := hv
    rcases hv with rfl | hv
    · have := writeProc_kill _ tmp _ s hs
      simpa [Option.map_map, Function.comp_def] using this
    · have := writeProc_power_loss _ tmp _ (by
        intro x hx
        cases hf : files y with
        | none => simp [hf] at hx
        | some d => simp only [hf, Option.map_some, Option.some.injEq] at hx; subst hx; rfl) s hs v hv
      simpa [Option.map_map, Function.comp_def] using this
  -- hence the cache the later run sees is trustworthy
  have hok : CacheOK e (storeOfFiles dt (upd files y v.live)) := by
    intro y' rs hy'
    by_cases hne : y' = y
    · subst hne
      rcases hlive with h | h
      · rw [h] at hy'
        exact hfiles y' rs (by simpa [storeOfFiles, upd] using hy')
      · rw [h] at hy'
        simp only [storeOfFiles, upd, if_true, Option.map_some, Option.some.injEq] at hy'
        rw [cachefile_roundtrip dt hdt rows hclean hdom] at hy'
        subst hy'
        exact ⟨htrue, hav⟩
    · exact hfiles y' rs (by simpa [storeOfFiles, upd, hne] using hy')
  intro after
  have hinv : RunInv e after := inv_init e _ (Or.inr hok)
  refine ⟨?_, ?_⟩
  · rw [(runLookups_spec e hc hwf after hinv ds).2]
    apply List.map_congr_left
    intro d _
    exact (uncached_eq_spec e hc hwf d).symm
  · intro d r hr
    have h := (getEffective_spec e hc hwf after hinv d).2.1
    rw [hr] at h
    exact (specRate_sound e d r h.symm).2.2.1

/-- **C14 (crash safety, for the real file format)**: `C14_crash_safe` with the `YYYY-MM-DD` text. -/
theorem C14_crash_safe_real_format (e : Env) (hc : e.cal.OK) (hwf : RemoteWF e)
    (files : Int → Option (List Char)) (hfiles : CacheOK e (storeOfFiles civilDateText files))
    (y : Int) (rows : List TextRow) (hclean : ∀ r ∈ rows, r.Clean) (hdom : ∀ r ∈ rows, CivilDom r.date)
    (htrue : Truthful e y (rows.filterMap TextRow.value?)) (hav : (e.remote y).isSome = true)
    (tmp : Option File) (v : View) (hv : CrashView files y tmp (renderRows civilDateText rows) v)
    (ds : List Int) :
    let after := St.init (storeOfFiles civilDateText (upd files y v.live))
    (runLookups e after ds).1.map forget = ds.map (uncached e) ∧
    ∀ d r, (getEffective e after d).1 = .ok r → pubOf e.cal e.remote r.date = some r.rate :=
  C14_crash_safe civilDateText CivilDom civilDateText_ok e hc hwf files hfiles y rows hclean hdom htrue hav
    tmp v hv ds

/-- Non-vacuity of `C14_crash_safe_real_format`: an empty cache directory, the run of Jan 21, 2020
    writing the 20 rows of its filled year (a 269-byte file `2020-01-01,0\n2020-01-02,1.3\n…`),
    killed after 100 bytes — a crash state of the write procedure.  All hypotheses hold; the later
    run then answers Jan 9 with the published rate of Jan 8 (after downloading). -/
example :
    let v : View := { live := none, tmp := some ((renderRows civilDateText exRows).take 100) }
    exEnvB.cal.OK ∧ RemoteWF exEnvB ∧
    CacheOK exEnvB (storeOfFiles civilDateText fun _ => none) ∧
    (∀ r ∈ exRows, r.Clean) ∧ (∀ r ∈ exRows, CivilDom r.date) ∧
    Truthful exEnvB 2020 (exRows.filterMap TextRow.value?) ∧
    CrashView (fun _ => none) 2020 none (renderRows civilDateText exRows) v := by
  refine ⟨civil_ok, exEnvB_wf, ?_, ?_, ?_, ?_, ?_⟩
  · intro y rows h; simp [storeOfFiles] at h
  · decide +kernel
  · unfold CivilDom; decide +kernel
  · have h : exRows.filterMap TextRow.value? =
        fillUnknown civil exEnvB.today
          [⟨2458851, 13/10⟩, ⟨2458852, 131/100⟩, ⟨2458855, 7/5⟩, ⟨2458857, 141/100⟩] 2020 := by
      decide +kernel
    rw [h]
    exact (fill_truthful_complete exEnvB civil_ok exEnvB_wf 2020 _ rfl).1
  · refine ⟨applyOp (applyOp { live := none, tmp := none } (.create .tmp))
      (.append .tmp ((renderRows civilDateText exRows).take 100)), ?_, Or.inl rfl⟩
    decide +kernel

example : String.ofList ((renderRows civilDateText exRows).take 29) = "2020-01-01,0\n2020-01-02,1.3\n2" := by
  decide +kernel

example : (getEffective exEnvB (St.init (storeOfFiles civilDateText (upd (fun _ => none) 2020 none))) 2458858).1 =
    .ok ⟨2458857, 141/100⟩ := by decide +kernel

/-- **F-14, the defect that was repaired.**  The write procedure as it was (truncate
    `rates-Y.csv`, stream the rows into it) has a crash state whose file parses to a WRONG rate:
    killed after 29 bytes of `2017-01-04,1.2\n2017-01-05,1.3456\n`, the file ends in
    `2017-01-05,1.3`, which the lenient reader accepts as the rate 1.3 for January 5. -/
theorem C14_in_place_write_was_unsafe :
    let content := "2017-01-04,1.2\n2017-01-05,1.3456\n".toList
    ∃ s ∈ crashStates { live := none, tmp := none } (writeProcInPlace content),
      lookupLast (((killView s).live.map (parseFile civilDateText)).getD []) 2457759 = some (13 / 10) ∧
      lookupLast (parseFile civilDateText content) 2457759 = some (3364 / 2500) := by
  refine ⟨applyOp (applyOp { live := none, tmp := none } (.create .live))
    (.append .live ("2017-01-04,1.2\n2017-01-05,1.3456\n".toList.take 29)), ?_, ?_⟩
  · decide +kernel
  · decide +kernel

/-- **Why the sync is there.**  Temp file and rename WITHOUT the sync is safe against a kill but not
    against a power loss: the rename can reach the disk before the data, leaving a cut-off cache file. -/
theorem C14_rename_without_sync_is_unsafe_on_power_loss :
    let content := "2017-01-04,1.2\n2017-01-05,1.3456\n".toList
    ∃ s ∈ crashStates { live := none, tmp := none } (writeProcNoSync content),
      ∃ v ∈ lossViews s, v.live = some (content.take 29) := by
  refine ⟨(writeProcNoSync "2017-01-04,1.2\n2017-01-05,1.3456\n".toList).foldl applyOp
    { live := none, tmp := none }, ?_, ?_⟩
  · decide +kernel
  · refine ⟨{ live := some ("2017-01-04,1.2\n2017-01-05,1.3456\n".toList.take 29), tmp := none }, ?_, rfl⟩
    decide +kernel

end Acb
