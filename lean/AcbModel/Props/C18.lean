/-
  C18 — Questrade conversion keeps every trade and conserves USD cash.

  Property theorems only.  Model: `AcbModel/Broker/{Sheet,FxTracker,Questrade}.lean`
  (`read_sheet_header`/`SheetReader`, `FxTracker`, `sheet_to_txs`, the option pipeline of
  `run_with_args`), vocabulary: `AcbModel/Broker/Spec.lean`, helper lemmas: `AcbModel/Lemmas/Qt*.lean`.
  The model is that of the repaired code (F-18 header numbering, F-05c zero FXT leg, F-18b
  --usd-exchange-rate); the defect of the shipped header reader is kept as a kernel-checked
  counterexample (`C18_shipped_header_reader_defect`).

  All theorems hold for every sheet / every list of rows (no bound on rows or columns) and every
  option combination.
-/
import AcbModel.Lemmas.QtLayout
import AcbModel.Lemmas.QtAccept
import AcbModel.Lemmas.QtCashOut
import AcbModel.Broker.Examples
namespace Acb
open Acb.Qt Acb.Qt.Ex

/-! ## The tables the model takes from the source (regenerated on every run) -/

/-- The trade / conversion / dividend actions and the documented non-trade activities are the ones
    the property names. -/
theorem C18_action_tables :
    Gen.qtAllowedActions = ["BUY", "SELL", "DIS", "LIQ", "FXT", "DIV"] ∧
    Gen.qtIgnoredActions = ["BRW", "TFI", "TF6", "MGR", "DEP", "NAC", "CON", "INT", "EFT", "RDM", ""] ∧
    Gen.qtRegisteredRegex = "rrsp|tfsa|resp" ∧
    Gen.qtFxTiebreakBuy < Gen.qtFxTiebreakSell ∧
    Gen.qtHeaderEnumerateBeforeFilter = "enumerate" := by decide

/-! ## Layout independence -/

/-- **Lookup by name returns the cell under that header**, for any position of the column and
    whatever the other header cells are (blank, numbers, other names). -/
theorem C18_lookup_by_name (hdr row : List Cell) (name : String) (i : Nat) (c : Cell)
    (hi : hdr[i]? = some (Cell.str name))
    (hu : ∀ j : Nat, hdr[j]? = some (Cell.str name) → j = i)
    (hc : row[i]? = some c) : cellAt hdr row name = .ok c :=
  cellAt_of_unique hi hu hc

example : cellAt [.empty, .str "Action", .num 3 "3", .str "Symbol"] [.str "x", .str "BUY", .empty, .str "CCO"] "Symbol"
    = .ok (.str "CCO") := by decide

/-- Even with repeated names the reader never points anywhere but at a column headed by that name
    (the last such column, as `HashMap::from_iter` keeps the last). -/
theorem C18_lookup_points_at_header (hdr : List Cell) (name : String) (i : Nat)
    (h : headerIndex hdr name = some i) :
    hdr[i]? = some (Cell.str name) ∧ ∀ j : Nat, i < j → hdr[j]? ≠ some (Cell.str name) :=
  ⟨headerIndex_sound h, headerIndex_last h⟩

example : headerIndex [.str "A", .empty, .str "A"] "A" = some 2 := by decide

/-- **The defect of the shipped reader (F-18)**: numbering the header cells after the non-text
    cells have been dropped points at the wrong column as soon as a blank header cell precedes
    the named one — `C18_lookup_by_name` is false of it. -/
theorem C18_shipped_header_reader_defect :
    ∃ (hdr : List Cell) (name : String) (i : Nat),
      hdr[i]? = some (Cell.str name) ∧ (∀ j : Nat, hdr[j]? = some (Cell.str name) → j = i) ∧
      headerIndexShipped hdr name ≠ some i ∧ headerIndex hdr name = some i := by
  refine ⟨[.empty, .str "Action"], "Action", 1, by decide, ?_, by decide, by decide⟩
  intro j hj
  match j, hj with
  | 0, hj => simp at hj
  | 1, _ => rfl
  | (k + 2), hj => simp at hj

/-- The shipped reader is right when every header cell is text (the only case the tests cover). -/
theorem C18_shipped_header_reader_ok_on_text_headers (hdr : List Cell) (name : String)
    (hall : ∀ c ∈ hdr, c.isStr = true) : headerIndexShipped hdr name = headerIndex hdr name := by
  unfold headerIndexShipped
  rw [List.filter_eq_self.mpr hall]

example : ∀ c ∈ stdHdr, c.isStr = true := by decide

/-- **The output depends only on the cell found under each named header.**  Two sheets that lay
    out the same records — in any column order, with any unrelated or blank-headed columns —
    convert to the same rows, the same errors and the same final output, for every option
    combination. -/
theorem C18_layout_independent (o : Opts) (recs : List Record) (s s' : Sheet)
    (h : IsLayout usedNames recs s) (h' : IsLayout usedNames recs s') :
    sheetToTxs s = sheetToTxs s' ∧ convert o s = convert o s' := by
  have e : sheetToTxs s = sheetToTxs s' := by
    rw [sheetToTxs_of_layout h, sheetToTxs_of_layout h']
  exact ⟨e, by unfold convert; rw [e]⟩

example : IsLayout usedNames recs sheetA := isLayout_of_check (by decide +kernel)
example : IsLayout usedNames recs sheetB := isLayout_of_check (by decide +kernel)
example : sheetA.hdr ≠ sheetB.hdr ∧ ((sheetToTxs sheetA).txs.length = 5) := by decide +kernel

/-- … and the conversion of a layout is the conversion of its records. -/
theorem C18_layout_is_records (o : Opts) (recs : List Record) (s : Sheet)
    (h : IsLayout usedNames recs s) :
    convert o s = pipeline o (convertReaders (recs.map Record.reader)) := by
  unfold convert; rw [sheetToTxs_of_layout h]

/-- **Extra and blank-headed columns**: inserting, at any position, a column whose header cell is
    not one of the used names (a blank cell, a number, any other text), with arbitrary content,
    changes nothing. -/
theorem C18_extra_or_blank_column (o : Opts) (recs : List Record) (s : Sheet)
    (h : IsLayout usedNames recs s) (hrect : ∀ r ∈ s.rows, r.length = s.hdr.length)
    (k : Nat) (hk : k ≤ s.hdr.length) (hc : Cell) (hh : ∀ n ∈ usedNames, hc ≠ Cell.str n)
    (fill : Nat → Cell) :
    convert o (s.withColumn k hc fill) = convert o s :=
  (C18_layout_independent o recs _ _ (h.withColumn hrect k hk hc hh fill) h).2

example : ∀ n ∈ usedNames, Cell.empty ≠ Cell.str n := by decide
example : ∀ r ∈ sheetA.rows, r.length = sheetA.hdr.length := by decide +kernel

/-! ## One row per trade activity, with that activity's fields -/

/-- **One row per BUY/SELL/DIS/LIQ activity, in row order**: the non-FX rows are exactly the
    trade rows of the data rows (row numbers start at 2, the header being row 1) — for every
    export, whether or not other rows are in error. -/
theorem C18_one_row_per_trade (s : Sheet) :
    (sheetToTxs s).trades = tradesFrom 2 (s.rows.map (fun row => cellAt s.hdr row)) := by
  unfold sheetToTxs; exact convertReaders_trades _

example : ((sheetToTxs sheetA).trades.map (·.row)) = [2, 7] := by decide +kernel

/-- **Fields**: every emitted trade row stems from one data row whose action is
    BUY/SELL/DIS/LIQ (case-insensitive) and carries that row's dates, |quantity|, price,
    |commission|, currency, account and account-derived affiliate, each read from the cell under
    the named header (`TradeFields`). -/
theorem C18_fields (s : Sheet) (t : BTx) (h : t ∈ (sheetToTxs s).trades) :
    ∃ (k : Nat) (row : List Cell), s.rows[k]? = some row ∧ TradeFields (cellAt s.hdr row) (2 + k) t := by
  rw [C18_one_row_per_trade] at h
  obtain ⟨k, rd, hk, hp⟩ := tradesFrom_mem h
  simp only [List.getElem?_map, Option.map_eq_some_iff] at hk
  obtain ⟨row, hrow, rfl⟩ := hk
  exact ⟨k, row, hrow, parseRow_trade hp⟩

example : (tradeOf 2 rdBuy).map (fun t => (t.shares, t.commission, t.registered, t.currency, t.side)) =
    some (5/2, 99/20, true, "USD", Side.buy) := by decide +kernel

/-- **No trade activity is lost in silence**: a BUY/SELL/DIS/LIQ row yields its trade row or is
    reported as a row error (this is what the shipped header reader violated). -/
theorem C18_trade_row_emitted_or_reported (rd : Reader) (n : Nat) (a : String)
    (hA : rd.getStr "Action" = .ok a) (hT : (tradeSide (upper a)).isSome = true) :
    (∃ t, parseRow rd n = .ok (.trade t)) ∨ (∃ e, parseRow rd n = .error e) :=
  parseRow_trade_action hA hT

example : rdBuy.getStr "Action" = .ok "Buy" ∧ (tradeSide (upper "Buy")).isSome = true := by decide +kernel

/-- In an export converted without row errors, every trade activity has its row. -/
theorem C18_error_free_export_keeps_every_trade (rds : List Reader)
    (h : (convertReaders rds).errors = []) (k : Nat) (rd : Reader) (hk : rds[k]? = some rd) (a : String)
    (hA : rd.getStr "Action" = .ok a) (hT : (tradeSide (upper a)).isSome = true) :
    ∃ t, tradeOf (2 + k) rd = some t ∧ t ∈ (convertReaders rds).trades ∧ t.row = 2 + k := by
  have h0 := (finish_errors_nil h).1
  obtain ⟨act, hact⟩ := runRows_no_error_parse rds {} 2 (by simpa using h0) k rd hk
  rcases parseRow_trade_action (n := 2 + k) hA hT with ⟨t, ht⟩ | ⟨e, he⟩
  · refine ⟨t, by simp [tradeOf, ht], ?_, (parseRow_trade ht).row⟩
    rw [convertReaders_trades]
    exact tradesFrom_of_parse 2 rds k hk ht
  · rw [he] at hact; cases hact

example : (convertReaders (recs.map Record.reader)).errors = [] := by decide +kernel

/-! ## The documented non-trade activities are ignored -/

/-- **Ignored**: a row whose action is one of the documented non-trade activities (any letter
    case, including the empty action) produces no row and no error, whatever its other cells
    hold — even if they are missing or malformed. -/
theorem C18_ignored (rd : Reader) (n : Nat) (a : String) (st : St)
    (hA : rd.getStr "Action" = .ok a) (hI : Gen.qtIgnoredActions.contains (upper a) = true) :
    stepRow st n rd = st := by
  unfold stepRow; rw [parseRow_ignored hA hI]; rfl

example : Gen.qtIgnoredActions.contains (upper "dep") = true := by decide

/-- … and nothing else is passed over: a row that yields neither a row nor an error is a
    documented non-trade activity or a dividend that is not in USD. -/
theorem C18_only_documented_rows_are_skipped (rd : Reader) (n : Nat) (h : parseRow rd n = .ok .skip) :
    ∃ a, rd.getStr "Action" = .ok a ∧
      (Gen.qtIgnoredActions.contains (upper a) = true ∨
       (upper a = "DIV" ∧ ∃ cur, rd.getStr "Currency" = .ok cur ∧ upper cur ≠ "USD")) :=
  parseRow_skip h

example : parseRow ((recs.getD 1 default)).reader 3 = .ok .skip := by decide +kernel

/-! ## USD cash conservation -/

/-- **Cash conservation.**  For every export converted without row errors and every set `p` of
    accounts (`--account` selects such a set): the signed share total of the USD.FX rows of those
    accounts equals the net USD cash flow of their rows — USD trades (`±price·|quantity| −
    |commission|`), USD dividends (net amount) and the USD legs of the currency conversions.
    Proved through an invariant of the row loop (`runRows_cash`) that also accounts for a
    pending first FXT leg. -/
theorem C18_cash_conservation (p : Account → Bool) (rds : List Reader)
    (h : (convertReaders rds).errors = []) :
    fxSum p (convertReaders rds).fx = cashFrom p 2 rds := by
  obtain ⟨h0, hadj⟩ := finish_errors_nil h
  have inv := runRows_cash p rds {} 2 (by simpa using h0)
  rw [hadj] at inv
  simp only [pending, fxSum] at inv
  simp only [convertReaders, finish]
  grind

example : fxSum (fun _ => true) (convertReaders (recs.map Record.reader)).fx = -2995/100 + 100 + 61/2 := by
  decide +kernel

/-- The same on a sheet. -/
theorem C18_cash_conservation_sheet (p : Account → Bool) (s : Sheet) (h : (sheetToTxs s).errors = []) :
    fxSum p (sheetToTxs s).fx = cashFrom p 2 (s.rows.map (fun row => cellAt s.hdr row)) :=
  C18_cash_conservation p _ h

/-- **Cash conservation on the final output.**  With the FX rows left in (no `--no-fx`, no
    `--security` filter), whatever `--account`, `--no-sort` and `--usd-exchange-rate` are: the
    signed shares of the `USD.FX` rows of the output add up to the net USD cash flow of the rows of
    the selected accounts (all accounts without `--account`) — provided the export converts
    without row errors and none of its securities is itself called `USD.FX`. -/
theorem C18_cash_conservation_output (o : Opts) (rds : List Reader) (txs : List BTx)
    (errs : List (Nat × ErrKind)) (h : pipeline o (convertReaders rds) = .out txs errs)
    (herr : errs = []) (hsec : o.security = none) (hfx : o.noFx = false)
    (hsym : ∀ t ∈ (convertReaders rds).trades, t.security ≠ "USD.FX") :
    usdFxTotal txs = cashFrom (acctPred o) 2 rds := by
  have he : (convertReaders rds).errors = [] := by rw [← (pipeline_out h).1]; exact herr
  rw [usdFxTotal_perm (pipeline_perm h)]
  unfold selected Conv.txs
  rw [List.filter_append, List.map_append, usdFxTotal_append,
      usdFxTotal_selected_trades o _ hsym,
      usdFxTotal_selected_fx o hsec hfx _ (fun t ht => (convertReaders_fx_mem ht).1.1),
      C18_cash_conservation (acctPred o) rds he]
  grind

example : (pipeline { account := some (fun a => a == "Individual TFSA 10000001"), usdRate := some (3/2), noSort := true }
            (convertReaders (recs.map Record.reader))).txs?.map usdFxTotal = some (-2995/100 + 100 + 61/2) ∧
    ∀ t ∈ (convertReaders (recs.map Record.reader)).trades, t.security ≠ "USD.FX" := by decide +kernel

/-- What the summands are: a trade row moves `±price·shares − commission` …
    (`shares`, `commission` being the absolute values of the cells, `C18_fields`) -/
theorem C18_cash_of_trade (p : Account → Bool) (t : BTx) :
    rowCash p (.trade t) =
      if t.currency = "USD" ∧ p t.account then
        (if t.side = .buy then -(t.price * t.shares) else t.price * t.shares) - t.commission
      else 0 := rfl

/-- … a USD dividend row its net amount … -/
theorem C18_cash_of_dividend (p : Account → Bool) (rd : Reader) (n : Nat) (t : BTx)
    (h : parseRow rd n = .ok (.income t)) :
    ∃ amt, rd.getDec "Net Amount" = .ok amt ∧ rowCash p (.income t) = if p t.account then amt else 0 := by
  obtain ⟨_, _, amt, _, _, _, _, _, _, hamt, hss, _⟩ := parseRow_income h
  exact ⟨amt, hamt, by simp [rowCash, hss]⟩

/-- … an FXT row the net amount of its USD leg. -/
theorem C18_cash_of_fxt (p : Account → Bool) (rd : Reader) (n : Nat) (r : FxtRow)
    (h : parseRow rd n = .ok (.fxt r)) :
    rd.getDec "Net Amount" = .ok r.amount ∧
    rowCash p (.fxt r) = if r.currency = "USD" ∧ p r.account then r.amount else 0 := by
  obtain ⟨_, _, _, _, _, _, _, _, _, hamt, _⟩ := parseRow_fxt h
  exact ⟨hamt, rfl⟩

/-! ## Each conversion carries the rate implied by its legs -/

/-- **Implied rate.**  When the second row of an FXT pair is accepted, exactly one USD.FX row is
    added; one leg is CAD and the other USD, on the same date, account and affiliate, neither
    amount is zero; the row buys (sells) |USD leg| shares when USD came in (went out), at the
    rate `|CAD leg / USD leg|`, which is positive — so that rate × shares is exactly the CAD leg. -/
theorem C18_implied_rate (t t' : Tracker) (adj r : FxtRow) (hadj : t.adjacent = some adj)
    (h : addFxtRow t r = (t', none)) :
    ∃ tx, t'.txs = t.txs ++ [tx] ∧ t'.adjacent = none ∧
      (fxtCad adj r).currency = "CAD" ∧ (fxtOther adj r).currency = "USD" ∧
      (fxtCad adj r).amount ≠ 0 ∧ (fxtOther adj r).amount ≠ 0 ∧
      tx.rate = some (rabs ((fxtCad adj r).amount / (fxtOther adj r).amount)) ∧
      0 < rabs ((fxtCad adj r).amount / (fxtOther adj r).amount) ∧
      tx.shares = rabs (fxtOther adj r).amount ∧ signedShares tx = (fxtOther adj r).amount ∧
      rabs ((fxtCad adj r).amount / (fxtOther adj r).amount) * tx.shares = rabs (fxtCad adj r).amount := by
  rcases addFxtRow_ok h with ⟨hnone, _⟩ | ⟨adj', tx, hadj', ht, hp⟩
  · rw [hadj] at hnone; cases hnone
  · rw [hadj] at hadj'; simp only [Option.some.injEq] at hadj'; subst hadj'
    obtain ⟨h1, h2, h3, _, h5⟩ := hp.rate
    refine ⟨tx, by rw [ht], by rw [ht], hp.cadCur, hp.usdCur, hp.cadNe, hp.usdNe, h1, h2, h3,
      (fxTx_ok hp.built).2.2.2.2.2.2.1, h5⟩

example : (addFxtRow { adjacent := some cadLeg, txs := [] } usdLeg).2 = none ∧
    (addFxtRow { adjacent := some cadLeg, txs := [] } usdLeg).1.txs.map (fun t => (t.rate, t.shares)) =
      [(some (13/10), 100)] := by decide +kernel

/-- The rate option never replaces a rate a row already carries (F-18b), and no option touches
    the other fields: every output row is a converted row, with at most its missing USD rate
    filled in. -/
theorem C18_options_keep_rows (o : Opts) (c : Conv) (txs : List BTx) (errs : List (Nat × ErrKind))
    (h : pipeline o c = .out txs errs) (t : BTx) (ht : t ∈ txs) :
    ∃ t0 ∈ c.txs, keeps o t0 = true ∧ t = rated o t0 ∧
      (∀ x, t0.rate = some x → t.rate = some x) ∧
      t.security = t0.security ∧ t.shares = t0.shares ∧ t.price = t0.price ∧
      t.commission = t0.commission ∧ t.currency = t0.currency ∧ t.side = t0.side ∧
      t.tradeDate = t0.tradeDate ∧ t.settleDate = t0.settleDate ∧ t.registered = t0.registered := by
  have hm := (pipeline_perm h).mem_iff.mp ht
  simp only [selected, List.mem_map, List.mem_filter] at hm
  obtain ⟨t0, ⟨hmem, hkeep⟩, rfl⟩ := hm
  refine ⟨t0, hmem, hkeep, rfl, ?_, ?_⟩
  · intro x hx
    unfold rated
    split
    · exact applyRate_keeps_rate _ _ _ hx
    · exact hx
  · unfold rated
    split
    · rename_i r _
      obtain ⟨a1, a2, a3, a4, a5, a6, _, a8, a9, a10⟩ := applyRate_fields r t0
      exact ⟨a1, a2, a3, a4, a5, a6, a8, a9, a10⟩
    · exact ⟨rfl, rfl, rfl, rfl, rfl, rfl, rfl, rfl, rfl⟩

/-- … and conversely every converted row the filters keep is in the output exactly as often. -/
theorem C18_output_is_selection (o : Opts) (c : Conv) (txs : List BTx) (errs : List (Nat × ErrKind))
    (h : pipeline o c = .out txs errs) :
    errs = c.errors ∧ txs.Perm ((c.txs.filter (keeps o)).map (rated o)) ∧
    (o.noSort = true → txs = (c.txs.filter (keeps o)).map (rated o)) := by
  refine ⟨(pipeline_out h).1, pipeline_perm h, ?_⟩
  intro hs
  have := (pipeline_out h).2
  rw [if_pos hs] at this
  exact this

example : (convert { usdRate := some (3/2), noSort := true } sheetA).txs?.map (fun l => l.map (·.rate)) =
    some [some (3/2), none, some (3/2), some (13/10), some (3/2)] := by decide +kernel

/-! ## The ordering -/

/-- **The comparator of `BrokerTx` is a total preorder** (reflexive, transitive, total, and
    antisymmetric in the sense `cmp a b = (cmp b a).swap`): it is the lexicographic order on
    (settlement date, settlement date-and-time text, tiebreak with "none" first, row number).
    Hence the stable `sort` has a single possible result, whatever algorithm `Vec::sort` uses. -/
theorem C18_order_is_total_preorder :
    (∀ a, leBTx a a = true) ∧
    (∀ a b c, leBTx a b = true → leBTx b c = true → leBTx a c = true) ∧
    (∀ a b, (leBTx a b || leBTx b a) = true) ∧
    (∀ a b, cmpBTx a b = (cmpBTx b a).swap) ∧
    (∀ a b, cmpBTx a b = .eq ↔ a.settleDate = b.settleDate ∧ a.settleStr = b.settleStr ∧
        a.tiebreak = b.tiebreak ∧ a.row = b.row) :=
  ⟨leBTx_refl, leBTx_trans, leBTx_total, cmpBTx_swap, cmpBTx_eq_iff⟩

/-- Unless `--no-sort` is given the output is sorted by that order (settlement date first; on
    one day and time, trades before FX purchases before FX sales) and is a permutation of the
    selected rows. -/
theorem C18_sorted_output (o : Opts) (c : Conv) (txs : List BTx) (errs : List (Nat × ErrKind))
    (h : pipeline o c = .out txs errs) (hs : o.noSort = false) :
    txs.Pairwise (fun a b => leBTx a b = true) ∧ txs.Perm ((c.txs.filter (keeps o)).map (rated o)) :=
  ⟨pipeline_sorted h hs, pipeline_perm h⟩

example : ∃ txs errs, pipeline { account := some (fun _ => true) } (sheetToTxs sheetA) = .out txs errs ∧
    ({ account := some (fun _ => true) } : Opts).noSort = false := ⟨_, _, rfl, rfl⟩
/- on one day and time: a trade (no tiebreak) sorts before an FX purchase, which sorts before an FX sale -/
example : ((sheetToTxs sheetA).txs.map (fun t => (t.security, t.row, t.side))) =
      [("UCO", 2, .buy), ("CCO", 7, .sell), ("USD.FX", 2, .sell), ("USD.FX", 5, .buy), ("USD.FX", 6, .buy)] ∧
    leBTx (txA 3) (txA 2) = true ∧ leBTx (txA 2) (txA 3) = false ∧
    leBTx (txA 1) (txA 4) = true ∧ leBTx (txA 4) (txA 1) = false := by
  decide +kernel

/-! ## Every emitted row is accepted by acb -/

/-- **Accepted by acb.**  Whatever the export and the options (a given `--usd-exchange-rate` being
    positive): every emitted row has a security, non-negative shares and commission, and an
    exchange rate only if it is positive and the row is in USD; so a row with a non-zero share
    count, a non-negative price and CAD or USD as currency passes `load_tx_rates` and
    `Tx::try_from`. -/
theorem C18_accepted_by_acb (o : Opts) (rds : List Reader) (txs : List BTx)
    (errs : List (Nat × ErrKind)) (h : pipeline o (convertReaders rds) = .out txs errs)
    (hr : ∀ r, o.usdRate = some r → 0 < r) (t : BTx) (ht : t ∈ txs)
    (hsh : t.shares ≠ 0) (hp : 0 ≤ t.price) (hc : t.currency = "CAD" ∨ t.currency = "USD") :
    AcbAccepts t := by
  have hm := (pipeline_perm h).mem_iff.mp ht
  simp only [selected, List.mem_map, List.mem_filter] at hm
  obtain ⟨t0, ⟨hmem, _⟩, rfl⟩ := hm
  have hshape : Shape (rated o t0) := by
    unfold rated
    split
    · rename_i r hro
      exact applyRate_shape (hr r hro) (convertReaders_shape hmem)
    · exact convertReaders_shape hmem
  exact accepts_of_shape hshape hsh hp hc

/-- For the generated USD.FX rows the side conditions hold by construction, except for a dividend
    whose net amount is zero: an FX row is `USD.FX` at price 1 in USD without commission, and its
    share count is non-zero unless it is the row of a dividend (whose count is |net amount|). -/
theorem C18_fx_rows_well_formed (rds : List Reader) (t : BTx) (h : t ∈ (convertReaders rds).fx) :
    t.security = "USD.FX" ∧ t.currency = "USD" ∧ t.price = 1 ∧ t.commission = 0 ∧
    (t.shares ≠ 0 ∨ t ∈ incomesFrom 2 rds) := by
  obtain ⟨⟨h1, h2, h3, h4, _, _⟩, h5⟩ := convertReaders_fx_mem h
  exact ⟨h1, h2, h3, h4, h5⟩

example : (convert { noSort := true } sheetB).txs?.map (fun l => (l.length, l.all (fun t =>
    decide (t.shares ≠ 0 ∧ 0 ≤ t.price ∧ (t.currency = "CAD" ∨ t.currency = "USD"))))) = some (5, true) := by
  decide +kernel

end Acb
