/-
  C15 — Stock splits are value-neutral.
-/
import AcbModel.Props.C16
import AcbModel.Lemmas.Scale
namespace Acb
open Spec

def scaleBook (f : Rat) (b : Book) : Book := { b with shares := b.shares * f }

/-- **C15 (the split row itself).**  A split changes neither the cost base nor any gain; it
    multiplies the affiliate's share balance by post/pre. -/
theorem C15_split_row {pre : Status} {post pre' : Rat} {io : Bool} {o : ArmOut}
    (h : armSplit pre post pre' io = .ok o) :
    o.post.acb = pre.acb ∧ o.gain = none ∧ o.sfl = none ∧ o.inj = [] ∧
    o.post.shares = pre.shares * (post / pre') := by
  unfold armSplit at h
  simp only at h
  split at h
  · cases h
  · split at h
    · cases h
    · simp only [Except.ok.injEq] at h; subst h
      simp [splitFactor]

/-- **C15 (rule-book level, one row).**  Under the average-cost rules, a row restated for an
    `f`-fold split acts on the `f`-scaled book exactly as the original row acts on the original
    book: the resulting book is the scaled one and the gain is unchanged. -/
theorem C15_rulebook_step (f : Rat) (hf : f ≠ 0) (b : Book) (act : Action) :
    stepBook (scaleBook f b) (restateAct f act) = scaleBook f (stepBook b act) ∧
    gain0 (scaleBook f b) (restateAct f act) = gain0 b act := by
  cases act with
  | buy sh px comm rate crate =>
    simp only [restateAct, stepBook, scaleBook, gain0, and_true]
    have e : px / f * (sh * f) * rate = px * sh * rate := by grind
    cases b.acb <;> simp [e] <;> grind
  | sell sh px comm rate crate spec =>
    simp only [restateAct, stepBook, scaleBook, gain0]
    have e1 : px / f * (sh * f) * rate = px * sh * rate := by grind
    by_cases hS : b.shares = 0
    · simp [hS, e1]; cases b.acb <;> simp <;> grind
    · have e2 : ∀ a : Rat, a * (sh * f) / (b.shares * f) = a * sh / b.shares := by intro a; grind
      cases b.acb <;> simp [e1, e2] <;> grind
  | roc ps rate =>
    simp only [restateAct, stepBook, scaleBook, gain0, and_true]
    have e : ps / f * (b.shares * f) * rate = ps * b.shares * rate := by grind
    cases b.acb <;> simp [e]
  | sfla sh ps =>
    simp only [restateAct, stepBook, scaleBook, gain0, and_true]
    have e : sh * f * (ps / f) = sh * ps := by grind
    cases b.acb <;> simp [e]
  | split post pre io =>
    simp only [restateAct, stepBook, scaleBook, gain0, and_true]
    simp; grind

/-- **C15 (rule-book level, whole history).**  Restating every row after a split for all
    affiliates and scaling the books by the split factor commute: the books after the restated
    rows are the scaled books after the original rows. -/
theorem C15_rulebook_neutral (f : Rat) (hf : f ≠ 0) (rows : List Tx) (bs : Books) :
    after (fun a => scaleBook f (bs a)) (rows.map (restateTx f)) = fun a => scaleBook f (after bs rows a) := by
  induction rows generalizing bs with
  | nil => simp [after]
  | cons r rs ih =>
    simp only [List.map_cons, after, List.foldl_cons] at ih ⊢
    have e : stepBooks (fun a => scaleBook f (bs a)) (restateTx f r) = fun a => scaleBook f (stepBooks bs r a) := by
      funext a
      unfold stepBooks restateTx
      simp only
      split
      · exact (C15_rulebook_step f hf (bs r.aff) r.act).1
      · rfl
    rw [e]
    exact ih (stepBooks bs r)

/-- A split row for affiliate `a` turns `a`'s book into the scaled one. -/
theorem C15_rulebook_split (bs : Books) (t : Tx) (post pre : Rat) (io : Bool) (h : t.act = .split post pre io) :
    stepBooks bs t t.aff = scaleBook (post / pre) (bs t.aff) := by
  simp [stepBooks, stepBook, h, scaleBook]

end Acb

namespace Acb

/-- **C15 (one row for all affiliates = one row per affiliate).**  A split addressed to all
    affiliates is processed as one split row per affiliate holding the security (in affiliate-id
    order), placed where the row stood; every other row is left as it is. -/
theorem C15_global_eq_per_affiliate (affs : List Aff) (pre post : List PRow) (g : PRow)
    (hg : isGlobalSplit g = true) :
    expandSplits affs (pre ++ g :: post) =
      expandSplits affs pre ++ affs.map (fun a => { g.tx with aff := a }) ++ expandSplits affs post := by
  unfold expandSplits
  simp [List.flatMap_append, hg]

/-! Non-vacuity: `Buy 10 @10; Sell 4 @12` versus `Buy 10 @10; Split 2-for-1; Sell 8 @6`: same gain
    (8), same remaining cost base (60), shares doubled. -/
private def a0 : Aff := ⟨0, false⟩
private def hA : List Tx := [
  { trade := 0, settle := 0, idx := 0, aff := a0, act := .buy 10 10 0 1 none },
  { trade := 50, settle := 50, idx := 1, aff := a0, act := .sell 4 12 0 1 none none } ]
private def hB : List Tx := [
  { trade := 0, settle := 0, idx := 0, aff := a0, act := .buy 10 10 0 1 none },
  { trade := 20, settle := 20, idx := 1, aff := a0, act := .split 2 1 false },
  restateTx 2 { trade := 50, settle := 50, idx := 2, aff := a0, act := .sell 4 12 0 1 none none } ]
example : ((deltaList a0 none hA).1.map (fun d => (d.gain, d.post.acb, d.post.shares))) =
    [(none, some 100, 10), (some 8, some 60, 6)] := by decide +kernel
example : ((deltaList a0 none hB).1.map (fun d => (d.gain, d.post.acb, d.post.shares))) =
    [(none, some 100, 10), (none, some 100, 20), (some 8, some 60, 12)] := by decide +kernel

end Acb
