/-
  C05 at the level of the application pipeline, ledger and cost report together: for every input
  of parsed rows — unsorted, any securities and affiliates, global splits, opening positions —
  every security ends in a complete ledger or a user-facing error, and the `--total-costs` report
  computed from whatever the ledgers produced (complete or partial) is computed without reaching
  a panic site, for every hash iteration order and calendar.
-/
import AcbModel.Props.C17c
namespace Acb
open Acb.Costs

/-- **C05 (pipeline + cost report never panic).** -/
theorem C05_pipeline_no_panic (yearOf : Int → Int) (σ : List Nat → List Nat) (τ : List Int → List Int)
    (isDefault : Aff → Bool) (dflt : Aff) (inits : Nat → Option Status)
    (rows : List PRow) (hv : ∀ r ∈ rows, r.tx.Valid) (hi : ∀ s, InitOk dflt (inits s)) :
    (∀ s, (∃ r ∈ rows, r.sec = s) →
      ∃ ds f, resultFor s (runPipeline dflt inits rows) = some (ds, f) ∧ ∀ site, f ≠ some (.panic site)) ∧
    ∃ c, calcTotalCosts yearOf (pipelineRows isDefault dflt inits rows) σ τ = .ok c := by
  refine ⟨?_, C17_pipeline_costs_no_panic yearOf σ τ isDefault dflt inits rows hv hi⟩
  intro s hs
  obtain ⟨ds, f, h, _, hp⟩ := C04_pipeline dflt inits rows hv s hs (hi s)
  exact ⟨ds, f, h, hp⟩

/-- non-vacuity: the hypotheses are those of `C17_pipeline_rows_wf` (examples in Props/C17c.lean);
    an input whose only security over-sells ends in a user error and a (one-row) cost report -/
private def oD : Aff := { key := 0, registered := false }
private def oRows : List PRow := [
  { sec := 0, glob := false, tx := { trade := 1, settle := 3, idx := 0, aff := oD, act := .buy 2 10 0 1 none } },
  { sec := 0, glob := false, tx := { trade := 5, settle := 7, idx := 1, aff := oD, act := .sell 3 10 0 1 none none } } ]

example : (resultFor 0 (runPipeline oD (fun _ => none) oRows)).map (fun r => (r.1.length, r.2.isSome)) =
    some (1, true) := by decide +kernel
example : (pipelineRows (· == oD) oD (fun _ => none) oRows).map (fun r => (r.day, r.post)) = [(3, some 20)] := by
  decide +kernel

end Acb
