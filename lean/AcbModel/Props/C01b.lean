/-
  C01 at the level of the application pipeline: whatever the files contain, every security's
  report conforms to the average-cost rule book (via C08: a security's result is a function of its
  own rows; via C01: the ledger refines the rule book).
-/
import AcbModel.Props.C01
import AcbModel.Props.C08
namespace Acb
open Spec

theorem expandSplits_valid {affs : List Aff} {R : List PRow} (h : ∀ r ∈ R, r.tx.Valid) :
    ∀ x ∈ expandSplits affs R, x.Valid := by
  intro x hx
  unfold expandSplits at hx
  simp only [List.mem_flatMap] at hx
  obtain ⟨r, hr, hxr⟩ := hx
  split at hxr
  · simp only [List.mem_map] at hxr
    obtain ⟨a, _, rfl⟩ := hxr
    exact h r hr
  · simp only [List.mem_singleton] at hxr
    rw [hxr]; exact h r hr

/-- **C01 (pipeline level).**  For every input — any number of files' rows, securities and
    affiliates, in any interleaving — and every security that has rows: the rows reported for it
    conform to the average-cost rule book started from its opening position (its own rows in
    (settlement date, file order), a split for all affiliates standing for one split per holder);
    other securities' rows have no part in it. -/
theorem C01_pipeline (dflt : Aff) (inits : Nat → Option Status) (rows : List PRow)
    (hv : ∀ r ∈ rows, r.tx.Valid) (s : Nat) (hs : ∃ r ∈ rows, r.sec = s) :
    ∃ ds f, resultFor s (runPipeline dflt inits rows) = some (ds, f) ∧
      Conforms (Books.init dflt (inits s)) ds := by
  rw [C08_table_local dflt inits rows s hs]
  refine ⟨_, _, rfl, ?_⟩
  show Conforms _ (secResultSorted dflt (inits s) (sortRows (rowsOf s rows))).1
  unfold secResultSorted
  have hvs : ∀ r ∈ sortRows (rowsOf s rows), r.tx.Valid := by
    intro r hr
    have : r ∈ rowsOf s rows := mem_sortRows.mp hr
    unfold rowsOf at this
    exact hv r (List.mem_filter.mp this).1
  cases hq : replaceGlobalSplits dflt (if (inits s).isSome then [dflt] else []) (sortRows (rowsOf s rows)) with
  | none => simp [Conforms]
  | some txs =>
    simp only
    apply C01_refines_spec
    unfold replaceGlobalSplits at hq
    split at hq
    · cases hq
    · split at hq
      · simp only [Option.some.injEq] at hq; subst hq
        intro tx htx
        obtain ⟨r, hr, rfl⟩ := List.mem_map.mp htx
        exact hvs r hr
      · simp only [Option.some.injEq] at hq; subst hq
        exact expandSplits_valid hvs

end Acb
