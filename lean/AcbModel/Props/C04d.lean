/-
  C04 / C05 at the level of the application pipeline: every security's report has no negative
  figure, and the only possible failures of a security are user-facing errors (the ledger's own or
  the split validation) — never a panic of the bookkeeping core.
-/
import AcbModel.Props.C01b
import AcbModel.Props.C05
namespace Acb
open Spec

/-- what the pipeline computes for a security: the ledger of some list of valid rows, or the
    split-validation error with no rows -/
theorem pipeline_sec_cases (dflt : Aff) (inits : Nat → Option Status) (rows : List PRow)
    (hv : ∀ r ∈ rows, r.tx.Valid) (s : Nat) (hs : ∃ r ∈ rows, r.sec = s) :
    resultFor s (runPipeline dflt inits rows) = some ([], some (.err .splitConflict)) ∨
    ∃ txs, (∀ tx ∈ txs, tx.Valid) ∧ resultFor s (runPipeline dflt inits rows) = some (deltaList dflt (inits s) txs) := by
  rw [C08_table_local dflt inits rows s hs]
  simp only [secResult, secResultSorted]
  have hvs : ∀ r ∈ sortRows (rowsOf s rows), r.tx.Valid := by
    intro r hr
    have : r ∈ rowsOf s rows := mem_sortRows.mp hr
    unfold rowsOf at this
    exact hv r (List.mem_filter.mp this).1
  cases hq : replaceGlobalSplits dflt (if (inits s).isSome then [dflt] else []) (sortRows (rowsOf s rows)) with
  | none => left; rfl
  | some txs =>
    right
    refine ⟨txs, ?_, rfl⟩
    unfold replaceGlobalSplits at hq
    split at hq
    · cases hq
    · split at hq
      · simp only [Option.some.injEq] at hq; subst hq
        intro tx htx
        obtain ⟨r, hr, rfl⟩ := List.mem_map.mp htx
        exact hvs r hr
      · simp only [Option.some.injEq] at hq; subst hq
        exact expandSplits_valid hvs

/-- **C04/C05 (pipeline level).**  For every input and every security with rows whose opening
    position is well formed: no reported row shows a negative share balance, total or cost base,
    and the security's failure, if any, is a user-facing error — never a panic site of the
    bookkeeping core. -/
theorem C04_pipeline (dflt : Aff) (inits : Nat → Option Status) (rows : List PRow)
    (hv : ∀ r ∈ rows, r.tx.Valid) (s : Nat) (hs : ∃ r ∈ rows, r.sec = s) (hi : InitOk dflt (inits s)) :
    ∃ ds f, resultFor s (runPipeline dflt inits rows) = some (ds, f) ∧
      (∀ d ∈ ds, 0 ≤ d.post.shares ∧ 0 ≤ d.post.all ∧ ∀ c, d.post.acb = some c → 0 ≤ c) ∧
      (∀ site, f ≠ some (.panic site)) := by
  rcases pipeline_sec_cases dflt inits rows hv s hs with h | ⟨txs, hvt, h⟩
  · exact ⟨[], _, h, by simp, by intro site h'; cases h'⟩
  · refine ⟨_, _, h, C04_nonneg dflt (inits s) txs hvt hi, C05_core_no_panic dflt (inits s) txs hvt hi⟩

end Acb
