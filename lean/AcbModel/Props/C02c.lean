/-
  C02 at the level of the application pipeline: the hypothesis "the history is sorted by settlement
  date" of `C02_every_reachable_sale` (and of the window lemmas behind `C02_rule`) is not an
  assumption about the caller — for every input, sorted or not, with any securities, affiliates
  and global splits, the list of rows a security's ledger is run on is valid and in
  settlement-date order.
-/
import AcbModel.Props.C02b
import AcbModel.Props.C04d
import AcbModel.Lemmas.CostsPipe
namespace Acb

/-- **C02 (pipeline level): every ledger runs on a date-sorted history of valid rows.** -/
theorem C02_pipeline_histories_sorted (dflt : Aff) (inits : Nat → Option Status) (rows : List PRow)
    (hv : ∀ r ∈ rows, r.tx.Valid) (s : Nat) (hs : ∃ r ∈ rows, r.sec = s) :
    resultFor s (runPipeline dflt inits rows) = some ([], some (.err .splitConflict)) ∨
    ∃ txs, (∀ tx ∈ txs, tx.Valid) ∧ SettleAsc txs ∧
      resultFor s (runPipeline dflt inits rows) = some (deltaList dflt (inits s) txs) := by
  rw [C08_table_local dflt inits rows s hs]
  simp only [secResult, secResultSorted]
  have hsorted : RowsSorted (sortRows (rowsOf s rows)) := sortRows_sorted _
  have hvs : ∀ r ∈ sortRows (rowsOf s rows), r.tx.Valid := by
    intro r hr
    have : r ∈ rowsOf s rows := mem_sortRows.mp hr
    unfold rowsOf at this
    exact hv r (List.mem_filter.mp this).1
  have hp := secTxs_props dflt (inits s) hsorted hvs
  unfold secTxs at hp
  cases hq : replaceGlobalSplits dflt (if (inits s).isSome then [dflt] else []) (sortRows (rowsOf s rows)) with
  | none => left; rfl
  | some txs =>
    right
    rw [hq] at hp
    exact ⟨txs, hp.1, hp.2, rfl⟩

/-! Non-vacuity: an unsorted input with a global split; security 0's ledger runs on the sorted,
    expanded history. -/
private def qD : Aff := { key := 0, registered := false }
private def qR : Aff := { key := 1, registered := true }
private def qRows : List PRow := [
  { sec := 0, glob := false, tx := { trade := 50, settle := 52, idx := 0, aff := qD, act := .sell 4 30 1 1 none none } },
  { sec := 0, glob := true, tx := { trade := 20, settle := 20, idx := 1, aff := qD, act := .split 2 1 false } },
  { sec := 0, glob := false, tx := { trade := 2, settle := 4, idx := 2, aff := qR, act := .buy 7 21 0 1 none } },
  { sec := 0, glob := false, tx := { trade := 1, settle := 3, idx := 3, aff := qD, act := .buy 10 20 5 1 none } } ]

example : (secTxs qD none (sortRows (rowsOf 0 qRows))).map (fun t => (t.settle, t.aff.key)) =
    [(3, 0), (4, 1), (20, 0), (20, 1), (52, 0)] := by decide +kernel

end Acb
