/-
  C16 — `--symbol-base` equals an opening purchase, at the level of the application pipeline
  (split validation, expansion of splits for all affiliates, ledger).
-/
import AcbModel.Props.C16
import AcbModel.Lemmas.OpeningPipe
namespace Acb

/-- the opening purchase as a parsed row of security `s` -/
def openingRow (s : Nat) (dflt : Aff) (n c : Rat) (day : Int) : PRow :=
  { sec := s, glob := false, tx := openingBuy dflt n c day }

theorem farBefore_expand {b : Tx} {affs : List Aff} {R : List PRow} (h : ∀ r ∈ R, FarBefore b r.tx) :
    ∀ x ∈ expandSplits affs R, FarBefore b x := by
  intro x hx
  unfold expandSplits at hx
  simp only [List.mem_flatMap] at hx
  obtain ⟨r, hr, hxr⟩ := hx
  split at hxr
  · simp only [List.mem_map] at hxr
    obtain ⟨a, _, rfl⟩ := hxr
    intro sh px comm rate crate spec hact
    exact h r hr sh px comm rate crate spec hact
  · simp only [List.mem_singleton] at hxr
    rw [hxr]; exact h r hr

/-- **C16 (pipeline level).**  For the sorted rows `R ≠ []` of one security, a positive share
    count `n`, any cost `c`, and an opening purchase by the default affiliate dated more than 30
    days before every later sale: processing `opening purchase :: R` with no opening position gives
    — unless the security is rejected by the split validation, in both forms alike — the
    purchase's own row followed by exactly the rows, and the same failure, that processing `R` with
    the opening position `SYM:n:c` gives; including the expansion of splits for all affiliates,
    which reaches the default affiliate in both forms.  (Affiliate ids are distinct keys.) -/
theorem C16_pipeline (dflt : Aff) (hd : dflt.registered = false) (s : Nat) (n c : Rat) (hn : 0 < n) (day : Int)
    (R : List PRow) (hne : R ≠ [])
    (hfar : ∀ r ∈ R, FarBefore (openingBuy dflt n c day) r.tx)
    (hk : ∀ x ∈ dflt :: nonGlobalAffs R, ∀ y ∈ dflt :: nonGlobalAffs R, x.key = y.key → x = y) :
    secResultSorted dflt none (openingRow s dflt n c day :: R) =
      (match replaceGlobalSplits dflt [dflt] R with
       | none => ([], some (.err .splitConflict))
       | some _ =>
         ({ tx := openingBuy dflt n c day, pre := defaultStatus dflt, post := openingStatus n c,
            gain := none, sfl := none } :: (secResultSorted dflt (some (openingStatus n c)) R).1,
          (secResultSorted dflt (some (openingStatus n c)) R).2)) := by
  have hb : (openingRow s dflt n c day).tx.act.isSplit = false := rfl
  have hbg : isGlobalSplit (openingRow s dflt n c day) = false := by simp [isGlobalSplit, hb]
  unfold secResultSorted replaceGlobalSplits
  simp only [Option.isSome_none, Bool.false_eq_true, if_false, Option.isSome_some, if_true,
    splitConflict_cons hb R]
  by_cases hconf : splitConflict [] R = true
  · simp [hconf]
  · simp only [hconf, Bool.false_eq_true, if_false]
    have hfilt : (List.filter isGlobalSplit (openingRow s dflt n c day :: R)).isEmpty =
        (List.filter isGlobalSplit R).isEmpty := by simp [List.filter_cons, hbg]
    rw [hfilt]
    by_cases hnog : (List.filter isGlobalSplit R).isEmpty = true
    · simp only [hnog, if_true, List.map_cons]
      have hne' : R.map (·.tx) ≠ [] := by simpa using hne
      exact C16_equiv dflt hd n c hn day (R.map (·.tx)) hne'
        (by intro x hx; obtain ⟨r, hr, rfl⟩ := List.mem_map.mp hx; exact hfar r hr)
    · simp only [hnog, Bool.false_eq_true, if_false]
      rw [splitAffs_opening dflt rfl rfl R hk, expandSplits_cons hb]
      have haffs : splitAffs dflt [dflt] R ≠ [] := by
        unfold splitAffs
        simp only
        apply sortAffs_ne_nil
        split
        · simp
        · rename_i h; intro he; rw [he] at h; simp at h
      exact C16_equiv dflt hd n c hn day _ (expandSplits_ne_nil haffs hne) (farBefore_expand hfar)

/-! Non-vacuity (the constellation of finding F-16): the security's rows are the spouse's only — a
    purchase, a 2-for-1 split for all affiliates, a sale — and the default affiliate's holding comes
    from the opening position 10 shares / $50.  In both forms the split reaches the default
    affiliate (10 → 20 shares). -/
private def d0 : Aff := ⟨0, false⟩
private def sp : Aff := ⟨1, false⟩
private def rowsX : List PRow := [
  { sec := 0, glob := false, tx := { trade := 100, settle := 100, idx := 1, aff := sp, act := .buy 5 10 0 1 none } },
  { sec := 0, glob := true,  tx := { trade := 120, settle := 120, idx := 2, aff := d0, act := .split 2 1 false } },
  { sec := 0, glob := false, tx := { trade := 150, settle := 150, idx := 3, aff := sp, act := .sell 4 6 0 1 none none } } ]

example : secResultSorted d0 none (openingRow 0 d0 10 50 0 :: rowsX) =
    ({ tx := openingBuy d0 10 50 0, pre := defaultStatus d0, post := openingStatus 10 50, gain := none, sfl := none } ::
        (secResultSorted d0 (some (openingStatus 10 50)) rowsX).1,
      (secResultSorted d0 (some (openingStatus 10 50)) rowsX).2) := by
  have h := C16_pipeline d0 rfl 0 10 50 (by decide +kernel) 0 rowsX (by simp [rowsX])
    (by
      intro r hr sh px comm rate crate spec hact
      simp only [rowsX, List.mem_cons, List.mem_nil_iff, or_false] at hr
      rcases hr with rfl | rfl | rfl <;> simp [openingBuy, Gen.sflWindowBeforeDays] at hact ⊢)
    (by decide)
  have hc : replaceGlobalSplits d0 [d0] rowsX ≠ none := by decide +kernel
  cases hq : replaceGlobalSplits d0 [d0] rowsX with
  | none => exact absurd hq hc
  | some txs => rw [hq] at h; exact h

/-- the default affiliate's split row is there, with the doubled balance -/
example : ((secResultSorted d0 (some (openingStatus 10 50)) rowsX).1.map (fun d => (d.tx.aff.key, d.post.shares))) =
    [(1, 5), (0, 20), (1, 10), (1, 6)] := by decide +kernel

end Acb
