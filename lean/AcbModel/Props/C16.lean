/-
  C16 — `--symbol-base` equals an opening purchase (ledger level).
-/
import AcbModel.Lemmas.Opening
import AcbModel.Lemmas.Loop
import AcbModel.Props.C08
import AcbModel.Generated.AppConsts
namespace Acb
open Spec

theorem deltaLoop_append_old (b : Tx) :
    ∀ (future : List Tx) (t : Tracker) (past : List Tx) (acc : List Delta),
    (∀ x ∈ future, FarBefore b x) →
    deltaLoop t (past ++ [b]) acc future = deltaLoop t past acc future := by
  intro future
  induction future with
  | nil => intro t past acc _; simp [deltaLoop]
  | cons tx rest ih =>
    intro t past acc h
    unfold deltaLoop
    rw [stepRow_append_old b (h tx (by simp))]
    cases hs : stepRow t tx past rest with
    | error f => rfl
    | ok res =>
      obtain ⟨d, t', inj⟩ := res
      simp only
      have hinj : ∀ x ∈ inj, FarBefore b x := fun x hx => FarBefore_of_sfla (stepRow_inj hs x hx)
      have := runInjected_append_old b inj t' (tx :: past) (acc ++ [d]) rest hinj
      simp only [List.cons_append] at this
      rw [this]
      cases runInjected t' (tx :: past) (acc ++ [d]) inj rest with
      | inl r =>
        obtain ⟨t'', past', out⟩ := r
        simp only
        exact ih t'' past' out (fun y hy => h y (by simp [hy]))
      | inr r => rfl

/-- The opening purchase that `SYM:n:c` stands for: the default affiliate buys `n` shares for a
    total of `c` (CAD, no commission) on `day`. -/
def openingBuy (dflt : Aff) (n c : Rat) (day : Int) : Tx :=
  { trade := day, settle := day, idx := 0, aff := dflt, act := .buy n (c / n) 0 1 none }

def openingStatus (n c : Rat) : Status := { shares := n, all := n, acb := some c }

theorem armBuy_opening (dflt : Aff) (hd : dflt.registered = false) (n c : Rat) (hn : n ≠ 0) :
    armBuy (defaultStatus dflt) n (c / n) 0 1 none = { post := openingStatus n c } := by
  have e1 : (0:Rat) + n = n := by grind
  have e2 : (0:Rat) + (c / n * n * 1 + 0 * commRate 1 none) = c := by
    unfold commRate; simp; grind
  have e3 : (0:Rat) + (c / n * n + 0) = c := by grind
  simp [armBuy, defaultStatus, openingStatus, hd, e1, e3]

def T0 (dflt : Aff) : Tracker := { m := fun _ => none, latestAll := 0, latestAff := dflt }
def T1 (dflt : Aff) (n c : Rat) : Tracker := { m := upd (fun _ => none) dflt (some (openingStatus n c)), latestAll := n, latestAff := dflt }

theorem setLatest_opening (dflt : Aff) (hd : dflt.registered = false) (n c : Rat) :
    (T0 dflt).setLatest dflt (openingStatus n c) = .ok (T1 dflt n c) := by
  have e : n + 0 - 0 = n := by grind
  simp [Tracker.setLatest, T0, T1, openingStatus, Tracker.bal, hd, e]

theorem stepRow_opening (dflt : Aff) (hd : dflt.registered = false) (n c : Rat) (hn : n ≠ 0) (day : Int) (future : List Tx) :
    stepRow (T0 dflt) (openingBuy dflt n c day) [] future =
      .ok ({ tx := openingBuy dflt n c day, pre := defaultStatus dflt, post := openingStatus n c, gain := none, sfl := none },
           T1 dflt n c, []) := by
  have hpre : (T0 dflt).nextPre dflt = defaultStatus dflt := by
    simp [Tracker.nextPre, defaultStatus, T0]
  have hs : sanityCheck (defaultStatus dflt) dflt = .ok () := by
    simp [sanityCheck, defaultStatus, hd]
  unfold stepRow deltaForTx
  simp only [openingBuy, hpre, hs, arm, armBuy_opening dflt hd n c hn]
  simp only [setLatest_opening dflt hd n c]

/-- **C16 (ledger level).**  For a positive share count `n` and any cost `c`, running the ledger
    on the rows with the purchase "default affiliate buys `n` shares for a total of `c`" prepended,
    dated more than 30 days before every later sale, produces that purchase's row followed by
    exactly the deltas (and the same failure, if any) that the opening position `SYM:n:c` produces
    — for every list of rows, of any length, erroneous or not. -/
theorem C16_equiv (dflt : Aff) (hd : dflt.registered = false) (n c : Rat) (hn : 0 < n) (day : Int)
    (txs : List Tx) (hne : txs ≠ [])
    (hfar : ∀ x ∈ txs, FarBefore (openingBuy dflt n c day) x) :
    deltaList dflt none (openingBuy dflt n c day :: txs) =
      ({ tx := openingBuy dflt n c day, pre := defaultStatus dflt, post := openingStatus n c,
         gain := none, sfl := none } :: (deltaList dflt (some (openingStatus n c)) txs).1,
       (deltaList dflt (some (openingStatus n c)) txs).2) := by
  have hne0 : n ≠ 0 := by grind
  have hnew : Tracker.new dflt (some (openingStatus n c)) = .ok (T1 dflt n c) := by
    have := setLatest_opening dflt hd n c
    simp only [T0] at this
    simp [Tracker.new, openingStatus] at this ⊢
    exact this
  have hnew0 : Tracker.new dflt none = .ok (T0 dflt) := rfl
  cases txs with
  | nil => exact absurd rfl hne
  | cons x xs =>
    have hl : deltaList dflt none (openingBuy dflt n c day :: x :: xs) =
        deltaLoop (T0 dflt) [] [] (openingBuy dflt n c day :: x :: xs) := by
      simp [deltaList, hnew0]
    have hr : deltaList dflt (some (openingStatus n c)) (x :: xs) = deltaLoop (T1 dflt n c) [] [] (x :: xs) := by
      simp [deltaList, hnew]
    rw [hl, hr]
    have hstep := stepRow_opening dflt hd n c hne0 day (x :: xs)
    have e : deltaLoop (T0 dflt) [] [] (openingBuy dflt n c day :: x :: xs) =
        deltaLoop (T1 dflt n c) ([] ++ [openingBuy dflt n c day])
          ([] ++ [{ tx := openingBuy dflt n c day, pre := defaultStatus dflt, post := openingStatus n c, gain := none, sfl := none }])
          (x :: xs) := by
      conv => lhs; unfold deltaLoop
      simp only [hstep, runInjected, List.nil_append]
    rw [e, deltaLoop_append_old (openingBuy dflt n c day) (x :: xs) (T1 dflt n c) [] _ hfar, deltaLoop_acc]
    simp

/-- **C16 (opening positions of other securities have no effect).**  The result of security `s`
    depends on the opening positions only through the one given for `s`. -/
theorem C16_other_securities (dflt : Aff)
    (inits inits' : Nat → Option Status) (rows : List PRow) (s : Nat) (hs : ∃ r ∈ rows, r.sec = s)
    (h : inits s = inits' s) :
    resultFor s (runPipeline dflt inits rows) = resultFor s (runPipeline dflt inits' rows) := by
  rw [C08_table_local dflt inits rows s hs, C08_table_local dflt inits' rows s hs, h]

end Acb

namespace Acb
/-- **C16 (malformed specifications are rejected before any processing).**  In `command_main`
    the `--symbol-base` strings are parsed (and the run aborted on error) before any input file is
    opened; regenerated from `src/cmd.rs` on every run. -/
theorem C16_parsed_first : Gen.initStatusParsedBeforeFilesAreRead = true := by decide
end Acb
