/-
  C07 — Results do not depend on how the input rows are laid out.

  Property theorems only (lemmas: AcbModel/Lemmas/Layout.lean, Order.lean).
  Models: `Csv.readFiles` / `Csv.parseTable` / `Csv.readTxs` (reading loop of
  run_acb_app_to_delta_models over parse_tx_csv + Tx::try_from) and `Order.process`
  (all_txs.sort() on (settlement_date, read_index), then split_txs_by_security).
  Everything after `split_txs_by_security` is a function of the per-security row lists; the read
  index is only copied there, never compared.
-/
import AcbModel.Lemmas.Layout
import AcbModel.Lemmas.Order
import AcbModel.Generated.CsvTables
namespace Acb
open Csv Order

/-- The sort key in the source is (settlement_date, read_index). -/
theorem C07_sort_key_matches_source :
    Gen.sortKeyFirst = "settlement_date" ∧ Gen.sortKeySecond = "read_index" := by decide

/-! ### files -/

/-- **File partition.**  The rows of one table cut at any places into several files (each with the
    header, given in order) are read as the same transactions as the single file — or both
    readings fail. -/
theorem C07_file_partition (hdr : List Str) (chunks : List (List (List Str))) (hne : chunks ≠ []) (start : Nat) :
    (readFiles (chunks.map (fun rows => (⟨hdr, rows⟩ : Table))) start).toOption =
      (readTxs ⟨hdr, chunks.flatten⟩ start).toOption :=
  readFiles_chunks hdr chunks hne start

/-- **Global read index.**  Whatever the files, the `k`-th transaction read carries read index
    `start + k`: ties in the sort are broken by position in the concatenated input. -/
theorem C07_read_index_is_position (files : List Table) (start : Nat) (txs : List Tx)
    (h : readFiles files start = .ok txs) : IndexedFrom start txs :=
  readFiles_index files start txs h

/-! ### columns and headers -/

/-- **Column permutation.**  If no recognised column name occurs twice, re-arranging the columns
    (header and every row: the same multiset of (header cell, row cell) pairs) does not change
    what is read. -/
theorem C07_column_perm (hdr hdr' : List Str) (rows rows' : List (List Str)) (hh : hdr'.Perm hdr)
    (hd : DistinctRecognised hdr) (h : SameColumns hdr' hdr rows' rows) (start : Nat) :
    readTxs ⟨hdr', rows'⟩ start = readTxs ⟨hdr, rows⟩ start := by
  unfold readTxs
  rw [parseTable_perm hdr hdr' rows rows' hh hd h start]

/-- reversing the columns is such a re-arrangement -/
theorem C07_column_reverse (hdr : List Str) (rows : List (List Str)) (hlen : ∀ r ∈ rows, r.length = hdr.length) :
    SameColumns hdr.reverse hdr (rows.map List.reverse) rows := by
  induction rows with
  | nil => exact .nil
  | cons r rs ih =>
    have hr := hlen r (by simp)
    refine .cons (by simp [hr]) hr ?_ (ih (fun x hx => hlen x (by simp [hx])))
    rw [List.zip_eq_zipWith, List.zip_eq_zipWith, ← List.reverse_zipWith hr.symm]
    exact List.reverse_perm _

/-- **Header case and padding.**  Each header cell may be padded with white space and written in
    another letter case. -/
theorem C07_header_case_pad (hdr hdr' : List Str) (rows : List (List Str))
    (h : Forall2 (fun h' h0 => ∃ w1 core w2, h' = w1 ++ core ++ w2 ∧ (∀ c ∈ w1, isWs c = true) ∧
            (∀ c ∈ w2, isWs c = true) ∧ lower core = lower h0) hdr' hdr) (start : Nat) :
    readTxs ⟨hdr', rows⟩ start = readTxs ⟨hdr, rows⟩ start := by
  have hs : hdr'.map sanitize = hdr.map sanitize := by
    induction h with
    | nil => rfl
    | cons hab _ ih =>
      obtain ⟨w1, core, w2, rfl, h1, h2, hc⟩ := hab
      simp only [List.map_cons, ih, sanitize_case_pad w1 core w2 _ h1 h2 hc]
  unfold readTxs
  rw [parseTable_header_congr hdr hdr' rows hs start]

/-- **Unrecognised columns.**  A column whose header is not a recognised name, inserted at any
    position with any cell texts, changes nothing. -/
theorem C07_unknown_columns (hdr : List Str) (k : Nat) (h : Str) (hk : k ≤ hdr.length)
    (hun : colOfName (sanitize h) = none) (rows : List (List Str)) (vs : List Str)
    (hlen : ∀ r ∈ rows, r.length = hdr.length) (start : Nat) :
    readTxs ⟨insertAt k h hdr, (rows.zip vs).map (fun p => insertAt k p.2 p.1)⟩ start =
      readTxs ⟨hdr, (rows.zip vs).map (·.1)⟩ start := by
  unfold readTxs
  rw [parseTable_insert_unknown hdr k h hk hun rows vs hlen start]

/-! ### rows -/

/-- **Processing order.**  The rows of a security reach the ledger in settlement-date order, ties
    broken by position in the concatenated input. -/
theorem C07_order_declarative {α : Type} (rows : List (InRow α)) (s : String) :
    process rows s = canonical rows s :=
  process_eq_canonical rows s

/-- **Row permutation.**  Any re-ordering of the input rows that keeps the relative order of the
    rows of one security settling on the same date leaves the row list of every security, as the
    ledger receives it, unchanged. -/
theorem C07_row_perm {α : Type} (rows' rows : List (InRow α)) (h : Admissible rows' rows) (s : String) :
    process rows' s = process rows s := by
  rw [process_eq_canonical, process_eq_canonical]
  unfold canonical
  rw [h.dates_eq]
  congr 1
  funext d
  exact h s d

/-- Swapping two neighbouring rows that differ in security or settlement date is admissible;
    admissible re-orderings compose. -/
theorem C07_swap_admissible {α : Type} (l1 l2 : List (InRow α)) (a b : InRow α)
    (h : a.sec ≠ b.sec ∨ a.settle ≠ b.settle) : Admissible (l1 ++ b :: a :: l2) (l1 ++ a :: b :: l2) :=
  admissible_swap l1 l2 a b h

/-- **The sorting algorithm is immaterial.**  Any list with the same members that is sorted on
    (settlement date, read index) is the list the model's insertion sort produces. -/
theorem C07_sort_unique {α : Type} (l sorted : List (Keyed α)) (hd : l.Pairwise (fun a b => a.idx ≠ b.idx))
    (hs : sorted.Pairwise keyLt) (hm : ∀ x, x ∈ sorted ↔ x ∈ l) : sorted = sortKeyed l :=
  keyed_sorted_unique sorted (sortKeyed l) hs (sorted_sortKeyed l hd)
    (fun x => (hm x).trans (mem_sortKeyed x l).symm)

/-! ### non-vacuity -/

def c07Rows : List (InRow Nat) :=
  [⟨"FOO", 10, 0⟩, ⟨"BAR", 10, 1⟩, ⟨"FOO", 10, 2⟩, ⟨"FOO", 9, 3⟩, ⟨"BAR", 12, 4⟩, ⟨"FOO", 10, 5⟩]

/-- two securities, a same-day tie: FOO is processed as row 3 (day 9), then rows 0, 2, 5 (day 10, input order) -/
example : (process c07Rows "FOO").map (·.val) = [3, 0, 2, 5] := by decide
example : (process c07Rows "BAR").map (·.val) = [1, 4] := by decide
/-- an admissible re-ordering (rows of different classes moved past each other) -/
example : (process [⟨"FOO", 9, 3⟩, ⟨"FOO", 10, 0⟩, ⟨"BAR", 12, 4⟩, ⟨"FOO", 10, 2⟩, ⟨"BAR", 10, 1⟩, ⟨"FOO", 10, 5⟩] "FOO").map
    (·.val) = [3, 0, 2, 5] := by decide
/-- a re-ordering that is NOT admissible (rows 0 and 2 swapped) changes the result: the hypothesis is needed -/
example : (process [⟨"FOO", 10, 2⟩, ⟨"BAR", 10, 1⟩, ⟨"FOO", 10, 0⟩, ⟨"FOO", 9, 3⟩, ⟨"BAR", 12, 4⟩, ⟨"FOO", 10, 5⟩] "FOO").map
    (·.val) = [3, 2, 0, 5] := by decide

example : sanitize (strOf "  Trade DATE\t") = Col.tradeDate.name := by decide
example : colOfName (sanitize (strOf "notes")) = none := by decide
example : DistinctRecognised [strOf "Security", strOf "notes", strOf "trade date", strOf "junk"] := by
  unfold DistinctRecognised; decide

end Acb
