/-
  C08 — Securities are computed independently; one security's error stays local.
  `runPipeline` is the model of `run_acb_app_to_delta_models` (sort the concatenated input by
  (settlement date, read index), split by security, expand global splits, run the ledger).
-/
import AcbModel.Lemmas.SortRows
import AcbModel.Props.C04
namespace Acb

/-- The result the pipeline reports for security `s` (`none` if `s` has no rows). -/
def resultFor (s : Nat) (res : List (Nat × List Delta × Option Failure)) :
    Option (List Delta × Option Failure) :=
  (res.find? (fun r => r.1 == s)).map (·.2)

/-- What the pipeline computes for one security, as a function of that security's rows alone. -/
def secResult (dflt : Aff) (init : Option Status) (rowsS : List PRow) :
    List Delta × Option Failure :=
  secResultSorted dflt init (sortRows rowsS)

theorem find_map_sec {α : Type} (f : Nat → α) (s : Nat) :
    ∀ (l : List Nat), s ∈ l → ((l.map (fun x => (x, f x))).find? (fun r => r.1 == s)).map (·.2) = some (f s) := by
  intro l
  induction l with
  | nil => intro h; simp at h
  | cons x xs ih =>
    intro h
    simp only [List.map_cons, List.find?_cons]
    by_cases hx : x = s
    · subst hx; simp
    · have : (x == s) = false := by simpa using hx
      simp only [this]
      simp only [List.mem_cons] at h
      rcases h with rfl | h
      · exact absurd rfl hx
      · exact ih h

theorem mem_sortRows {x : PRow} {l : List PRow} : x ∈ sortRows l ↔ x ∈ l := by
  unfold sortRows
  induction l with
  | nil => simp
  | cons y ys ih => simp only [List.foldr_cons, mem_insertRow, ih, List.mem_cons]

theorem mem_secsOf {s : Nat} {l : List PRow} : s ∈ secsOf l ↔ ∃ r ∈ l, r.sec = s := by
  unfold secsOf
  simp [List.mem_eraseDups]

/-- **C08 (a security's table depends only on its own rows and opening position).**
    For every input (any number of securities, any interleaving, erroneous or not) the result the
    pipeline reports for a security that has rows is `secResult` of that security's rows alone:
    the rows of every other security — including ones that fail bookkeeping or split validation —
    do not enter it. -/
theorem C08_table_local (dflt : Aff) (inits : Nat → Option Status)
    (rows : List PRow) (s : Nat) (hs : ∃ r ∈ rows, r.sec = s) :
    resultFor s (runPipeline dflt inits rows) =
      some (secResult dflt (inits s) (rowsOf s rows)) := by
  unfold resultFor runPipeline
  simp only
  have hmem : s ∈ secsOf (sortRows rows) := by
    rw [mem_secsOf]
    obtain ⟨r, hr, hrs⟩ := hs
    exact ⟨r, mem_sortRows.mpr hr, hrs⟩
  have := find_map_sec (fun s => secResultSorted dflt (inits s) (rowsOf s (sortRows rows))) s _ hmem
  rw [this, rowsOf_sortRows]
  rfl

/-- **C08 (adding or removing other securities changes nothing).**  Two inputs that contain the
    same rows for security `s` (whatever else they contain) give `s` the same result. -/
theorem C08_other_rows_irrelevant (dflt : Aff) (inits : Nat → Option Status)
    (rows rows' : List PRow) (s : Nat) (hs : ∃ r ∈ rows, r.sec = s)
    (h : rowsOf s rows = rowsOf s rows') :
    resultFor s (runPipeline dflt inits rows) = resultFor s (runPipeline dflt inits rows') := by
  have hs' : ∃ r ∈ rows', r.sec = s := by
    obtain ⟨r, hr, hrs⟩ := hs
    have : r ∈ rowsOf s rows := by simp [rowsOf, hr, hrs]
    rw [h] at this
    exact ⟨r, (List.mem_filter.mp this).1, hrs⟩
  rw [C08_table_local dflt inits rows s hs, C08_table_local dflt inits rows' s hs', h]

/-- **C08 (an error stays local).**  Whatever failure (over-sale, split validation, …) the rows
    of other securities cause, security `s` still gets exactly the result of its own rows: in
    particular a complete, error-free ledger if its own rows are fine. -/
theorem C08_error_local (dflt : Aff) (inits : Nat → Option Status)
    (rows : List PRow) (s : Nat) (hs : ∃ r ∈ rows, r.sec = s)
    (hok : (secResult dflt (inits s) (rowsOf s rows)).2 = none) :
    ∃ ds, resultFor s (runPipeline dflt inits rows) = some (ds, none) := by
  rw [C08_table_local dflt inits rows s hs]
  exact ⟨(secResult dflt (inits s) (rowsOf s rows)).1, by rw [← hok]⟩

end Acb
