/-
  C01 — Cost-base ledger follows the average-cost rules exactly.

  Property theorems only (helper lemmas live in AcbModel/Lemmas).  `deltaList` is the model of
  `txs_to_delta_list`; `Spec` (AcbModel/Ledger/Spec.lean) is the average-cost rule book.
-/
import AcbModel.Lemmas.Loop
namespace Acb
open Spec

/-- The tracker built by `AffiliatePortfolioSecurityStatuses::new` holds the opening books. -/
theorem Tracker.new_refines {dflt : Aff} {init : Option Status} {t : Tracker}
    (h : Tracker.new dflt init = .ok t) : TrackerRefines t (Books.init dflt init) := by
  unfold Tracker.new at h
  simp only at h
  split at h
  · simp only [Except.ok.injEq] at h; subst h
    intro a; simp [Books.init, bookOf, defaultStatus, Book.zero]
  · rename_i st
    split at h
    · unfold Tracker.setLatest at h
      simp only at h
      split at h
      · split at h
        · simp only [Except.ok.injEq] at h; subst h
          intro a
          unfold upd Books.init
          by_cases ha : a = dflt
          · simp [ha, bookOf]
          · simp [ha, bookOf, defaultStatus, Book.zero]
        · cases h
      · cases h
    · cases h

/-- **C01 (refinement).**  For every opening status and every list of parsed rows, every
    delta the ledger emits (all of them, or the prefix before a rejected row) has, as pre-status,
    the affiliate's book under the average-cost rules; as post-status, that book after the row's
    rule (purchase adds cost + commission at their own rates, sale removes cost in proportion,
    RoC subtracts per-share amount × shares held, SfLA adds its amount, split rescales shares
    only); and as gain, proceeds − commission − cost removed − denied loss.  Registered
    affiliates carry `acb = none` throughout (their books start and stay `none`).
    The rows the books are stepped through are the deltas' own rows, i.e. the input rows with
    the automatically generated SfLA rows in place. -/
theorem C01_refines_spec (dflt : Aff) (init : Option Status) (txs : List Tx)
    (hv : ∀ tx ∈ txs, tx.Valid) :
    Conforms (Books.init dflt init) (deltaList dflt init txs).1 := by
  unfold deltaList
  split
  · simp [Conforms]
  · split
    · simp [Conforms]
    · rename_i t ht
      have hr := Tracker.new_refines ht
      obtain ⟨out, h1, h2⟩ := deltaLoop_conforms (bs := Books.init dflt init) txs t [] []
        (fun x hx => SellPos_of_valid (hv x hx)) hr
      rw [h1]; simpa using h2

/-- `Conforms`, unfolded per row index: row `i` is judged against the books obtained by
    stepping the opening books through rows `0..i-1`. -/
theorem Conforms_index {bs : Books} {ds : List Delta} (h : Conforms bs ds) (i : Nat) (hi : i < ds.length) :
    let bsi := after bs ((ds.take i).map (·.tx))
    bookOf ds[i].pre = bsi ds[i].tx.aff ∧
    bookOf ds[i].post = stepBook (bsi ds[i].tx.aff) ds[i].tx.act ∧
    ds[i].gain = (gain0 (bsi ds[i].tx.aff) ds[i].tx.act).map (fun g => g - sflLoss ds[i].sfl) := by
  induction ds generalizing bs i with
  | nil => simp at hi
  | cons d ds ih =>
    cases i with
    | zero => simp only [Conforms] at h; simpa [after] using ⟨h.1, h.2.1, h.2.2.1⟩
    | succ j =>
      simp only [Conforms] at h
      have := ih h.2.2.2 j (by simpa using hi)
      simpa [after] using this

/-- **C01 (indexed form).** -/
theorem C01_row (dflt : Aff) (init : Option Status) (txs : List Tx) (hv : ∀ tx ∈ txs, tx.Valid)
    (i : Nat) (hi : i < (deltaList dflt init txs).1.length) :
    let ds := (deltaList dflt init txs).1
    let bsi := after (Books.init dflt init) ((ds.take i).map (·.tx))
    bookOf ds[i].pre = bsi ds[i].tx.aff ∧
    bookOf ds[i].post = stepBook (bsi ds[i].tx.aff) ds[i].tx.act ∧
    ds[i].gain = (gain0 (bsi ds[i].tx.aff) ds[i].tx.act).map (fun g => g - sflLoss ds[i].sfl) :=
  Conforms_index (C01_refines_spec dflt init txs hv) i hi

/-- Registered affiliates never have a cost base in the rule book … -/
theorem Spec.regNone_after {bs : Books} (h : ∀ a, a.registered = true → (bs a).acb = none)
    (rows : List Tx) : ∀ a, a.registered = true → (after bs rows a).acb = none := by
  induction rows generalizing bs with
  | nil => simpa [after] using h
  | cons r rs ih =>
    simp only [after, List.foldl_cons]
    apply ih
    intro a ha
    unfold stepBooks
    split
    · rename_i hx; subst hx
      have := h _ ha
      unfold stepBook
      split <;> simp [this]
    · exact h a ha

/-- **C01 (registered affiliates carry shares only).**  Every delta of a registered affiliate
    shows no cost base (before or after) and no capital gain. -/
theorem C01_registered (dflt : Aff) (init : Option Status) (txs : List Tx)
    (hv : ∀ tx ∈ txs, tx.Valid) (hd : dflt.registered = false) :
    ∀ d ∈ (deltaList dflt init txs).1, d.tx.aff.registered = true →
      d.pre.acb = none ∧ d.post.acb = none ∧ d.gain = none := by
  intro d hdm hreg
  obtain ⟨i, hi, rfl⟩ := List.getElem_of_mem hdm
  have h := C01_row dflt init txs hv i hi
  simp only at h
  have h0 : ∀ a, a.registered = true → (Books.init dflt init a).acb = none := by
    intro a ha
    unfold Books.init
    split
    · split
      · rename_i hx; subst hx; simp [hd] at ha
      · simp [Book.zero, ha]
    · simp [Book.zero, ha]
  have hn := Spec.regNone_after h0 (((deltaList dflt init txs).1.take i).map (·.tx)) _ hreg
  obtain ⟨h1, h2, h3⟩ := h
  refine ⟨?_, ?_, ?_⟩
  · have := congrArg Book.acb h1; rw [hn] at this; exact this
  · have := congrArg Book.acb h2
    have e : (bookOf ((deltaList dflt init txs).1[i]).post).acb = ((deltaList dflt init txs).1[i]).post.acb := rfl
    rw [e] at this
    rw [this]; unfold stepBook; split <;> simp only [hn, Option.map_none]
  · rw [h3]; unfold gain0; split <;> simp only [hn, Option.map_none]

/-- Book of one affiliate after a run of rows: only that affiliate's rows matter. -/
def Spec.afterOne (a : Aff) (b : Book) (rows : List Tx) : Book :=
  (rows.filter (fun r => r.aff = a)).foldl (fun b r => stepBook b r.act) b

/-- **C01 (affiliates are tracked separately).**  The book of affiliate `a` after any rows is
    obtained from `a`'s opening book and `a`'s own rows alone. -/
theorem C01_affiliates_independent (bs : Books) (rows : List Tx) (a : Aff) :
    after bs rows a = Spec.afterOne a (bs a) rows := by
  induction rows generalizing bs with
  | nil => simp [after, Spec.afterOne]
  | cons r rs ih =>
    simp only [after, List.foldl_cons] at ih ⊢
    rw [ih]
    unfold Spec.afterOne stepBooks
    by_cases h : r.aff = a
    · subst h; simp
    · have h' : ¬ a = r.aff := fun e => h e.symm
      simp [h, h']

end Acb

namespace Acb
/-! Non-vacuity: a concrete two-affiliate history with a USD purchase, a commission in a third
    currency, a partial sale at a gain and a return of capital is accepted by the model (so the
    theorems above speak about non-empty delta lists) and yields the hand-computed figures. -/
private def exDflt : Aff := { key := 0, registered := false }
private def exSpouseR : Aff := { key := 1, registered := true }
private def exTxs : List Tx := [
  { trade := 1, settle := 3, idx := 0, aff := exDflt, act := .buy 10 20 5 (13/10) (some 2) },
  { trade := 4, settle := 6, idx := 1, aff := exSpouseR, act := .buy 7 21 0 1 none },
  { trade := 50, settle := 52, idx := 2, aff := exDflt, act := .sell 4 30 1 1 none none },
  { trade := 60, settle := 62, idx := 3, aff := exDflt, act := .roc (1/2) 1 },
  { trade := 70, settle := 72, idx := 4, aff := exDflt, act := .split 2 1 false } ]

example : (∀ tx ∈ exTxs, tx.Valid) := by
  simp [exTxs, Tx.Valid, Action.Valid, optPos]
  grind
example : (deltaList exDflt none exTxs).2 = none := by decide +kernel
example : (deltaList exDflt none exTxs).1.map (fun d => (d.post.shares, d.post.all, d.post.acb, d.gain)) =
    [(10, 10, some 270, none), (7, 17, none, none), (6, 13, some 162, some 11),
     (6, 13, some 159, none), (12, 19, some 159, none)] := by decide +kernel +kernel
end Acb
