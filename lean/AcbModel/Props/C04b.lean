/-
  C04, continued — "rejected exactly when …": for a well-formed tracker and a parsed row, the ledger
  rejects the row exactly under the conditions C04 lists (evaluated on the affiliate's status before
  the row), and never otherwise.
-/
import AcbModel.Props.C04
namespace Acb
open Spec

/-- The reasons for which one row is rejected, in terms of the status `pre` of the row's
    affiliate before the row (shares held, all-affiliate balance, cost base):
    * Sell: more shares than the affiliate (or all affiliates together) hold; a declared superficial
      loss on a sale with no loss (a sale at a gain, or any sale of a registered affiliate, which
      has no capital gain or loss at all); or, for a sale at a loss, a failure of the superficial-loss
      computation (look-ahead finds a later over-sale, or the declared loss contradicts the computed
      one — see `C04_sfl_error_iff`);
    * RoC: registered affiliate, or larger than the cost base;
    * SfLA: registered affiliate;
    * Split: whole-number reverse split leaving a fraction (or a negative all-affiliate balance,
      impossible for a well-formed tracker);
    * Buy: never. -/
def RowOffence (t : Tracker) (tx : Tx) (past future : List Tx) : Prop :=
  let pre := t.nextPre tx.aff
  match tx.act with
  | .buy .. => False
  | .sell sh px comm rate crate spec =>
    pre.shares - sh < 0 ∨ pre.all - sh < 0 ∨
    (perShareAcb pre = none ∧ spec.isSome = true) ∨
    (∃ aps, perShareAcb pre = some aps ∧
      ((px * sh * rate - comm * commRate rate crate - aps * sh < 0 ∧
          ∃ f, deltaSflInfo t tx sh spec (px * sh * rate - comm * commRate rate crate - aps * sh) past future = .error f) ∨
       (¬ (px * sh * rate - comm * commRate rate crate - aps * sh < 0) ∧ spec.isSome = true)))
  | .roc ps rate => tx.aff.registered = true ∨ (∃ old, pre.acb = some old ∧ old - ps * pre.shares * rate < 0)
  | .sfla .. => tx.aff.registered = true
  | .split post pre' io =>
    pre.all + (pre.shares * splitFactor post pre' - pre.shares) < 0 ∨
    (pre' > post ∧ io = true ∧ ¬ isInteger (pre.shares * splitFactor post pre') = true)

/-- **C04 (a row is rejected exactly for the listed reasons).** -/
theorem C04_row_rejected_iff {U : List Aff} {t : Tracker} (hw : TrackerWFOn U t) {tx : Tx} (hv : tx.Valid)
    (past future : List Tx) :
    (∃ f, stepRow t tx past future = .error f) ↔ RowOffence t tx past future := by
  obtain ⟨hpok, hpall, hpsh⟩ := hw.nextPre_ok tx.aff
  have hall0 : 0 ≤ (t.nextPre tx.aff).all := by rw [hpall]; exact hw.all_nonneg
  have hsan := sanityCheck_ok hw tx.aff
  -- a successful arm is always followed by a successful tracker update
  have hset : ∀ o, arm t tx (t.nextPre tx.aff) past future = .ok o →
      ∃ t', t.setLatest tx.aff o.post = .ok t' := by
    intro o ho
    obtain ⟨hok, hall, _⟩ := arm_wf hv hpok hall0 ho
    obtain ⟨t', hs, _⟩ := hw.setLatest (a := tx.aff) (v := o.post) hok (by rw [hall, hpall, hpsh])
    exact ⟨t', hs⟩
  have hstep : (∃ f, stepRow t tx past future = .error f) ↔
      (∃ f, arm t tx (t.nextPre tx.aff) past future = .error f) := by
    unfold stepRow deltaForTx
    simp only [hsan]
    cases ha : arm t tx (t.nextPre tx.aff) past future with
    | error f => simp
    | ok o =>
      obtain ⟨t', hs⟩ := hset o ha
      simp [hs]
  rw [hstep]
  unfold RowOffence arm
  have hreg := hpok.reg
  cases hact : tx.act with
  | buy sh px comm rate crate => simp
  | sell sh px comm rate crate spec =>
    simp only [armSell]
    by_cases h1 : (t.nextPre tx.aff).shares - sh < 0
    · simp [h1]
    · by_cases h2 : (t.nextPre tx.aff).all - sh < 0
      · simp [h1, h2]
      · simp only [h1, h2, if_false, false_or]
        cases hp : perShareAcb (t.nextPre tx.aff) with
        | none => cases hs : spec.isSome <;> simp
        | some aps =>
          simp only [Option.some.injEq, exists_eq_left', reduceCtorEq, false_and, false_or]
          by_cases hg : px * sh * rate - comm * commRate rate crate - aps * sh < 0
          · simp only [hg, if_true, true_and, not_true_eq_false, false_and, or_false]
            cases hd : deltaSflInfo t tx sh spec (px * sh * rate - comm * commRate rate crate - aps * sh) past future with
            | error f => simp
            | ok r => cases r with
              | none => simp
              | some p => simp
          · simp only [hg, if_false, false_and, false_or, not_false_eq_true, true_and]
            cases hs : spec.isSome <;> simp
  | roc ps rate =>
    simp only [armRoc]
    cases hacb : (t.nextPre tx.aff).acb with
    | some old =>
      have hnr : tx.aff.registered = false := by
        cases hr : tx.aff.registered with
        | false => rfl
        | true => rw [hacb, hr] at hreg; simp at hreg
      simp only [hnr, Bool.false_eq_true, if_false, false_or, Option.some.injEq, exists_eq_left']
      by_cases hlt : old - ps * (t.nextPre tx.aff).shares * rate < 0 <;> simp [hlt]
    | none =>
      have hr : tx.aff.registered = true := by simpa [hacb] using hreg.symm
      simp [hr]
  | sfla sh ps =>
    simp only [armSfla]
    cases hacb : (t.nextPre tx.aff).acb with
    | some old =>
      have hnr : tx.aff.registered = false := by
        cases hr : tx.aff.registered with
        | false => rfl
        | true => rw [hacb, hr] at hreg; simp at hreg
      simp [hnr]
    | none =>
      have hr : tx.aff.registered = true := by simpa [hacb] using hreg.symm
      simp [hr]
  | split post pre' io =>
    simp only [armSplit]
    by_cases h1 : (t.nextPre tx.aff).all + ((t.nextPre tx.aff).shares * splitFactor post pre' - (t.nextPre tx.aff).shares) < 0
    · simp [h1]
    · simp only [h1, if_false, false_or]
      by_cases h2 : pre' > post ∧ io = true ∧ ¬ isInteger ((t.nextPre tx.aff).shares * splitFactor post pre') = true
      · rw [if_pos h2]; simp [h2]
      · rw [if_neg h2]; simp
        intro ha hb
        by_cases hi : isInteger ((t.nextPre tx.aff).shares * splitFactor post pre') = true
        · exact hi
        · exact absurd ⟨ha, hb, hi⟩ h2

end Acb

namespace Acb

/-- **C04 (when the superficial-loss computation rejects a loss sale).**  Exactly when the
    look-ahead scan finds a negative balance in the 30 days after the sale (`sflRatio` fails), or
    the user declared a superficial loss, did not force it, and it differs from the computed one
    (0 when the scan finds none) by more than the allowance. -/
theorem C04_sfl_error_iff {t : Tracker} {tx : Tx} {sold loss : Rat} {spec : Option (Rat × Bool)}
    {past future : List Tx} :
    (∃ f, deltaSflInfo t tx sold spec loss past future = .error f) ↔
      (match sflRatio t tx.aff tx.settle sold past future with
       | .error _ => True
       | .ok msfl => ∃ v, spec = some (v, false) ∧
          rabs ((match msfl with | none => 0 | some r => effCent (loss * (r.num / r.den))) - v) > sflMaxDiff) := by
  unfold deltaSflInfo
  cases hr : sflRatio t tx.aff tx.settle sold past future with
  | error f => simp
  | ok msfl =>
    simp only
    cases spec with
    | none =>
      simp only [reduceCtorEq, false_and, exists_false, iff_false, not_exists]
      intro f
      cases msfl with
      | none => simp
      | some r =>
        simp only
        split
        · simp
        · obtain ⟨adj, hadj⟩ := adjustTxs_ok (tx := tx) (c := effCent (loss * (r.num / r.den))) (sortByKey r.portions)
          simp [hadj]
    | some p =>
      obtain ⟨v, force⟩ := p
      cases msfl with
      | none =>
        simp only [Option.some.injEq, Prod.mk.injEq]
        cases force with
        | true => simp; split <;> simp
        | false =>
          by_cases hd : rabs ((0:Rat) - v) > sflMaxDiff
          · simp [hd]
          · simp [hd]; split <;> simp
      | some r =>
        simp only [Option.some.injEq, Prod.mk.injEq]
        cases force with
        | true => simp; split <;> simp
        | false =>
          by_cases hd : rabs (effCent (loss * (r.num / r.den)) - v) > sflMaxDiff
          · simp [hd]
          · simp [hd]; split <;> simp

end Acb
