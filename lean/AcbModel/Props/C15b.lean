/-
  C15 — Stock splits are value-neutral: the full statement for the ledger model
  (`txs_to_delta_list`), including the superficial-loss scans on both sides of the split.
-/
import AcbModel.Props.C04
import AcbModel.Lemmas.Scale7
namespace Acb

/-- What "value-neutral" means for the two reports `A` (history `q ++ r`) and `B` (the same
    history with an `f`-fold split inserted after `q` and the rows of `r` restated): the same
    failure (or none); the rows before the split are identical; `B` has the split rows (no gain,
    no superficial loss, cost base untouched); and the later rows correspond one to one with the
    same gain, superficial-loss amount and cost base, and share figures multiplied by `f`. -/
structure SplitNeutral (f : Rat) (n : Nat) (A B : List Delta × Option Failure) : Prop where
  fail : B.2 = A.2
  rows : ∃ dq dr sd dr', A.1 = dq ++ dr ∧ B.1 = dq ++ sd ++ dr' ∧ DeltasRel f dr dr' ∧
    (∀ d ∈ sd, SplitDelta d) ∧ sd.length ≤ n ∧ (A.2 = none → sd.length = n)

/-- **C15 (ledger model, full statement).**  For every opening position, every history `q ++ r`
    of valid rows, every day `day` with `q` settling on or before it and `r` on or after it, every
    ratio `post`-for-`pre` and every duplicate-free list `As` of affiliates containing those of the
    history: inserting one split row per affiliate of `As` after `q` and restating `r` (share
    quantities × post/pre, per-share amounts ÷ post/pre) is value-neutral — wherever the split
    falls relative to the 30-day windows of the loss sales of `q` and `r`, and for affiliates
    holding nothing at the time.  (Later splits in `r` must allow fractional results, since a
    whole-number-only reverse split is by design not scale-invariant.) -/
theorem C15_neutral (dflt : Aff) (init : Option Status) (hi : InitOk dflt init) (q r : List Tx)
    (day : Int) (idx : Nat) (post pre : Rat) (As : List Aff)
    (hpost : 0 < post) (hpre : 0 < pre) (hn : As.Nodup) (hd : init ≠ none → dflt ∈ As)
    (hq : ∀ x ∈ q, x.Valid ∧ x.aff ∈ As ∧ x.settle ≤ day)
    (hr : ∀ x ∈ r, x.Valid ∧ x.aff ∈ As ∧ day ≤ x.settle ∧ NoIntOnly x) :
    SplitNeutral (splitFactor post pre) As.length
      (deltaList dflt init (q ++ r))
      (deltaList dflt init (q ++ splitRows day idx post pre As ++ r.map (restateTx (splitFactor post pre)))) := by
  have hf : 0 < splitFactor post pre := div_pos' hpost hpre
  obtain ⟨t, ht, hw⟩ := Tracker.new_wf hi
  have hinv : Inv1 As t := ⟨⟨_, hw⟩, Tracker.new_sumInv hn hd ht⟩
  rw [deltaList_eq_loop ht, deltaList_eq_loop ht, List.append_assoc]
  rcases deltaLoop_q hn day idx post pre hf r (fun x hx => ⟨(hr x hx).1, (hr x hx).2.1, (hr x hx).2.2.1⟩) q hq t [] []
      hinv (by simp) with ⟨t2, past2, dq, hi2, hp2, hA, hB⟩ | ⟨dq, e, hA, hB⟩
  · rw [hA, hB]
    simp only [List.nil_append]
    obtain ⟨c2, sd, hloop, hr2, hbal, hacb, hlen, hsd⟩ := deltaLoop_splitRows hn day idx post pre hf As hn (fun a h => h)
      t2 past2 dq (r.map (restateTx (splitFactor post pre))) hi2.ready
    rw [hloop, splitRows_reverse]
    have hts : TrackerScaled (splitFactor post pre) t2 c2 := trackerScaled_of_split hi2.ready hr2 hbal hacb
    obtain ⟨out, out', g1, g2, g3, g4⟩ := deltaLoop_scaled hf day idx post pre rfl As.reverse (nodup_reverse_aff hn)
      past2 (fun y hy => ⟨List.mem_reverse.mpr (hp2 y hy).2.1, (hp2 y hy).2.2⟩) r
      (fun x hx => ⟨List.mem_reverse.mpr (hr x hx).2.1, (hr x hx).2.2.2⟩) t2 c2 hts [] [] .nil (by simp) dq (dq ++ sd)
    simp only [List.nil_append] at g1 g2 g4
    exact ⟨g4, dq, out, sd, out', g1, g2, g3, hsd, by omega, fun _ => hlen⟩
  · rw [hA, hB]
    exact ⟨rfl, dq, [], [], [], by simp, by simp, .nil, by simp, by simp, by simp⟩


/-! ### what the relation says about the reported figures -/

/-- A pair of corresponding later rows: same capital gain, same superficial-loss amount, same
    cost base before and after; share balances (own and all-affiliate) multiplied by `f`. -/
theorem C15_row_figures {f : Rat} {d d' : Delta} (h : DeltaScaled f d d') :
    d'.gain = d.gain ∧ d'.sfl.map (·.loss) = d.sfl.map (·.loss) ∧ d'.post.acb = d.post.acb ∧
    d'.pre.acb = d.pre.acb ∧ d'.post.shares = d.post.shares * f ∧ d'.post.all = d.post.all * f := by
  refine ⟨h.gain, ?_, by rw [h.post]; rfl, by rw [h.pre]; rfl, by rw [h.post]; rfl, by rw [h.post]; rfl⟩
  have := h.sfl
  cases hs : d.sfl <;> cases hs' : d'.sfl <;> simp_all [sflOptScaled, sflInfoScaled]

theorem DeltasRel.gains {f : Rat} {a a' : List Delta} (h : DeltasRel f a a') :
    a'.map (·.gain) = a.map (·.gain) ∧
    a'.map (fun d => d.sfl.map (·.loss)) = a.map (fun d => d.sfl.map (·.loss)) ∧
    a'.map (·.post.acb) = a.map (·.post.acb) := by
  induction h with
  | nil => simp
  | cons hd _ ih =>
    obtain ⟨h1, h2, h3, _⟩ := C15_row_figures hd
    simp [h1, h2, h3, ih.1, ih.2.1, ih.2.2]

/-- **C15 (reported gains and superficial losses).**  The capital gains and the superficial-loss
    amounts reported by the two runs are the same lists (the inserted split rows report none). -/
theorem C15_gains_and_sfl {f : Rat} {n : Nat} {A B : List Delta × Option Failure} (h : SplitNeutral f n A B) :
    B.1.filterMap (·.gain) = A.1.filterMap (·.gain) ∧
    B.1.filterMap (fun d => d.sfl.map (·.loss)) = A.1.filterMap (fun d => d.sfl.map (·.loss)) := by
  obtain ⟨dq, dr, sd, dr', hA, hB, hrel, hsd, _, _⟩ := h.rows
  obtain ⟨g1, g2, _⟩ := hrel.gains
  have hs1 : sd.filterMap (·.gain) = [] := by
    apply List.filterMap_eq_nil_iff.mpr; intro d hd; exact (hsd d hd).gain
  have hs2 : sd.filterMap (fun d => d.sfl.map (·.loss)) = [] := by
    apply List.filterMap_eq_nil_iff.mpr; intro d hd; simp [(hsd d hd).sfl]
  have e1 : dr'.filterMap (·.gain) = dr.filterMap (·.gain) := by
    have : ∀ l : List Delta, l.filterMap (·.gain) = (l.map (·.gain)).filterMap id := by
      intro l; rw [List.filterMap_map]; rfl
    rw [this, this, g1]
  have e2 : dr'.filterMap (fun d => d.sfl.map (·.loss)) = dr.filterMap (fun d => d.sfl.map (·.loss)) := by
    have : ∀ l : List Delta, l.filterMap (fun d => d.sfl.map (·.loss)) =
        (l.map (fun d => d.sfl.map (·.loss))).filterMap id := by
      intro l; rw [List.filterMap_map]; rfl
    rw [this, this, g2]
  rw [hA, hB]
  simp [List.filterMap_append, hs1, hs2, e1, e2]

/-- Non-vacuity, with a superficial loss whose window contains the split: two affiliates; `a0`
    buys 100 @10, sells 50 @8 on day 40 (a loss), and `a1` (the spouse) buys 30 @8 on day 50, inside
    the window; the 3-for-2 split is inserted on day 45 — between the sale and the repurchase.
    All hypotheses of `C15_neutral` hold for this history. -/
private def b0 : Aff := ⟨0, false⟩
private def b1 : Aff := ⟨1, false⟩
private def qx : List Tx := [
  { trade := 0, settle := 0, idx := 0, aff := b0, act := .buy 100 10 0 1 none },
  { trade := 40, settle := 40, idx := 1, aff := b0, act := .sell 50 8 0 1 none none } ]
private def rx : List Tx := [
  { trade := 50, settle := 50, idx := 2, aff := b1, act := .buy 30 8 0 1 none },
  { trade := 90, settle := 90, idx := 3, aff := b1, act := .sell 30 9 0 1 none none } ]

example : SplitNeutral (splitFactor 3 2) 2 (deltaList b0 none (qx ++ rx))
    (deltaList b0 none (qx ++ splitRows 45 9 3 2 [b0, b1] ++ rx.map (restateTx (splitFactor 3 2)))) := by
  apply C15_neutral b0 none ⟨rfl, by simp⟩ qx rx 45 9 3 2 [b0, b1] (by decide +kernel) (by decide +kernel)
    (by decide) (by simp)
  · intro x hx
    simp only [qx, List.mem_cons, List.mem_nil_iff, or_false] at hx
    rcases hx with rfl | rfl <;> refine ⟨by simp [Tx.Valid, Action.Valid, optPos] <;> decide +kernel, by decide, by decide⟩
  · intro x hx
    simp only [rx, List.mem_cons, List.mem_nil_iff, or_false] at hx
    rcases hx with rfl | rfl <;>
      refine ⟨by simp [Tx.Valid, Action.Valid, optPos] <;> decide +kernel, by decide, by decide, fun po pr io h => by simp at h⟩

/-- … and in that history the sale is indeed (partly) superficial in both runs, with the same
    denied amount (-60 of the -100 loss: 30 of the 50 shares were bought back). -/
example : (deltaList b0 none (qx ++ rx)).1.filterMap (fun d => d.sfl.map (·.loss)) = [-60] := by decide +kernel
example : (deltaList b0 none (qx ++ splitRows 45 9 3 2 [b0, b1] ++ rx.map (restateTx (splitFactor 3 2)))).1.filterMap
    (fun d => d.sfl.map (·.loss)) = [-60] := by decide +kernel

end Acb
