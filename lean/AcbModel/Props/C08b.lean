/-
  C08, continued — "the aggregate gains change by exactly the other securities' own totals":
  the aggregate table of two inputs over disjoint sets of securities put together is, year by year
  and in total, the sum of the two aggregate tables (securities that failed take no part in
  either).  Built on the gains model of C06.
-/
import AcbModel.Props.C06
import AcbModel.Lemmas.GainsAdd
namespace Acb
open Acb.Gains Acb.Costs

/-- **C08 (the aggregate changes by exactly the other securities' totals).**  Take the results of
    two inputs over disjoint sets of securities (`rs`, `rs'`), each possibly containing rejected
    securities.  For every year, the figure of the aggregate table of the combined input is the sum
    of the figures of the two separate aggregate tables (a missing year counting as 0), whatever the
    hash orders of the three runs; a rejected security contributes to none of them. -/
theorem C08_aggregate_additive (yearOf : Int → Int) (rs rs' : List SecResult)
    (σ σ1 σ2 : List CG → List CG) (ρ ρ1 ρ2 : List Int → List Int)
    (hσ : IsOrder σ) (hρ : IsOrder ρ) (hσ1 : IsOrder σ1) (hρ1 : IsOrder ρ1) (hσ2 : IsOrder σ2) (hρ2 : IsOrder ρ2)
    (y : Int) :
    ((aggGains σ ρ (completed yearOf (rs ++ rs'))).byYear y).getD 0 =
      ((aggGains σ1 ρ1 (completed yearOf rs)).byYear y).getD 0 +
      ((aggGains σ2 ρ2 (completed yearOf rs')).byYear y).getD 0 := by
  obtain ⟨_, _, h⟩ := C06_aggregate_year yearOf (rs ++ rs') σ ρ hσ hρ
  obtain ⟨_, _, h1⟩ := C06_aggregate_year yearOf rs σ1 ρ1 hσ1 hρ1
  obtain ⟨_, _, h2⟩ := C06_aggregate_year yearOf rs' σ2 ρ2 hσ2 hρ2
  -- a year listed by no completed security contributes a zero sum
  have zero : ∀ (L : List CG), (¬ ∃ g ∈ L, y ∈ g.years) → (∀ g ∈ L, g.WF) →
      Acb.Costs.sumOver L (fun g => (g.byYear y).getD 0) = 0 := by
    intro L hno hwf
    induction L with
    | nil => simp [Acb.Costs.sumOver]
    | cons g gs ih =>
      simp only [Acb.Costs.sumOver_cons]
      have hg : y ∉ g.years := fun hy => hno ⟨g, by simp, hy⟩
      have hnone : g.byYear y = none := by
        have := (hwf g (by simp)).keys y
        cases hb : g.byYear y with
        | none => rfl
        | some v => exact absurd (this.mpr (by simp [hb])) hg
      rw [hnone, ih (fun ⟨g', hg', hy⟩ => hno ⟨g', by simp [hg'], hy⟩) (fun g' hg' => hwf g' (by simp [hg']))]
      simp; grind
  have getD : ∀ (L : List CG), (∀ g ∈ L, g.WF) →
      ((if ∃ g ∈ L, y ∈ g.years then some (Acb.Costs.sumOver L (fun g => (g.byYear y).getD 0)) else none : Option Rat)).getD 0 =
        Acb.Costs.sumOver L (fun g => (g.byYear y).getD 0) := by
    intro L hwf
    by_cases e : ∃ g ∈ L, y ∈ g.years
    · simp [e]
    · simp [e, zero L e hwf]
  have hwf1 : ∀ g ∈ completed yearOf rs, g.WF := completed_wf yearOf rs
  have hwf2 : ∀ g ∈ completed yearOf rs', g.WF := completed_wf yearOf rs'
  have hwf : ∀ g ∈ completed yearOf (rs ++ rs'), g.WF := completed_wf yearOf (rs ++ rs')
  have e := h y; have e1 := h1 y; have e2 := h2 y
  rw [e, e1, e2, getD _ hwf, getD _ hwf1, getD _ hwf2, completed_append, sumOver_append']

end Acb
