/-
  C12 — USD rows use the Bank of Canada rate of the trade date or the last one before it.

  Property theorems only.  `getEffective` is the model of `RateLoader::get_effective_usd_cad_rate`
  (AcbModel/Fx/Loader.lean), `slotRate`/`rowRates` of the row-level currency rules
  (AcbModel/Fx/Row.lean), `jsonRemote` of the Bank of Canada JSON layer (AcbModel/Fx/Json.lean).
  `IsRelevantRate e D r` (AcbModel/Lemmas/FxSpec.lean) is the property's own wording: `r` is a
  published rate of `D` or of one of the 7 preceding days, nothing was published after it up to
  `D`, and a preceding day's rate is only used for a trade date in the past.
-/
import AcbModel.Lemmas.FxSpec
import AcbModel.Lemmas.FxCivil
import AcbModel.Lemmas.FxExamples
import AcbModel.Fx.Row
import AcbModel.Fx.Json
namespace Acb
open Fx

/-! ### Side conditions on constants taken from the source (regenerated on every run) -/

/-- The look-back of `find_usd_cad_preceding_relevant_spot_rate` is seven days … -/
theorem C12_lookback_is_7_days : Gen.fxLookbackDays = 7 ∧ Gen.fxLookbackStepDays = 1 := ⟨rfl, rfl⟩

/-- … and the daily series is requested from 2017 on. -/
theorem C12_daily_from_2017 : Gen.fxDailyFromYear = 2017 := rfl

/-- The calendar the driver (and `time::Date`) uses satisfies the calendar law assumed below. -/
theorem C12_gregorian_calendar_ok : civil.OK := civil_ok

/-! ### The look-up -/

/-- A loader as `RateLoader::new` makes it, whose answers cannot depend on an earlier run: the cache
    is empty, or every first load of a year is forced to download. -/
def FreshLoader (e : Env) (cache : Store) : Prop := e.force = true ∨ cache = fun _ => none

theorem FreshLoader.inv {e : Env} {cache : Store} (h : FreshLoader e cache) : RunInv e (St.init cache) := by
  apply inv_init
  rcases h with h | h
  · exact Or.inl h
  · right; intro y rows hc; subst h; simp at hc

/-- **C12 (refinement).**  For every publication calendar (`RemoteWF`: per year sorted, inside the
    year, non-zero, nothing after today), every `today` and every trade date, the look-up of a fresh
    loader — download, zero-filling, date map, exact look-up, 7-step look-back across year
    boundaries — returns exactly `specRate`. -/
theorem C12_effective_eq_spec (e : Env) (hc : e.cal.OK) (hwf : RemoteWF e) (cache : Store)
    (hf : FreshLoader e cache) (D : Int) :
    forget (getEffective e (St.init cache) D).1 = specRate e D :=
  (getEffective_spec e hc hwf _ hf.inv D).2.1

/-- Non-vacuity: the hypotheses hold for a concrete calendar around New Year 2020 (rates on Dec 30,
    Jan 2, Jan 3, Jan 6; today Jan 21), and the look-up does what the property says: Jan 5 (a Sunday)
    gets the rate of Jan 3; Jan 1 gets the rate of Dec 30 of the previous year; Jan 14 (8 days after
    the last rate) and today (nothing published yet) are errors. -/
example : exEnv.cal.OK ∧ RemoteWF exEnv ∧ FreshLoader exEnv (fun _ => none) :=
  ⟨civil_ok, exEnv_wf, Or.inr rfl⟩
example : (getEffective exEnv (St.init fun _ => none) 2458854).1 = .ok ⟨2458852, 131/100⟩ := by decide +kernel
example : (getEffective exEnv (St.init fun _ => none) 2458850).1 = .ok ⟨2458848, 129/100⟩ := by decide +kernel
example : (getEffective exEnv (St.init fun _ => none) 2458863).1 = .error .notFound := by decide +kernel
example : (getEffective exEnv (St.init fun _ => none) 2458870).1 = .error .noRateYet := by decide +kernel
example : IsRelevantRate exEnv 2458854 ⟨2458852, 131/100⟩ :=
  specRate_sound _ _ _ (by decide +kernel)

/-- **C12 (the rate used is the relevant rate).**  Whatever the look-up returns is the rate
    published for the trade date or, if none was published that day, the most recent one published
    within the preceding seven days (and then only for a trade date before today). -/
theorem C12_effective_is_relevant_rate (e : Env) (hc : e.cal.OK) (hwf : RemoteWF e) (cache : Store)
    (hf : FreshLoader e cache) (D : Int) (r : DailyRate)
    (h : (getEffective e (St.init cache) D).1 = .ok r) : IsRelevantRate e D r := by
  apply specRate_sound
  rw [← C12_effective_eq_spec e hc hwf cache hf D, h]; rfl

/-- **C12 (a relevant rate is found).**  If a relevant rate exists (and the years of the eight days
    concerned can be downloaded), the look-up returns it. -/
theorem C12_effective_finds_relevant_rate (e : Env) (hc : e.cal.OK) (hwf : RemoteWF e) (cache : Store)
    (hf : FreshLoader e cache) (D : Int) (r : DailyRate)
    (hav : ∀ k : Nat, k ≤ 7 → availOf e.cal e.remote (D - k) = true)
    (h : IsRelevantRate e D r) : forget (getEffective e (St.init cache) D).1 = .ok r := by
  rw [C12_effective_eq_spec e hc hwf cache hf D]
  exact specRate_complete e D r hav h

/-- The relevant rate is unique: the property determines the answer. -/
theorem C12_relevant_rate_unique (e : Env) (D : Int) (r r' : DailyRate)
    (h : IsRelevantRate e D r) (h' : IsRelevantRate e D r') : r = r' := by
  obtain ⟨a1, _, a3, a4, _⟩ := h
  obtain ⟨b1, _, b3, b4, _⟩ := h'
  have hd : r.date = r'.date := by
    by_cases h1 : r.date < r'.date
    · have := a4 r'.date h1 b1; rw [this] at b3; cases b3
    · by_cases h2 : r'.date < r.date
      · have := b4 r.date h2 a1; rw [this] at a3; cases a3
      · omega
  cases r; cases r'
  simp only at hd a3 b3
  subst hd
  rw [a3] at b3
  simp only [Option.some.injEq] at b3
  subst b3; rfl

/-- **C12 (error exactly when no relevant rate exists)** — including a trade dated today or later
    for which nothing has been published yet. -/
theorem C12_error_iff_none_exists (e : Env) (hc : e.cal.OK) (hwf : RemoteWF e) (cache : Store)
    (hf : FreshLoader e cache) (D : Int)
    (hav : ∀ k : Nat, k ≤ 7 → availOf e.cal e.remote (D - k) = true) :
    (∃ er, (getEffective e (St.init cache) D).1 = .error er) ↔ ¬ ∃ r, IsRelevantRate e D r := by
  constructor
  · intro ⟨er, h⟩ ⟨r, hr⟩
    have := C12_effective_finds_relevant_rate e hc hwf cache hf D r hav hr
    rw [h] at this; cases this
  · intro hn
    cases h : (getEffective e (St.init cache) D).1 with
    | error er => exact ⟨er, rfl⟩
    | ok r => exact absurd ⟨r, C12_effective_is_relevant_rate e hc hwf cache hf D r h⟩ hn

/-- **C12 (never a later day's rate, never older than seven days).** -/
theorem C12_never_later_at_most_7_days (e : Env) (hc : e.cal.OK) (hwf : RemoteWF e) (cache : Store)
    (hf : FreshLoader e cache) (D : Int) (r : DailyRate)
    (h : (getEffective e (St.init cache) D).1 = .ok r) : r.date ≤ D ∧ D - r.date ≤ 7 := by
  obtain ⟨h1, h2, _⟩ := C12_effective_is_relevant_rate e hc hwf cache hf D r h
  exact ⟨h1, by omega⟩

/-- **C12 (never the zero placeholder).**  The rate returned is the published, non-zero rate of its day. -/
theorem C12_never_zero (e : Env) (hc : e.cal.OK) (hwf : RemoteWF e) (cache : Store)
    (hf : FreshLoader e cache) (D : Int) (r : DailyRate)
    (h : (getEffective e (St.init cache) D).1 = .ok r) :
    r.rate ≠ 0 ∧ pubOf e.cal e.remote r.date = some r.rate := by
  obtain ⟨_, _, h3, _⟩ := C12_effective_is_relevant_rate e hc hwf cache hf D r h
  refine ⟨?_, h3⟩
  unfold pubOf at h3
  split at h3
  · cases h3
  · rename_i l hl
    exact ((hwf _ l hl).2 _ (lookupLast_some_mem h3)).2.1

/-- **C12 (a trade dated today or later with no rate yet is an error).** -/
theorem C12_error_today_or_later_without_rate (e : Env) (hc : e.cal.OK) (hwf : RemoteWF e)
    (cache : Store) (hf : FreshLoader e cache) (D : Int) (hD : e.today ≤ D)
    (hp : pubOf e.cal e.remote D = none) :
    ∃ er, (getEffective e (St.init cache) D).1 = .error er := by
  cases h : (getEffective e (St.init cache) D).1 with
  | error er => exact ⟨er, rfl⟩
  | ok r =>
    obtain ⟨h1, _, h3, _, h5⟩ := C12_effective_is_relevant_rate e hc hwf cache hf D r h
    rcases h5 with h5 | h5
    · rw [h5, hp] at h3; cases h3
    · omega

/-! ### Currency rules of a row -/

/-- **C12 (an explicit rate always wins).**  With a rate in the row no look-up happens (the loader
    is untouched) and the row is converted with exactly that rate. -/
theorem C12_explicit_rate_wins (e : Env) (s : St) (trade : Int) (c : Currency) (r : Rat)
    (hr : 0 < r) (hc : c ≠ .cad) :
    slotRate e s trade (some c) (some r) = (.ok (some (c, r)), s) := by
  have : ¬ r ≤ 0 := Rat.not_le.mpr hr
  simp [slotRate, loadRateIfNeeded, getValidExchangeRate, tryNew, this, hc]

example : slotRate exEnv (St.init fun _ => none) 2458854 (some .usd) (some (5/4)) =
    (.ok (some (.usd, 5/4)), St.init fun _ => none) :=
  C12_explicit_rate_wins _ _ _ _ _ (by decide +kernel) (by decide)

/-- **C12 (CAD needs no rate).** -/
theorem C12_cad_needs_none (e : Env) (s : St) (trade : Int) :
    slotRate e s trade none none = (.ok none, s) ∧
    slotRate e s trade (some .cad) none = (.ok (some (.cad, 1)), s) := by
  simp [slotRate, loadRateIfNeeded, getValidExchangeRate]

/-- **C12 (CAD only accepts 1).** -/
theorem C12_cad_accepts_only_1 (e : Env) (s : St) (trade : Int) (r : Rat) :
    (∃ p, (slotRate e s trade (some .cad) (some r)).1 = .ok p) ↔ r = 1 := by
  simp only [slotRate, loadRateIfNeeded, getValidExchangeRate, tryNew]
  by_cases h1 : r = 1
  · subst h1
    have : ¬ ((1 : Rat) ≤ 0) := by decide +kernel
    simp [this]
  · by_cases h0 : r ≤ 0 <;> simp [h0, h1]

/-- **C12 (any other currency must carry its own rate).** -/
theorem C12_other_currency_needs_rate (e : Env) (s : St) (trade : Int) (code : String) :
    slotRate e s trade (some (.other code)) none = (.error .notAuto, s) := by
  simp [slotRate, loadRateIfNeeded]

/-- **C12 (USD without a rate: the effective rate of the TRADE date).** -/
theorem C12_usd_keyed_on_trade_date (e : Env) (s : St) (trade : Int) :
    (slotRate e s trade (some .usd) none).1 =
      match (getEffective e s trade).1 with
      | .ok r => (match tryNew .usd r.rate with | .ok p => .ok (some p) | .error er => .error er)
      | .error er => .error (.fx er) := by
  simp only [slotRate, loadRateIfNeeded]
  cases h : getEffective e s trade with
  | mk res s' =>
    cases res with
    | error er => rfl
    | ok r => simp only [getValidExchangeRate]; cases tryNew .usd r.rate <;> rfl

example : (slotRate exEnv (St.init fun _ => none) 2458854 (some .usd) none).1 = .ok (some (.usd, 131/100)) := by
  decide +kernel
example : (slotRate exEnv (St.init fun _ => none) 2458854 (some .cad) (some (13/10))).1 = .error .cadNot1 := by
  decide +kernel

/-! ### Noon and daily observations -/

/-- **C12 (noon as published up to 2016, daily inverted from 2017).**  Against a Bank of Canada
    server holding positive values, the data the loader works with are: for a year before 2017 the
    noon observations as published, for 2017 and later the reciprocals of the daily observations. -/
theorem C12_noon_direct_daily_inverted (b : Boc) (y : Int)
    (hn : ∀ l, b.noon y = some l → ∀ p ∈ l, 0 < p.2)
    (hd : ∀ l, b.daily y = some l → ∀ p ∈ l, 0 < p.2) :
    jsonRemote b y =
      if 2017 ≤ y then (b.daily y).map (·.map fun p => ⟨p.1, 1 / p.2⟩)
      else (b.noon y).map (·.map fun p => ⟨p.1, p.2⟩) := by
  have key1 : ∀ l : List (Int × Rat), (∀ p ∈ l, 0 < p.2) →
      parseObservations (l.map fun p => { date := some p.1, noon := .val p.2, daily := .absent }) =
        l.map fun p => ⟨p.1, p.2⟩ := by
    intro l hl
    induction l with
    | nil => rfl
    | cons p ps ih =>
      have hp := hl p (List.mem_cons_self ..)
      have := ih (fun q hq => hl q (List.mem_cons_of_mem _ hq))
      simp only [parseObservations, List.map_cons, List.filterMap_cons, obsRate, hp, if_true] at this ⊢
      rw [this]
  have key2 : ∀ l : List (Int × Rat), (∀ p ∈ l, 0 < p.2) →
      parseObservations (l.map fun p => { date := some p.1, noon := .absent, daily := .val p.2 }) =
        l.map fun p => ⟨p.1, 1 / p.2⟩ := by
    intro l hl
    induction l with
    | nil => rfl
    | cons p ps ih =>
      have hp := hl p (List.mem_cons_self ..)
      have := ih (fun q hq => hl q (List.mem_cons_of_mem _ hq))
      simp only [parseObservations, List.map_cons, List.filterMap_cons, obsRate, hp, if_true] at this ⊢
      rw [this]
  unfold jsonRemote seriesForYear
  rw [C12_daily_from_2017]
  by_cases hy : (2017 : Int) ≤ y
  · simp only [hy, if_true, Boc.respond]
    cases hl : b.daily y with
    | none => rfl
    | some l => simp only [Option.map_some]; rw [key2 l (hd l hl)]
  · simp only [hy, if_false, Boc.respond]
    cases hl : b.noon y with
    | none => rfl
    | some l => simp only [Option.map_some]; rw [key1 l (hn l hl)]

/-- Non-vacuity: one noon observation in 2016 (used as published), one daily observation in 2017
    (0.8 CAD→USD becomes 1.25 USD→CAD). -/
example : let b : Boc := { noon := fun _ => some [(2457500, 13/10)], daily := fun _ => some [(2457800, 4/5)] }
    jsonRemote b 2016 = some [⟨2457500, 13/10⟩] ∧ jsonRemote b 2017 = some [⟨2457800, 5/4⟩] := by
  decide +kernel

end Acb
