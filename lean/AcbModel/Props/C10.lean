/-
  C10 — A summary CSV reproduces the history it replaces.
  Proved here, at the level of the average-cost rule book (Spec) that the ledger refines (C01):
  the summary rows generated for an affiliate rebuild exactly that affiliate's holding (shares and
  cost base) at the summarised point, in both summary modes, and in annual-gains mode each
  summary sale realises exactly the year's net gain.
-/
import AcbModel.App.Summary
import AcbModel.Lemmas.Wf
namespace Acb
open Spec

/-- replay rows of one affiliate on its own book -/
def replay (b : Book) (rows : List Tx) : Book := rows.foldl (fun b r => stepBook b r.act) b

/-- **C10 (simple mode: the summary rows rebuild the holding).**  For every well-formed status
    (non-negative shares and cost base, cost base absent iff registered), replaying the rows
    `make_simple_summary_txs` generates on the affiliate's empty book gives back exactly the
    affiliate's shares and cost base — including the case of a cost base held with no shares. -/
theorem C10_simple_rebuilds (af : Aff) (d : Delta) (hok : StatusOk af d.post) :
    replay (Book.zero af) (simpleSummary af d) = bookOf d.post := by
  unfold simpleSummary
  simp only
  have hreg := hok.reg
  by_cases hs : 0 < d.post.shares
  · simp only [hs, if_true, replay, List.foldl_cons, List.foldl_nil, stepBook, Book.zero, bookOf]
    have hne : d.post.shares ≠ 0 := by grind
    cases hacb : d.post.acb with
    | none =>
      have : af.registered = true := by simpa [hacb] using hreg.symm
      simp [this]; grind
    | some a =>
      have : af.registered = false := by
        cases hr : af.registered with
        | false => rfl
        | true => rw [hacb, hr] at hreg; simp at hreg
      have e : (0 : Rat) + (a / d.post.shares * d.post.shares * 1 + 0 * commRate 1 none) = a := by
        unfold commRate; simp; grind
      simp [this]
      constructor
      · grind
      · have e' : a / d.post.shares * d.post.shares = a := by grind
        simp [e']; grind
  · have hz : d.post.shares = 0 := by have := hok.sh; grind
    simp only [hs, if_false]
    unfold zeroShareRows
    cases hacb : d.post.acb with
    | none =>
      have : af.registered = true := by simpa [hacb] using hreg.symm
      simp [replay, Book.zero, bookOf, this, hz, hacb]
    | some a =>
      have hreg' : af.registered = false := by
        cases hr : af.registered with
        | false => rfl
        | true => rw [hacb, hr] at hreg; simp at hreg
      have ha := hok.acb a hacb
      by_cases hpos : 0 < a
      · simp [hpos, replay, stepBook, Book.zero, bookOf, hreg', hz, hacb]; grind
      · have : a = 0 := by grind
        simp [hpos, replay, Book.zero, bookOf, hreg', hz, hacb, this]

/-- gain realised by a sale row on a book, under the average-cost rules -/
def saleGain (b : Book) (t : Tx) : Option Rat := gain0 b t.act

/-- the annual-gains sale of one year: 1 share at `aps + gain`, commission `loss` -/
def annualSell (af : Aff) (jan1 : Int → Int) (aps : Rat) (y : Int) (g : Rat) : Tx :=
  { trade := jan1 y, settle := jan1 y, idx := 0, aff := af,
    act := .sell 1 (aps + (if g < 0 then 0 else g)) (if g < 0 then -g else 0) 1 none none }

/-- **C10 (annual-gains mode: each summary sale realises the year's net gain and leaves the
    per-share cost untouched).**  On a book holding `n ≥ 1` shares at an average cost of `aps` per
    share, the summary sale of a year with net gain `g` realises exactly `g` and leaves `n − 1`
    shares at the same average cost. -/
theorem C10_annual_sell (af : Aff) (jan1 : Int → Int) (aps : Rat) (n : Rat) (hn : 1 ≤ n) (y : Int) (g : Rat) :
    let b : Book := { shares := n, acb := some (aps * n) }
    saleGain b (annualSell af jan1 aps y g) = some g ∧
    stepBook b (annualSell af jan1 aps y g).act = { shares := n - 1, acb := some (aps * (n - 1)) } := by
  intro b
  have hne : n ≠ 0 := by grind
  have e1 : aps * n * 1 / n = aps := by grind
  have e2 : aps * n - aps = aps * (n - 1) := by grind
  unfold saleGain annualSell gain0 stepBook
  simp only [Option.map_some, commRate, Option.getD_none, b, e1, e2]
  by_cases hg : g < 0
  · simp only [hg, if_true]
    refine ⟨?_, trivial⟩
    congr 1; grind
  · simp only [hg, if_false]
    refine ⟨?_, trivial⟩
    congr 1; grind

/-- **C10 (annual-gains mode: after all the yearly sales the holding is the summarised one).**
    Starting from `shares + k` shares at `aps` per share, `k` summary sales leave `shares` shares
    at `aps` per share, whatever the yearly gains. -/
theorem C10_annual_rebuilds (af : Aff) (jan1 : Int → Int) (aps shares : Rat) (hs : 0 ≤ shares) :
    ∀ (gains : List (Int × Rat)),
    replay { shares := shares + (gains.length : Rat), acb := some (aps * (shares + (gains.length : Rat))) }
      (gains.map (fun p => annualSell af jan1 aps p.1 p.2)) = { shares := shares, acb := some (aps * shares) } := by
  intro gains
  induction gains with
  | nil =>
    have e : shares + ((([] : List (Int × Rat)).length : Nat) : Rat) = shares := by simp; grind
    simp only [List.map_nil, replay, List.foldl_nil, e]
  | cons p ps ih =>
    simp only [List.map_cons, replay, List.foldl_cons, List.length_cons]
    have hn : (1 : Rat) ≤ shares + ((ps.length + 1 : Nat) : Rat) := by
      have : (0 : Rat) ≤ (ps.length : Rat) := by exact_mod_cast Nat.zero_le _
      have e : ((ps.length + 1 : Nat) : Rat) = (ps.length : Rat) + 1 := by push_cast; rfl
      rw [e]; grind
    have := (C10_annual_sell af jan1 aps (shares + ((ps.length + 1 : Nat) : Rat)) hn p.1 p.2).2
    rw [this]
    have e : shares + ((ps.length + 1 : Nat) : Rat) - 1 = shares + (ps.length : Rat) := by
      have : ((ps.length + 1 : Nat) : Rat) = (ps.length : Rat) + 1 := by push_cast; rfl
      rw [this]; grind
    rw [e]
    exact ih

/-- **C10 (the summary date is inclusive in the source as in the model).**  Regenerated on every
    run: the range selection stops at the first delta settling strictly after the summary date. -/
theorem C10_summary_date_inclusive : Gen.summaryRangeOp = ">" := by decide

end Acb
