/-
  C05 — Every input ends in a report or a diagnostic, never a panic.
  Modelled part: the bookkeeping core (delta_list.rs, superficial_loss.rs, portfolio_status.rs,
  util/math.rs rounding as used there).  Front-end byte handling (csv, clap, time formats, regex,
  xlsx/pdf readers) and rust_decimal overflow are NOT modelled: they are covered only by the fuzz
  family of the harness (support, not proof).
-/
import AcbModel.Props.C04
namespace Acb

/-- **C05 (core never panics).**  For every opening position `parse_initial_status` can produce
    and every list of rows `Tx::try_from` can produce, of any length, the model of
    `txs_to_delta_list` terminates (it is a total function by structural recursion) with either the
    complete ledger or a `Result::Err`; none of the `unwrap`/`assert!`/`assert_eq!` sites of the
    bookkeeping core (tracker assertions, RoC/SfLA registration assertions, the effective-cent and
    ratio `unwrap`s of the superficial-loss computation, `assert_ne!(buying_affiliates.len(), 0)`,
    `active.get(af).unwrap()`) is reachable. -/
theorem C05_core_no_panic (dflt : Aff) (init : Option Status) (txs : List Tx)
    (hv : ∀ tx ∈ txs, tx.Valid) (hi : InitOk dflt init) :
    ∀ s, (deltaList dflt init txs).2 ≠ some (.panic s) := by
  intro s h
  obtain ⟨k, hk, _⟩ := C04_only_user_errors dflt init txs hv hi _ h
  cases hk

/-- The guard of `C05_core_no_panic` is what `Tx::try_from` establishes: it is satisfiable, and the
    historical panic input of F-05a (a loss whose superficial part rounds to 0.00) satisfies it and
    is now processed without failure. -/
private def f05a : List Tx := [
  { trade := 0, settle := 0, idx := 0, aff := ⟨0, false⟩, act := .buy 6 (333/100) (2/100) 1 none },
  { trade := 8, settle := 8, idx := 1, aff := ⟨0, false⟩, act := .sell (1/2) (33333333333/10000000000) 0 1 none none } ]

example : (deltaList ⟨0, false⟩ none f05a).2 = none := by decide +kernel
example : ((deltaList ⟨0, false⟩ none f05a).1.map (fun d => d.sfl.isSome)) = [false, false] := by decide +kernel

end Acb
