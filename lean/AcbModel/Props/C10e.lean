/-
  C10, annual-gains mode: the later-rows statement is FALSE for the code (open finding F-10c).
  The witness is kernel-evaluated on the model; the same history fails on the implementation
  (`acb --summarize-before 2020-01-10 --summarize-annual-gains`, recorded in known_findings.json).
-/
import AcbModel.App.Summary
import AcbModel.Basic.Date
namespace Acb

private def w0 : Aff := ⟨0, false⟩
private def day (y m d : Int) : Int := jdOfDate y m d
/-- Buy 100 @ 10 (2019-06-03); Sell 50 @ 8 (2020-01-06): a loss of 100; Buy 5 @ 8 (2020-01-20):
    5 of the 50 shares sold are bought back, so 10 % of the loss is superficial. -/
private def histW : List Tx := [
  { trade := day 2019 6 3, settle := day 2019 6 3, idx := 0, aff := w0, act := .buy 100 10 0 1 none },
  { trade := day 2020 1 6, settle := day 2020 1 6, idx := 1, aff := w0, act := .sell 50 8 0 1 none none },
  { trade := day 2020 1 20, settle := day 2020 1 20, idx := 2, aff := w0, act := .buy 5 8 0 1 none } ]
private def laterW : List Tx := histW.drop 2
private def gainsOfYear (y : Int) (ds : List Delta) : Rat :=
  ((ds.filter (fun d => yearOfJd d.tx.settle == y)).map (fun d => d.gain.getD 0)).sum

/-- **C10, annual-gains mode — counterexample (F-10c).**  In the full history the year 2020 shows
    a capital loss of 90.  The annual-gains summary before 2020-01-10 emits that loss as a one-share
    sale dated 2020-01-01; replayed with the later purchase of 2020-01-20 (inside its 30-day
    window) the whole loss is superficial: the year 2020 shows 0. -/
theorem C10_annual_loss_year_counterexample :
    let full := (deltaList w0 none histW).1
    let summary := makeSummaryTxs yearOfJd jan1 (day 2020 1 10) true full
    let replay := deltaList w0 none (summary ++ laterW)
    (deltaList w0 none histW).2 = none ∧ replay.2 = none ∧
    gainsOfYear 2020 full = -90 ∧ gainsOfYear 2020 replay.1 = 0 := by
  decide +kernel

end Acb
