/-
  C04 — Balances never go negative; histories are rejected iff impossible, visibly.
  (Ledger-level part: invariants of every report row, and which failures can occur at all.
   The application-level part — error attached to the security, excluded from totals, shown in
   every output mode — is in Props/C08.lean / the render model.)
-/
import AcbModel.Lemmas.WfLoop
import AcbModel.Props.C01
namespace Acb
open Spec

/-- What `parse_initial_status` guarantees about an opening position: it belongs to the default
    (non-registered) affiliate, its two share figures coincide and nothing is negative. -/
structure InitOk (dflt : Aff) (init : Option Status) : Prop where
  dflt : dflt.registered = false
  st : ∀ s, init = some s → s.shares = s.all ∧ 0 ≤ s.shares ∧ ∃ c, s.acb = some c ∧ 0 ≤ c

theorem Tracker.new_wf {dflt : Aff} {init : Option Status} (hi : InitOk dflt init) :
    ∃ t, Tracker.new dflt init = .ok t ∧ WfInv t (Books.init dflt init) := by
  unfold Tracker.new
  simp only
  cases init with
  | none =>
    refine ⟨_, rfl, ?_, [], ?_⟩
    · intro a; simp [Books.init, bookOf, defaultStatus, Book.zero]
    · constructor
      · simp
      · intro a h; simp at h
      · intro a s h; simp at h
      · simp
      · simp [Tracker.latestPostAll]
  | some st =>
    obtain ⟨h1, h2, c, hc, hc0⟩ := hi.st st rfl
    simp only [h1, if_true]
    have hw0 : TrackerWFOn [] { m := fun _ => none, latestAll := 0, latestAff := dflt } := by
      constructor
      · simp
      · intro a h; simp at h
      · intro a s h; simp at h
      · simp
      · simp [Tracker.latestPostAll]
    have hok : StatusOk dflt st := ⟨by simp [hc, hi.dflt], h2, by intro c' h; rw [hc] at h; cases h; exact hc0⟩
    obtain ⟨t', hs, hw', _, hm⟩ := hw0.setLatest (a := dflt) (v := st) hok (by simp [Tracker.bal]; grind)
    refine ⟨t', hs, ?_, _, hw'⟩
    intro a
    rw [hm]
    unfold upd Books.init
    by_cases ha : a = dflt
    · simp [ha, bookOf]
    · simp [ha, bookOf, defaultStatus, Book.zero]

/-- The ledger-level facts about `deltaList`, from the tracker invariant. -/
theorem deltaList_wf (dflt : Aff) (init : Option Status) (txs : List Tx)
    (hv : ∀ tx ∈ txs, tx.Valid) (hi : InitOk dflt init) :
    ListP DeltaOk (Books.init dflt init) (deltaList dflt init txs).1 ∧
    ∀ f, (deltaList dflt init txs).2 = some f → UserErr f := by
  unfold deltaList
  split
  · simp [ListP]
  · obtain ⟨t, ht, hinv⟩ := Tracker.new_wf hi
    simp only [ht]
    obtain ⟨out, h1, h2, h3⟩ := deltaLoop_gen wfStepSpec (bs := Books.init dflt init) txs t [] [] hv (by simp) hinv
    rw [h1]; exact ⟨by simpa using h2, h3⟩

/-- **C04 (no negative figure).**  No report row shows a negative share balance, all-affiliate
    balance or cost base — for every opening position and every list of parsed rows. -/
theorem C04_nonneg (dflt : Aff) (init : Option Status) (txs : List Tx)
    (hv : ∀ tx ∈ txs, tx.Valid) (hi : InitOk dflt init) :
    ∀ d ∈ (deltaList dflt init txs).1,
      0 ≤ d.post.shares ∧ 0 ≤ d.post.all ∧ ∀ c, d.post.acb = some c → 0 ≤ c := by
  intro d hd
  obtain ⟨bs', h⟩ := ListP_mem (deltaList_wf dflt init txs hv hi).1 d hd
  exact ⟨h.post.sh, h.allNonneg, h.post.acb⟩

theorem ListP_index {P : Books → Delta → Prop} {bs : Books} {ds : List Delta} (h : ListP P bs ds)
    (i : Nat) (hi : i < ds.length) : P (after bs ((ds.take i).map (·.tx))) ds[i] := by
  induction ds generalizing bs i with
  | nil => simp at hi
  | cons d ds ih =>
    cases i with
    | zero => simpa [after] using h.1
    | succ j =>
      have := ih h.2 j (by simpa using hi)
      simpa [after] using this

/-- **C04 (all-affiliate balance).**  After every row, the all-affiliate share balance shown equals
    the sum of the affiliates' latest balances (as given by the rule book after rows `0..i`):
    there is a duplicate-free list `U` of affiliates outside of which every balance is zero, and
    the figure is the sum over `U`. -/
theorem C04_total (dflt : Aff) (init : Option Status) (txs : List Tx)
    (hv : ∀ tx ∈ txs, tx.Valid) (hi : InitOk dflt init)
    (i : Nat) (hlt : i < (deltaList dflt init txs).1.length) :
    let ds := (deltaList dflt init txs).1
    let bsi := after (Books.init dflt init) ((ds.take (i + 1)).map (·.tx))
    ∃ U : List Aff, U.Nodup ∧ (∀ a, a ∉ U → (bsi a).shares = 0) ∧
      ds[i].post.all = sumOver U (fun a => (bsi a).shares) := by
  intro ds bsi
  have h := ListP_index (deltaList_wf dflt init txs hv hi).1 i hlt
  obtain ⟨U, hn, hz, hs⟩ := h.total
  have e : bsi = stepBooks (after (Books.init dflt init) ((ds.take i).map (·.tx))) ds[i].tx := by
    show after _ _ = _
    rw [List.take_succ_eq_append_getElem hlt, List.map_append]
    unfold after
    rw [List.foldl_append]
    rfl
  exact ⟨U, hn, by rw [e]; exact hz, by rw [e]; exact hs⟩

/-- **C04 (registered affiliates never show a cost base or a capital gain).** -/
theorem C04_registered (dflt : Aff) (init : Option Status) (txs : List Tx)
    (hv : ∀ tx ∈ txs, tx.Valid) (hi : InitOk dflt init) :
    ∀ d ∈ (deltaList dflt init txs).1, d.tx.aff.registered = true →
      d.pre.acb = none ∧ d.post.acb = none ∧ d.gain = none :=
  C01_registered dflt init txs hv hi.dflt

/-- **C04/C05 (which failures exist).**  Whatever the parsed rows, `txs_to_delta_list` can only
    fail with one of the user-facing errors (over-sale, RoC above cost base, RoC/SfLA on a registered
    affiliate, whole-number reverse split leaving a fraction, declared superficial loss without a
    loss or off by more than the allowance, a negative balance in the look-ahead window): the
    three `sanity_check_ptfs` errors and every `assert!`/`unwrap` of the bookkeeping core are
    unreachable. -/
theorem C04_only_user_errors (dflt : Aff) (init : Option Status) (txs : List Tx)
    (hv : ∀ tx ∈ txs, tx.Valid) (hi : InitOk dflt init) :
    ∀ f, (deltaList dflt init txs).2 = some f → UserErr f :=
  (deltaList_wf dflt init txs hv hi).2

end Acb
