/-
  C03 at the level of the application pipeline: for every security of any input whose rows are all
  of non-registered affiliates with no manual superficial-loss entry, the report of that security
  satisfies the conservation identity (via C08: a security's result is a function of its own rows;
  via C03: conservation for one ledger run).
-/
import AcbModel.Props.C03
import AcbModel.Props.C08
import AcbModel.Lemmas.SplitPipe
namespace Acb
open Spec

theorem mem_splitAffs {dflt : Aff} {holders : List Aff} {rows : List PRow} {a : Aff}
    (h : a ∈ splitAffs dflt holders rows) :
    a = dflt ∨ a ∈ holders ∨ ∃ r ∈ rows, r.tx.aff = a := by
  unfold splitAffs at h
  simp only at h
  have h' := (sortAffs_perm _).mem_iff.mp h
  split at h'
  · left; simpa using h'
  · simp only [List.mem_append, List.mem_filter] at h'
    rcases h' with h' | h'
    · right; right
      unfold nonGlobalAffs at h'
      rw [List.mem_eraseDups] at h'
      obtain ⟨r, hr, hra⟩ := List.mem_map.mp h'
      exact ⟨r, (List.mem_filter.mp hr).1, hra⟩
    · right; left; exact h'.1

/-- **C03 (pipeline level).**  For every input and every security `s` that has rows: if the rows of
    `s` are valid rows of non-registered affiliates without manual superficial-loss entries (the
    default affiliate being non-registered, the opening position well-formed) and the security's
    run is error-free, then the rows reported for `s` satisfy the conservation identity of
    `C03_conservation` at every position that closes a transaction with its automatic adjustments,
    as long as no sale so far is flagged "potentially over-applied". -/
theorem C03_pipeline (dflt : Aff) (inits : Nat → Option Status) (rows : List PRow) (s : Nat)
    (hs : ∃ r ∈ rows, r.sec = s) (hi : InitOk dflt (inits s))
    (hc : ∀ r ∈ rows, r.sec = s → C3Row r.tx)
    (ds : List Delta) (hres : resultFor s (runPipeline dflt inits rows) = some (ds, none))
    (U : List Aff) (hn : U.Nodup) (hUreg : ∀ a ∈ U, a.registered = false)
    (hU : ∀ d ∈ ds, d.tx.aff ∈ U) (k : Nat)
    (hbound : ds.drop k = [] ∨ ∃ x xs, ds.drop k = x :: xs ∧ ¬ IsSfla x.tx)
    (hnover : ∀ d ∈ ds.take k, overFlag d = false) :
    let bs0 := Books.init dflt (inits s)
    let f := flows bs0 {} (ds.take k)
    f.gains = f.proceeds - f.costs + f.roc +
      (totalAcb U (after bs0 ((ds.take k).map (·.tx))) - totalAcb U bs0) := by
  rw [C08_table_local dflt inits rows s hs] at hres
  simp only [Option.some.injEq] at hres
  have hsr : secResultSorted dflt (inits s) (sortRows (rowsOf s rows)) = (ds, none) := hres
  unfold secResultSorted at hsr
  have hcs : ∀ r ∈ sortRows (rowsOf s rows), C3Row r.tx := by
    intro r hr
    have : r ∈ rowsOf s rows := mem_sortRows.mp hr
    unfold rowsOf at this
    have hm := List.mem_filter.mp this
    exact hc r hm.1 (by simpa using hm.2)
  cases hq : replaceGlobalSplits dflt (if (inits s).isSome then [dflt] else []) (sortRows (rowsOf s rows)) with
  | none => rw [hq] at hsr; simp at hsr
  | some txs =>
    rw [hq] at hsr
    simp only at hsr
    have hct : ∀ tx ∈ txs, C3Row tx := by
      unfold replaceGlobalSplits at hq
      split at hq
      · cases hq
      · split at hq
        · simp only [Option.some.injEq] at hq; subst hq
          intro tx htx
          obtain ⟨r, hr, rfl⟩ := List.mem_map.mp htx
          exact hcs r hr
        · simp only [Option.some.injEq] at hq; subst hq
          intro tx htx
          unfold expandSplits at htx
          simp only [List.mem_flatMap] at htx
          obtain ⟨r, hr, hxr⟩ := htx
          split at hxr
          · simp only [List.mem_map] at hxr
            obtain ⟨a, ha, rfl⟩ := hxr
            obtain ⟨hv, _, hm⟩ := hcs r hr
            refine ⟨hv, ?_, hm⟩
            show a.registered = false
            rcases mem_splitAffs ha with rfl | hh | ⟨r', hr', rfl⟩
            · exact hi.dflt
            · split at hh
              · simp only [List.mem_singleton] at hh; rw [hh]; exact hi.dflt
              · simp at hh
            · exact (hcs r' hr').2.1
          · simp only [List.mem_singleton] at hxr
            rw [hxr]; exact hcs r hr
    have hds : (deltaList dflt (inits s) txs).1 = ds := by rw [hsr]
    have hok : (deltaList dflt (inits s) txs).2 = none := by rw [hsr]
    have := C03_conservation dflt (inits s) txs hi hct hok U hn hUreg (by rw [hds]; exact hU) k
      (by rw [hds]; exact hbound) (by rw [hds]; exact hnover)
    rw [hds] at this
    exact this

/-! Non-vacuity: two securities in one input, rows interleaved; security 0 has a purchase and a
    loss sale that is fully superficial (5 of 10 shares sold at a loss, still holding 5), security 1
    an over-sale.  Security 0's result is error-free, its rows are `C3Row`s, and the identity's
    hypotheses hold at the end of its report (`k = 3`: purchase, sale, adjustment). -/
private def c3Rows : List PRow := [
  { sec := 0, glob := false, tx := { trade := 0, settle := 0, idx := 0, aff := ⟨0, false⟩, act := .buy 10 10 0 1 none } },
  { sec := 1, glob := false, tx := { trade := 1, settle := 1, idx := 1, aff := ⟨0, false⟩, act := .sell 5 8 0 1 none none } },
  { sec := 0, glob := false, tx := { trade := 8, settle := 8, idx := 2, aff := ⟨0, false⟩, act := .sell 5 8 0 1 none none } } ]

private def c3Res : List Delta × Option Failure :=
  (resultFor 0 (runPipeline ⟨0, false⟩ (fun _ => none) c3Rows)).getD ([], some (.err .oversell))
example : (resultFor 0 (runPipeline ⟨0, false⟩ (fun _ => none) c3Rows)).isSome = true := by decide +kernel
example : c3Res.2.isNone = true ∧ c3Res.1.length = 3 := by decide +kernel
example : c3Res.1.map (fun d => (d.gain, d.post.acb, overFlag d)) =
    [(none, some 100, false), (some 0, some 50, false), (none, some 60, false)] := by decide +kernel
example : (resultFor 1 (runPipeline ⟨0, false⟩ (fun _ => none) c3Rows)).map (·.2.isSome) = some true := by
  decide +kernel
example : ∀ r ∈ c3Rows, r.sec = 0 → C3Row r.tx := by
  simp [c3Rows, C3Row, Tx.Valid, Action.Valid, NoManual, optPos]
  grind

end Acb
