/-
  C11 — Writing transactions to CSV and reading them back is the identity.

  Property theorems only (helper lemmas live in AcbModel/Lemmas/Csv*.lean).
  Model: AcbModel/App/CsvCodec.lean (`toTable` = txs_to_csv_table, `readTxs` = parse_tx_csv +
  Tx::try_from, `Tx.toCsv` = Tx::to_csvtx).  The `csv` crate is the parameter pair
  `encode`/`decode` with the law `decode (encode t) = t`.

  `Tx.valid` is the domain ("every valid transaction list"): what the Rust types guarantee (sign
  constraints, affiliate built by from_strep, CAD ⇒ rate 1) plus the parser's normal form
  (security and currency codes trimmed, `reverse_integer_only` only on whole-number reverse
  splits, no negative zero, rendered numbers within 96 bits).
  `Tx.norm` brings every decimal to the representative of its `==` class, so equality of
  `norm`s is Rust's `==` on `Tx` (plus equal sign bits); `canonTxs` trims memos — the one
  difference the property allows ("memo up to surrounding whitespace").
-/
import AcbModel.Lemmas.CsvTable
import AcbModel.Lemmas.CsvAffiliate
import AcbModel.Generated.CsvTables
namespace Acb
open Csv

/-! ### the model's tables are the source's tables (regenerated from the source on every run) -/

/-- Column names, export order and optional columns of the model are those of
    `csv_common.rs` / `txs_to_csv_table`. -/
theorem C11_columns_match_source :
    Gen.csvColNames = allCols.map (fun c => String.ofList c.name) ∧
    Gen.csvExportOrder.map (fun i => (Gen.csvColIdents.zip Gen.csvColNames).lookup i)
      = exportOrder.map (fun c => some (String.ofList c.name)) ∧
    Gen.csvOptionalCols.map (fun i => (Gen.csvColIdents.zip Gen.csvColNames).lookup i)
      = (allCols.filter Col.optional).map (fun c => some (String.ofList c.name)) := by
  decide

/-- Minimum precisions used by the writer (shares 0, amount/share 2, commission 2, rates 0,
    superficial loss 2), the action spellings written and accepted, and the id of the
    all-affiliates affiliate. -/
theorem C11_formats_match_source :
    Gen.csvMinPrecShares = 0 ∧ Gen.csvMinPrecAps = 2 ∧ Gen.csvMinPrecCommission = 2 ∧
    Gen.csvMinPrecTxFx = 0 ∧ Gen.csvMinPrecCommFx = 0 ∧ Gen.csvMinPrecSfl = 2 ∧
    Gen.csvActionShown = [Act.buy, .sell, .roc, .sfla, .split].map (fun a => String.ofList a.render) ∧
    Gen.csvActionRead = [Act.buy, .sell, .roc, .sfla, .split].map (fun a => String.ofList (lower a.render)) ∧
    Gen.globalAffiliateId.toList = AffData.global.id := by
  decide

/-! ### cell level -/

/-- Exact decimal values: the text written for any decimal (scale 0–28, any 96-bit mantissa whose
    padded text still fits) at minimum precision 0 or 2 is read back as the same value with the
    same sign, and the text depends on sign and value only. -/
theorem C11_decimal_cells (d : Dec) (p : Nat) (hp : p ≤ 28) (h : d.renderable p = true) :
    ∃ d', parseDec (d.toStringMinPrecision p) = .ok d' ∧ d'.norm = d.norm ∧
      d'.toStringMinPrecision p = d.toStringMinPrecision p := by
  obtain ⟨d', h1, h2⟩ := dec_render_parse d p hp h
  exact ⟨d', h1, h2.norm_eq, h2.toStringMinPrecision_eq p⟩

/-- Split ratios in every written form (`N-for-M`, `N.0-for-M.0`, non-integer): both numbers
    come back as the same values, `reverse_integer_only` is restored, and the ratio prints as
    the same text again. -/
theorem C11_split_cells (r : SplitRatio) (h : r.valid = true) :
    ∃ r', parseSplit r.display = some r' ∧ r'.pre.norm = r.pre.norm ∧ r'.post.norm = r.post.norm ∧
      r'.intOnly = r.intOnly ∧ r'.display = r.display := by
  obtain ⟨r', h1, ⟨h2, h3, h4⟩, h5⟩ := splitratio_display_parse r h
  exact ⟨r', h1, h2.norm_eq, h3.norm_eq, h4, h5⟩

/-- Superficial-loss marker including the force flag. -/
theorem C11_sfl_cells (v : Dec × Bool) (h : sflValid v = true) :
    ∃ v', parseSfl (renderSfl v) = .ok v' ∧ v'.1.norm = v.1.norm ∧ v'.2 = v.2 := by
  obtain ⟨v', h1, h2, h3⟩ := sfl_render_parse v h
  exact ⟨v', h1, h2.norm_eq, h3⟩

/-- Dates and actions. -/
theorem C11_date_action_cells (t : Date) (h : t.valid = true) (a : Act) :
    parseDate t.render = some t ∧ parseAct a.render = some a :=
  ⟨date_render_parse t h, act_render_parse a⟩

/-- Every affiliate spelling: whatever text `from_strep` is given, the name it produces is read
    back as the same affiliate (id, name, registered flag), and that name is what the table writer
    puts into the cell (trimmed, not blank).  So the affiliate conditions of `Tx.valid` hold for
    every affiliate the implementation can construct. -/
theorem C11_affiliate_name_fixpoint (s : Str) :
    fromStrep (fromStrep s).name = fromStrep s ∧
    trim (fromStrep s).name = (fromStrep s).name ∧ (fromStrep s).name ≠ [] :=
  ⟨affiliate_name_fixpoint s, fromStrep_name_trimmed s, fromStrep_name_ne_nil s⟩

/-! ### the round trip -/

/-- **C11 (round trip).**  For every list of valid transactions (any length, every action,
    every affiliate, any memo text): writing the list as a CSV table (`txs_to_csv_table` over
    `Tx::to_csvtx`, then any quoting layer that decodes what it encodes) and reading it back
    (`parse_tx_csv`, then `Tx::try_from` on every row) succeeds and yields the same
    transactions — same security, dates, action, decimal values, currencies and rates, affiliate,
    superficial-loss marker with force flag, split ratio with `reverse_integer_only` — with memos
    trimmed.  (Rows are renumbered from `start`; the read index is not part of the file.) -/
theorem C11_roundtrip {β : Type} (encode : Table → β) (decode : β → Table)
    (hcsv : ∀ t, decode (encode t) = t)
    (txs : List Tx) (hv : ∀ t ∈ txs, t.valid = true) (start : Nat) :
    ∃ txs', readTxs (decode (encode (toTable (txs.map Tx.toCsv)))) start = .ok txs' ∧
      txs'.map Tx.norm = (canonTxs txs).map Tx.norm := by
  rw [hcsv]
  obtain ⟨txs', h1, h2⟩ := read_written txs hv start
  exact ⟨txs', h1, forall2_map_norm h2⟩

/-- The canonical list differs from the original in memo whitespace only: when no affiliate
    column is written every affiliate already has the default id. -/
theorem C11_canon_only_trims (txs : List Tx) (t : Tx) (ht : t ∈ txs) :
    let c := canonTx (colInUse (txs.map Tx.toCsv) .affiliate) t
    c.memo = trim t.memo ∧ c.security = t.security ∧ c.tradeDate = t.tradeDate ∧
    c.settleDate = t.settleDate ∧ c.spec = t.spec ∧ c.affiliate.id = t.affiliate.id := by
  refine ⟨rfl, rfl, rfl, rfl, rfl, ?_⟩
  simp only [canonTx]
  cases h : colInUse (txs.map Tx.toCsv) .affiliate with
  | true => rfl
  | false =>
    simp only [Bool.false_eq_true, if_false]
    rw [(affcol_false h ht).1]
    decide

/-- **C11 (same bytes).**  Writing the re-read list again yields the bytes of the canonical
    list; when the memos carry no surrounding white space these are the bytes of the first
    write. -/
theorem C11_idempotent_bytes {β : Type} (encode : Table → β) (decode : β → Table)
    (hcsv : ∀ t, decode (encode t) = t)
    (txs : List Tx) (hv : ∀ t ∈ txs, t.valid = true) (start : Nat) :
    ∃ txs', readTxs (decode (encode (toTable (txs.map Tx.toCsv)))) start = .ok txs' ∧
      encode (toTable (txs'.map Tx.toCsv)) = encode (toTable ((canonTxs txs).map Tx.toCsv)) ∧
      ((∀ t ∈ txs, trim t.memo = t.memo) →
        encode (toTable (txs'.map Tx.toCsv)) = encode (toTable (txs.map Tx.toCsv))) := by
  rw [hcsv]
  obtain ⟨txs', h1, h2⟩ := read_written txs hv start
  have h3 : toTable (txs'.map Tx.toCsv) = toTable ((canonTxs txs).map Tx.toCsv) :=
    toTable_congr (forall2_map_csv h2)
  refine ⟨txs', h1, by rw [h3], fun hm => ?_⟩
  rw [h3, toTable_canon txs hm]

/-! ### non-vacuity: a list with every action, a registered affiliate, foreign currencies, a
    forced superficial loss and a `1.0-for-2.0` split satisfies the hypotheses -/

def c11ExampleTxs : List Tx :=
  [ { security := strOf "FOO", tradeDate := ⟨2020, 1, 2⟩, settleDate := ⟨2020, 1, 6⟩,
      spec := .buy ⟨false, 105, 1⟩ ⟨false, 123456, 4⟩ ⟨false, 0, 0⟩ ⟨strOf "USD", ⟨false, 13421, 4⟩⟩
                (some ⟨strOf "CAD", ⟨false, 10, 1⟩⟩),
      memo := strOf " bought, \"cheap\"\n", affiliate := fromStrep (strOf " spouse (r) "), readIndex := 7 },
    { security := strOf "FOO", tradeDate := ⟨2020, 2, 28⟩, settleDate := ⟨2020, 3, 3⟩,
      spec := .sell ⟨false, 5, 0⟩ ⟨false, 99, 1⟩ ⟨false, 995, 2⟩ ⟨strOf "CAD", ⟨false, 1, 0⟩⟩ none
                (some (⟨true, 1250, 3⟩, true)),
      memo := [], affiliate := fromStrep (strOf "Default"), readIndex := 0 },
    { security := strOf "BAR.TO", tradeDate := ⟨2021, 12, 31⟩, settleDate := ⟨2022, 1, 4⟩,
      spec := .roc ⟨false, 25, 3⟩ ⟨strOf "XYZ", ⟨false, 5, 1⟩⟩,
      memo := strOf "é", affiliate := fromStrep [], readIndex := 1 },
    { security := strOf "FOO", tradeDate := ⟨2022, 6, 1⟩, settleDate := ⟨2022, 6, 1⟩,
      spec := .sfla ⟨false, 5, 0⟩ ⟨false, 25, 2⟩, memo := [], affiliate := fromStrep [], readIndex := 2 },
    { security := strOf "FOO", tradeDate := ⟨2022, 7, 1⟩, settleDate := ⟨2022, 7, 1⟩,
      spec := .split ⟨⟨false, 2, 0⟩, ⟨false, 1, 0⟩, false⟩, memo := [],
      affiliate := AffData.global, readIndex := 3 } ]

example : c11ExampleTxs.all Tx.valid = true := by decide
example : (toTable (c11ExampleTxs.map Tx.toCsv)).header.length = 14 := by decide
example : ((toTable (c11ExampleTxs.map Tx.toCsv)).rows.map (fun r => r.map String.ofList))[4]? =
    some ["FOO", "2022-07-01", "2022-07-01", "Split", "", "", "", "", "", "", "", "1.0-for-2.0",
      "__global__", ""] := by decide
example : (Dec.mk false 79228162514264337593543950335 28).renderable 2 = true := by decide
example : (SplitRatio.mk ⟨false, 3, 0⟩ ⟨false, 1, 0⟩ true).valid = true := by decide
example : sflValid (⟨true, 5, 1⟩, true) = true := by decide

/-! ### the two conditions of `Tx.valid` that are not type invariants are needed -/

/-- A zero that carries the sign bit (constructible through the API only — no reader produces
    one) is written `-0.00`, read back as `0`, and written `0.00` the second time: without the
    "no negative zero" condition the bytes are not stable. -/
theorem C11_negative_zero_counterexample :
    let tx : Tx := { security := strOf "FOO", tradeDate := ⟨2020, 1, 2⟩, settleDate := ⟨2020, 1, 2⟩,
                     spec := .sell ⟨false, 1, 0⟩ ⟨false, 1, 0⟩ ⟨false, 0, 0⟩ ⟨cad, Dec.one⟩ none
                               (some (⟨true, 0, 0⟩, false)),
                     memo := [], affiliate := AffData.default, readIndex := 0 }
    ∃ txs', readTxs (toTable ([tx].map Tx.toCsv)) 0 = .ok txs' ∧
      txs'.map Tx.norm ≠ [tx].map Tx.norm ∧
      toTable (txs'.map Tx.toCsv) ≠ toTable ([tx].map Tx.toCsv) := by
  refine ⟨_, rfl, ?_, ?_⟩ <;> decide

/-- A whole-number reverse split that allows fractions is written `N.0-for-M.0` and read with
    `from_str_exact`: when `M·10` no longer fits 96 bits the file cannot be read back.  Hence the
    "room for one more digit" condition of `SplitRatio.valid`. -/
theorem C11_split_overflow_counterexample :
    let r : SplitRatio := ⟨⟨false, 7922816251426433759354395034, 0⟩, ⟨false, 1, 0⟩, false⟩
    r.pre.isPos = true ∧ r.post.isPos = true ∧ r.pre.InRange ∧ r.post.InRange ∧ parseSplit r.display = none := by
  decide

end Acb
