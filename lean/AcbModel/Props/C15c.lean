/-
  C15 at the level of the per-security pipeline: "whether the split is given once for all
  affiliates or once per affiliate".  A split row for all affiliates inserted into a security's
  (sorted) rows, with the later rows restated, is value-neutral in the sense of `SplitNeutral`:
  the pipeline expands it to one split row per holder (C15_global_eq_per_affiliate) and the
  ledger theorem C15_neutral applies to the expanded rows.
-/
import AcbModel.Props.C15
import AcbModel.Props.C15b
import AcbModel.Lemmas.SplitPipe
namespace Acb

/-- **C15 (pipeline level: one split row for all affiliates).**  Let `Q ++ R` be the sorted rows
    of a security (no row carries the all-affiliates marker unless it is a split), `G` a split row
    for all affiliates, `post`-for-`pre`, dated `day`, with `Q` settling on or before and `R` on or
    after that day, and neither row list rejected by the split validation.  Then the security's
    result for `Q ++ G :: restated R` is value-neutral (`SplitNeutral`) with respect to its result
    for `Q ++ R`: the pipeline expands `G` to one split row per holder — the affiliates with rows
    of the security plus the default affiliate when there is an opening position — and
    `C15_neutral` applies to the expanded rows. -/
theorem C15_pipeline (dflt : Aff) (init : Option Status) (hi : InitOk dflt init)
    (Q R : List PRow) (G : PRow) (day : Int) (post pre : Rat) (hpost : 0 < post) (hpre : 0 < pre)
    (hG : G.glob = true) (hGact : G.tx.act = .split post pre false)
    (hGday : G.tx.settle = day ∧ G.tx.trade = day)
    (hglob : ∀ r ∈ Q ++ R, r.glob = true → r.tx.act.isSplit = true)
    (hQ : ∀ r ∈ Q, r.tx.Valid ∧ r.tx.settle ≤ day)
    (hR : ∀ r ∈ R, r.tx.Valid ∧ day ≤ r.tx.settle ∧ NoIntOnly r.tx)
    (hcA : splitConflict [] (Q ++ R) = false)
    (hcB : splitConflict [] (Q ++ G :: R.map (restateRow (splitFactor post pre))) = false) :
    SplitNeutral (splitFactor post pre)
      (splitAffs dflt (if init.isSome then [dflt] else []) (Q ++ R)).length
      (secResultSorted dflt init (Q ++ R))
      (secResultSorted dflt init (Q ++ G :: R.map (restateRow (splitFactor post pre)))) := by
  have hholders : (if init.isSome then [dflt] else [] : List Aff).Nodup := by split <;> simp
  have hAs : splitAffs dflt (if init.isSome then [dflt] else []) (Q ++ G :: R.map (restateRow (splitFactor post pre))) =
      splitAffs dflt (if init.isSome then [dflt] else []) (Q ++ R) := by
    unfold splitAffs; rw [nonGlobalAffs_insert _ Q R G hG]
  unfold secResultSorted
  rw [replaceGlobalSplits_eq hcA, replaceGlobalSplits_eq hcB, hAs]
  simp only
  generalize hAsdef : splitAffs dflt (if init.isSome then [dflt] else []) (Q ++ R) = As
  have hGglobal : isGlobalSplit G = true := by simp [isGlobalSplit, hGact, hG, Action.isSplit]
  have hexpA : expandSplits As (Q ++ R) = expandSplits As Q ++ expandSplits As R := by
    unfold expandSplits; simp [List.flatMap_append]
  have hexpB : expandSplits As (Q ++ G :: R.map (restateRow (splitFactor post pre))) =
      expandSplits As Q ++ splitRows day G.tx.idx post pre As ++ (expandSplits As R).map (restateTx (splitFactor post pre)) := by
    rw [C15_global_eq_per_affiliate As Q _ G hGglobal, expandSplits_restate]
    congr 2
    unfold splitRows
    apply List.map_congr_left
    intro a _
    cases hgt : G.tx with
    | mk tr se ix af ac =>
      rw [hgt] at hGact hGday
      simp only at hGact hGday
      simp [hGact, hGday.1, hGday.2]
  rw [hexpA, hexpB]
  have hn : As.Nodup := by rw [← hAsdef]; exact splitAffs_nodup dflt _ hholders _
  have hd : init ≠ none → dflt ∈ As := by
    intro hne
    rw [← hAsdef]
    apply mem_splitAffs_of_holder
    cases init with
    | none => exact absurd rfl hne
    | some _ => simp
  -- every expanded row belongs to an affiliate of `As`
  have haff : ∀ (L : List PRow), (∀ r ∈ L, r ∈ Q ++ R) → ∀ x ∈ expandSplits As L, x.aff ∈ As := by
    intro L hL x hx
    unfold expandSplits at hx
    simp only [List.mem_flatMap] at hx
    obtain ⟨r, hr, hxr⟩ := hx
    split at hxr
    · simp only [List.mem_map] at hxr
      obtain ⟨a, ha, rfl⟩ := hxr
      exact ha
    · rename_i hng
      simp only [List.mem_singleton] at hxr
      rw [hxr, ← hAsdef]
      apply mem_splitAffs_of_nonGlobal
      unfold nonGlobalAffs
      rw [List.mem_eraseDups]
      refine List.mem_map.mpr ⟨r, List.mem_filter.mpr ⟨hL r hr, ?_⟩, rfl⟩
      -- a row with the marker is a split, hence would have been a global split
      cases hg : r.glob with
      | false => rfl
      | true =>
        have := hglob r (hL r hr) hg
        simp [isGlobalSplit, this, hg] at hng
  have hexp : ∀ (L : List PRow) (P : Tx → Prop), (∀ r ∈ L, P r.tx) →
      (∀ r ∈ L, ∀ a, P r.tx → P { r.tx with aff := a }) → ∀ x ∈ expandSplits As L, P x := by
    intro L P h1 h2 x hx
    unfold expandSplits at hx
    simp only [List.mem_flatMap] at hx
    obtain ⟨r, hr, hxr⟩ := hx
    split at hxr
    · simp only [List.mem_map] at hxr
      obtain ⟨a, _, rfl⟩ := hxr
      exact h2 r hr a (h1 r hr)
    · simp only [List.mem_singleton] at hxr
      rw [hxr]; exact h1 r hr
  apply C15_neutral dflt init hi _ _ day G.tx.idx post pre As hpost hpre hn hd
  · intro x hx
    have h1 := hexp Q (fun t => t.Valid ∧ t.settle ≤ day) hQ (fun r _ a h => h) x hx
    exact ⟨h1.1, haff Q (fun r hr => List.mem_append.mpr (Or.inl hr)) x hx, h1.2⟩
  · intro x hx
    have h1 := hexp R (fun t => t.Valid ∧ day ≤ t.settle ∧ NoIntOnly t) hR (fun r _ a h => h) x hx
    exact ⟨h1.1, haff R (fun r hr => List.mem_append.mpr (Or.inr hr)) x hx, h1.2.1, h1.2.2⟩

/-! Non-vacuity: two affiliates buy, a 2-for-1 split for all affiliates on day 30, then a sale
    (restated) — all hypotheses hold. -/
private def e0 : Aff := ⟨0, false⟩
private def e1 : Aff := ⟨1, false⟩
private def qX : List PRow := [
  { sec := 0, glob := false, tx := { trade := 0, settle := 0, idx := 0, aff := e0, act := .buy 10 10 0 1 none } },
  { sec := 0, glob := false, tx := { trade := 5, settle := 5, idx := 1, aff := e1, act := .buy 6 12 0 1 none } } ]
private def rX : List PRow := [
  { sec := 0, glob := false, tx := { trade := 60, settle := 60, idx := 3, aff := e0, act := .sell 4 15 0 1 none none } } ]
private def gX : PRow := { sec := 0, glob := true, tx := { trade := 30, settle := 30, idx := 2, aff := e0, act := .split 2 1 false } }

example : SplitNeutral (splitFactor 2 1) (splitAffs e0 [] (qX ++ rX)).length
    (secResultSorted e0 none (qX ++ rX))
    (secResultSorted e0 none (qX ++ gX :: rX.map (restateRow (splitFactor 2 1)))) := by
  apply C15_pipeline e0 none ⟨rfl, by simp⟩ qX rX gX 30 2 1 (by decide +kernel) (by decide +kernel) rfl rfl ⟨rfl, rfl⟩
  · intro r hr hg
    simp only [qX, rX, List.cons_append, List.nil_append, List.mem_cons, List.mem_nil_iff, or_false] at hr
    rcases hr with rfl | rfl | rfl <;> simp at hg
  · intro r hr
    simp only [qX, List.mem_cons, List.mem_nil_iff, or_false] at hr
    rcases hr with rfl | rfl <;> exact ⟨by simp [Tx.Valid, Action.Valid, optPos] <;> decide +kernel, by decide⟩
  · intro r hr
    simp only [rX, List.mem_cons, List.mem_nil_iff, or_false] at hr
    rcases hr with rfl
    exact ⟨by simp [Tx.Valid, Action.Valid, optPos] <;> decide +kernel, by decide, fun po pr io h => by simp at h⟩
  · decide +kernel
  · decide +kernel

end Acb
