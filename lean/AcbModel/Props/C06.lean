/-
  C06 — Every total equals the sum of the rows it summarises; rounding is display-only.

  Property theorems only.  `secGains` / `aggGains` / `completed` / `footer` / `aggTable`
  (AcbModel/App/Gains.lean) model `calc_security_cumulative_capital_gains`,
  `calc_cumulative_capital_gains`, `get_cumulative_capital_gains` and the footer / aggregate
  rendering; `gainsIn`, `allGains` are the spec side.  All statements hold for every list of rows
  of any length, any number of securities, every order `σ` in which the map of securities and `ρ`
  in which a security's year map is walked, and any function `yearOf` from settlement days to years.
-/
import AcbModel.Generated.AppReports
import AcbModel.Lemmas.Gains
namespace Acb
open Acb.Gains Acb.Costs

/-- **C06 (yearly figures of a security table).**  The years listed under a security's table are
    exactly the years in which a row with a capital gain settles, each once, and the figure of a
    year is the sum of the capital gains of the rows settling in that year. -/
theorem C06_year_total (yearOf : Int → Int) (rows : List GRow) :
    (secGains yearOf rows).years.Nodup ∧
    (∀ y, y ∈ (secGains yearOf rows).years ↔ gainsIn yearOf rows y ≠ []) ∧
    (∀ y, (secGains yearOf rows).byYear y =
        if gainsIn yearOf rows y = [] then none else some (gainsIn yearOf rows y).sum) := by
  refine ⟨(secGains_wf yearOf rows).nodup, ?_, ?_⟩
  · intro y
    rw [secGains_eq]
    simp only [addPairs_mem_years, CG.empty, List.not_mem_nil, false_or]
    rw [← amountsFor_gainPairs, amountsFor_ne_nil_iff]
  · intro y
    rw [secGains_eq]
    simp only [addPairs_byYear, amountsFor_gainPairs, CG.empty, Option.getD_none, Rat.zero_add]

/-- **C06 (table total).**  The table total is the sum of the yearly figures listed under the
    table, and it is the sum of all capital gains of the table's rows. -/
theorem C06_table_total (yearOf : Int → Int) (rows : List GRow) :
    (secGains yearOf rows).total =
        sumOver (secGains yearOf rows).years (fun y => ((secGains yearOf rows).byYear y).getD 0) ∧
    (secGains yearOf rows).total = (allGains rows).sum := by
  refine ⟨secGains_total_eq_sumYears yearOf rows, ?_⟩
  rw [secGains_eq, gainPairs_values]

/-- **C06 (aggregate, per year).**  Whatever the hash orders, the aggregate table lists exactly
    the years listed under some completed security's table, and the figure of a year is the sum,
    over the securities that completed, of that year's figure (securities that errored take no
    part: `completed` leaves them out). -/
theorem C06_aggregate_year (yearOf : Int → Int) (rs : List SecResult)
    (σ : List CG → List CG) (ρ : List Int → List Int) (hσ : IsOrder σ) (hρ : IsOrder ρ) :
    let gs := completed yearOf rs
    let agg := aggGains σ ρ gs
    agg.years.Nodup ∧
    (∀ y, y ∈ agg.years ↔ ∃ g ∈ gs, y ∈ g.years) ∧
    (∀ y, agg.byYear y =
        if ∃ g ∈ gs, y ∈ g.years then some (sumOver gs (fun g => (g.byYear y).getD 0)) else none) := by
  intro gs agg
  have hwf : ∀ g ∈ σ gs, g.WF := fun g hg => completed_wf yearOf rs g ((hσ gs).mem_iff.mp hg)
  have hex : ∀ y, (∃ g ∈ σ gs, y ∈ g.years) ↔ ∃ g ∈ gs, y ∈ g.years := by
    intro y
    constructor
    · rintro ⟨g, hg, hy⟩; exact ⟨g, (hσ gs).mem_iff.mp hg, hy⟩
    · rintro ⟨g, hg, hy⟩; exact ⟨g, (hσ gs).mem_iff.mpr hg, hy⟩
  refine ⟨(aggGains_wf σ ρ gs).nodup, ?_, ?_⟩
  · intro y
    show y ∈ (aggGains σ ρ gs).years ↔ _
    rw [aggGains_eq]
    simp only [addPairs_mem_years, CG.empty, List.not_mem_nil, false_or]
    rw [← amountsFor_ne_nil_iff, amountsFor_flatMap, ← hex y]
    have := flatMap_amounts_nil hρ (σ gs) hwf y
    constructor
    · intro h; exact Classical.not_not.mp (fun hn => h (this.mpr hn))
    · intro h hn; exact (this.mp hn) h
  · intro y
    show (aggGains σ ρ gs).byYear y = _
    rw [aggGains_eq]
    simp only [addPairs_byYear, CG.empty, Option.getD_none, Rat.zero_add]
    rw [amountsFor_flatMap, sum_flatMap_amounts hρ (σ gs) hwf y, sumOver_perm (hσ gs)]
    by_cases h : ∃ g ∈ gs, y ∈ g.years
    · have : ¬ (List.flatMap (fun g => amountsFor (yearPairs ρ g) y) (σ gs) = []) := by
        rw [flatMap_amounts_nil hρ (σ gs) hwf y]; exact fun hn => hn ((hex y).mpr h)
      simp [h, this]
    · have : List.flatMap (fun g => amountsFor (yearPairs ρ g) y) (σ gs) = [] := by
        rw [flatMap_amounts_nil hρ (σ gs) hwf y]; exact fun hn => h ((hex y).mp hn)
      simp [h, this]

/-- **C06 (since inception).**  Whatever the hash orders, "Since inception" is the sum of the
    yearly figures of the aggregate table, and it is the sum of the table totals of the securities
    that completed. -/
theorem C06_since_inception (yearOf : Int → Int) (rs : List SecResult)
    (σ : List CG → List CG) (ρ : List Int → List Int) (hσ : IsOrder σ) (hρ : IsOrder ρ) :
    let gs := completed yearOf rs
    let agg := aggGains σ ρ gs
    agg.total = sumOver agg.years (fun y => (agg.byYear y).getD 0) ∧
    agg.total = sumOver gs (fun g => g.total) := by
  intro gs agg
  have htot : agg.total = sumOver gs (fun g => g.total) := by
    show (aggGains σ ρ gs).total = _
    rw [aggGains_eq]
    exact sumOver_perm (hσ gs) (fun g => g.total)
  refine ⟨?_, htot⟩
  rw [htot]
  show _ = (aggGains σ ρ gs).sumYears
  rw [aggGains_eq]
  have h1 := addPairs_sumYears CG.WF.empty ((σ gs).flatMap (yearPairs ρ))
  show _ = (addPairs CG.empty ((σ gs).flatMap (yearPairs ρ))).sumYears
  rw [h1, sum_values_flatMap hρ, sumOver_perm (hσ gs)]
  have h0 : CG.empty.sumYears = 0 := by simp [CG.sumYears, CG.empty]
  rw [h0, Rat.zero_add]
  apply sumOver_congr
  intro g hg
  have hg' : g ∈ completed yearOf rs := hg
  simp only [completed, List.mem_map] at hg'
  obtain ⟨r, _, rfl⟩ := hg'
  exact secGains_total_eq_sumYears yearOf r.rows

/-- **C06 (what rounding to cents is).**  The displayed figure is within half a cent of the full
    figure, lies on the cent grid, a figure exactly half-way between two cents goes to the one
    farther from zero (in both directions), and rounding commutes with the sign (so `-$` followed
    by the rounded magnitude is the rounded value). -/
theorem C06_round_spec (x : Rat) :
    rabs (roundCent x - x) ≤ 1 / 200 ∧ (∃ n : Int, roundCent x * 100 = (n : Rat)) ∧
    roundCent (-x) = - roundCent x ∧
    (∀ k : Int, 0 ≤ k → x = ((k : Rat) + 1/2) / 100 → roundCent x = ((k : Rat) + 1) / 100) ∧
    (∀ k : Int, 0 ≤ k → x = -(((k : Rat) + 1/2) / 100) → roundCent x = -(((k : Rat) + 1) / 100)) :=
  ⟨roundCent_close x, roundCent_grid x, roundCent_neg x,
   fun k hk e => e ▸ roundCent_tie_pos k hk, fun k hk e => e ▸ roundCent_tie_neg k hk⟩

/-- **C06 (rounding is display-only).**  With default options the footer of a security table and
    the aggregate table are, cell by cell, the full-precision tables (`--print-full-values`) with
    every figure rounded to cents: each displayed figure is the rounding of the exact figure, and
    no figure is computed from a rounded one (the sums of `C06_year_total` … `C06_since_inception`
    are taken on the exact figures). -/
theorem C06_display_only (g : CG) :
    footer true g = (none, g.total) :: g.sortedYears.map (fun y => (some y, (g.byYear y).getD 0)) ∧
    footer false g = (footer true g).map (fun c => (c.1, roundCent c.2)) ∧
    aggTable false g = (aggTable true g).map (fun c => (c.1, roundCent c.2)) := by
  refine ⟨?_, ?_, ?_⟩
  · simp [footer, shownSigned_full]
  · simp [footer, shownSigned_full, shownSigned_cents, List.map_map, Function.comp_def]
  · simp [aggTable, shownSigned_full, shownSigned_cents, List.map_map, Function.comp_def]

/-- **C06 (what the source says, re-read by the translator on every run).**  The display
    rounding is `round_dp_with_strategy(2, MidpointAwayFromZero)` printed with `{:.2}`, and gains are
    attributed to the year of the settlement date.  A change of any of these in the source stops
    this theorem from compiling. -/
theorem C06_source_facts :
    Gen.displayDp = 2 ∧ Gen.displayRounding = "MidpointAwayFromZero" ∧ Gen.displayFormat = "{:.2}" ∧
    Gen.gainsYearField = "settlement_date" := by decide

end Acb

namespace Acb.Gains
/-! Non-vacuity: two completed securities and one that errored; settlements straddling a year
    boundary; a registered row (no gain).  Years are `day / 365`. -/
private def exY (d : Int) : Int := d / 365
private def exA : SecResult := { ok := true, rows := [
  { day := 100, gain := none }, { day := 200, gain := some (5/2) }, { day := 364, gain := some (-1) },
  { day := 365, gain := some 4 }, { day := 800, gain := none } ] }
private def exB : SecResult := { ok := true, rows := [ { day := 366, gain := some (1/3) }, { day := 1100, gain := some 7 } ] }
private def exC : SecResult := { ok := false, rows := [ { day := 10, gain := some 1000 } ] }
private def exAgg : CG := aggGains id id (completed exY [exA, exC, exB])

example : (secGains exY exA.rows).sortedYears = [0, 1] ∧ (secGains exY exA.rows).total = 11/2 ∧
    (secGains exY exA.rows).byYear 0 = some (3/2) ∧ (secGains exY exA.rows).byYear 1 = some 4 := by decide +kernel
example : exAgg.sortedYears = [0, 1, 3] ∧ exAgg.total = 77/6 ∧
    exAgg.byYear 0 = some (3/2) ∧ exAgg.byYear 1 = some (13/3) ∧ exAgg.byYear 3 = some 7 := by decide +kernel
example : aggTable false exAgg = [(some 0, 3/2), (some 1, 433/100), (some 3, 7), (none, 1283/100)] := by decide +kernel
example : roundCent (1005/1000) = 101/100 ∧ roundCent (-1005/1000) = -101/100 ∧ roundCent (1004/1000) = 1 := by
  decide +kernel
end Acb.Gains
