/-
  C04, continued — "the security is left out of every capital-gain total": in the gains model
  (`get_cumulative_capital_gains`, C06), a security whose ledger was rejected takes no part in the
  aggregate table, whatever rows it had produced before the rejection; and its own table shows no
  totals.
-/
import AcbModel.Props.C06
namespace Acb
open Acb.Gains Acb.Costs

/-- **C04 (a rejected security is left out of every total).**  Replacing the partial rows of a
    rejected security by any other rows, or dropping the security altogether, changes nothing in
    the aggregate gains (for every year and in total), for all hash orders. -/
theorem C04_rejected_not_in_totals (yearOf : Int → Int) (rs1 rs2 : List SecResult) (rows rows' : List GRow)
    (σ : List CG → List CG) (ρ : List Int → List Int) :
    aggGains σ ρ (completed yearOf (rs1 ++ { ok := false, rows := rows } :: rs2)) =
      aggGains σ ρ (completed yearOf (rs1 ++ rs2)) ∧
    completed yearOf (rs1 ++ { ok := false, rows := rows } :: rs2) =
      completed yearOf (rs1 ++ { ok := false, rows := rows' } :: rs2) := by
  have h : ∀ rws, completed yearOf (rs1 ++ { ok := false, rows := rws } :: rs2) = completed yearOf (rs1 ++ rs2) := by
    intro rws; simp [completed, List.filter_append]
  exact ⟨by rw [h], by rw [h, h]⟩

/-- … and the table of the rejected security itself carries no yearly or overall total. -/
theorem C04_rejected_table_has_no_totals (yearOf : Int → Int) (rows : List GRow) :
    (tableGains yearOf { ok := false, rows := rows }).years = [] ∧
    (tableGains yearOf { ok := false, rows := rows }).total = 0 := by
  simp [tableGains, CG.empty]

example : completed (fun _ => 2020) [{ ok := true, rows := [⟨1, some 5⟩] }, { ok := false, rows := [⟨2, some 7⟩] }] =
    completed (fun _ => 2020) [{ ok := true, rows := [⟨1, some 5⟩] }] := by simp [completed]

end Acb
