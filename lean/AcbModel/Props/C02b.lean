/-
  C02 for every sale of every run: the hypotheses of `C02_rule` hold in every state the ledger
  reaches on a date-sorted history of valid rows, so its conclusion holds at every sale.
-/
import AcbModel.Props.C02
import AcbModel.Props.C10d
namespace Acb
open Spec

/-- **C02 (every reachable sale).**  `q ++ sale :: rest` is any history of valid rows of the
    affiliates `As` (duplicate-free; the default affiliate non-registered) in settlement order, and
    the ledger, started from nothing, gets through `q`.  Then at the sale, if the look-ahead does not
    run into a negative balance, the loss is declared superficial exactly when some purchase settles
    within 30 days before or after the sale and the affiliates together still hold shares at the
    end of the window — for the books `bs` the tracker holds at that moment. -/
theorem C02_every_reachable_sale (dflt : Aff) (hdflt : dflt.registered = false) (As : List Aff) (hn : As.Nodup)
    (q rest : List Tx) (sale : Tx)
    (hrows : ∀ x ∈ q ++ sale :: rest, x.Valid ∧ x.aff ∈ As)
    (hsorted : SettleAsc (q ++ sale :: rest))
    {sold px comm rate : Rat} {crate : Option Rat} {spec : Option (Rat × Bool)}
    (hact : sale.act = .sell sold px comm rate crate spec) :
    match loopPrefix { m := fun _ => none, latestAll := 0, latestAff := dflt } [] [] q (sale :: rest) with
    | .inr _ => True
    | .inl (t, past, _) =>
      ¬ (t.latestPostAll - sold < 0) → ¬ (t.bal sale.aff - sold < 0) →
      ∀ s1, scanFwd t (sale.settle + Gen.sflWindowAfterDays) (initScan t sale.aff sold) rest = .ok s1 →
      ∃ bs, TrackerRefines t bs ∧
        let held := heldAtEnd As (stepBooks bs sale) (windowAfter sale.settle rest)
        let bought := ∃ x, (x ∈ windowBefore sale.settle past ∨ x ∈ windowAfter sale.settle rest) ∧ x.act.isBuy = true
        s1.allEop = held ∧
        ((∃ i, sflInfo t sale.aff sale.settle sold past rest = .ok (some i) ∧ i.allEop = held) ↔
          (bought ∧ 0 < held)) := by
  have hq : ∀ x ∈ q, x.Valid ∧ x.aff ∈ As := fun x hx => hrows x (by simp [hx])
  have hr : ∀ x ∈ sale :: rest, x.Valid ∧ x.aff ∈ As := fun x hx => hrows x (by
    simp only [List.mem_append]; exact Or.inr hx)
  have hinv := inv2_after_prefix dflt hdflt hn q (sale :: rest) hq hr
  have hglue := loopPrefix_glue q (sale :: rest) { m := fun _ => none, latestAll := 0, latestAff := dflt } [] []
    (by intro a; simp [lastD])
  cases hlp : loopPrefix { m := fun _ => none, latestAll := 0, latestAff := dflt } [] [] q (sale :: rest) with
  | inr e => trivial
  | inl s =>
    obtain ⟨t, past, acc⟩ := s
    rw [hlp] at hinv hglue
    simp only at hinv hglue ⊢
    obtain ⟨hi, hpastIn⟩ := hinv
    obtain ⟨_, ext, he, hx⟩ := hglue
    intro h1 h2 s1 hf
    obtain ⟨bs, hrf, U, hwU⟩ := hi.wf
    refine ⟨bs, hrf, ?_⟩
    -- the tracker is well formed on `As`
    have hw : TrackerWFOn As t := by
      refine ⟨hn, ?_, hwU.ok, hi.sum.total, hwU.latest⟩
      intro a ha
      apply Classical.byContradiction
      intro hna
      exact ha (hi.supp a hna)
    -- the processed rows, most recent first, are in descending settlement order
    obtain ⟨ext', he', hp'⟩ := loopPrefix_past q (sale :: rest) _ [] [] t past acc hlp
    have hee : ext' = ext := by
      have : [] ++ ext' = [] ++ ext := by rw [← he', he]
      simpa using this
    subst hee
    have hqs : SettleAsc q := (List.pairwise_append.mp hsorted).1
    have hsE := hx.sorted hqs
    have hsp : SettleDesc past := by
      rw [hp', List.append_nil]
      unfold SettleDesc
      rw [List.pairwise_reverse, List.pairwise_map]
      exact hsE
    have hsf : SettleAsc rest := (List.pairwise_cons.mp (List.pairwise_append.mp hsorted).2.1).2
    have hvp : ∀ x ∈ past, x.Valid := fun x hx' => (hpastIn x hx').1.1
    have hvf : ∀ x ∈ rest, x.Valid := fun x hx' => (hr x (by simp [hx'])).1
    have hU : sale.aff ∈ As ∧ ∀ x ∈ rest, x.aff ∈ As :=
      ⟨(hr sale (by simp)).2, fun x hx' => (hr x (by simp [hx'])).2⟩
    exact C02_rule hw hrf hact hsp hsf hvp hvf hU h1 h2 hf

end Acb
