/-
  C03 — Money is conserved: a denied loss moves into cost base, once, in full.
-/
import AcbModel.Lemmas.Blocks
import AcbModel.Props.C04
namespace Acb
open Spec

theorem ListP_take {P : Books → Delta → Prop} {bs : Books} {ds : List Delta} (h : ListP P bs ds) (k : Nat) :
    ListP P bs (ds.take k) := by
  have : ds = ds.take k ++ ds.drop k := (List.take_append_drop k ds).symm
  rw [this] at h
  exact (ListP_append.mp h).1

theorem Conforms_take {bs : Books} {ds : List Delta} (h : Conforms bs ds) (k : Nat) :
    Conforms bs (ds.take k) := by
  have : ds = ds.take k ++ ds.drop k := (List.take_append_drop k ds).symm
  rw [this] at h
  exact (Conforms_append.mp h).1

/-- an accepted sale sold out of a positive balance (from the conformance and non-negativity of
    its post-status) -/
theorem sellFromPositive_of {bs : Books} :
    ∀ (ds : List Delta), Conforms bs ds → ListP DeltaOk bs ds →
      ListP (fun b d => SellFromPositive b d) bs ds := by
  intro ds
  induction ds generalizing bs with
  | nil => intro _ _; trivial
  | cons d ds ih =>
    intro hc hp
    refine ⟨?_, ih hc.2.2.2 hp.2⟩
    intro sh px comm rate crate spec hact
    have hv := hp.1.valid
    unfold Tx.Valid at hv; rw [hact] at hv
    have hsh : 0 < sh := hv.1
    have hpost := hc.2.1
    rw [hact] at hpost
    have h1 : d.post.shares = (bs d.tx.aff).shares - sh := by
      have := congrArg Book.shares hpost
      simpa [bookOf, stepBook] using this
    have h2 := hp.1.post.sh
    grind

/-- **C03 (conservation).**  Take any error-free run in which every affiliate is non-registered
    and the user supplied no manual superficial-loss entry (no `superficial loss` cell, no SfLA
    row).  Let `U` be any duplicate-free list of (non-registered) affiliates containing every
    affiliate of the report.  Then after every transaction with its automatic adjustments applied
    — i.e. at every position `k` of the report that is its end or is followed by a row that is
    not an adjustment — and as long as no sale so far is flagged "potentially over-applied":

      capital gains so far = net sale proceeds so far − purchase costs so far
                             + returns of capital so far + (cost base held − opening cost base). -/
theorem C03_conservation (dflt : Aff) (init : Option Status) (txs : List Tx)
    (hi : InitOk dflt init) (hc : ∀ tx ∈ txs, C3Row tx)
    (hok : (deltaList dflt init txs).2 = none)
    (U : List Aff) (hn : U.Nodup) (hUreg : ∀ a ∈ U, a.registered = false)
    (hU : ∀ d ∈ (deltaList dflt init txs).1, d.tx.aff ∈ U)
    (k : Nat)
    (hbound : (deltaList dflt init txs).1.drop k = [] ∨
              ∃ x xs, (deltaList dflt init txs).1.drop k = x :: xs ∧ ¬ IsSfla x.tx)
    (hnover : ∀ d ∈ (deltaList dflt init txs).1.take k, overFlag d = false) :
    let ds := (deltaList dflt init txs).1.take k
    let bs0 := Books.init dflt init
    let f := flows bs0 {} ds
    f.gains = f.proceeds - f.costs + f.roc + (totalAcb U (after bs0 (ds.map (·.tx))) - totalAcb U bs0) := by
  intro ds bs0 f
  have hv : ∀ tx ∈ txs, tx.Valid := fun tx h => (hc tx h).1
  have hconf := C01_refines_spec dflt init txs hv
  have hwf := (deltaList_wf dflt init txs hv hi).1
  -- block structure of the whole run
  have hblocks : Blocks (deltaList dflt init txs).1 := by
    unfold deltaList at hok ⊢
    split
    · exact Blocks.nil
    · rename_i hne
      obtain ⟨t, ht, hinv⟩ := Tracker.new_wf hi
      simp only [ht] at hok ⊢
      obtain ⟨out, h1, h2⟩ := deltaLoop_blocks (bs := Books.init dflt init) txs t [] [] hc (by simp) hinv hok
      rw [h1]; simpa using h2
  have hbal : imbalances ds = 0 :=
    hblocks.balanced ds ((deltaList dflt init txs).1.drop k) (List.take_append_drop k _).symm hbound hnover
  have hsome : AcbSome U bs0 := by
    intro a ha
    have hr := hUreg a ha
    show ∃ c, (Books.init dflt init a).acb = some c
    unfold Books.init
    cases init with
    | none => simp [Book.zero, hr]
    | some st =>
      obtain ⟨_, _, c, hc', _⟩ := hi.st st rfl
      simp only
      split
      · exact ⟨c, hc'⟩
      · simp [Book.zero, hr]
  have hid := psi_flows hn (bs0 := bs0) ds bs0 {} (Conforms_take hconf k)
    (sellFromPositive_of ds (Conforms_take hconf k) (ListP_take hwf k))
    (fun d hd => hU d (List.mem_of_mem_take hd)) hsome
  rw [hbal] at hid
  unfold psi at hid
  simp only at hid
  show (flows bs0 {} ds).gains = _
  grind

end Acb

namespace Acb
open Spec

/-- **C03 (each denied loss is added once, in full).**  For a sale with no manual entry whose
    buyers are non-registered and which is not flagged "potentially over-applied", the automatic
    adjustment rows total exactly the denied amount. -/
theorem C03_adjustments_sum {t : Tracker} (hb : ∀ a, 0 ≤ t.bal a) {tx : Tx} {sold : Rat} (hs : 0 < sold)
    {loss : Rat} {past future : List Tx}
    (hvp : ∀ x ∈ past, x.Valid) (hvf : ∀ x ∈ future, x.Valid)
    (hqp : ∀ x ∈ past, x.aff.registered = false) (hqf : ∀ x ∈ future, x.aff.registered = false)
    {info : SflInfo} {adj : List Tx}
    (h : deltaSflInfo t tx sold none loss past future = .ok (some (info, adj))) :
    info.over = true ∨ sumAmounts adj = - info.loss :=
  deltaSflInfo_balanced hb hs hvp hvf hqp hqf h

/-- **C03 (adjustments never go to a registered affiliate).** -/
theorem C03_never_registered {t : Tracker} {tx : Tx} {pre : Status} {past future : List Tx} {o : ArmOut}
    (h : arm t tx pre past future = .ok o) : ∀ x ∈ o.inj, x.aff.registered = false :=
  arm_inj_nonreg h

/-! Non-vacuity: `Buy 10 @10; Sell 5 @8` eight days later is a fully superficial loss of 10; the
    run is error-free, satisfies the hypotheses of `C03_conservation`, generates one adjustment
    of 10, and the identity holds at the end (gains 0 = 40 − 100 + 0 + 60). -/
private def c3Txs : List Tx := [
  { trade := 0, settle := 0, idx := 0, aff := ⟨0, false⟩, act := .buy 10 10 0 1 none },
  { trade := 8, settle := 8, idx := 1, aff := ⟨0, false⟩, act := .sell 5 8 0 1 none none } ]

example : (deltaList ⟨0, false⟩ none c3Txs).2 = none := by decide +kernel
example : (deltaList ⟨0, false⟩ none c3Txs).1.map (fun d => (d.gain, d.post.acb, overFlag d)) =
    [(none, some 100, false), (some 0, some 50, false), (none, some 60, false)] := by decide +kernel
example : ∀ tx ∈ c3Txs, C3Row tx := by
  simp [c3Txs, C3Row, Tx.Valid, Action.Valid, NoManual, optPos]
  grind

end Acb
