/-
  C09 — the `WF` hypothesis of `C09_deterministic` stated as a condition on the ledger function
  (per security), and discharged for the ledger model.
-/
import AcbModel.Props.C09
import AcbModel.Props.C17b
import AcbModel.Lemmas.CostsWF
namespace Acb
open Acb.Costs Acb.Gains Acb.Splits Acb.Orders

/-- **C09 (the whole report, for any ledger that keeps the report's precondition).**  If the keys of
    the securities map are distinct (it is a map) and the ledger function hands the cost report,
    for each security, rows of that security with non-negative cost bases, a pre cost base wherever
    there is a post cost base, in date order (`SecRowsOk`), then the output is the same for all
    hash orders — no assumption on the concatenated list is left. -/
theorem C09_deterministic_ledger (o o' : Orders) (ho : o.Ok) (ho' : o'.Ok) (yearOf : Int → Int) (dflt : Nat)
    (ledger : Nat → List STx → SecOut) (full totalCosts : Bool) (inp : Inputs)
    (hkeys : (inp.map (·.1)).Nodup)
    (hl : ∀ s txs, SecRowsOk s ((ledger s txs).rows.map (·.cost))) :
    appOutput o yearOf dflt ledger full totalCosts inp = appOutput o' yearOf dflt ledger full totalCosts inp := by
  refine C09_deterministic o o' ho ho' yearOf dflt ledger full totalCosts inp ?_
  unfold allCostRows
  refine WF_flatMap id _ (printOrder o inp) ?_ ?_
  · have hn : (printOrder o inp).Nodup := by
      unfold printOrder
      exact ((sortNats_perm _).trans (ho.secs _)).nodup_iff.mpr hkeys
    exact hn.imp (fun h => h)
  · intro s _
    unfold resultOf
    split
    · exact hl s _
    · exact ⟨by simp, by simp, by simp, List.Pairwise.nil⟩

/-- **The ledger model keeps the report's precondition** — for every opening position and every
    date-sorted list of valid rows, whether or not the ledger fails part-way. -/
theorem C09_ledger_model_rows_ok (isDefault : Aff → Bool) (dflt : Aff) (s : Nat) (init : Option Status)
    (txs : List Tx) (hv : ∀ tx ∈ txs, tx.Valid) (hi : InitOk dflt init)
    (hs : txs.Pairwise (fun a b => a.settle ≤ b.settle)) :
    SecRowsOk s ((deltaList dflt init txs).1.map (rowOfDelta isDefault s)) := by
  have hwf := C17_ledger_rows_wf isDefault dflt [{ sec := s, init := init, txs := txs }]
    (List.pairwise_singleton _ _) (by simpa using hv) (by simpa using hi) (by simpa using hs)
  simp only [ledgerRows, List.flatMap_cons, List.flatMap_nil, List.append_nil] at hwf
  refine ⟨?_, hwf.nonneg, hwf.pre, ?_⟩
  · intro r hr
    obtain ⟨d, _, rfl⟩ := List.mem_map.mp hr
    rfl
  · rw [List.pairwise_map]
    exact (deltaList_sorted dflt init txs hs).imp (fun h => h)

example : SecRowsOk 3 [{ sec := 3, day := 1, pre := some 0, post := some 5, dflt := true },
                       { sec := 3, day := 1, pre := none, post := none, dflt := false },
                       { sec := 3, day := 4, pre := some 5, post := some 2, dflt := true }] := by
  refine ⟨by decide, ?_, by decide, by decide⟩
  intro r hr p hp
  simp only [List.mem_cons, List.not_mem_nil, or_false] at hr
  rcases hr with rfl | rfl | rfl <;> simp at hp <;> (try rcases hp with rfl | rfl) <;> (try subst hp) <;> decide +kernel

end Acb
