/-
  C02 — Superficial-loss rule: 30-day window, min(sold, acquired, held) ratio.

  Vocabulary: `sflInfo` is the model of `get_superficial_loss_info` (the two window scans),
  `calcRatio` of `calc_superficial_loss_ratio`, `deltaSflInfo` of `get_delta_superficial_loss_info`,
  `armSell` of the Sell arm of `delta_for_tx`.
-/
import AcbModel.Lemmas.Window
import AcbModel.Lemmas.WfLoop
import AcbModel.Props.C01
namespace Acb
open Spec

/-- **C02 (the window is 30 calendar days on both sides).**  The constants are regenerated from
    `superficial_loss.rs` on every run; this theorem stops compiling when the code says otherwise. -/
theorem C02_window_is_30 : Gen.sflWindowBeforeDays = 30 ∧ Gen.sflWindowAfterDays = 30 := by decide

/-- **C02 (allowed discrepancy of a user-supplied superficial loss is 0.001).** -/
theorem C02_max_diff : sflMaxDiff = 1 / 1000 := by decide +kernel

/-- The quantities the two scans produce for a sale, when neither look-ahead error occurs:
    shares held by all affiliates at the end of the window and shares acquired in the window, both
    in the split period of the sale. -/
structure WindowFacts where
  heldEnd : Rat
  acquired : Rat

/-- **C02 (when is a loss superficial).**  For a loss sale whose look-ahead does not fail, the scan
    declares the loss superficial exactly when shares were acquired in the window (`acquired > 0`)
    and the affiliates together still hold shares at its end (`heldEnd > 0`); `heldEnd` is the
    forward scan's total, `acquired` the sum of both scans. -/
theorem C02_superficial_iff {t : Tracker} {seller : Aff} {settle : Int} {sold : Rat}
    {past future : List Tx} {s1 : Scan}
    (h1 : ¬ (t.latestPostAll - sold < 0)) (h2 : ¬ (t.bal seller - sold < 0))
    (hf : scanFwd t (settle + Gen.sflWindowAfterDays)
      (initScan t seller sold) future = .ok s1) :
    let s2 := scanBwd t (settle - Gen.sflWindowBeforeDays) { s1 with adj := fun _ => 1 } past
    (∃ i, sflInfo t seller settle sold past future = .ok (some i) ∧
          i.allEop = s1.allEop ∧ i.acquired = s2.acquired) ↔ (0 < s1.allEop ∧ 0 < s2.acquired) := by
  intro s2
  unfold sflInfo
  simp only [h1, h2, if_false, hf]
  constructor
  · rintro ⟨i, hi, _, _⟩
    split at hi
    · cases hi
    · rename_i ha
      split at hi
      · rename_i hb; exact ⟨by simpa using ha, hb⟩
      · cases hi
  · rintro ⟨ha, hb⟩
    have ha' : ¬ ¬ (0 < s1.allEop) := by simpa using ha
    simp only [ha', if_false]
    have hb' : 0 < (scanBwd t (settle - Gen.sflWindowBeforeDays) { s1 with adj := fun _ => 1 } past).acquired := hb
    simp only [hb', if_true]
    exact ⟨_, rfl, rfl, rfl⟩

/-- **C02 (the ratio is min(sold, acquired, held) / sold).** -/
theorem C02_ratio {sold : Rat} {i : SliInfo} {r : SflRatio} (h : calcRatio sold i = .ok r) :
    r.num = min3 sold i.acquired i.allEop ∧ r.den = sold := by
  unfold calcRatio at h
  simp only at h
  split at h
  · cases h
  · split at h
    · cases h
    · simp only [Except.ok.injEq] at h; subst h; exact ⟨rfl, rfl⟩

theorem min3_le (a b c : Rat) : min3 a b c ≤ a ∧ min3 a b c ≤ b ∧ min3 a b c ≤ c := by
  unfold min3 rmin
  split <;> split <;> grind

theorem min3_mem (a b c : Rat) : min3 a b c = a ∨ min3 a b c = b ∨ min3 a b c = c := by
  unfold min3 rmin
  split <;> split <;> simp

/-- **C02 (automatic case: denied amount and adjustments).**  With no user-supplied entry, a
    superficial loss is reported exactly when the scan found one and the denied amount
    `loss · min(sold, acquired, held)/sold` (rounded to an exact cent when within 1e-10 of one)
    is not zero; the reported amount is that value. -/
theorem C02_automatic {t : Tracker} {tx : Tx} {sold loss : Rat} {past future : List Tx}
    {r : SflRatio} (hr : sflRatio t tx.aff tx.settle sold past future = .ok (some r)) :
    let denied := effCent (loss * (r.num / r.den))
    (denied < 0 → ∃ adj, deltaSflInfo t tx sold none loss past future =
        .ok (some ({ loss := denied, num := r.num, den := r.den, over := r.over, overMargin := r.overMargin }, adj))
        ∨ ∃ f, adjustTxs tx denied (sortByKey r.portions) = .error f) ∧
    (¬ denied < 0 → deltaSflInfo t tx sold none loss past future = .ok none) := by
  intro denied
  unfold deltaSflInfo
  simp only [hr]
  constructor
  · intro hd
    have hd' : ¬ ¬ (effCent (loss * (r.num / r.den)) < 0) := by simpa using hd
    simp only [hd', if_false]
    cases hadj : adjustTxs tx (effCent (loss * (r.num / r.den))) (sortByKey r.portions) with
    | error f => exact ⟨[], Or.inr ⟨f, rfl⟩⟩
    | ok adj => exact ⟨adj, Or.inl rfl⟩
  · intro hd
    have : ¬ (effCent (loss * (r.num / r.den)) < 0) := hd
    simp only [this, not_false_eq_true, if_true]

/-- **C02 (no acquisition or nothing held ⇒ whole loss reported).** -/
theorem C02_not_superficial {t : Tracker} {tx : Tx} {sold loss : Rat} {past future : List Tx}
    (hr : sflRatio t tx.aff tx.settle sold past future = .ok none) :
    deltaSflInfo t tx sold none loss past future = .ok none := by
  unfold deltaSflInfo
  simp only [hr]

/-- **C02 (a user-supplied superficial loss replaces the computed one and suppresses automatic
    adjustments; it is rejected when it differs from the computed value by more than 0.001
    unless forced).**  `calc` is the computed amount (0 when the scan finds no superficial loss). -/
theorem C02_specified {t : Tracker} {tx : Tx} {sold loss v : Rat} {force : Bool} {past future : List Tx}
    {msfl : Option SflRatio} (hr : sflRatio t tx.aff tx.settle sold past future = .ok msfl) :
    let computed : Rat := match msfl with | none => 0 | some r => effCent (loss * (r.num / r.den))
    (force = false ∧ rabs (computed - v) > sflMaxDiff →
        deltaSflInfo t tx sold (some (v, force)) loss past future = .error (.err .sflMismatch)) ∧
    ((force = true ∨ ¬ rabs (computed - v) > sflMaxDiff) → v < 0 →
        deltaSflInfo t tx sold (some (v, force)) loss past future =
          .ok (some ({ loss := v, num := (v / loss) * sold, den := sold, over := false }, []))) ∧
    ((force = true ∨ ¬ rabs (computed - v) > sflMaxDiff) → ¬ v < 0 →
        deltaSflInfo t tx sold (some (v, force)) loss past future = .ok none) := by
  intro computed
  unfold deltaSflInfo
  simp only [hr]
  cases msfl with
  | none =>
    refine ⟨?_, ?_, ?_⟩
    · rintro ⟨hf, hd⟩
      have hd' : sflMaxDiff < rabs ((0:Rat) - v) := hd
      simp [hf, hd']
    · intro hc hv
      have : (!force && decide (rabs ((0:Rat) - v) > sflMaxDiff)) = false := by
        rcases hc with hc | hc
        · simp [hc]
        · simp; intro _; exact hc
      simp [this, hv]
    · intro hc hv
      have : (!force && decide (rabs ((0:Rat) - v) > sflMaxDiff)) = false := by
        rcases hc with hc | hc
        · simp [hc]
        · simp; intro _; exact hc
      simp [this, hv]
  | some r =>
    refine ⟨?_, ?_, ?_⟩
    · rintro ⟨hf, hd⟩
      have hd' : sflMaxDiff < rabs (effCent (loss * (r.num / r.den)) - v) := hd
      simp [hf, hd']
    · intro hc hv
      have : (!force && decide (rabs (effCent (loss * (r.num / r.den)) - v) > sflMaxDiff)) = false := by
        rcases hc with hc | hc
        · simp [hc]
        · simp; intro _; exact hc
      simp [this, hv]
    · intro hc hv
      have : (!force && decide (rabs (effCent (loss * (r.num / r.den)) - v) > sflMaxDiff)) = false := by
        rcases hc with hc | hc
        · simp [hc]
        · simp; intro _; exact hc
      simp [this, hv]


/-- The rows of the 30-day windows around a sale settling on `settle`. -/
def windowAfter (settle : Int) (future : List Tx) : List Tx :=
  future.filter (fun x => decide (x.settle ≤ settle + Gen.sflWindowAfterDays))
def windowBefore (settle : Int) (past : List Tx) : List Tx :=
  past.filter (fun x => decide (settle - Gen.sflWindowBeforeDays ≤ x.settle))

/-- Shares held by all affiliates of `U` at the end of the window, each affiliate's balance
    expressed in the split period of the sale (divided by the product of its split factors since
    the sale); `bsAfter` are the books right after the sale. -/
def heldAtEnd (U : List Aff) (bsAfter : Books) (win : List Tx) : Rat :=
  sumOver U (fun a => (after bsAfter win a).shares / factors (fun _ => 1) win a)

/-- **C02 (the rule, on a date-sorted history).**  Let the processed rows `past` (most recent
    first) and the pending rows `future` be sorted by settlement date, let the tracker be well
    formed and hold the books `bs`, and let the look-ahead not run into a negative balance.  Then
    the loss of a sale of `sold` shares by `seller` settling on `settle` is declared superficial
    exactly when

    * some Buy row — of any affiliate, registered or not — settles within 30 days before or after
      `settle` (same-day rows on either side of the sale in file order included), and
    * the affiliates together still hold shares at the end of the window, counted in the split
      period of the sale (`heldAtEnd > 0`);

    and then the "held" figure the ratio uses is exactly `heldAtEnd`. -/
theorem C02_rule {t : Tracker} {U : List Aff} (hw : TrackerWFOn U t) {bs : Books}
    (hr : TrackerRefines t bs) {sale : Tx} {sold : Rat} {px comm rate : Rat} {crate : Option Rat}
    {spec : Option (Rat × Bool)} (hact : sale.act = .sell sold px comm rate crate spec)
    {past future : List Tx}
    (hsp : SettleDesc past) (hsf : SettleAsc future)
    (hvp : ∀ x ∈ past, x.Valid) (hvf : ∀ x ∈ future, x.Valid)
    (hU : sale.aff ∈ U ∧ ∀ x ∈ future, x.aff ∈ U)
    (h1 : ¬ (t.latestPostAll - sold < 0)) (h2 : ¬ (t.bal sale.aff - sold < 0))
    {s1 : Scan}
    (hf : scanFwd t (sale.settle + Gen.sflWindowAfterDays)
      (initScan t sale.aff sold) future = .ok s1) :
    let held := heldAtEnd U (stepBooks bs sale) (windowAfter sale.settle future)
    let bought := ∃ x, (x ∈ windowBefore sale.settle past ∨ x ∈ windowAfter sale.settle future) ∧ x.act.isBuy = true
    s1.allEop = held ∧
    ((∃ i, sflInfo t sale.aff sale.settle sold past future = .ok (some i) ∧ i.allEop = held) ↔
      (bought ∧ 0 < held)) := by
  intro held bought
  -- forward scan on the window
  rw [scanFwd_filter _ _ _ hsf] at hf
  have hwinf : ∀ x ∈ windowAfter sale.settle future,
      x.settle ≤ sale.settle + Gen.sflWindowAfterDays ∧ x.Valid ∧ x.aff ∈ U := by
    intro x hx
    have := List.mem_filter.mp hx
    exact ⟨by simpa using this.2, hvf x this.1, hU.2 x this.1⟩
  have hinit : HeldInv U (stepBooks bs sale) (fun _ => 1)
      (initScan t sale.aff sold) := by
    refine ⟨?_, fun a => by show (1:Rat) = 1 / 1; grind, fun a => by show (0:Rat) < 1; grind⟩
    show t.latestPostAll - sold = _
    rw [sumOver_point hw.nodup hU.1 (f := fun a => (bs a).shares / 1)
      (g := fun a => (stepBooks bs sale a).shares / 1) (by intro y hy; simp [stepBooks, hy])]
    simp only [stepBooks, if_true, stepBook, hact]
    have e : sumOver U (fun a => (bs a).shares / 1) = t.latestAll := by
      rw [hw.total]; apply sumOver_congr; intro a _; rw [refines_bal hr a]; grind
    rw [e, hw.latest, ← refines_bal hr sale.aff]; grind
  have hheld := scanFwd_held hw.nodup _ _ _ _ _ _ hwinf hinit hf
  have heq : s1.allEop = held := hheld.total
  refine ⟨heq, ?_⟩
  -- acquisitions
  have hacqF := scanFwd_acquired_pos _ _ _ _ (fun x hx => ⟨(hwinf x hx).1, (hwinf x hx).2.1⟩)
    (fun a => by show (0:Rat) < 1; grind) (by simp [initScan]) hf
  have hs1acq : 0 ≤ s1.acquired := by
    have hi0 : ScanInv (initScan t sale.aff sold) := by
      constructor
      · intro a; show (0:Rat) < 1; grind
      · simp [initScan]
      · intro a ha; simp [initScan] at ha
      · intro h; simp [initScan] at h
      · intro a v hav
        simp only [initScan, upd] at hav
        by_cases hax : a = sale.aff
        · simp only [hax, if_true, Option.some.injEq] at hav; subst hav; grind
        · simp [hax] at hav
    exact (scanFwd_inv (fun a => hw.bal_nonneg a) _ _ _ _ (fun x hx => (hwinf x hx).2.1) hi0 hf).acqNonneg
  have hwinp : ∀ x ∈ windowBefore sale.settle past,
      sale.settle - Gen.sflWindowBeforeDays ≤ x.settle ∧ x.Valid := by
    intro x hx
    have := List.mem_filter.mp hx
    exact ⟨by simpa using this.2, hvp x this.1⟩
  have hacqB := scanBwd_acquired_pos (t := t) (sale.settle - Gen.sflWindowBeforeDays)
    (windowBefore sale.settle past) { s1 with adj := fun _ => 1 } hwinp
    (fun a => by show (0:Rat) < 1; grind) hs1acq
  -- the decision
  have hfull : scanFwd t (sale.settle + Gen.sflWindowAfterDays)
      (initScan t sale.aff sold) future = .ok s1 := by
    rw [scanFwd_filter _ _ _ hsf]; exact hf
  have hiff := C02_superficial_iff (t := t) (seller := sale.aff) (settle := sale.settle) (sold := sold)
    (past := past) (future := future) h1 h2 hfull
  simp only at hiff
  rw [scanBwd_filter _ _ _ hsp] at hiff
  constructor
  · rintro ⟨i, hi, hia⟩
    have := hiff.mp ⟨i, hi, by rw [hia, heq], by
      -- i.acquired is the backward scan's figure
      unfold sflInfo at hi
      simp only [h1, h2, if_false, hfull] at hi
      split at hi
      · cases hi
      · split at hi
        · simp only [Except.ok.injEq, Option.some.injEq] at hi; subst hi
          simp only
          rw [scanBwd_filter _ _ _ hsp]
        · cases hi⟩
    obtain ⟨hpos, hacq⟩ := this
    refine ⟨?_, by rw [← heq]; exact hpos⟩
    rcases hacqB.mp hacq with hb | ⟨x, hx, hxb⟩
    · rcases hacqF.mp hb with hb0 | ⟨x, hx, hxb⟩
      · simp [initScan] at hb0
      · exact ⟨x, Or.inr hx, hxb⟩
    · exact ⟨x, Or.inl hx, hxb⟩
  · rintro ⟨⟨x, hx, hxb⟩, hpos⟩
    have hacq : 0 < (scanBwd t (sale.settle - Gen.sflWindowBeforeDays) { s1 with adj := fun _ => 1 }
        (windowBefore sale.settle past)).acquired := by
      apply hacqB.mpr
      rcases hx with hx | hx
      · exact Or.inr ⟨x, hx, hxb⟩
      · exact Or.inl (hacqF.mpr (Or.inr ⟨x, hx, hxb⟩))
    obtain ⟨i, hi, hia, _⟩ := hiff.mpr ⟨by rw [heq]; exact hpos, hacq⟩
    exact ⟨i, hi, by rw [hia, heq]⟩

end Acb

namespace Acb
/-! Non-vacuity / boundary examples (kernel-evaluated): a purchase 30 days before the sale makes
    the loss superficial, 31 days before does not; likewise 30 / 31 days after; a same-day
    purchase counts whether it precedes or follows the sale in file order; a registered
    affiliate's purchase counts; nothing held at the end of the window ⇒ not superficial. -/
private def d0 : Aff := ⟨0, false⟩
private def rr : Aff := ⟨1, true⟩
private def mk (day : Int) (idx : Nat) (a : Aff) (act : Action) : Tx := { trade := day, settle := day, idx := idx, aff := a, act := act }
private def sflFlags (txs : List Tx) : List Bool := ((deltaList d0 none txs).1.filter (fun d => d.tx.act.isSell)).map (fun d => d.sfl.isSome)

example : sflFlags [mk 0 0 d0 (.buy 10 10 0 1 none), mk 30 1 d0 (.sell 5 8 0 1 none none)] = [true] := by decide +kernel
example : sflFlags [mk 0 0 d0 (.buy 10 10 0 1 none), mk 31 1 d0 (.sell 5 8 0 1 none none)] = [false] := by decide +kernel
example : sflFlags [mk 0 0 d0 (.buy 10 10 0 1 none), mk 100 1 d0 (.sell 5 8 0 1 none none), mk 130 2 d0 (.buy 1 9 0 1 none)] = [true] := by decide +kernel
example : sflFlags [mk 0 0 d0 (.buy 10 10 0 1 none), mk 100 1 d0 (.sell 5 8 0 1 none none), mk 131 2 d0 (.buy 1 9 0 1 none)] = [false] := by decide +kernel
example : sflFlags [mk 0 0 d0 (.buy 10 10 0 1 none), mk 100 1 d0 (.sell 5 8 0 1 none none), mk 100 2 d0 (.buy 1 9 0 1 none)] = [true] := by decide +kernel
example : sflFlags [mk 0 0 d0 (.buy 10 10 0 1 none), mk 100 1 d0 (.buy 1 9 0 1 none), mk 100 2 d0 (.sell 5 8 0 1 none none)] = [true] := by decide +kernel
example : sflFlags [mk 0 0 d0 (.buy 10 10 0 1 none), mk 100 1 d0 (.sell 5 8 0 1 none none), mk 110 2 rr (.buy 1 9 0 1 none)] = [true] := by decide +kernel
example : sflFlags [mk 0 0 d0 (.buy 10 10 0 1 none), mk 100 1 d0 (.sell 10 8 0 1 none none), mk 110 2 d0 (.buy 1 9 0 1 none), mk 120 3 d0 (.sell 1 9 0 1 none none)] = [false, false] := by decide +kernel
/-- partial disposition: 10 sold, 4 re-acquired, 4 held ⇒ 4/10 of the loss is denied -/
example : ((deltaList d0 none [mk 0 0 d0 (.buy 10 10 0 1 none), mk 100 1 d0 (.sell 10 8 0 1 none none),
      mk 110 2 d0 (.buy 4 9 0 1 none)]).1.map (fun d => (d.gain, d.sfl.map (fun s => (s.loss, s.num, s.den))))) =
    [(none, none), (some (-12), some (-8, 4, 10)), (none, none), (none, none)] := by decide +kernel
/-- **C02 (the comparisons the model uses are the source's).**  Regenerated from the source on
    every run: the tolerance test is a strict `>` (a difference of exactly 0.001 is accepted); the
    forward scan stops at the first row settling strictly after the last day of the window and the
    backward scan at the first row settling strictly before its first day (both edge days are
    inside). -/
theorem C02_comparisons_match_source :
    Gen.sflDiffOp = ">" ∧ Gen.sflFwdBreakOp = ">" ∧ Gen.sflBwdBreakOp = "<" := by decide

end Acb
