/-
  C17 — Total-cost tables show the true maximum cost held.

  Property theorems only.  `calcTotalCosts` (AcbModel/App/Costs.lean) is the model of
  `calc_total_costs` as repaired by the fixes for F-17 and F-09b; `Figure`, `carry`, `opening`,
  `notesOf`, `WF` (AcbModel/App/CostsSpec.lean) say what the report must show.  Every theorem
  holds for all row lists of any length, every walk order `σ` of the security set and `τ` of the
  day map, and any function `yearOf` from days to years.
-/
import AcbModel.Generated.AppReports
import AcbModel.Lemmas.Costs
namespace Acb
open Acb.Costs

/-- **C17 (no panic).**  On rows as the ledger produces them (`WF`) none of the panic sites of
    `calc_max_day_cost_per_sec` is reached. -/
theorem C17_no_panic (yearOf : Int → Int) (rows : List Row) (σ : List Nat → List Nat) (τ : List Int → List Int)
    (hwf : WF rows) : ∃ c, calcTotalCosts yearOf rows σ τ = .ok c := by
  obtain ⟨st, hst⟩ := loop1_ok (P := []) rows (by simpa using hwf) Inv1.init
  unfold calcTotalCosts; rw [hst]; exact ⟨_, rfl⟩

/-- **C17 (which rows and columns there are).**  The dated rows are exactly the days on which a
    transaction of the default non-registered affiliate settled, in increasing order, each once;
    the columns are exactly the securities that affiliate traded, each once. -/
theorem C17_rows_and_columns {yearOf : Int → Int} {rows : List Row} {σ : List Nat → List Nat}
    {τ : List Int → List Int} (hwf : WF rows) (hσ : IsOrder σ) (hτ : IsOrder τ) {c : Result}
    (h : calcTotalCosts yearOf rows σ τ = .ok c) :
    c.days.Pairwise (fun a b => a < b) ∧ (∀ d, d ∈ c.days ↔ ∃ r ∈ counted rows, r.day = d) ∧
    c.secs.Nodup ∧ (∀ s, s ∈ c.secs ↔ ∃ r ∈ counted rows, r.sec = s) := by
  obtain ⟨st, inv, _, rfl⟩ := run_facts hwf hσ hτ h
  have hn : (τ st.days).Nodup := (hτ st.days).nodup_iff.mpr inv.days_nodup
  refine ⟨sortDays_strict hn, ?_, inv.secs_nodup, inv.secs_mem⟩
  intro d
  rw [← inv.days_mem d]
  exact ((sortDays_perm _).trans (hτ st.days)).mem_iff

/-- **C17 (figures of a dated row).**  In every dated row, the figure of every security is the
    highest cost base the security had after any transaction settling that day or, if none
    settled that day, its cost base after its most recent earlier transaction (its opening cost
    base before its first) — `Figure`. -/
theorem C17_day_figures {yearOf : Int → Int} {rows : List Row} {σ : List Nat → List Nat}
    {τ : List Int → List Int} (hwf : WF rows) (hσ : IsOrder σ) (hτ : IsOrder τ) {c : Result}
    (h : calcTotalCosts yearOf rows σ τ = .ok c) :
    ∀ d ∈ c.days, ∀ s ∈ c.secs, ∃ v, c.tab.cost d s = some v ∧ Figure rows s d v := by
  obtain ⟨st, inv, i2, rfl⟩ := run_facts hwf hσ hτ h
  exact i2.done

/-- The rendered row has a figure in every column (`.unwrap()` in `render_total_costs` is safe). -/
theorem C17_row_complete {yearOf : Int → Int} {rows : List Row} {σ : List Nat → List Nat}
    {τ : List Int → List Int} (hwf : WF rows) (hσ : IsOrder σ) (hτ : IsOrder τ) {c : Result}
    (h : calcTotalCosts yearOf rows σ τ = .ok c) :
    ∀ d ∈ c.days, ∀ x ∈ (c.rowOf d).figs, x.isSome = true := by
  intro d hd x hx
  simp only [Result.rowOf, Result.sortedSecs, List.mem_map] at hx
  obtain ⟨s, hs, rfl⟩ := hx
  have hs' : s ∈ c.secs := (sortNats_perm _).mem_iff.mp hs
  obtain ⟨v, hv, _⟩ := C17_day_figures hwf hσ hτ h d hd s hs'
  simp [hv]

/-- **C17 (row total).**  The total of a dated row is the sum of the figures shown in it. -/
theorem C17_row_total {yearOf : Int → Int} {rows : List Row} {σ : List Nat → List Nat}
    {τ : List Int → List Int} (hwf : WF rows) (hσ : IsOrder σ) (hτ : IsOrder τ) {c : Result}
    (h : calcTotalCosts yearOf rows σ τ = .ok c) :
    ∀ d, (c.rowOf d).total = ((c.rowOf d).figs.map (fun x => x.getD 0)).sum := by
  obtain ⟨st, inv, i2, rfl⟩ := run_facts hwf hσ hτ h
  intro d
  have := i2.total d
  simp only [Result.rowOf, Result.sortedSecs, List.map_map]
  rw [this]
  exact (sumOver_perm (sortNats_perm st.secs) _).symm

/-- **C17 (yearly table).**  The years listed are exactly the years in which a transaction of the
    default non-registered affiliate settled; for each of them the table shows a day of that year
    whose total is the highest of the year (with that day's row, see `Result.yearlyRows`), and
    among several such days the earliest. -/
theorem C17_yearly_is_max {yearOf : Int → Int} {rows : List Row} {σ : List Nat → List Nat}
    {τ : List Int → List Int} (hwf : WF rows) (hσ : IsOrder σ) (hτ : IsOrder τ) {c : Result}
    (h : calcTotalCosts yearOf rows σ τ = .ok c) :
    ∀ y, (∃ d ∈ c.days, yearOf d = y) →
      ∃ b, c.yearly y = some b ∧ b ∈ c.days ∧ yearOf b = y ∧
        ∀ d ∈ c.days, yearOf d = y → c.tab.total d ≤ c.tab.total b ∧ (c.tab.total d = c.tab.total b → b ≤ d) := by
  obtain ⟨st, inv, _, rfl⟩ := run_facts hwf hσ hτ h
  intro y ⟨d, hd, hy⟩
  have yi := yearly_inv yearOf (loop2 st (secWalk σ) τ).tab.total inv.days_nodup hτ
  cases hm : yearly yearOf (loop2 st (secWalk σ) τ).tab.total st.days τ y with
  | none => exact absurd hy (yi.none y hm d hd)
  | some b => exact ⟨b, hm, yi.some y b hm⟩

/-- the years listed in the yearly table -/
theorem C17_years_listed (yearOf : Int → Int) (c : Result) :
    ∀ y, y ∈ c.years yearOf ↔ ∃ d ∈ c.days, yearOf d = y := by
  intro y
  unfold Result.years
  rw [(sortDays_perm _).mem_iff, mem_dedup]
  simp

/-- **C17 (ignored transactions).**  The notes are exactly the transactions of registered
    affiliates and of other affiliates than the default one, in the order of the rows. -/
theorem C17_ignored_listed {yearOf : Int → Int} {rows : List Row} {σ : List Nat → List Nat}
    {τ : List Int → List Int} {c : Result} (h : calcTotalCosts yearOf rows σ τ = .ok c) :
    c.notes = notesOf rows := by
  unfold calcTotalCosts at h
  split at h
  · cases h
  · rename_i st hst
    have inv : Inv1 rows st := by simpa using loop1_inv (P := []) rows Inv1.init hst
    simp only [Except.ok.injEq] at h
    rw [← h]; exact inv.notes

/-- every row that does not count is listed -/
theorem C17_ignored_complete (rows : List Row) (r : Row) (hr : r ∈ rows) (hc : r.counted = false) :
    ∃ n, noteOf r = some n ∧ n ∈ notesOf rows := by
  have : ∃ n, noteOf r = some n := by
    unfold noteOf
    cases hp : r.post with
    | none => exact ⟨_, rfl⟩
    | some p =>
      have : r.dflt = false := by simpa [Row.counted, hp] using hc
      simp [this]
  obtain ⟨n, hn⟩ := this
  exact ⟨n, hn, by simp only [notesOf, List.mem_filterMap]; exact ⟨r, hr, hn⟩⟩

/-- `Figure` pins the figure down uniquely, and the executable `figure` (which the driver evaluates on
    the implementation's own rows as the property's oracle) is that figure. -/
theorem C17_figure_determined (rows : List Row) (s : Nat) (d : Int) :
    Figure rows s d (figure rows s d) ∧ ∀ v, Figure rows s d v → v = figure rows s d :=
  ⟨figure_spec rows s d, fun _ hv => Figure_unique hv (figure_spec rows s d)⟩

/-- **C17 (what the source says, re-read by the translator on every run).**  Days are settlement
    dates, a day's figure is a running `max`, the yearly day is replaced only by a strictly higher
    total, and the default affiliate is recognised by its exact id. -/
theorem C17_source_facts :
    Gen.costsDateField = "settlement_date" ∧ Gen.dayMaxFn = "max" ∧ Gen.yearlyMaxCmp = "<" ∧
    Gen.defaultAffiliateIds = ["default", "default (R)"] := by decide

end Acb

namespace Acb.Costs
/-! Non-vacuity: three securities, a security bought and sold out on one day (the F-17 shape), a
    tie of the yearly maximum, a registered and a non-default row.  The rows satisfy `WF`, the run
    completes, and the figures are the hand-computed ones (AAA is carried at its closing cost 0
    after day 10, not at the day's maximum 100; of the tied days 10 and 30 the earlier is shown). -/
def exRows : List Row := [
  { sec := 0, day := 10, pre := some 0, post := some 100, dflt := true },
  { sec := 0, day := 10, pre := some 100, post := some 0, dflt := true },
  { sec := 1, day := 20, pre := some 5, post := some 25, dflt := true },
  { sec := 2, day := 20, pre := none, post := none, dflt := true },
  { sec := 1, day := 30, pre := some 25, post := some 100, dflt := true },
  { sec := 1, day := 30, pre := some 100, post := some 95, dflt := true },
  { sec := 0, day := 400, pre := some 0, post := some 7, dflt := false, aff := 3 },
  { sec := 1, day := 400, pre := some 95, post := some 40, dflt := true } ]

private def exYear (d : Int) : Int := d / 365

example : WF exRows := by
  constructor
  · intro r hr p hp
    simp [exRows] at hr
    rcases hr with rfl | rfl | rfl | rfl | rfl | rfl | rfl | rfl <;> simp at hp <;> grind
  · decide
  · decide

private def exOut : Except Panic Result := calcTotalCosts exYear exRows id id

private def exGet {α : Type} (f : Result → α) : Option α :=
  match exOut with
  | .ok c => some (f c)
  | .error _ => none

example : exGet (fun c => (c.days, c.sortedSecs)) = some ([10, 20, 30, 400], [0, 1]) := by decide +kernel
example : exGet (fun c => c.totalRows.map (fun r => (r.total, r.figs))) =
    some [(105, [some 100, some 5]), (25, [some 0, some 25]), (100, [some 0, some 100]), (40, [some 0, some 40])] := by
  decide +kernel
example : exGet (fun c => (c.yearlyRows exYear).map (fun yr => (yr.1, yr.2.map (·.day)))) =
    some [(0, some 10), (1, some 400)] := by decide +kernel
example : exGet (fun c => c.notes) = some [Note.registered 20 2, Note.nonDefault 400 0 3] := by decide +kernel


/-! ### F-17 as it was: the second loop carried the day's maximum forward -/

/-- body of `for sec in &security_set` before the fix: `last_acbs` receives the figure of the day
    (the day's maximum when the security settled that day) -/
def fillSecLegacy (st : St) (d : Int) (f : Fill) (s : Nat) : Fill :=
  let v := match f.tab.cost d s with
    | some m => m
    | none => carriedCost st f s
  { tab := if (f.tab.cost d s).isSome then f.tab else observe f.tab d s v,
    last := fun s' => if s' = s then some v else f.last s' }

def legacyCell (rows : List Row) (d : Int) (s : Nat) : Option Rat :=
  match loop1 rows St.init with
  | .ok st =>
    ((sortDays st.days).foldl (fun f d' => (sortNats st.secs).foldl (fillSecLegacy st d') f)
      { tab := st.tab, last := fun _ => none }).tab.cost d s
  | .error _ => none

end Acb.Costs

namespace Acb
open Acb.Costs
/-- **F-17 as it was.**  On the example above (AAA bought and sold out on day 10) the legacy second
    loop shows AAA at 100 on day 20, where the required figure — the cost base after AAA's most
    recent earlier transaction — is 0; the repaired model shows 0 (`C17_day_figures`). -/
theorem C17_F17_was_wrong :
    legacyCell exRows 20 0 = some 100 ∧ figure exRows 0 20 = 0 ∧ Figure exRows 0 20 0 := by
  refine ⟨by decide +kernel, by decide +kernel, ?_⟩
  have h := figure_spec exRows 0 20
  have e : figure exRows 0 20 = 0 := by decide +kernel
  rw [e] at h; exact h
end Acb
