/-
  C10, simple mode, every outcome of the range selection: the rows `makeSummaryTxs` generates — the
  summary of the summarisable part, then the unsummarisable transactions carried over with their
  computed superficial losses written out — followed by the rows settling after the summary date
  reproduce the later rows of the full run exactly, and the carried rows figure by figure.
-/
import AcbModel.Props.C10c
import AcbModel.Lemmas.Carry9
namespace Acb

/-- the invariants of the ledger after a prefix of valid rows, from the empty tracker -/
theorem inv2_after_prefix (dflt : Aff) (hdflt : dflt.registered = false) {As : List Aff} (hn : As.Nodup)
    (q r : List Tx) (hq : ∀ x ∈ q, x.Valid ∧ x.aff ∈ As) (hr : ∀ x ∈ r, x.Valid ∧ x.aff ∈ As) :
    match loopPrefix { m := fun _ => none, latestAll := 0, latestAff := dflt } [] [] q r with
    | .inl (t2, past2, _) => Inv2 As t2 ∧ (∀ y ∈ past2, RowIn As y ∧ DatedIn (q.map (·.settle)) y)
    | .inr _ => True := by
  have hi : InitOk dflt none := ⟨hdflt, by simp⟩
  obtain ⟨t0, ht0, hw0⟩ := Tracker.new_wf hi
  have hnew : Tracker.new dflt none = .ok { m := fun _ => none, latestAll := 0, latestAff := dflt } := rfl
  have : t0 = { m := fun _ => none, latestAll := 0, latestAff := dflt } := by
    rw [hnew] at ht0; simp only [Except.ok.injEq] at ht0; exact ht0.symm
  subst this
  have hinv0 : Inv2 As { m := fun _ => none, latestAll := 0, latestAff := dflt } :=
    ⟨⟨⟨_, hw0⟩, Tracker.new_sumInv hn (by simp) ht0⟩, fun a _ => rfl⟩
  exact loopPrefix_inv2 hn r hr q (q.map (·.settle))
    (fun x hx => ⟨hq x hx, by unfold DatedIn; exact List.mem_map_of_mem hx⟩) _ [] [] hinv0 (by simp)

/-- **C10 (simple mode; full for the model of the ledger and of `make_summary_txs`).**
    `pre ++ later` is a history of valid rows of one security in settlement order, `pre` settling on
    or before the summary date `latest`, `later` after it, and the full run is error-free.  Whatever
    the range selection returns — everything summarisable, a part of it, or nothing — the rows
    `makeSummaryTxs` generates (summary purchases / cost-base rows for the summarisable part, then
    the unsummarisable transactions, each sale with its computed superficial loss declared and the
    generated adjustments as explicit rows), followed by `later` and replayed from nothing, yield

    * no failure,
    * for the carried rows (`dC`): the same balances, cost bases, capital gains and superficial-loss
      amounts as the full run (`DeltasCarry`), and
    * for the rows of `later`: **exactly** the deltas of the full run. -/
theorem C10_summary_reproduces_history (yearOf jan1 : Int → Int) (dflt : Aff) (hdflt : dflt.registered = false)
    (pre later : List Tx) (latest : Int)
    (hv : ∀ x ∈ pre ++ later, x.Valid)
    (hsorted : (pre ++ later).Pairwise (fun a b => a.settle ≤ b.settle))
    (hpre : ∀ x ∈ pre, x.settle ≤ latest) (hlater : ∀ x ∈ later, latest < x.settle)
    (hne : pre ≠ [])
    (hok : (deltaList dflt none (pre ++ later)).2 = none)
    (r : SummaryRange)
    (hr : summaryRange latest (deltaList dflt none (pre ++ later)).1 = some r) :
    ∃ dS dC, deltaList dflt none
        (makeSummaryTxs yearOf jan1 latest false (deltaList dflt none (pre ++ later)).1 ++ later) =
          (dS ++ dC ++ (deltaList dflt none (pre ++ later)).1.drop (r.lastInRange + 1), none) ∧
      DeltasCarry (((deltaList dflt none (pre ++ later)).1.take (r.lastInRange + 1)).drop
        (cutOf r.lastSummarizable)) dC := by
  -- the run, split at the summary date (as in `C10_summary_then_later_partial`)
  have hnew : Tracker.new dflt none = .ok { m := fun _ => none, latestAll := 0, latestAff := dflt } := rfl
  generalize ht0 : ({ m := fun _ => none, latestAll := 0, latestAff := dflt } : Tracker) = t0 at hnew
  have hT0 : TrackInv t0 [] := by intro a; subst ht0; simp [lastD]
  have hfull := deltaList_eq_loop hnew (pre ++ later)
  rw [deltaLoop_prefix] at hfull
  have hg := loopPrefix_glue pre later t0 [] [] hT0
  cases hlp : loopPrefix t0 [] [] pre later with
  | inr e =>
    obtain ⟨a, f⟩ := e
    rw [hlp] at hfull
    rw [hfull] at hok
    cases hok
  | inl s =>
    obtain ⟨tP, pastP, accP⟩ := s
    rw [hlp] at hfull hg
    simp only at hfull hg
    obtain ⟨hTP, ext0, he0, hx0⟩ := hg
    simp only [List.nil_append] at he0
    subst he0
    have hg2 := loopPrefix_glue later [] tP pastP accP hTP
    have hl2 := deltaLoop_prefix later [] tP pastP accP
    rw [List.append_nil] at hl2
    cases hlp2 : loopPrefix tP pastP accP later [] with
    | inr e =>
      obtain ⟨a, f⟩ := e
      rw [hlp2] at hl2
      rw [hfull, hl2] at hok
      cases hok
    | inl s2 =>
      obtain ⟨t2, past2, acc2⟩ := s2
      rw [hlp2] at hl2 hg2
      simp only [deltaLoop] at hl2
      simp only at hg2
      obtain ⟨_, ext, he2, hx2⟩ := hg2
      subst he2
      have hds : (deltaList dflt none (pre ++ later)).1 = accP ++ ext := by rw [hfull, hl2]
      have hneA : accP ≠ [] := by
        obtain ⟨x, hx⟩ := List.exists_mem_of_ne_nil pre hne
        obtain ⟨d, hd, _⟩ := hx0.own x hx
        exact List.ne_nil_of_mem hd
      have hA : ∀ d ∈ accP, d.tx.settle ≤ latest := by
        intro d hd
        obtain ⟨x, hx, hxe⟩ := List.mem_map.mp (hx0.dated d hd)
        rw [← hxe]; exact hpre x hx
      have hB : ∀ d ∈ ext, latest < d.tx.settle := by
        intro d hd
        obtain ⟨x, hx, hxe⟩ := List.mem_map.mp (hx2.dated d hd)
        rw [← hxe]; exact hlater x hx
      have hsP : DSorted accP := hx0.sorted (List.pairwise_append.mp hsorted).1
      have hsE : DSorted ext := hx2.sorted (List.pairwise_append.mp hsorted).2.1
      have hpos : 0 < accP.length := List.length_pos_iff.mpr hneA
      -- the range selection
      have hsplit := summaryRange_split latest accP ext hA hB hneA
      cases hfc : firstConflict (accP.getLast hneA).tx.settle ext with
      | none =>
        -- nothing to carry: the earlier theorem
        rw [hfc] at hsplit
        simp only at hsplit
        have hr' := hr
        rw [hds, hsplit] at hr'
        simp only [Option.some.injEq] at hr'
        subst hr'
        simp only [cutOf]
        obtain ⟨dS, h1, _⟩ := C10_summary_then_later_partial yearOf jan1 dflt hdflt pre later latest hv hsorted hpre
          hlater hne hok (accP.length - 1) (by rw [hds]; exact hsplit)
        refine ⟨dS, [], by rw [h1]; simp, ?_⟩
        rw [hds]
        have : List.drop (accP.length - 1 + 1) (List.take (accP.length - 1 + 1) (accP ++ ext)) = [] := by simp
        rw [this]
        exact DeltasCarry.nil
      | some first =>
        rw [hfc] at hsplit
        simp only at hsplit
        have hr' := hr
        rw [hds, hsplit] at hr'
        simp only [Option.some.injEq] at hr'
        subst hr'
        simp only
        obtain ⟨⟨g, hgm, hgf⟩, hfirstE⟩ := firstConflict_some _ ext hsE first hfc
        have hub : ∀ d ∈ accP, d.tx.settle - Gen.sflWindowBeforeDays ≤ first := by
          intro d hd
          have h1 := hA d hd
          have h2 := hB g hgm
          omega
        obtain ⟨hk, F, hF, hcut1, hcut2⟩ := walk_spec accP.reverse accP (by simp) hsP first hub
        generalize hkdef : cutOf (latestSummarizable first (idxRev accP)) = k at hk hcut1 hcut2 ⊢
        have e1 : accP.length - 1 + 1 = accP.length := by omega
        rw [hds]
        simp only [e1, List.take_left, List.drop_left]
        -- the generated rows
        have hmk : makeSummaryTxs yearOf jan1 latest false (accP ++ ext) =
            (if k = 0 then [] else sortedSummaryRows (accP.take k) (accP.drop k ++ ext)) ++
              (accP.drop k).map carryTx := by
          unfold makeSummaryTxs
          simp only [hsplit, e1, List.take_left, Bool.false_eq_true, if_false]
          cases hls : latestSummarizable first (idxRev accP) with
          | none =>
            rw [hls] at hkdef
            simp only [cutOf] at hkdef
            subst hkdef
            simp
          | some l =>
            rw [hls] at hkdef
            simp only [cutOf] at hkdef
            subst hkdef
            simp only [Nat.add_eq_zero_iff, Nat.one_ne_zero, and_false, if_false]
            have hlen : (accP.take (l + 1)).length = l + 1 := by simp; omega
            have hds2 : accP ++ ext = accP.take (l + 1) ++ (accP.drop (l + 1) ++ ext) := by
              rw [← List.append_assoc, List.take_append_drop]
            unfold sortedSummaryRows
            rw [hlen, ← hds2]
            rfl
        rw [hmk]
        -- the flagged deltas still to come have their windows start at or after `F`
        have hflagF : ∀ d ∈ accP.drop k ++ ext, d.isLossOrSfl = true →
            F ≤ d.tx.settle - Gen.sflWindowBeforeDays := by
          intro d hd hfl
          simp only [List.mem_append] at hd
          rcases hd with hd | hd
          · exact (hcut2 d hd).2 hfl
          · have := hfirstE d hd hfl; omega
        have hascC : SettleAsc ((accP.drop k).map carryTx ++ later) := by
          unfold SettleAsc
          refine List.pairwise_append.mpr ⟨?_, (List.pairwise_append.mp hsorted).2.1, ?_⟩
          · rw [List.pairwise_map]
            exact (hsP.sublist (List.drop_sublist _ _)).imp (fun hab => by rw [carryTx_settle, carryTx_settle]; exact hab)
          · intro a ha b hb
            obtain ⟨d, hd, rfl⟩ := List.mem_map.mp ha
            rw [carryTx_settle]
            have h1 := hA d (List.mem_of_mem_drop hd)
            have h2 := hlater b hb
            omega
        by_cases hk0 : k = 0
        · -- nothing summarisable: the carried rows from the empty tracker
          subst hk0
          simp only [List.drop_zero, if_true, List.nil_append, List.take_zero] at *
          have hlp' : loopPrefix t0 [] [] pre later = .inl (tP, pastP, [] ++ accP) := by simpa using hlp
          have hB' : deltaLoop tP pastP ([] ++ accP) later = ([] ++ accP ++ ext, none) := by simpa using hl2
          subst ht0
          obtain ⟨dC, h1, h2⟩ := carried_tail dflt [] pre later _ _ [] [] [] accP ext [] tP pastP
            (by simp [loopPrefix]) (ObsEq.refl _) hlp' hB' hsorted hascC
            (fun d _ _ => ⟨fun _ _ _ _ _ _ _ p hp => by simp at hp, fun _ _ _ _ _ _ _ p hp => by simp at hp⟩)
          exact ⟨[], dC, by simpa using h1, h2⟩
        · simp only [hk0, if_false]
          -- cut the rows where the deltas are cut
          have hcutlt : ∀ d ∈ accP.take k, ∀ e ∈ accP.drop k, d.tx.settle < e.tx.settle := by
            intro d hd e he
            have := hcut1 d hd
            have := (hcut2 e he).1
            omega
          have hlp' : loopPrefix t0 [] [] pre later = .inl (tP, pastP, [] ++ accP) := by simpa using hlp
          obtain ⟨q1, q2, t1, past1, hq, hl1, hl2'⟩ := loopPrefix_cut pre later t0 [] [] tP pastP accP hlp' k hk hcutlt
          simp only [List.nil_append] at hl1 hl2'
          have hg1 := loopPrefix_glue q1 (q2 ++ later) t0 [] [] hT0
          rw [hl1] at hg1
          simp only at hg1
          obtain ⟨hT1, e1', he1', hx1⟩ := hg1
          simp only [List.nil_append] at he1'
          subst he1'
          have hneA1 : accP.take k ≠ [] := by
            intro h0
            have : (accP.take k).length = 0 := by rw [h0]; rfl
            rw [List.length_take] at this; omega
          have hsA1 : DSorted (accP.take k) := hsP.sublist (List.take_sublist _ _)
          obtain ⟨day, As', hnA', hAsA1, hAsO, hsum, hday⟩ :=
            summary_of_state (accP.take k) (accP.drop k ++ ext) hneA1 t1 hT1 hsA1 ((pre ++ later).map (·.aff))
          have hIn : ∀ x ∈ pre ++ later, x.Valid ∧ x.aff ∈ As' :=
            fun x hx => ⟨hv x hx, hAsO _ (List.mem_map_of_mem hx)⟩
          subst hq
          have hinv := inv2_after_prefix dflt hdflt hnA' q1 (q2 ++ later)
            (fun x hx => hIn x (by simp [hx])) (fun x hx => hIn x (by
              simp only [List.mem_append] at hx ⊢
              rcases hx with h | h
              · exact Or.inl (Or.inr h)
              · exact Or.inr h))
          subst ht0
          rw [hl1] at hinv
          simp only at hinv
          obtain ⟨hi1, hpast1⟩ := hinv
          obtain ⟨bs, hrf, U, hw1⟩ := hi1.wf
          obtain ⟨tS, dS, hS, hobsS, _⟩ := summary_obsEq hnA' hi1.sum hi1.supp (statusesOk_of_wf hw1) day dflt
            ((accP.drop k).map carryTx ++ later)
          rw [hsum] at hS
          -- everything before the cut settles before `F`
          have hlastF : (List.getLast (accP.take k) hneA1).tx.settle < F := hcut1 _ (List.getLast_mem _)
          have hfar : ∀ d ∈ accP.drop k ++ ext, d.isLossOrSfl = true →
              FarFor past1 d.tx ∧ FarFor (sortedSummaryRows (accP.take k) (accP.drop k ++ ext)).reverse d.tx := by
            intro d hd hfl
            have hFd := hflagF d hd hfl
            constructor
            · intro sh px comm rate crate spec _ p hp
              have hpm : p ∈ past1 := List.mem_of_mem_head? hp
              have hdated := (hpast1 p hpm).2
              unfold DatedIn at hdated
              obtain ⟨x, hx, hxs⟩ := List.mem_map.mp hdated
              obtain ⟨e, he, hex⟩ := hx1.own x hx
              have := hcut1 e he
              rw [hex, hxs] at this
              omega
            · intro sh px comm rate crate spec _ p hp
              have hpm : p ∈ (sortedSummaryRows (accP.take k) (accP.drop k ++ ext)).reverse := List.mem_of_mem_head? hp
              rw [← hsum] at hpm
              obtain ⟨a, _, hpa⟩ := mem_summaryOfTracker (List.mem_reverse.mp hpm)
              have := hday a
              rw [hpa]
              omega
          have hC : loopPrefix t1 past1 (accP.take k) q2 later =
              .inl (tP, pastP, accP.take k ++ accP.drop k) := by rw [List.take_append_drop]; exact hl2'
          have hB' : deltaLoop tP pastP (accP.take k ++ accP.drop k) later =
              (accP.take k ++ accP.drop k ++ ext, none) := by rw [List.take_append_drop]; exact hl2
          have hasc2 : SettleAsc (q2 ++ later) := by
            have : (q1 ++ q2 ++ later) = q1 ++ (q2 ++ later) := by simp
            rw [this] at hsorted
            exact (List.pairwise_append.mp hsorted).2.1
          obtain ⟨dC, h1, h2⟩ := carried_tail dflt _ q2 later t1 tS past1 _ (accP.take k) (accP.drop k) ext dS tP pastP
            hS hobsS hC hB' hasc2 hascC hfar
          exact ⟨dS, dC, h1, h2⟩

/-! Non-vacuity, with rows carried over.  Days 0 and 5: the two affiliates buy.  Day 80: the first
    sells 10 at a loss; day 85: the second buys 20 — the loss is superficial and the second
    affiliate's cost base is adjusted.  Summary date = day 90.  Later: day 100 a loss sale (its window
    reaches back to day 70, so the rows of days 80 and 85 cannot be summarised; the sale of day 80 in
    turn keeps day 50 onwards), day 110 a purchase, day 200 a sale at a gain.  The range selection
    returns "delta 4 is the last in range, delta 1 the last summarisable"; three deltas are
    carried over (the sale with its superficial loss declared, the adjustment, the purchase). -/
private def z0 : Aff := ⟨0, false⟩
private def z1 : Aff := ⟨1, false⟩
private def preZ : List Tx := [
  { trade := 0, settle := 0, idx := 0, aff := z0, act := .buy 100 10 0 1 none },
  { trade := 5, settle := 5, idx := 1, aff := z1, act := .buy 50 12 0 1 none },
  { trade := 80, settle := 80, idx := 2, aff := z0, act := .sell 10 8 0 1 none none },
  { trade := 85, settle := 85, idx := 3, aff := z1, act := .buy 20 8 0 1 none } ]
private def laterZ : List Tx := [
  { trade := 100, settle := 100, idx := 4, aff := z0, act := .sell 40 8 0 1 none none },
  { trade := 110, settle := 110, idx := 5, aff := z1, act := .buy 20 8 0 1 none },
  { trade := 200, settle := 200, idx := 6, aff := z0, act := .sell 10 15 0 1 none none } ]

example : ∃ dS dC, deltaList z0 none
      (makeSummaryTxs id id 90 false (deltaList z0 none (preZ ++ laterZ)).1 ++ laterZ) =
        (dS ++ dC ++ (deltaList z0 none (preZ ++ laterZ)).1.drop (4 + 1), none) ∧
    DeltasCarry (((deltaList z0 none (preZ ++ laterZ)).1.take (4 + 1)).drop (1 + 1)) dC := by
  apply C10_summary_reproduces_history id id z0 rfl preZ laterZ 90 _ _ _ _ _ _
    { lastInRange := 4, lastSummarizable := some 1 }
  · decide +kernel
  · intro x hx
    simp only [preZ, laterZ, List.cons_append, List.nil_append, List.mem_cons, List.mem_nil_iff, or_false] at hx
    rcases hx with rfl | rfl | rfl | rfl | rfl | rfl | rfl <;>
      simp [Tx.Valid, Action.Valid, optPos] <;> decide +kernel
  · decide
  · intro x hx
    simp only [preZ, List.mem_cons, List.mem_nil_iff, or_false] at hx
    rcases hx with rfl | rfl | rfl | rfl <;> decide
  · intro x hx
    simp only [laterZ, List.mem_cons, List.mem_nil_iff, or_false] at hx
    rcases hx with rfl | rfl | rfl <;> decide
  · simp [preZ]
  · decide +kernel

/-- the generated rows of that example: two summary purchases (days 0 and 5), then the carried sale
    (with its superficial loss of −20 declared), the carried adjustment and the carried purchase -/
example : (makeSummaryTxs id id 90 false (deltaList z0 none (preZ ++ laterZ)).1).map
      (fun t => (t.settle, t.aff.key, match t.act with | .sell _ _ _ _ _ (some (v, _)) => some v | _ => none)) =
    [(0, 0, none), (5, 1, none), (80, 0, some (-20)), (80, 1, none), (85, 1, none)] := by decide +kernel

end Acb
