/-
  C17 / C05 at the level of the application pipeline (`run_acb_app_to_render_model`): whatever the
  concatenated input rows — any number of securities and affiliates, global splits, opening
  positions, securities whose ledger fails part-way or whose split validation fails — the rows
  handed to `calc_total_costs` satisfy the report's precondition, so the figure theorems of
  Props/C17.lean apply to them and the report's two panic sites are unreachable.
-/
import AcbModel.Props.C17b
import AcbModel.Props.C04d
import AcbModel.Lemmas.CostsPipe
namespace Acb
open Acb.Costs

/-- `all_deltas` of `run_acb_app_to_render_model`, as report rows -/
def pipelineRows (isDefault : Aff → Bool) (dflt : Aff) (inits : Nat → Option Status) (rows : List PRow) : List Row :=
  (runPipeline dflt inits rows).flatMap (fun r => r.2.1.map (rowOfDelta isDefault r.1))

/-- **C17 (pipeline level): the report's precondition holds for every input.** -/
theorem C17_pipeline_rows_wf (isDefault : Aff → Bool) (dflt : Aff) (inits : Nat → Option Status)
    (rows : List PRow) (hv : ∀ r ∈ rows, r.tx.Valid) (hi : ∀ s, InitOk dflt (inits s)) :
    WF (pipelineRows isDefault dflt inits rows) := by
  have e : pipelineRows isDefault dflt inits rows =
      ledgerRows isDefault dflt ((secsOf (sortRows rows)).map (fun s =>
        { sec := s, init := inits s, txs := secTxs dflt (inits s) (rowsOf s (sortRows rows)) })) := by
    unfold pipelineRows ledgerRows runPipeline
    simp only [List.flatMap_map, secResultSorted_fst]
  rw [e]
  have hp : ∀ s, (∀ tx ∈ secTxs dflt (inits s) (rowsOf s (sortRows rows)), tx.Valid) ∧
      (secTxs dflt (inits s) (rowsOf s (sortRows rows))).Pairwise (fun a b => a.settle ≤ b.settle) := by
    intro s
    refine secTxs_props dflt (inits s) ((sortRows_sorted rows).filter _) ?_
    intro r hr
    unfold rowsOf at hr
    exact hv r (mem_sortRows.mp (List.mem_filter.mp hr).1)
  refine C17_ledger_rows_wf isDefault dflt _ ?_ ?_ ?_ ?_
  · rw [List.pairwise_map]
    exact (nodup_eraseDups_nat_aux _ _ (Nat.le_refl _)).imp (fun h => h)
  · intro l hl
    obtain ⟨s, _, rfl⟩ := List.mem_map.mp hl
    exact (hp s).1
  · intro l hl
    obtain ⟨s, _, rfl⟩ := List.mem_map.mp hl
    exact hi s
  · intro l hl
    obtain ⟨s, _, rfl⟩ := List.mem_map.mp hl
    exact (hp s).2

/-- **C17/C05 (pipeline level): `--total-costs` cannot panic**, for every input, every hash
    iteration order (`σ`, `τ`) and every calendar. -/
theorem C17_pipeline_costs_no_panic (yearOf : Int → Int) (σ : List Nat → List Nat) (τ : List Int → List Int)
    (isDefault : Aff → Bool) (dflt : Aff) (inits : Nat → Option Status)
    (rows : List PRow) (hv : ∀ r ∈ rows, r.tx.Valid) (hi : ∀ s, InitOk dflt (inits s)) :
    ∃ c, calcTotalCosts yearOf (pipelineRows isDefault dflt inits rows) σ τ = .ok c :=
  C17_no_panic yearOf _ σ τ (C17_pipeline_rows_wf isDefault dflt inits rows hv hi)

/-- **C17 (pipeline level): the figures.**  For every input, every cell of every dated row of the
    report computed from the pipeline's ledgers is the `Figure` of that security and day — the
    day's highest post-transaction cost base, else the cost base after the most recent earlier
    transaction, else the opening cost base — with no hypothesis left on the rows. -/
theorem C17_pipeline_day_figures (yearOf : Int → Int) {σ : List Nat → List Nat} {τ : List Int → List Int}
    (hσ : IsOrder σ) (hτ : IsOrder τ)
    (isDefault : Aff → Bool) (dflt : Aff) (inits : Nat → Option Status)
    (rows : List PRow) (hv : ∀ r ∈ rows, r.tx.Valid) (hi : ∀ s, InitOk dflt (inits s)) {c : Result}
    (h : calcTotalCosts yearOf (pipelineRows isDefault dflt inits rows) σ τ = .ok c) :
    ∀ d ∈ c.days, ∀ s ∈ c.secs, ∃ v, c.tab.cost d s = some v ∧
      Figure (pipelineRows isDefault dflt inits rows) s d v :=
  C17_day_figures (C17_pipeline_rows_wf isDefault dflt inits rows hv hi) hσ hτ h

/-! Non-vacuity: an unsorted two-security input with a second (registered) affiliate and a global
    split; the hypotheses hold and the report rows are the expected ones. -/
private def pD : Aff := { key := 0, registered := false }
private def pR : Aff := { key := 1, registered := true }
private def pRows : List PRow := [
  { sec := 1, glob := false, tx := { trade := 8, settle := 10, idx := 0, aff := pD, act := .buy 3 7 0 1 none } },
  { sec := 0, glob := false, tx := { trade := 50, settle := 52, idx := 1, aff := pD, act := .sell 4 30 1 1 none none } },
  { sec := 0, glob := false, tx := { trade := 1, settle := 3, idx := 2, aff := pD, act := .buy 10 20 5 1 none } },
  { sec := 0, glob := false, tx := { trade := 2, settle := 4, idx := 3, aff := pR, act := .buy 7 21 0 1 none } },
  { sec := 0, glob := true, tx := { trade := 20, settle := 20, idx := 4, aff := pD, act := .split 2 1 false } } ]

example : ∀ r ∈ pRows, r.tx.Valid := by
  simp [pRows, Tx.Valid, Action.Valid, optPos]
  grind
example : ∀ s : Nat, InitOk pD ((fun _ => none) s) := fun _ => ⟨rfl, by intro s h; cases h⟩
example : (pipelineRows (· == pD) pD (fun _ => none) pRows).map (fun r => (r.sec, r.day, r.pre, r.post, r.dflt)) =
    [(0, 3, some 0, some 205, true), (0, 4, none, none, false), (0, 20, some 205, some 205, true),
     (0, 20, none, none, false), (0, 52, some 205, some 164, true), (1, 10, some 0, some 21, true)] := by
  decide +kernel

end Acb
