/-
  C13 — The exchange-rate cache never changes an answer.

  Property theorems only.  `runHistory` (AcbModel/Fx/Loader.lean) runs a history of program runs —
  each with its own clock, force flag, remote data, cache I/O failures and sequence of look-ups —
  over ONE persistent cache `year → rows` (the `RatesCache` trait; the in-memory cache is this
  store, the CSV cache is this store by `cachefile round trip`, C14).  The model is that of the
  repaired loader (repo commit "fix: re-validate the rate cache …", finding F-13): a year loaded
  from the cache that lacks the requested date is validated again.
-/
import AcbModel.Lemmas.FxHist
import AcbModel.Lemmas.FxExamples
namespace Acb
open Fx

/-- The same look-up against the same data with no cache: a new loader over an empty cache. -/
def uncached (e : Env) (d : Int) : Except Unit DailyRate :=
  forget (getEffective e (St.init fun _ => none) d).1

theorem uncached_eq_spec (e : Env) (hc : e.cal.OK) (hwf : RemoteWF e) (d : Int) :
    uncached e d = specRate e d :=
  (getEffective_spec e hc hwf _ (inv_init e _ (Or.inr (by intro y rows h; simp at h))) d).2.1

/-- **C13 (transparency, inside a run).**  In any state a run can reach (`RunInv`: whatever was
    downloaded is what the remote has, whatever was taken from the cache is in the cache, the cache
    is trustworthy or never read), a look-up returns exactly what the uncached look-up returns —
    whatever was looked up before, in whatever order. -/
theorem C13_lookup_equals_uncached (e : Env) (hc : e.cal.OK) (hwf : RemoteWF e) (s : St)
    (hinv : RunInv e s) (d : Int) :
    forget (getEffective e s d).1 = uncached e d ∧ RunInv e (getEffective e s d).2 := by
  obtain ⟨h1, h2, _⟩ := getEffective_spec e hc hwf s hinv d
  exact ⟨by rw [h2, uncached_eq_spec e hc hwf d], h1⟩

/-- **C13 (transparency, over histories).**  Over any sequence of runs on successive days
    (`GoodHistory`: each run's data well-formed; a later run's data agree with an earlier run's on
    every day before the earlier run's date and keep what was published), with any force flags,
    any cache I/O failures and any order of look-ups, starting from any trustworthy cache, each
    look-up returns exactly what the same look-up against that run's data with no cache returns. -/
theorem C13_transparent (cache : Store) (rs : List Run) (hg : GoodHistory none rs)
    (h0 : ∀ r, rs.head? = some r → CacheOK r.env cache) :
    (runHistory cache rs).1.map (fun o => o.1.map forget) =
      rs.map (fun r => r.lookups.map (uncached r.env)) := by
  rw [runHistory_spec cache rs none hg h0]
  -- replace specRate by uncached, run by run
  have : ∀ (prev : Option Env) (rs : List Run), GoodHistory prev rs →
      rs.map (fun r => r.lookups.map (specRate r.env)) = rs.map (fun r => r.lookups.map (uncached r.env)) := by
    intro prev rs
    induction rs generalizing prev with
    | nil => intro _; rfl
    | cons r rs ih =>
      intro ⟨hc, hwf, _, hrest⟩
      simp only [List.map_cons]
      rw [ih _ hrest]
      congr 1
      apply List.map_congr_left
      intro d _
      exact (uncached_eq_spec r.env hc hwf d).symm
  exact this none rs hg

/-- Non-vacuity: a two-run history (Jan 7 and Jan 21, 2020; a rate for Jan 8 appears in between)
    satisfies the hypotheses.  The second run looks up Jan 3 (answered from the cache written by
    the first run, nothing downloaded), then Jan 8, which is newer than the cache: the year is
    validated again and downloaded once, and Jan 8 / Jan 9 get the rate of Jan 8. -/
example : GoodHistory none exHistory := exHistory_good
example : (runHistory (fun _ => none) exHistory).1 =
    [([.ok ⟨2458852, 131/100⟩], [2020]),
     ([.ok ⟨2458852, 131/100⟩, .ok ⟨2458857, 141/100⟩, .ok ⟨2458857, 141/100⟩], [2020])] := by
  decide +kernel

/-- **F-13, the defect that was repaired.**  The loader as it was (a year already loaded in this
    run is never validated again) violates transparency on that very history: after the look-up of
    Jan 3 from the cache, Jan 8 is answered with the rate of Jan 6 although the uncached look-up
    returns the rate published for Jan 8. -/
theorem C13_unrepaired_loader_was_stale :
    let cacheAfterRun1 := (runLookups exEnvA (St.init fun _ => none) [2458852]).2.cache
    let s1 := (getEffectiveOld exEnvB (St.init cacheAfterRun1) 2458852).2
    forget (getEffectiveOld exEnvB s1 2458857).1 = .ok ⟨2458855, 7/5⟩ ∧
    uncached exEnvB 2458857 = .ok ⟨2458857, 141/100⟩ := by
  decide +kernel

/-- **C13 (starting with no cache at all).** -/
theorem C13_transparent_from_empty_cache (rs : List Run) (hg : GoodHistory none rs) :
    (runHistory (fun _ => none) rs).1.map (fun o => o.1.map forget) =
      rs.map (fun r => r.lookups.map (uncached r.env)) :=
  C13_transparent _ rs hg (by intro r _ y rows h; simp at h)

/-- **C13 (what a run leaves behind is trustworthy)** — the invariant carried from run to run:
    every cached row is either the published rate of its day or a zero placeholder for a past day
    on which nothing was published. -/
theorem C13_cache_stays_trustworthy (e : Env) (hc : e.cal.OK) (hwf : RemoteWF e) (cache : Store)
    (h0 : CacheOK e cache) (ds : List Int) (e' : Env) (hcons : Consistent e e') :
    CacheOK e' (runLookups e (St.init cache) ds).2.cache :=
  cacheOK_of_consistent hcons (cacheOK_after_run e hc hwf cache h0 ds)

/-- **C13 (a year is downloaded at most once per run).** -/
theorem C13_download_once_per_run (e : Env) (hc : e.cal.OK) (hwf : RemoteWF e) (cache : Store)
    (h0 : e.force = true ∨ CacheOK e cache) (ds : List Int) :
    (runLookups e (St.init cache) ds).2.downloads.Nodup :=
  (runLookups_spec e hc hwf _ (inv_init e cache h0) ds).1.nodup

/-- **C13 (no download when the cached year covers the requested date)**, for the one year a
    look-up of exactly `d` consults: unless a download is forced, neither the download log nor the
    cache changes. -/
theorem C13_no_download_when_covered (e : Env) (s : St) (d : Int) (hf : e.force = false)
    (hcov : Covered e s.cache d) :
    (getExact e s d).2.downloads = s.downloads ∧ (getExact e s d).2.cache = s.cache :=
  getExact_covered e s d hf hcov

/-- **C13 (… and for a whole effective look-up)**: when the cache covers the trade date and the
    seven days before it (all the look-back can consult), nothing is downloaded. -/
theorem C13_no_download_when_window_covered (e : Env) (s : St) (d : Int) (hf : e.force = false)
    (hcov : ∀ k : Nat, k ≤ 7 → Covered e s.cache (d - k)) :
    (getEffective e s d).2.downloads = s.downloads ∧ (getEffective e s d).2.cache = s.cache :=
  getEffective_covered e s d hf hcov

/-- **C13 (only the years of the trade date and of the seven days before it are ever downloaded).** -/
theorem C13_downloads_only_needed_years (e : Env) (hc : e.cal.OK) (hwf : RemoteWF e) (s : St)
    (hinv : RunInv e s) (d : Int) (y : Int) (hy : y ∈ (getEffective e s d).2.downloads) :
    y ∈ s.downloads ∨ ∃ k : Nat, k ≤ 7 ∧ y = e.cal.yearOf (d - k) := by
  rcases (getEffective_spec e hc hwf s hinv d).2.2 y hy with h | ⟨k, _, hk, h⟩
  · exact Or.inl h
  · exact Or.inr ⟨k, hk, h⟩

end Acb
