/-
  C10, continued — the generated summary itself, simple mode, when the range selection reports that
  everything up to the summary date is summarisable: `makeSummaryTxs` (the model of
  `make_summary_txs`: range selection, last delta per affiliate, the rows of
  `make_simple_summary_txs`, the sort) followed by the rows settling after the date reproduces every
  later delta of the full run.
-/
import AcbModel.Props.C10b
import AcbModel.Lemmas.SummaryGlue4
namespace Acb

/-- **C10 (simple mode, nothing carried over — partial in exactly that sense).**
    `pre ++ later` is a history of valid rows of one security in settlement order, `pre` settling on
    or before the summary date `latest`, `later` after it, and the full run is error-free.  If the
    range selection reports the last in-range delta as summarisable (no later loss sale has the
    last summarised date in its window — the carried-over case is not covered here), then the
    rows `makeSummaryTxs` generates, followed by `later` and replayed from nothing, yield the
    summary rows' own deltas followed by **exactly** the deltas the full run yields after the
    summary point — gains, superficial losses, balances, cost bases, generated adjustments — and no
    failure. -/
theorem C10_summary_then_later_partial (yearOf jan1 : Int → Int) (dflt : Aff) (hdflt : dflt.registered = false)
    (pre later : List Tx) (latest : Int)
    (hv : ∀ x ∈ pre ++ later, x.Valid)
    (hsorted : (pre ++ later).Pairwise (fun a b => a.settle ≤ b.settle))
    (hpre : ∀ x ∈ pre, x.settle ≤ latest) (hlater : ∀ x ∈ later, latest < x.settle)
    (hne : pre ≠ [])
    (hok : (deltaList dflt none (pre ++ later)).2 = none)
    (li : Nat)
    (hr : summaryRange latest (deltaList dflt none (pre ++ later)).1 =
      some { lastInRange := li, lastSummarizable := some li }) :
    ∃ dS, deltaList dflt none
        (makeSummaryTxs yearOf jan1 latest false (deltaList dflt none (pre ++ later)).1 ++ later) =
          (dS ++ (deltaList dflt none (pre ++ later)).1.drop (li + 1), none) ∧
      dS.length = (makeSummaryTxs yearOf jan1 latest false (deltaList dflt none (pre ++ later)).1).length := by
  -- the run, split at the summary point
  have hnew : Tracker.new dflt none = .ok { m := fun _ => none, latestAll := 0, latestAff := dflt } := rfl
  generalize ht0 : ({ m := fun _ => none, latestAll := 0, latestAff := dflt } : Tracker) = t0 at hnew
  have hT0 : TrackInv t0 [] := by intro a; subst ht0; simp [lastD]
  have hfull := deltaList_eq_loop hnew (pre ++ later)
  rw [deltaLoop_prefix] at hfull
  have hg := loopPrefix_glue pre later t0 [] [] hT0
  cases hlp : loopPrefix t0 [] [] pre later with
  | inr e =>
    obtain ⟨a, f⟩ := e
    rw [hlp] at hfull
    rw [hfull] at hok
    cases hok
  | inl s =>
    obtain ⟨tP, pastP, accP⟩ := s
    rw [hlp] at hfull hg
    simp only at hfull hg
    obtain ⟨hTP, ext0, he0, hx0⟩ := hg
    simp only [List.nil_append] at he0
    subst he0
    -- the later part
    have hg2 := loopPrefix_glue later [] tP pastP accP hTP
    have hl2 := deltaLoop_prefix later [] tP pastP accP
    rw [List.append_nil] at hl2
    cases hlp2 : loopPrefix tP pastP accP later [] with
    | inr e =>
      obtain ⟨a, f⟩ := e
      rw [hlp2] at hl2
      rw [hfull, hl2] at hok
      cases hok
    | inl s2 =>
      obtain ⟨t2, past2, acc2⟩ := s2
      rw [hlp2] at hl2 hg2
      simp only [deltaLoop] at hl2
      simp only at hg2
      obtain ⟨_, ext, he2, hx2⟩ := hg2
      subst he2
      have hds : (deltaList dflt none (pre ++ later)).1 = accP ++ ext := by rw [hfull, hl2]
      rw [hds] at hr ⊢
      -- the two halves of the deltas
      have hneA : accP ≠ [] := by
        obtain ⟨x, hx⟩ := List.exists_mem_of_ne_nil pre hne
        obtain ⟨d, hd, _⟩ := hx0.own x hx
        exact List.ne_nil_of_mem hd
      have hA : ∀ d ∈ accP, d.tx.settle ≤ latest := by
        intro d hd
        obtain ⟨x, hx, hxe⟩ := List.mem_map.mp (hx0.dated d hd)
        rw [← hxe]; exact hpre x hx
      have hB : ∀ d ∈ ext, latest < d.tx.settle := by
        intro d hd
        obtain ⟨x, hx, hxe⟩ := List.mem_map.mp (hx2.dated d hd)
        rw [← hxe]; exact hlater x hx
      obtain ⟨hli, hnc⟩ := summaryRange_full latest accP ext hA hB hneA hr
      have hpos : 0 < accP.length := List.length_pos_iff.mpr hneA
      have hli1 : li + 1 = accP.length := by omega
      have hsP : accP.Pairwise (fun a b => a.tx.settle ≤ b.tx.settle) :=
        hx0.sorted (List.pairwise_append.mp hsorted).1
      have hsE : ext.Pairwise (fun a b => a.tx.settle ≤ b.tx.settle) :=
        hx2.sorted (List.pairwise_append.mp hsorted).2.1
      generalize hlast : (accP.getLast hneA).tx.settle = lastDate at hnc
      have hlastP : ∀ d ∈ accP, d.tx.settle ≤ lastDate := by
        intro d hd; rw [← hlast]; exact pairwise_le_getLast hneA hsP d hd
      have hfarE := C10_no_conflict_is_far lastDate ext hsE hnc
      -- the table of last deltas and the summary rows
      have hK := lastIdxPerAff_spec accP ext hneA
      rw [← hli] at hK
      generalize hKdef : lastIdxPerAff (accP ++ ext) li = K at hK
      let day : Aff → Int := fun a => ((lastD accP a).map (·.tx.settle)).getD lastDate
      let g : Aff → List Tx := fun a => summaryRowsOf (day a) a (tP.bal a) (tP.acbOf a)
      have hrows : K.flatMap (fun (p : Aff × Nat) =>
            match (accP ++ ext)[p.2]? with | some d => simpleSummary p.1 d | none => []) =
          (K.map (·.1)).flatMap g := by
        rw [List.flatMap_map]
        apply flatMap_congr_mem
        intro p hp
        obtain ⟨a, i⟩ := p
        obtain ⟨d, hdi, hdl⟩ := hK.sound a i hp
        have hi : i < accP.length := (List.getElem?_eq_some_iff.mp hdi).1
        have hget : (accP ++ ext)[i]? = some d := by rw [List.getElem?_append_left hi]; exact hdi
        simp only [hget, Function.comp]
        rw [C10_summary_rows_shape]
        have hm := hTP a
        rw [hdl] at hm
        simp only [Option.map_some] at hm
        simp only [g, day, hdl, Option.map_some, Option.getD_some, Tracker.bal, Tracker.acbOf, hm]
      -- unfold the generator
      have hmk : makeSummaryTxs yearOf jan1 latest false (accP ++ ext) =
          (((((K.map (·.1)).flatMap g).zipIdx.map (fun (t, i) => { t with idx := i })).foldr insertTx []).map
            (fun t => { t with idx := 0 })) := by
        unfold makeSummaryTxs
        simp only [hr, hKdef, Bool.false_eq_true, if_false]
        have : List.drop (li + 1) (List.take (li + 1) (accP ++ ext)) = [] := by
          simp
        rw [this, ← hrows]
        simp only [List.map_nil, List.append_nil]
        rfl
      have hidx0 : ∀ t ∈ (K.map (·.1)).flatMap g, t.idx = 0 := by
        intro t ht
        obtain ⟨a, _, hta⟩ := List.mem_flatMap.mp ht
        exact (summaryRowsOf_aff t hta).2.1
      have hperm := sortedSummary_perm ((K.map (·.1)).flatMap g) hidx0
      rw [← hmk] at hperm
      -- all affiliates: those of the table, then the others of the later rows
      obtain ⟨extra, hnE, hmE⟩ := exists_nodup ((later.map (·.aff)).filter (fun a => a ∉ K.map (·.1)))
      have hgE : ∀ a, a ∉ K.map (·.1) → g a = [] := by
        intro a ha
        have hnone : lastD accP a = none := by
          cases hl : lastD accP a with
          | none => rfl
          | some d => exact absurd (hK.complete a d hl) ha
        have hm := hTP a
        rw [hnone] at hm
        simp only [Option.map_none] at hm
        simp only [g, Tracker.bal, Tracker.acbOf, hm, Option.getD_none, defaultStatus, summaryRowsOf,
          zeroRowsOf]
        split
        · rename_i h; exact absurd h (by decide)
        · split
          · rename_i c hc
            split at hc
            · cases hc
            · simp only [Option.some.injEq] at hc; subst hc; simp
          · rfl
      have hall : (K.map (·.1) ++ extra).flatMap g = (K.map (·.1)).flatMap g := by
        rw [List.flatMap_append]
        have : extra.flatMap g = [] := by
          rw [List.flatMap_eq_nil_iff]
          intro a ha
          have := (hmE a).mp ha
          simp only [List.mem_filter, decide_eq_true_eq] at this
          exact hgE a this.2
        rw [this, List.append_nil]
      have hnAll : (K.map (·.1) ++ extra).Nodup := by
        refine List.nodup_append.mpr ⟨hK.nodup, hnE, ?_⟩
        intro x hx y hy e
        subst e
        have := (hmE x).mp hy
        simp only [List.mem_filter, decide_eq_true_eq] at this
        exact this.2 hx
      obtain ⟨As', hnA', hmA', hfA'⟩ := flatMap_reorder g (fun a y hy => (summaryRowsOf_aff y hy).1)
        (fun a => summaryRowsOf_length _ _ _ _) (K.map (·.1) ++ extra) hnAll
        (makeSummaryTxs yearOf jan1 latest false (accP ++ ext)) (by rw [hall]; exact hperm)
      have hsum : summaryOfTracker tP day As' = makeSummaryTxs yearOf jan1 latest false (accP ++ ext) := hfA'
      -- every row belongs to an affiliate of `As'`
      have hpreIn : ∀ x ∈ pre, x.Valid ∧ x.aff ∈ As' := by
        intro x hx
        refine ⟨hv x (by simp [hx]), (hmA' _).mpr ?_⟩
        obtain ⟨d, hd, hdx⟩ := hx0.own x hx
        obtain ⟨e, he⟩ := lastD_isSome_of_mem hd
        rw [hdx] at he
        exact List.mem_append.mpr (Or.inl (hK.complete _ e he))
      have hlaterIn : ∀ x ∈ later, x.Valid ∧ x.aff ∈ As' := by
        intro x hx
        refine ⟨hv x (by simp [hx]), (hmA' _).mpr ?_⟩
        by_cases hk : x.aff ∈ K.map (·.1)
        · exact List.mem_append.mpr (Or.inl hk)
        · refine List.mem_append.mpr (Or.inr ((hmE _).mpr ?_))
          simp only [List.mem_filter, decide_eq_true_eq]
          exact ⟨List.mem_map_of_mem hx, hk⟩
      -- the engine
      obtain ⟨t0', ht0', hmain⟩ := C10_later_rows_loss_only_partial dflt none ⟨hdflt, by simp⟩ pre later As' hnA'
        (by simp) hpreIn hlaterIn day
      have : t0' = t0 := by rw [hnew] at ht0'; simp only [Except.ok.injEq] at ht0'; exact ht0'.symm
      subst this
      rw [hlp] at hmain
      simp only at hmain
      rw [hds] at hmain
      have hdrop : (accP ++ ext).drop accP.length = ext := by simp
      rw [hdrop] at hmain
      have hok' : (deltaList dflt none (pre ++ later)).2 = none := hok
      obtain ⟨dS, h1, h2⟩ := hmain (by rw [hfull, hl2]) (by
        intro d hd hfl
        have hfar := hfarE d hd hfl
        constructor
        · intro p hp
          obtain ⟨e, he, hep⟩ := hx0.own p hp
          have := hlastP e he
          rw [hep] at this
          omega
        · intro a _
          have hday : day a ≤ lastDate := by
            simp only [day]
            cases hl : lastD accP a with
            | none => simp
            | some e => simp only [Option.map_some, Option.getD_some]; exact hlastP e (lastD_some hl).2
          omega)
      rw [hsum] at h1 h2
      refine ⟨dS, ?_, h2⟩
      rw [h1, hli1, hdrop]

/-! Non-vacuity: the history of `Props/C10b.lean` (two purchases by two affiliates on days 0 and 5;
    then a loss sale on day 100 that is half superficial because the spouse buys on day 110, and a
    sale at a gain on day 200), summary date = day 50.  All hypotheses hold; the range selection
    returns "delta 1 is the last in range and summarisable". -/
private def q0 : Aff := ⟨0, false⟩
private def q1 : Aff := ⟨1, false⟩
private def preY : List Tx := [
  { trade := 0, settle := 0, idx := 0, aff := q0, act := .buy 100 10 0 1 none },
  { trade := 5, settle := 5, idx := 1, aff := q1, act := .buy 50 12 0 1 none } ]
private def laterY : List Tx := [
  { trade := 100, settle := 100, idx := 2, aff := q0, act := .sell 40 8 0 1 none none },
  { trade := 110, settle := 110, idx := 3, aff := q1, act := .buy 20 8 0 1 none },
  { trade := 200, settle := 200, idx := 4, aff := q0, act := .sell 10 15 0 1 none none } ]

example : ∃ dS, deltaList q0 none
      (makeSummaryTxs id id 50 false (deltaList q0 none (preY ++ laterY)).1 ++ laterY) =
        (dS ++ (deltaList q0 none (preY ++ laterY)).1.drop (1 + 1), none) ∧
    dS.length = (makeSummaryTxs id id 50 false (deltaList q0 none (preY ++ laterY)).1).length := by
  apply C10_summary_then_later_partial id id q0 rfl preY laterY 50
  · intro x hx
    simp only [preY, laterY, List.cons_append, List.nil_append, List.mem_cons, List.mem_nil_iff, or_false] at hx
    rcases hx with rfl | rfl | rfl | rfl | rfl <;> simp [Tx.Valid, Action.Valid, optPos] <;> decide +kernel
  · decide
  · intro x hx
    simp only [preY, List.mem_cons, List.mem_nil_iff, or_false] at hx
    rcases hx with rfl | rfl <;> decide
  · intro x hx
    simp only [laterY, List.mem_cons, List.mem_nil_iff, or_false] at hx
    rcases hx with rfl | rfl | rfl <;> decide
  · simp [preY]
  · decide +kernel
  · decide +kernel

/-- the generated summary of that example: two purchases, dated days 0 and 5 -/
example : (makeSummaryTxs id id 50 false (deltaList q0 none (preY ++ laterY)).1).map (fun t => (t.settle, t.aff.key)) =
    [(0, 0), (5, 1)] := by decide +kernel

end Acb
