/-
  C09 — Same input, same output, byte for byte.

  Property theorems only.  Every hash-container walk whose order could reach the output is a
  parameter of the model (`Orders`: the affiliates of a security when a global split is expanded,
  the securities map (which is also the key set of the security-gains map) and each security's year map, and in the cost report
  the security set and the day map).  The theorems say that the output is the same for all
  choices of these orders; they hold for every input, any number of securities and affiliates, any
  ledger function and any calendar.
-/
import AcbModel.Generated.AppReports
import AcbModel.Lemmas.Orders
namespace Acb
open Acb.Costs Acb.Gains Acb.Splits Acb.Orders

/-- **C09 (split expansion).**  The rows a global split is replaced by, and their order, do not
    depend on the order in which the set of affiliates is walked (F-09a repaired). -/
theorem C09_split_expansion (σ σ' : List Nat → List Nat) (h : IsOrder σ) (h' : IsOrder σ')
    (dflt : Nat) (txs : List STx) : expand σ dflt txs = expand σ' dflt txs :=
  expand_congr h h' dflt txs

/-- **C09 (cost tables).**  The dated rows, the yearly rows — including which of several days
    sharing a year's maximum is shown (F-09b repaired) — and the list of notes are the same for
    every walk order of the security set and of the day map. -/
theorem C09_cost_tables {yearOf : Int → Int} {rows : List Row}
    {σ σ' : List Nat → List Nat} {τ τ' : List Int → List Int}
    (hwf : WF rows) (hσ : IsOrder σ) (hτ : IsOrder τ) (hσ' : IsOrder σ') (hτ' : IsOrder τ')
    {c c' : Result} (h : calcTotalCosts yearOf rows σ τ = .ok c) (h' : calcTotalCosts yearOf rows σ' τ' = .ok c') :
    c.totalRows = c'.totalRows ∧ c.yearlyRows yearOf = c'.yearlyRows yearOf ∧ c.notes = c'.notes :=
  costs_render_congr hwf hσ hτ hσ' hτ' h h'

/-- **C09 (gains tables).**  The aggregate table is the same for every order in which the map of
    securities and the year maps are walked. -/
theorem C09_gains_tables (yearOf : Int → Int) (rs : List SecResult)
    {σ σ' : List CG → List CG} {ρ ρ' : List Int → List Int}
    (hσ : IsOrder σ) (hρ : IsOrder ρ) (hσ' : IsOrder σ') (hρ' : IsOrder ρ') (full : Bool) :
    aggTable full (aggGains σ ρ (completed yearOf rs)) = aggTable full (aggGains σ' ρ' (completed yearOf rs)) :=
  aggTable_congr yearOf rs hσ hρ hσ' hρ' full

/-- **C09 (the whole report).**  With all hash orders `o` replaced by any other `o'`, the output of
    a run — whether it fails, the security tables in print order with their footers, the aggregate
    table, and with `--total-costs` both cost tables and the order of the notes under them
    (F-09c repaired) — is the same, in both precision modes.  `WF` is what the ledger guarantees
    about the deltas (see C17). -/
theorem C09_deterministic (o o' : Orders) (ho : o.Ok) (ho' : o'.Ok) (yearOf : Int → Int) (dflt : Nat)
    (ledger : Nat → List STx → SecOut) (full totalCosts : Bool) (inp : Inputs)
    (hwf : WF (allCostRows o dflt ledger inp)) :
    appOutput o yearOf dflt ledger full totalCosts inp = appOutput o' yearOf dflt ledger full totalCosts inp := by
  have hres : resultOf o dflt ledger inp = resultOf o' dflt ledger inp := by
    funext s; unfold resultOf; rw [expand_congr ho.affs ho'.affs]
  have hpo : printOrder o inp = printOrder o' inp := sortNats_congr (order_perm ho.secs ho'.secs _)
  have hrows : allCostRows o dflt ledger inp = allCostRows o' dflt ledger inp := by
    unfold allCostRows; rw [hres, hpo]
  have hany := any_congr_perm (order_perm ho.secs ho'.secs (inp.map (·.1))) (fun s => hasConflict (txsOf inp s))
  have hagg := aggTable_congr yearOf ((printOrder o' inp).map (fun s => (resultOf o' dflt ledger inp s).toResult))
    id_isOrder ho.years id_isOrder ho'.years full
  unfold appOutput
  simp only [hres, hpo, hany, hagg]
  split
  · rfl
  · cases totalCosts with
    | false => rfl
    | true =>
      simp only [if_true]
      rw [hrows] at hwf
      rw [hrows]
      obtain ⟨c, hc⟩ := C17_no_panic yearOf _ o.secSet o.days hwf
      obtain ⟨c', hc'⟩ := C17_no_panic yearOf _ o'.secSet o'.days hwf
      obtain ⟨e1, e2, e3⟩ := costs_render_congr hwf ho.secSet ho.days ho'.secSet ho'.days hc hc'
      rw [hc, hc']
      simp only [e1, e2, e3]

/-- **C09 (summary CSV).**  The rows of the summary (and whether the run fails) are the same for
    all hash orders, for any per-security summary function. -/
theorem C09_summary_deterministic {τ : Type} (o o' : Orders) (ho : o.Ok) (ho' : o'.Ok) (dflt : Nat)
    (ledger : Nat → List STx → SecOut) (summarize : Nat → SecOut → List τ) (inp : Inputs) :
    summaryOutput o dflt ledger summarize inp = summaryOutput o' dflt ledger summarize inp := by
  have hres : resultOf o dflt ledger inp = resultOf o' dflt ledger inp := by
    funext s; unfold resultOf; rw [expand_congr ho.affs ho'.affs]
  have hpo : printOrder o inp = printOrder o' inp := sortNats_congr (order_perm ho.secs ho'.secs _)
  have hany := any_congr_perm (order_perm ho.secs ho'.secs (inp.map (·.1))) (fun s => hasConflict (txsOf inp s))
  have hany2 := any_congr_perm (order_perm ho.secs ho'.secs (inp.map (·.1)))
    (fun s => !(resultOf o' dflt ledger inp s).ok)
  unfold summaryOutput
  simp only [hres, hpo, hany, hany2]

/-- **C09 (what the source says, re-read by the translator on every run).**  The affiliates of a
    global split are sorted by id; a year's day is replaced only by a strictly higher total and the
    days are visited in date order (so the earliest of tied days stays); `all_deltas`, the second
    loop of the cost report and the aggregate gains walk the securities in sorted order. -/
theorem C09_source_facts :
    Gen.splitAffSortKeys = "a.id().cmp(b.id())" ∧ Gen.yearlyMaxCmp = "<" ∧
    Gen.yearlyMaxWalk = "sorted_days" ∧ Gen.allDeltasWalk = "sorted_delta_results" ∧
    Gen.costsSecondLoopWalk = "sorted_secs" ∧ Gen.aggregateGainsWalk = "sorted_secs" := by decide

end Acb

namespace Acb.Orders
open Acb.Costs Acb.Gains Acb.Splits
/-! ### The three defects, as they were: each legacy decision does depend on the order.
    (`List.reverse` and `id` are both orders; the outputs differ.) -/

/-- `replace_global_security_splits` before the fix: the vector is used as it comes out of the set -/
def expandLegacy (σ : List Nat → List Nat) (dflt : Nat) (txs : List STx) : List STx :=
  let a := σ (nonGlobalAffiliates txs)
  let affs := if a.isEmpty then [dflt] else a
  txs.flatMap (fun t => if t.globalSplit then affs.map (fun a => { t with aff := some a }) else [t])

def exTxs : List STx := [
  { trade := 1, isSplit := false, aff := some 0, tag := 0 },
  { trade := 2, isSplit := false, aff := some 2, tag := 1 },
  { trade := 3, isSplit := false, aff := some 1, tag := 2 },
  { trade := 9, isSplit := true, aff := none, tag := 3 } ]


/-- … while the repaired expansion gives, for both, the rows in affiliate-id order. -/
private def expandedTags (σ : List Nat → List Nat) : List (Nat × Option Nat) :=
  match expand σ 0 exTxs with
  | .ok l => l.map (fun t => (t.tag, t.aff))
  | .error _ => []

example : expandedTags id = [(0, some 0), (1, some 2), (2, some 1), (3, some 0), (3, some 1), (3, some 2)] ∧
    expandedTags List.reverse = expandedTags id := by decide +kernel

/-- `calc_yearly_max_cost_day` before the fix: the days are visited as the map yields them -/
def yearlyLegacy (yearOf : Int → Int) (total : Int → Rat) (days : List Int) (τ : List Int → List Int) : Int → Option Int :=
  ((τ days).foldl (yearStep yearOf total) { get := fun _ => none }).get


example : yearly (fun _ => 2020) (fun _ => 100) [5, 9] id 2020 = some 5 ∧
    yearly (fun _ => 2020) (fun _ => 100) [5, 9] List.reverse 2020 = some 5 := by decide +kernel

/-- F-09c as it was: `all_deltas` concatenated in map order, so the notes follow that order -/
def notesLegacy (σ : List Nat → List Nat) (rowsOf : Nat → List Row) (secs : List Nat) : List Note :=
  notesOf ((σ secs).flatMap rowsOf)

def exRowsOf (s : Nat) : List Row := [{ sec := s, day := 10 + s, pre := none, post := none, dflt := false }]


/-! Non-vacuity of `C09_deterministic`: a run with a global split over three affiliates, two
    securities, and the cost report; the two extreme orders give the same, non-trivial output. -/
private def exLedger (s : Nat) (txs : List STx) : SecOut :=
  { ok := true,
    rows := txs.map (fun t => { cost := { sec := s, day := t.trade, pre := some 0, post := some (t.tag + 1 : Nat),
                                          dflt := t.aff == some 0, aff := t.aff.getD 0 },
                                gain := if t.isSplit then none else some 1 }) }
private def exInp : Inputs := [(1, exTxs), (0, [{ trade := 4, isSplit := false, aff := some 0, tag := 7 }])]
private def oId : Orders := ⟨id, id, id, id, id⟩
private def oRev : Orders := ⟨List.reverse, List.reverse, List.reverse, List.reverse, List.reverse⟩

example : oId.Ok ∧ oRev.Ok :=
  ⟨⟨id_isOrder, id_isOrder, id_isOrder, id_isOrder, id_isOrder⟩,
   ⟨reverse_isOrder, reverse_isOrder, reverse_isOrder, reverse_isOrder, reverse_isOrder⟩⟩

private def exGet {α : Type} (o : Orders) (f : AppOut → α) : Option α :=
  match appOutput o (fun _ => 2020) 0 exLedger true true exInp with
  | .ok out => some (f out)
  | .error _ => none

example : exGet oId (fun out => out.tables.map (fun t => (t.1, t.2.1.rows.length))) = some [(0, 1), (1, 6)] := by
  decide +kernel
example : exGet oRev (fun out => out.tables.map (fun t => (t.1, t.2.1.rows.length))) = some [(0, 1), (1, 6)] := by
  decide +kernel
example : exGet oId (fun out => out.aggregate) = some [(some 2020, 4), (none, 4)] := by decide +kernel
example : exGet oRev (fun out => out.costs.map (fun c => (c.1.map (·.day), c.2.2))) =
    some (some ([1, 4, 9], [Note.nonDefault 2 1 2, Note.nonDefault 3 1 1, Note.nonDefault 9 1 1, Note.nonDefault 9 1 2])) := by
  decide +kernel

end Acb.Orders

namespace Acb
open Acb.Costs Acb.Splits Acb.Orders

/-- F-09a as it was: two walk orders of three affiliates give differently ordered split rows … -/
theorem C09_F09a_was_order_dependent : expandLegacy id 0 exTxs ≠ expandLegacy List.reverse 0 exTxs := by
  decide +kernel

/-- F-09b as it was: with two days of a year sharing the maximum, the day shown depends on the order -/
theorem C09_F09b_was_order_dependent :
    yearlyLegacy (fun _ => 2020) (fun _ => 100) [5, 9] id 2020 ≠
    yearlyLegacy (fun _ => 2020) (fun _ => 100) [5, 9] List.reverse 2020 := by decide +kernel

theorem C09_F09c_was_order_dependent :
    notesLegacy id exRowsOf [0, 1, 2] ≠ notesLegacy List.reverse exRowsOf [0, 1, 2] := by decide +kernel

end Acb
