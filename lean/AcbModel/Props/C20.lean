/-
  C20 — Statement FMV extraction returns every holding once; no page is skipped.

  Property theorems only.  Models: `AcbModel/Broker/Pages.lean` (page hints, `load_pages`, the
  optimized iterator) and `AcbModel/Broker/Fmv.lean` (the allocation-table line machine and
  `parse_statement_text`); helper lemmas in `AcbModel/Lemmas/{Pages,Fmv}.lean`.
-/
import AcbModel.Lemmas.Pages
import AcbModel.Lemmas.Fmv
import AcbModel.Generated.BrokerPdf
namespace Acb
open Pages Fmv

/-! ## Part 1 — page hints never skip a page and never request a non-existent one -/

/-- **No page skipped, none invented.**  For every page count `n` and every list of hint groups
    (any numbers, any order, duplicates, empty groups), the groups returned by
    `safe_page_chunks_with_remainder_pn` contain a page number iff it is a page of the document. -/
theorem C20_chunks_cover (n : Nat) (hints : List (List Nat)) (p : Nat) :
    p ∈ (safeChunks n hints).flatten ↔ 1 ≤ p ∧ p ≤ n :=
  mem_safeChunks_flatten n hints p

example : safeChunks 4 [[1, 3, 5], [4, 2]] = [[1, 3], [4, 2]] := by decide
example : safeChunks 9 [[1, 7], [6, 8]] = [[1, 7], [6, 8], [2, 3, 4, 5, 9]] := by decide

/-- If no page is named twice in the hints, every page of the document is scheduled exactly once. -/
theorem C20_chunks_each_once (n : Nat) (hints : List (List Nat)) (h : hints.flatten.Nodup) :
    (safeChunks n hints).flatten.Perm (List.range' 1 n) := by
  apply (List.perm_ext_iff_of_nodup (safeChunks_flatten_nodup n hints h) List.nodup_range').mpr
  intro p
  rw [C20_chunks_cover, List.mem_range'_1]; omega

example : ([[1, 7], [6, 8]] : List (List Nat)).flatten.Nodup := by decide

/-- No group handed to the iterator is empty (an empty group would make
    `unyielded_pages.pop_front().unwrap()` panic). -/
theorem C20_chunks_nonempty (n : Nat) (hints : List (List Nat)) : ∀ g ∈ safeChunks n hints, g ≠ [] :=
  safeChunks_groups_nonempty n hints

example : safeChunks 0 [[1, 7], [6, 8]] = [] := by decide

/-- The source still contains the grow-only guard in `load_pages` (repaired defect F-20); the
    iterator theorems below are about `truncating := false`, which is this form. -/
theorem C20_code_is_grow_only : Gen.loadPagesGrowGuard = "self.page_texts.len() < page_num_as_index + 1" := by
  decide

/-- **The iterator visits exactly the pages of its groups.**  For every document, every state of
    the page-text vector and every list of non-empty groups of positive page numbers — in any
    order, with repetitions — `OptimizedPageIter` yields the pages of the groups in order, each
    with the text of that very page, and does not panic. -/
theorem C20_iter_visits_all {T : Type} (doc : Nat → T) (v : List (Option T)) (groups : List (List Nat))
    (h : ∀ g ∈ groups, g ≠ [] ∧ ∀ p ∈ g, 0 < p) :
    iterGroups false doc v groups = (groups.flatten.map (fun p => (p, doc p)), none) :=
  iterGroups_ok false doc groups v h (by intro h; cases h)

example : (∀ g ∈ ([[4, 2], [3, 3, 1]] : List (List Nat)), g ≠ [] ∧ ∀ p ∈ g, 0 < p) := by decide

/-- The code as originally written (`Vec::resize` also shrinking) satisfies the same statement only
    for groups in non-decreasing order … -/
theorem C20_iter_visits_all_truncating_partial {T : Type} (doc : Nat → T) (v : List (Option T))
    (groups : List (List Nat)) (h : ∀ g ∈ groups, g ≠ [] ∧ ∀ p ∈ g, 0 < p)
    (hs : ∀ g ∈ groups, g.Pairwise (· ≤ ·)) :
    iterGroups true doc v groups = (groups.flatten.map (fun p => (p, doc p)), none) :=
  iterGroups_ok true doc groups v h (fun _ => hs)

example : ∀ g ∈ Gen.statementPageHints, g.Pairwise (· ≤ ·) := by decide

/-- … and panics before yielding page 4 for the groups `[[1,3],[4,2]]` (F-20, repaired). -/
theorem C20_iter_truncating_counterexample :
    iterGroups true (fun p => p) [] [[1, 3], [4, 2]] = ([(1, 1), (3, 3)], some (.indexOob 4)) := by
  decide

/-- **End to end.**  For every page count and every hint list whatsoever, the pipeline of
    `parse_statement` (hints → safe chunks → iterator over a fresh vector) does not panic and yields
    exactly the scheduled pages, each with its own text … -/
theorem C20_visit_all_pages {T : Type} (doc : Nat → T) (n : Nat) (hints : List (List Nat)) :
    visit false doc n hints = ((safeChunks n hints).flatten.map (fun p => (p, doc p)), none) := by
  unfold visit
  apply C20_iter_visits_all
  intro g hg
  refine ⟨C20_chunks_nonempty n hints g hg, fun p hp => ?_⟩
  have : p ∈ (safeChunks n hints).flatten := List.mem_flatten.mpr ⟨g, hg, hp⟩
  have := (C20_chunks_cover n hints p).mp this
  omega

/-- … so a page number is visited iff it is a page of the document. -/
theorem C20_visit_no_page_skipped {T : Type} (doc : Nat → T) (n : Nat) (hints : List (List Nat)) (p : Nat) :
    p ∈ (visit false doc n hints).1.map (·.1) ↔ 1 ≤ p ∧ p ≤ n := by
  rw [C20_visit_all_pages, List.map_map]
  have : ((fun x : Nat × T => x.1) ∘ fun p => (p, doc p)) = id := by funext x; rfl
  rw [this, List.map_id, C20_chunks_cover]

/-- The hints in the code (`[[1,7],[6,8]]`, regenerated from the source) for every page count:
    no panic, and every page of the document is visited exactly once. -/
theorem C20_hints_in_code_ok {T : Type} (doc : Nat → T) (n : Nat) :
    (visit false doc n Gen.statementPageHints).2 = none ∧
    ((visit false doc n Gen.statementPageHints).1.map (·.1)).Perm (List.range' 1 n) := by
  rw [C20_visit_all_pages, List.map_map]
  have : ((fun x : Nat × T => x.1) ∘ fun p => (p, doc p)) = id := by funext x; rfl
  rw [this, List.map_id]
  exact ⟨rfl, C20_chunks_each_once n _ (by decide)⟩

example : (visit false (fun p => p) 9 Gen.statementPageHints).1.map (·.1) = [1, 7, 6, 8, 2, 3, 4, 5, 9] := by
  decide

/-! ## Part 2 — every listed security exactly once, with the total and the month -/

/-- **Each security once.**  For every allocation table `t` in the documented layout
    (`Table.WF`: any number of rows including none; descriptions over any number of lines, with
    any tokens — digits included — that do not begin with the bullet; figures at the end of the
    last description line or on their own line; arbitrary other text before the header, between
    header and first row, and after the total) and every page text that equals the layout up to
    blank lines, `parse_page` returns exactly the table's rows, in order, each with its
    description, allocation and market value, and the table total.

    `_partial`: `SecRow.WF.no_early_total` is a restriction beyond the layout — see the
    counterexample below. -/
theorem C20_each_security_once_partial (t : Table) (h : t.WF) (lines : List Line)
    (hl : lines.filter nonblank = t.layout.filter nonblank) :
    parsePage lines = .ok (t.rows.map SecRow.toFmv, t.totalVal) := by
  rw [← parsePage_filter lines, hl, parsePage_filter, parsePage_layout t h]

/-- Rows whose continuation lines (and own-line figures) never look like the total row satisfy the
    restriction outright: this is every table without a 100 % holding. -/
theorem C20_no_lookalike_suffices (r : SecRow) (h : ∀ l ∈ r.tail, totalRow l = none) :
    ∀ pre l post, r.tail = pre ++ l :: post → totalRow l ≠ none → secData (r.head ++ pre.flatten) = none := by
  intro pre l post heq hl
  exact absurd (h l (by rw [heq]; simp)) hl

/-- So does a single 100 % holding whose figures stand on their own line — the case the code
    special-cases — as long as the description itself does not end in two number-like tokens. -/
theorem C20_single_holding_suffices (r : SecRow) (ho : r.ownLine = true)
    (hm : ∀ l ∈ r.more, totalRow l = none) (hd : secData r.descToks = none) :
    ∀ pre l post, r.tail = pre ++ l :: post → totalRow l ≠ none → secData (r.head ++ pre.flatten) = none := by
  intro pre l post heq hl
  simp only [SecRow.tail, ho, if_true] at heq
  simp only [SecRow.head, ho, if_true]
  -- `l` is either one of the continuation lines (excluded by `hm`) or the figures line
  have hmem : l ∈ r.more ++ [[r.alloc, r.fmv]] := by rw [heq]; simp
  rcases List.mem_append.mp hmem with hmem | hmem
  · exact absurd (hm l hmem) hl
  · -- then `pre = r.more`
    have hlen := congrArg List.length heq
    have hpre : pre = r.more ∧ post = [] := by
      have hl' : l = [r.alloc, r.fmv] := by simpa using hmem
      subst hl'
      by_cases hp : post = []
      · subst hp
        have := List.append_inj' heq (by simp)
        exact ⟨this.1.symm, rfl⟩
      · -- the figures line would have to occur among the continuation lines
        exfalso
        have hsplit : r.more ++ [[r.alloc, r.fmv]] = (pre ++ [[r.alloc, r.fmv]] ++ post.dropLast) ++ [post.getLast hp] := by
          rw [heq]; simp [List.dropLast_concat_getLast hp]
        have := List.append_inj' hsplit (by simp)
        have hin : [r.alloc, r.fmv] ∈ r.more := by rw [this.1]; simp
        exact hl (hm _ hin)
    rw [hpre.1]; exact hd

/-- Non-vacuity: the three tables of the repository's own unit test (several rows, descriptions
    over three lines with digits, figures inline and on their own line; no rows; a single 100 %
    holding whose figures line looks like the total row) are well-formed, so the theorem applies. -/
def exRowA : SecRow :=
  { first := ["BLABLA".toList, "ETF".toList, "(BLABLA)".toList], more := [],
    alloc := "80.0".toList, fmv := "80,000.0".toList, ownLine := false, allocVal := 80, fmvVal := 80000 }
def exRowB : SecRow :=
  { first := ["ANOTHER".toList, "GIC".toList, "01/01/2025".toList],
    more := [["5.00%".toList, "2Y".toList, "CPD".toList, "DUE".toList, "01/01/2025".toList, "INT".toList, "5.00%".toList],
             ["(YYYYYY)".toList]],
    alloc := "15.0".toList, fmv := "15,000.0".toList, ownLine := true, allocVal := 15, fmvVal := 15000 }
def exRowSingle : SecRow :=
  { first := ["SOME".toList, "GIC".toList, "01/01/2024".toList],
    more := [["4.00%".toList, "1Y".toList, "DUE".toList, "01/01/2024".toList, "INT".toList, "4.000%".toList, "(XXXXXX)".toList]],
    alloc := "100.0".toList, fmv := "99,999.99".toList, ownLine := true, allocVal := 100, fmvVal := 9999999 / 100 }
def exHeader : Line := ["ALLOCATION".toList, "(%)²".toList, "MARKET".toList, "VALUE".toList, "($)³".toList]
def exTable (rows : List SecRow) : Table :=
  { pre := [["Securities".toList, "Owned".toList]], header := exHeader, mid := [], rows := rows,
    totalLead := "100.0".toList, total := "100,000.01".toList, totalVal := 10000001 / 100, post := [["x".toList]] }

example : (exTable [exRowA, exRowB]).WF := Table.wf_of_wfb (by decide +kernel)
example : (exTable []).WF := Table.wf_of_wfb (by decide +kernel)
example : (exTable [exRowSingle]).WF := Table.wf_of_wfb (by decide +kernel)
example : totalRow [exRowSingle.alloc, exRowSingle.fmv] ≠ none := by decide +kernel

/-- **The restriction is needed (open finding F-20b).**  A single 100 % holding in the documented
    layout — figures on their own line — whose description ends in two number-like tokens
    (`GOVT BOND 2.5 2030`) is returned with the tail of its description as allocation and market
    value, and its real figures line is taken for the table total. -/
def cexRow : SecRow :=
  { first := ["GOVT".toList, "BOND".toList, "2.5".toList, "2030".toList], more := [],
    alloc := "100.0".toList, fmv := "50,000.00".toList, ownLine := true, allocVal := 100, fmvVal := 50000 }

theorem C20_numeric_tail_counterexample :
    parsePage (exTable [cexRow]).layout
      = .ok ([{ desc := ["GOVT".toList, "BOND".toList], alloc := 5 / 2, fmv := 2030 }], 50000) ∧
    parsePage (exTable [cexRow]).layout ≠ .ok ([cexRow.toFmv], (exTable [cexRow]).totalVal) := by
  constructor <;> decide +kernel

/-- **Statement level.**  If the first page carrying the `Securities Owned Combined in (CAD)`
    marker holds a well-formed table, no earlier page (nor that page) has an unreadable date after
    `Current month:`, and a statement date has been seen by then, `parse_statement_text` returns
    that month, every row of the table once, and the total — whatever other pages surround them. -/
theorem C20_statement_partial (before after : List Page) (pg : Page) (t : Table) (d : Int)
    (hb : ∀ p ∈ before, p.marker = false ∧ p.month ≠ .invalid)
    (hm : pg.marker = true) (hpm : pg.month ≠ .invalid)
    (ht : t.WF) (hl : pg.lines.filter nonblank = t.layout.filter nonblank)
    (hd : monthAfter none ((before ++ [pg]).map (·.month)) = some d) :
    parseStatement (before ++ pg :: after)
      = .ok { month := d, fmvs := t.rows.map SecRow.toFmv, total := t.totalVal } := by
  unfold parseStatement
  rw [parseStatementFrom_skip (pg :: after) before none hb]
  have hpage := C20_each_security_once_partial t ht pg.lines hl
  simp only [List.map_append, List.map_cons, List.map_nil] at hd
  generalize hm0 : monthAfter none (before.map (·.month)) = m0 at hd ⊢
  -- `monthAfter` over the appended last hit
  have happ : ∀ (hs : List MonthHit) (m : Option Int) (x : MonthHit),
      monthAfter m (hs ++ [x]) = monthAfter (monthAfter m hs) [x] := by
    intro hs
    induction hs with
    | nil => intro m x; rfl
    | cons h hs ih =>
      intro m x
      cases m with
      | some d' => simp [monthAfter, ih]
      | none => cases h <;> simp [monthAfter, ih]
  rw [happ, hm0] at hd
  cases m0 with
  | some d0 =>
    simp only [monthAfter] at hd
    cases hd
    simp [parseStatementFrom, updMonth, hm, hpage]
  | none =>
    cases hp : pg.month with
    | absent => rw [hp] at hd; simp [monthAfter] at hd
    | badName => rw [hp] at hd; simp [monthAfter] at hd
    | invalid => exact absurd hp hpm
    | date d1 =>
      rw [hp] at hd; simp only [monthAfter] at hd; cases hd
      simp [parseStatementFrom, updMonth, hm, hpage, hp]

example : monthAfter none ([.absent, .badName, .date 2460369, .date 5].map id) = some 2460369 := by decide

end Acb
