import AcbModel.Basic.Num
import AcbModel.Basic.Text
