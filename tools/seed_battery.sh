#!/bin/bash
# runs seeded changes against their own property's quick check (plus extra checks listed in
# seeded/<id>/extra_checks, if present) and writes seeded/RESULTS.tsv (or RESULTS_<tag>.tsv)
# usage: tools/seed_battery.sh [glob-of-ids, default 'C??-*'] [tag]
cd /verif
PAT=${1:-C??-*}
OUT=seeded/RESULTS${2:+_$2}.tsv
: > $OUT
for d in seeded/$PAT; do
  [ -f $d/patch.diff ] || continue
  id=$(basename $d)
  pids=${id%%-*}
  [ -f $d/extra_checks ] && pids="$pids $(cat $d/extra_checks)"
  tools/seed_run.sh $id $pids | while read -r line; do echo "$line" | tr ' ' '\t' >> $OUT; done
done
