#!/bin/bash
# runs every seeded change against its own property's quick check (plus extra checks listed in
# seeded/<id>/extra_checks, if present) and writes seeded/RESULTS.tsv
cd /verif
: > seeded/RESULTS.tsv
for d in seeded/C??-?; do
  id=$(basename $d)
  pids=${id%%-*}
  [ -f $d/extra_checks ] && pids="$pids $(cat $d/extra_checks)"
  tools/seed_run.sh $id $pids | while read -r line; do echo "$line" | tr ' ' '\t' >> seeded/RESULTS.tsv; done
done
