#!/bin/bash
# Line coverage of /repo/src by the harness families (quick-tier case counts): which code of
# tsiemens/acb the correspondence check never executes.  Diagnostic only (not a registered check).
# usage: tools/coverage.sh [outdir]   (needs the nightly toolchain's llvm-tools; offline)
set -eu
OUT=${1:-/tmp/acbcov}
TOOLS=$(dirname $(rustc +nightly --print target-libdir))/bin
rm -rf $OUT; mkdir -p $OUT/raw
cd /verif/harness
export CARGO_NET_OFFLINE=true
# build scripts of instrumented crates write their own profiles into the crate directories: keep them in $OUT
export LLVM_PROFILE_FILE=$OUT/raw/build-%p-%m.profraw
CARGO_TARGET_DIR=$OUT/target RUSTFLAGS="-C instrument-coverage" cargo build --release --offline 2>&1 | tail -2
BIN=$OUT/target/release/acb_verif_harness
python3 - "$BIN" "$OUT" <<'PY'
import json, glob, os, subprocess, sys
binp, out = sys.argv[1], sys.argv[2]
fams = {}
for f in glob.glob('/verif/tools/propcfg/C*.json'):
    for fam in json.load(open(f)).get('families', []):
        fams[fam['name']] = max(fams.get(fam['name'], 0), fam.get('quick', 100))
env = dict(os.environ, LLVM_PROFILE_FILE=out + '/raw/%p-%m.profraw')
for name, n in sorted(fams.items()):
    r = subprocess.run([binp, name, '--seed', '1', '--count', str(n)], env=env, stdout=subprocess.DEVNULL, stderr=subprocess.DEVNULL, timeout=3600)
    print(name, n, 'rc', r.returncode, flush=True)
PY
$TOOLS/llvm-profdata merge -sparse $OUT/raw/*.profraw -o $OUT/all.profdata
$TOOLS/llvm-cov report $BIN -instr-profile=$OUT/all.profdata --ignore-filename-regex='(\.cargo|rustc|/verif/harness|/rustlib/)' > $OUT/report.txt
$TOOLS/llvm-cov show $BIN -instr-profile=$OUT/all.profdata --ignore-filename-regex='(\.cargo|rustc|/verif/harness|/rustlib/)' --show-line-counts-or-regions > $OUT/show.txt
grep -E "^(/repo|repo_link|\.\./)|TOTAL|src/" $OUT/report.txt | awk '{print $1, $(NF-3), $(NF-2), $(NF-1)}' | head -100
