#!/bin/bash
# verify every mutation directory under the given roots, sequentially (shared target dir)
for root in "$@"; do
  for d in $root/C??-?; do
    id=$(basename $d)
    [ -f /verif/seeded/$id/verify.json ] && continue
    [ -f $d/patch.diff ] || continue
    /verif/tools/seed_verify.sh $d $id
  done
done
git -C /repo worktree remove --force ${SEED_WT:-/tmp/seedwt} 2>/dev/null
rm -rf ${SEED_TARGET:-/tmp/seedwt_target}
