#!/bin/bash
# Runs the registered quick checks against a seeded change: apply to /repo, ./check <pids>, undo.
# usage: tools/seed_run.sh <id> [pid ...]   (default pid = prefix of id)
# Writes seeded/<id>/check_<pid>.log (tail), seeded/<id>/replay_<pid>.json (first replay), result line.
set -u
ID=$1; shift
PIDS=${@:-${ID%%-*}}
D=/verif/seeded/$ID
cd /verif
if [ -n "$(git -C /repo status --porcelain)" ]; then echo "repo not clean"; exit 3; fi
git -C /repo apply $D/patch.diff || { echo "$ID: patch does not apply"; exit 3; }
for p in $PIDS; do
  rm -f replays/$p-*.json
  ./check $p ${SEED_TIER:+--tier $SEED_TIER} > /tmp/seedrun_${ID}_${p}.log 2>&1; rc=$?
  grep -E "^(VIOLATION|KNOWN-FINDING|C[0-9]+ (quick|thorough))" /tmp/seedrun_${ID}_${p}.log | head -12 > $D/check_$p.log
  nv=$(grep -c "^VIOLATION" /tmp/seedrun_${ID}_${p}.log)
  nf=$(grep "^VIOLATION" /tmp/seedrun_${ID}_${p}.log | grep -c "no-failing-input-found")
  first=$(grep "^VIOLATION" /tmp/seedrun_${ID}_${p}.log | head -1 | sed -E 's/.*replay=([^ ]+).*/\1/')
  [ -n "$first" ] && [ -f "$first" ] && cp "$first" $D/replay_$p.json
  echo "$ID check=$p rc=$rc violations=$nv without_input=$nf"
  echo "rc=$rc violations=$nv without_input=$nf" >> $D/check_$p.log
  rm -f /tmp/seedrun_${ID}_${p}.log
done
git -C /repo checkout -- . ; git -C /repo clean -fdq
git -C /verif checkout -- evidence
