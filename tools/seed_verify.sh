#!/bin/bash
# Confirms a seeded change in a scratch worktree of /repo (HEAD): (a) it applies, compiles and the
# pinned suite passes with it, (b) its demonstration fails with it, (c) and passes without it.
# usage: tools/seed_verify.sh <srcdir with patch.diff demo_test.rs notes.md> <id>
# Result: /verif/seeded/<id>/{patch.diff,demo_test.rs,notes.md,verify.json}
set -u
SRC=$1; ID=$2
WT=${SEED_WT:-/tmp/seedwt}
export CARGO_TARGET_DIR=${SEED_TARGET:-/tmp/seedwt_target}
export CARGO_NET_OFFLINE=true
OUT=/verif/seeded/$ID
mkdir -p $OUT
[ "$SRC/patch.diff" -ef "$OUT/patch.diff" ] || cp $SRC/patch.diff $OUT/patch.diff
for f in $SRC/*; do b=$(basename $f); case $b in patch.diff|verify.json|meta.json|check_*.log|replay_*.json) ;; *) [ "$f" -ef "$OUT/$b" ] || cp $f $OUT/$b;; esac; done
if [ ! -d $WT ]; then git -C /repo worktree add --detach $WT HEAD >/dev/null 2>&1 || exit 3; fi
cd $WT && git checkout -q --detach $(git -C /repo rev-parse HEAD) && git checkout -q -- . && git clean -fdq
FEAT=""; case $ID in C14-*) FEAT="--features verif_hooks";; esac
applies=false; suite=unknown; demo_with=unknown; demo_without=unknown
if git apply --check $OUT/patch.diff 2>/dev/null; then
  applies=true
  git apply $OUT/patch.diff
  cargo test --workspace --no-fail-fast --offline > /tmp/seed_$ID.suite.log 2>&1
  failed=$(grep -E "^test .* FAILED$" /tmp/seed_$ID.suite.log | grep -v test_sample_csv_file_validity | wc -l)
  passed=$(grep -E "^test result:" /tmp/seed_$ID.suite.log | sed -E 's/.* ([0-9]+) passed.*/\1/' | paste -sd+ | bc)
  if grep -q "error\[E\|could not compile" /tmp/seed_$ID.suite.log; then suite="does-not-compile"; elif [ "$failed" = 0 ]; then suite="pass($passed passed)"; else suite="FAILS($failed)"; fi
  if [ -f $OUT/demo_test.rs ]; then
    cp $OUT/demo_test.rs tests/demo_test.rs
    if cargo test --offline $FEAT --test demo_test > /tmp/seed_$ID.with.log 2>&1; then demo_with=pass; else demo_with=fail; fi
    git apply -R $OUT/patch.diff
    if cargo test --offline $FEAT --test demo_test > /tmp/seed_$ID.without.log 2>&1; then demo_without=pass; else demo_without=fail; fi
    rm -f tests/demo_test.rs
  else
    # demo.sh: run from the repository root, exits non-zero on violation (scripts use target/debug/...)
    [ -e target ] || ln -sfn $CARGO_TARGET_DIR target
    if bash $OUT/demo.sh > /tmp/seed_$ID.with.log 2>&1; then demo_with=pass; else demo_with=fail; fi
    git apply -R $OUT/patch.diff
    if bash $OUT/demo.sh > /tmp/seed_$ID.without.log 2>&1; then demo_without=pass; else demo_without=fail; fi
  fi
fi
git checkout -q -- . ; git clean -fdq
cat > $OUT/verify.json <<J
{"id":"$ID","repo_head":"$(git -C /repo rev-parse --short HEAD)","applies":$applies,"suite_with_patch":"$suite","demo_with_patch":"$demo_with","demo_without_patch":"$demo_without"}
J
cat $OUT/verify.json
rm -f /tmp/seed_$ID.*.log
