#!/usr/bin/env python3
"""(Re)writes seeded/<id>/meta.json from notes.md, verify.json, the first-run record and the latest
battery results (seeded/RESULTS.tsv)."""
import json, os, re, glob
ROOT = os.path.join(os.path.dirname(os.path.abspath(__file__)), "..")
def load_tsv(name):
    res = {}
    p = os.path.join(ROOT, "seeded", name)
    if os.path.exists(p):
        for l in open(p):
            f = l.strip().split("\t")
            if len(f) >= 5:
                res.setdefault(f[0], []).append({"check": f[1].split("=")[1], "exit_code": int(f[2].split("=")[1]),
                    "violation_lines": int(f[3].split("=")[1] or 0), "without_input": int(f[4].split("=")[1])})
    return res
final = load_tsv("RESULTS.tsv")
r2 = load_tsv("RESULTS_round2.tsv")
r3 = load_tsv("RESULTS_round3.tsv")
r4 = load_tsv("RESULTS_round4.tsv")
r5 = load_tsv("RESULTS_round5.tsv")
r6 = load_tsv("RESULTS_round6.tsv")
r7 = load_tsv("RESULTS_round7.tsv")
r8 = load_tsv("RESULTS_round8.tsv")
def verdict(rs, own):
    mine = [x for x in rs if x["check"] == own]
    if not mine: return "not run"
    x = mine[0]
    if x["exit_code"] == 0:
        others = [y["check"] for y in rs if y["check"] != own and y["exit_code"] == 1]
        return "missed" + (f" by {own}'s own check (caught by {'/'.join(sorted(set(others)))})" if others else "")
    return "caught, no input" if x["without_input"] else "caught with a concrete input"
for d in sorted(glob.glob(os.path.join(ROOT, "seeded", "C??-*")), key=lambda x: (os.path.basename(x).split("-")[0], int(os.path.basename(x).split("-")[1]))):
    id = os.path.basename(d)
    notes = open(d + "/notes.md").read() if os.path.exists(d + "/notes.md") else ""
    def sec(name):
        m = re.search(r"\*\*" + name + r"[^*]*\*\*:?\s*(.*?)(?=\n\s*\n\*\*|\Z)", notes, re.S)
        return re.sub(r"\s+", " ", m.group(1)).strip() if m else ""
    title = notes.splitlines()[0].lstrip("# ").strip() if notes else id
    ver = json.load(open(d + "/verify.json")) if os.path.exists(d + "/verify.json") else {}
    files = sorted(set(re.findall(r"^\+\+\+ b/(\S+)", open(d + "/patch.diff").read(), re.M)))
    old = json.load(open(d + "/meta.json")) if os.path.exists(d + "/meta.json") else {}
    n = int(id.split("-")[1])
    rnd = 8 if n >= 14 else 7 if n >= 13 else 6 if n >= 11 else 5 if n >= 9 else (4 if n >= 7 else (3 if n >= 5 else (2 if n >= 3 else 1)))
    first = old.get("checks_run", {}).get("first_round") if rnd == 1 else verdict({2: r2, 3: r3, 4: r4, 5: r5, 6: r6, 7: r7, 8: r8}[rnd].get(id, []), id.split("-")[0])
    meta = {"id": id, "property": id.split("-")[0], "round": rnd, "title": title, "files_touched": files,
            "origin": "written by an independent sub-agent that was given only the property text and a scratch git worktree of /repo (nothing from /verif)" + ("; second round, after the checks had been strengthened against the first 40" if rnd == 2 else ("; third round, after two rounds of strengthening" if rnd == 3 else ("; fourth round, after three rounds of strengthening" if rnd == 4 else ("; fifth round, after four rounds of strengthening" if rnd == 5 else ("; sixth round, after five rounds of strengthening" if rnd == 6 else ("; seventh round (one change per property), after six rounds of strengthening" if rnd == 7 else ("; eighth round (session 9: two changes aimed at the code between the ledger and the cost report, after the ledger-to-report bridge theorems were added)" if rnd == 8 else ""))))))),
            "change": sec("Change"), "what_goes_wrong": sec("What goes wrong"),
            "needs_to_manifest": sec("Needs in order to manifest") or sec("Needs, in order to manifest") or sec("Needed to manifest") or sec("Needs"),
            "why_tests_miss": sec("Why the existing tests do not notice") or sec("Why the tests do not notice"),
            "confirmed_by_me": {"how": "tools/seed_verify.sh in a scratch worktree of /repo: patch applies; cargo test --workspace --no-fail-fast --offline with the patch; the demonstration (tests/demo_test.rs or demo.sh, public API / CLI only) with and without the patch", **ver},
            "checks_run": {"how": "tools/seed_run.sh: git -C /repo apply patch.diff; ./check <pid> (quick tier, seed 1); git -C /repo checkout -- .",
                           "first_round": first, "final_round": final.get(id, [])}}
    def hsec(*names):   # notes written with "## heading" sections
        for nm in names:
            m = re.search(r"^##\s*" + nm + r"[^\n]*\n(.*?)(?=^##\s|\Z)", notes, re.S | re.M)
            if m: return re.sub(r"\s+", " ", m.group(1)).strip()[:1500]
        return ""
    if not meta["change"]: meta["change"] = hsec("The change")
    if not meta["what_goes_wrong"]: meta["what_goes_wrong"] = hsec("What goes wrong")
    if not meta["needs_to_manifest"]: meta["needs_to_manifest"] = hsec("What it needs")
    json.dump(meta, open(d + "/meta.json", "w"), indent=1)
print("ok")
