#!/usr/bin/env python3
"""Regenerates /verif/MANIFEST.json from tools/manifest/<Cxx>.json (claimed properties) and
tools/manifest/not_applicable.json ({"Cxx": reason}); every property of properties.jsonl must be in one."""
import glob, json, os, sys
ROOT = os.path.join(os.path.dirname(os.path.abspath(__file__)), "..")
props = [json.loads(l)["id"] for l in open(os.path.join(ROOT, "properties.jsonl"))]
claimed = {}
for f in sorted(glob.glob(os.path.join(ROOT, "tools", "manifest", "C*.json"))):
    claimed[os.path.basename(f)[:-5]] = json.load(open(f))
na_path = os.path.join(ROOT, "tools", "manifest", "not_applicable.json")
na = json.load(open(na_path)) if os.path.exists(na_path) else {}
checks = []
for pid in props:
    if pid in claimed:
        c = claimed[pid]
        checks.append({
            "property_id": pid,
            "quick_cmd": f"./check {pid} --tier quick",
            "thorough_cmd": f"./check {pid} --tier thorough",
            "evidence_file": f"/verif/evidence/{pid}.json",
            "replay_cmd_template": f"./check {pid} --replay {{path}}",
            "engine": "lean4-model+rust-harness",
            "level_claimed": {"category": c.get("category", "proof"), "text": c["text"], "design_ref": c.get("design_ref", "DESIGN.md section 5 " + pid)},
            "level_note": c["note"],
            "technique": c["technique"]})
nal = [{"property_id": p, "reason": na.get(p, "check not built yet (work in progress; DESIGN.md section 5 has the plan)")} for p in props if p not in claimed]
m = {"version": 1, "setup_cmd": "./setup.sh",
     "hooks": {"guard": "cargo feature verif_hooks",
               "enable": "harness/Cargo.toml depends on acb (path ../repo_link -> /repo) with feature verif_hooks; built by cargo build --release --offline in /verif/harness",
               "baseline_off_cmd": "cd /repo && cargo test --workspace --no-fail-fast --offline",
               "source_commits": json.load(open(os.path.join(ROOT, "tools", "manifest", "hooks.json")))["source_commits"],
               "add_only": True},
     "engines": [{"name": "lean4-model+rust-harness", "path": "/verif/lean, /verif/harness, /verif/check",
                  "serves_properties": sorted(claimed.keys()),
                  "kind_free_text": "Lean 4 model + theorems (lake), compiled model driver, Rust differential harness linking /repo, python orchestration"}],
     "checks": checks,
     "notes": "Defects repaired in /repo (fix: commits) and open findings are listed in known_findings.json.",
     "not_applicable": nal}
json.dump(m, open(os.path.join(ROOT, "MANIFEST.json"), "w"), indent=1)
print("claimed", sorted(claimed.keys()))
