#!/usr/bin/env python3
"""Resolves the routine conflicts of merging a builder branch: union of known findings (by id),
union of import lines in lean/AcbModel.lean, regenerated MANIFEST.json."""
import json, subprocess, sys, os
ROOT = os.path.join(os.path.dirname(os.path.abspath(__file__)), "..")
def stage(n, path):
    return subprocess.run(["git", "-C", ROOT, "show", f":{n}:{path}"], capture_output=True, text=True).stdout
def conflicted(path):
    return subprocess.run(["git", "-C", ROOT, "ls-files", "-u", path], capture_output=True, text=True).stdout.strip() != ""
if conflicted("known_findings.json"):
    ours = json.loads(stage(2, "known_findings.json")); theirs = json.loads(stage(3, "known_findings.json"))
    ids = {e["id"] for e in ours}
    merged = ours + [e for e in theirs if e["id"] not in ids]
    json.dump(merged, open(os.path.join(ROOT, "known_findings.json"), "w"), indent=1)
    print("known_findings merged:", len(merged))
if conflicted("lean/AcbModel.lean"):
    a = stage(2, "lean/AcbModel.lean").splitlines(); b = stage(3, "lean/AcbModel.lean").splitlines()
    out = list(a) + [l for l in b if l not in a]
    open(os.path.join(ROOT, "lean/AcbModel.lean"), "w").write("\n".join(out) + "\n")
    print("AcbModel.lean merged")

import re
def union_conflicts(path):
    full = os.path.join(ROOT, path)
    s = open(full).read()
    if "<<<<<<< " not in s:
        return
    pat = re.compile(r"<<<<<<< [^\n]*\n(.*?)=======\n(.*?)>>>>>>> [^\n]*\n", re.S)
    dedup = path.endswith("AcbModel.lean") or path.endswith("Main.lean")
    s2 = pat.sub(lambda m: m.group(1) + "".join(l for l in m.group(2).splitlines(True) if not (dedup and l in m.group(1).splitlines(True))), s)
    open(full, "w").write(s2)
    print("union-resolved", path)
for p in sys.argv[1:]:
    union_conflicts(p)
