#!/bin/sh
# usage: tools/seedsweep.sh "C01 C02 ..." "1 2 3"   -- runs quick checks over several seeds, prints violations
cd "$(dirname "$0")/.."
for p in $1; do
  for sd in $2; do
    out=$(VERIF_SEED=$sd ./check $p 2>/dev/null)
    v=$(echo "$out" | grep -c VIOLATION)
    if [ "$v" != "0" ]; then echo "$p seed=$sd: $(echo "$out" | grep VIOLATION)"; cp replays/$p-$sd-0.json /tmp/sweep-$p-$sd.json 2>/dev/null; fi
  done
  echo "$p done"
done
