#!/usr/bin/env python3
"""Rewrites the generated regions of DESIGN.md (findings table, seeded-change table) from
known_findings.json and seeded/*/meta.json + seeded/RESULTS.tsv.  Regions are delimited by
<!-- BEGIN x --> / <!-- END x --> comment lines."""
import json, glob, os, re
ROOT = os.path.join(os.path.dirname(os.path.abspath(__file__)), "..")
def frow(e):
    disp = ("fixed `" + e["commit"] + "`" + (" + `" + e["also_commit"] + "`" if e.get("also_commit") else "")) if e["status"] == "fixed" else "**open** (known finding)"
    return f"| {e['id']} | {e['property']} | {disp} | {e['what'].replace('|', '/')} |"
k = json.load(open(os.path.join(ROOT, "known_findings.json")))
ftable = "| id | property | disposition | what failed |\n|---|---|---|---|\n" + "\n".join(frow(e) for e in k)
res = {}
p = os.path.join(ROOT, "seeded", "RESULTS.tsv")
if os.path.exists(p):
    for l in open(p):
        f = l.strip().split("\t")
        if len(f) >= 5:
            res.setdefault(f[0], []).append((f[1].split("=")[1], int(f[2].split("=")[1]), int(f[4].split("=")[1])))
rows = []
for d in sorted(glob.glob(os.path.join(ROOT, "seeded", "C??-*")), key=lambda x: (os.path.basename(x).split("-")[0], int(os.path.basename(x).split("-")[1]))):
    mp = os.path.join(d, "meta.json")
    if not os.path.exists(mp):
        continue
    m = json.load(open(mp))
    fin = res.get(m["id"], [])
    seen = set(); finals = []
    for (chk, rc, noinp) in fin:
        if chk in seen: continue
        seen.add(chk)
        finals.append(f"{chk}: " + ("input" if rc == 1 and noinp == 0 else ("no-failing-input-found" if rc == 1 else "missed")))
    n = int(m["id"].split("-")[1]); rnd = "8" if n >= 14 else "7" if n >= 13 else "6" if n >= 11 else "5" if n >= 9 else "4" if n >= 7 else ("3" if n >= 5 else ("2" if n >= 3 else "1"))
    rows.append(f"| {m['id']} | {rnd} | {', '.join(os.path.basename(f) for f in m['files_touched'])} | {m['title'].split('—', 1)[-1].strip()} | {m['checks_run']['first_round']} | {'; '.join(finals)} |")
stable = "| id | round | file | change | when first run | final run |\n|---|---|---|---|---|---|\n" + "\n".join(rows)
STATUS = {
 "C01": ("full (ledger and pipeline)", "`C01_refines_spec`, `C01_row`, `C01_registered`, `C01_affiliates_independent`, `C01_pipeline`"),
 "C02": ("full (the rule, and its hypotheses for every reachable state)", "`C02_superficial_iff`, `C02_ratio`, `C02_automatic`, `C02_specified`, `C02_rule`, `C02_every_reachable_sale`, `C02_pipeline_histories_sorted`, `C02_comparisons_match_source`, window/tolerance constants"),
 "C03": ("full, ledger and pipeline (the property itself carries the \"not flagged over-applied\" condition)", "`C03_conservation`, `C03_pipeline`, `C03_adjustments_sum`, `C03_never_registered`"),
 "C04": ("full (ledger, pipeline, totals); output modes by oracle", "`C04_nonneg`, `C04_total`, `C04_registered`, `C04_only_user_errors`, `C04_row_rejected_iff`, `C04_sfl_error_iff`, `C04_pipeline`, `C04_rejected_not_in_totals`"),
 "C05": ("core full (ledger, pipeline and cost report); front ends sampled", "`C05_core_no_panic`, `C04_pipeline`, `C05_pipeline_no_panic`"),
 "C06": ("full (render model)", "`C06_year_total`, `C06_table_total`, `C06_aggregate_year`, `C06_since_inception`, `C06_round_spec`, `C06_display_only`"),
 "C07": ("full", "`C07_row_perm`, `C07_column_perm`, `C07_file_partition`, `C07_header_case_pad`, `C07_unknown_columns`, `C07_sort_unique`, …"),
 "C08": ("full (pipeline + gains model)", "`C08_table_local`, `C08_other_rows_irrelevant`, `C08_error_local`, `C08_aggregate_additive`"),
 "C09": ("full for the modelled hash walks; rest sampled across processes", "`C09_deterministic`, `C09_deterministic_ledger`, `C09_ledger_model_rows_ok`, `C09_summary_deterministic`, `C09_split_expansion`, `C09_cost_tables`, `C09_gains_tables`"),
 "C10": ("simple mode full (the generator `makeSummaryTxs` incl. rows carried over); annual mode **partial** (false for the code: F-10c)", "`C10_summary_reproduces_history`, `C10_annual_loss_year_counterexample`, `C10_summary_then_later_partial`, `C10_later_rows_partial`, `C10_later_rows_loss_only_partial`, `C10_no_conflict_is_far`, `C10_simple_rebuilds`, `C10_annual_sell`, `C10_annual_rebuilds`, `C10_summary_date_inclusive`"),
 "C11": ("full on the canonical domain", "`C11_roundtrip`, `C11_idempotent_bytes`, cell theorems, two `_counterexample`s"),
 "C12": ("full", "`C12_effective_eq_spec`, `C12_error_iff_none_exists`, `C12_never_later_at_most_7_days`, currency rules"),
 "C13": ("full", "`C13_transparent`, `C13_cache_stays_trustworthy`, download-count theorems"),
 "C14": ("full for the crash model (process kill observed; power loss model only)", "`C14_crash_safe`, `C14_cache_file_old_or_new_after_kill`, `…_after_power_loss`, `C14_cachefile_roundtrip`"),
 "C15": ("full (ledger model and per-security pipeline)", "`C15_neutral`, `C15_pipeline`, `C15_gains_and_sfl`, `C15_row_figures`, `C15_global_eq_per_affiliate`"),
 "C16": ("full (ledger and per-security pipeline)", "`C16_equiv`, `C16_pipeline`, `C16_other_securities`, `C16_parsed_first`"),
 "C17": ("full", "`C17_day_figures`, `C17_yearly_is_max`, `C17_row_total`, `C17_no_panic`, `C17_ledger_rows_wf` (the theorems' precondition proved for the ledger's output), `C17_ledger_costs_no_panic`, `C17_pipeline_rows_wf`, `C17_pipeline_costs_no_panic` (the same for every input of the pipeline model), …"),
 "C18": ("full (sheet conversion model)", "`C18_one_row_per_trade`, `C18_cash_conservation`, `C18_layout_independent`, `C18_accepted_by_acb`, …"),
 "C19": ("full (matching model)", "`C19_partition`, `C19_unmatched_is_error`, `C19_found_set_is_a_match`, `C19_sorted`, …"),
 "C20": ("pages full; table extraction **partial**", "`C20_visit_all_pages`, `C20_chunks_cover`, `C20_statement_partial`, `C20_numeric_tail_counterexample`"),
}
srows = []
for pid in sorted(STATUS):
    cfg = json.load(open(os.path.join(ROOT, "tools", "propcfg", pid + ".json")))
    fams = ", ".join("`" + f["name"] + "`" for f in cfg["families"])
    fx = [e["id"] for e in k if e["property"] == pid and e["status"] == "fixed"]
    op = [e["id"] for e in k if e["property"] == pid and e["status"] == "open"]
    fnd = "; ".join(x for x in [(", ".join(fx) + " fixed") if fx else "", (", ".join(op) + " open") if op else ""] if x) or "—"
    srows.append(f"| {pid} | {STATUS[pid][0]} | {STATUS[pid][1]} | {fams} | {fnd} |")
status = "| id | proof | main theorems (`lean/AcbModel/Props/`) | tie to the code: harness families | findings |\n|---|---|---|---|---|\n" + "\n".join(srows)
s = open(os.path.join(ROOT, "DESIGN.md")).read()
for name, body in (("FTABLE", ftable), ("STABLE", stable), ("STATUS", status)):
    pat = re.compile(r"(<!-- BEGIN " + name + r" -->\n).*?(<!-- END " + name + r" -->)", re.S)
    assert pat.search(s), name
    s = pat.sub(lambda m: m.group(1) + body + "\n" + m.group(2), s)
open(os.path.join(ROOT, "DESIGN.md"), "w").write(s)
print("findings", len(k), "seeded", len(rows))
