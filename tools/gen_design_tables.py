#!/usr/bin/env python3
"""Rewrites the generated regions of DESIGN.md (findings table, seeded-change table) from
known_findings.json and seeded/*/meta.json + seeded/RESULTS.tsv.  Regions are delimited by
<!-- BEGIN x --> / <!-- END x --> comment lines."""
import json, glob, os, re
ROOT = os.path.join(os.path.dirname(os.path.abspath(__file__)), "..")
def frow(e):
    disp = ("fixed `" + e["commit"] + "`" + (" + `" + e["also_commit"] + "`" if e.get("also_commit") else "")) if e["status"] == "fixed" else "**open** (known finding)"
    return f"| {e['id']} | {e['property']} | {disp} | {e['what'].replace('|', '/')} |"
k = json.load(open(os.path.join(ROOT, "known_findings.json")))
ftable = "| id | property | disposition | what failed |\n|---|---|---|---|\n" + "\n".join(frow(e) for e in k)
res = {}
p = os.path.join(ROOT, "seeded", "RESULTS.tsv")
if os.path.exists(p):
    for l in open(p):
        f = l.strip().split("\t")
        if len(f) >= 5:
            res.setdefault(f[0], []).append((f[1].split("=")[1], int(f[2].split("=")[1]), int(f[4].split("=")[1])))
rows = []
for d in sorted(glob.glob(os.path.join(ROOT, "seeded", "C??-?"))):
    mp = os.path.join(d, "meta.json")
    if not os.path.exists(mp):
        continue
    m = json.load(open(mp))
    fin = res.get(m["id"], [])
    seen = set(); finals = []
    for (chk, rc, noinp) in fin:
        if chk in seen: continue
        seen.add(chk)
        finals.append(f"{chk}: " + ("input" if rc == 1 and noinp == 0 else ("no-failing-input-found" if rc == 1 else "missed")))
    n = int(m["id"].split("-")[1]); rnd = "3" if n >= 5 else ("2" if n >= 3 else "1")
    rows.append(f"| {m['id']} | {rnd} | {', '.join(os.path.basename(f) for f in m['files_touched'])} | {m['title'].split('—', 1)[-1].strip()} | {m['checks_run']['first_round']} | {'; '.join(finals)} |")
stable = "| id | round | file | change | when first run | final run |\n|---|---|---|---|---|---|\n" + "\n".join(rows)
s = open(os.path.join(ROOT, "DESIGN.md")).read()
for name, body in (("FTABLE", ftable), ("STABLE", stable)):
    pat = re.compile(r"(<!-- BEGIN " + name + r" -->\n).*?(<!-- END " + name + r" -->)", re.S)
    assert pat.search(s), name
    s = pat.sub(lambda m: m.group(1) + body + "\n" + m.group(2), s)
open(os.path.join(ROOT, "DESIGN.md"), "w").write(s)
print("findings", len(k), "seeded", len(rows))
