"""Per-property configuration of ./check: which harness families feed a property, how many
cases per tier, which disagreements/oracle failures belong to it, what counts as non-trivial."""

COMMON_TB = [
    "Lean 4.33 kernel; axioms propext, Classical.choice, Quot.sound only (audited by #print axioms on every run)",
    "tools/extract.py (regex translator of constants; each pattern must match exactly once)",
    "correspondence check: harness generators + 1e-9 comparison in the Lean driver (lean/Driver)",
    "modelled, not verified: rust_decimal representation/rounding/overflow, csv/time/regex crates, std HashMap order",
]

LEDGER_ASSUME = [
    "exact rational arithmetic in the model; the implementation's rust_decimal results are compared at 1e-9",
    "input numeric fields: at most 10 decimal places, magnitude below 1e12",
]


def fam(name, quick, thorough, args=None):
    return {"name": name, "quick": quick, "thorough": thorough, "args": args}


PROPS = {
    "C01": {
        "families": [fam("ledger", 3000, 150000)],
        "hist_keys": ["n", "affs", "reg", "sfl", "splits", "out"],
        "rule": "ledger family: generated single-security histories (1-40 rows, 1-4 affiliates, 0-2 registered, CAD/USD/other "
                "currencies, separate commission currency, fractional shares, same-day clusters, splits with non-terminating "
                "factors, optional opening status) through txs_to_delta_list; a case is non-trivial if it has >= 3 rows and at "
                "least one sale with a cost base; distinct = distinct input rows",
        "trusted_base": COMMON_TB,
        "assumptions": LEDGER_ASSUME,
    },
}


def nontrivial(pid, fam, tags):
    if fam == "ledger":
        try:
            n = int(tags.get("n", "0"))
        except ValueError:
            n = 0
        if pid in ("C01",):
            return n >= 3 and tags.get("sells", "1") != "0"
        return n >= 3
    return True


# Which property does a non-ok result of a family belong to?
#  ORACLE results name the properties whose oracle failed in tag `of`.
#  DIFF results carry tag `dk` (diff kind).
LEDGER_DK = {"status": "C01", "sfl": "C02", "outcome": "C04", "panic": "C05"}


def attribute(fam, r):
    if r["verdict"] == "ORACLE":
        return r["tags"].get("of", "?")
    if fam == "ledger":
        return LEDGER_DK.get(r["tags"].get("dk", ""), "C01")
    return "?"


def relevant(pid, fam, r):
    """None if the result does not concern `pid`; 'oracle' or 'diff' otherwise."""
    if r["verdict"] == "ORACLE":
        return "oracle" if pid in r["tags"].get("of", "").split(",") else None
    if r["verdict"] == "DIFF":
        if fam == "ledger":
            owner = LEDGER_DK.get(r["tags"].get("dk", ""), "C01")
            if owner == pid:
                # an implementation panic is directly a failure of C05
                return "oracle" if r["tags"].get("dk") == "panic" else "diff"
            return None
        return "diff"
    return None
