"""Per-property configuration of ./check, loaded from tools/propcfg/<Cxx>.json.

Each config: {
  "families": [{"name": fam, "quick": n, "thorough": n, "args": [...]?, "args_quick": [...]?, "args_thorough": [...]?}],
  "hist_keys": [tag names histogrammed into evidence],
  "rule": text, "trusted_base": [extra entries], "assumptions": [...],
  "owns": {fam: [diff kinds (tag dk) of DIFF results that belong to this property]}   # "*" = all
  "panic_is_failure": bool   # an implementation panic (dk=panic) is directly a property failure
}
Conventions for driver result lines (lean/Driver/Proto.lean):
  res <id> ok|DIFF|ORACLE|BADCASE tag=value... | message
  tag nt=<comma separated property ids>  : the case is non-trivial for these properties
  tag dk=<kind>                          : kind of model/implementation disagreement (DIFF)
  tag of=<comma separated property ids>  : properties whose oracle failed on the implementation (ORACLE)
  tag near=1                             : a model decision sits within 1e-9 of its threshold (skipped)
"""
import glob
import json
import os

HERE = os.path.dirname(os.path.abspath(__file__))

COMMON_TB = [
    "Lean 4.33 kernel; axioms propext, Classical.choice, Quot.sound only (audited by #print axioms on every run)",
    "tools/extract.py (regex translator of constants/tables from /repo source; each pattern must match exactly once)",
    "correspondence check: harness generators + comparison in the Lean driver (lean/Driver); a behaviour no generated case exercises is invisible to the tie",
]

PROPS = {}
for f in sorted(glob.glob(os.path.join(HERE, "propcfg", "C*.json"))):
    c = json.load(open(f))
    pid = os.path.basename(f)[:-5]
    c["trusted_base"] = COMMON_TB + c.get("trusted_base", [])
    c.setdefault("assumptions", [])
    c.setdefault("hist_keys", [])
    c.setdefault("owns", {})
    PROPS[pid] = c


def nontrivial(pid, fam, tags):
    nt = tags.get("nt")
    if nt is None:
        return True
    return pid in nt.split(",")


def owner_of(fam, dk):
    for pid, c in PROPS.items():
        kinds = c["owns"].get(fam)
        if kinds and (dk in kinds or "*" in kinds):
            return pid
    return "?"


def attribute(fam, r):
    if r["verdict"] == "ORACLE":
        return r["tags"].get("of", "?")
    return owner_of(fam, r["tags"].get("dk", ""))


def relevant(pid, fam, r):
    """None if the result does not concern `pid`; 'oracle' or 'diff' otherwise."""
    if r["verdict"] == "ORACLE":
        return "oracle" if pid in r["tags"].get("of", "").split(",") else None
    if r["verdict"] == "DIFF":
        dk = r["tags"].get("dk", "")
        kinds = PROPS[pid]["owns"].get(fam, [])
        if dk in kinds or "*" in kinds:
            if dk == "panic" and PROPS[pid].get("panic_is_failure"):
                return "oracle"
            return "diff"
        return None
    return None
