//! Family `fuzz` (C05): byte-level and option-level fuzzing of the library entry points the CLI
//! and the web UI use (run_acb_app_to_writer with a text writer, summary mode, total costs,
//! --print-full-values, --date-fmt, -b strings), under catch_unwind.  A panic is a failure of C05.
use std::collections::HashMap;

use acb::app::input_parse::parse_initial_status;
use acb::app::outfmt::text::TextWriter;
use acb::app::{run_acb_app_summary_to_model, run_acb_app_to_writer, Options};
use acb::portfolio::io::tx_csv::TxCsvParseOptions;
use acb::util::date::parse_dyn_date_format;
use acb::util::rw::{DescribedReader, WriteHandle};

use crate::app;
use crate::common::*;
use crate::rng::Rng;

fn mutate_bytes(r: &mut Rng, s: &str) -> Vec<u8> {
    let mut b: Vec<u8> = s.as_bytes().to_vec();
    let n = 1 + r.below(4);
    for _ in 0..n {
        if b.is_empty() {
            break;
        }
        let i = r.below(b.len() as u64) as usize;
        match r.below(9) {
            0 => {
                b.remove(i);
            }
            1 => b.insert(i, *r.pick(&[b',', b'"', b'\n', b'\r', b' ', b'-', b'.', b'!', b'0', b'9', 0xC3, 0xFF, b'\t'])),
            2 => b[i] = *r.pick(&[b',', b'"', b'\n', b'x', b'-', b'.', b'/', 0x80, b';']),
            3 => {
                // duplicate a chunk
                let j = (i + 1 + r.below(12) as usize).min(b.len());
                let chunk: Vec<u8> = b[i..j].to_vec();
                for (k, c) in chunk.into_iter().enumerate() {
                    b.insert(j + k, c);
                }
            }
            4 => b.truncate(i),
            5 => {
                // replace a field by an interesting token
                let toks: [&str; 19] = ["", " ", "-0", "0", "0.0000000001", "-1", "abc", "1e5", "1,000", "2020-02-30", "9999-12-31", "1-for-0", "0-for-1", "(R)", "€12.50", "£5", "$12.50", "12.50€", "１２"];
                let t = r.pick(&toks).as_bytes().to_vec();
                let end = b[i..].iter().position(|c| *c == b',' || *c == b'\n').map(|p| i + p).unwrap_or(b.len());
                b.splice(i..end, t);
            }
            6 => {
                // swap two lines
                let text = String::from_utf8_lossy(&b).to_string();
                let mut lines: Vec<&str> = text.split('\n').collect();
                if lines.len() > 2 {
                    let a = r.below(lines.len() as u64) as usize;
                    let c = r.below(lines.len() as u64) as usize;
                    lines.swap(a, c);
                }
                b = lines.join("\n").into_bytes();
            }
            7 => {
                // drop a column from one row (ragged row)
                if let Some(p) = b[i..].iter().position(|c| *c == b',') {
                    b.remove(i + p);
                }
            }
            _ => b.insert(i, b','),
        }
    }
    b
}

pub fn run_case(id: &str, r: &mut Rng, out: &mut String) {
    if r.chance(25) {
        doc_case(id, r, out);
        return;
    }
    let c = app::gen_case(r);
    let csv = app::txs_to_csv(&c.rows);
    let malformed = r.chance(55);
    let bytes = if malformed && r.chance(30) {
        // structured: an odd token in a numeric cell of one row
        let toks: [&str; 16] = ["€12.50", "£5", "$12.50", "12.50€", "１２", "1,000", "1e5", "-0", "+5", " 7 ", ".5", "5.", "0x10", "NaN", "inf", "1_000"];
        let mut lines: Vec<String> = csv.split('\n').map(|l| l.to_string()).collect();
        if lines.len() > 2 {
            let li = 1 + r.below((lines.len() - 2) as u64) as usize;
            let mut cells: Vec<String> = lines[li].split(',').map(|c| c.to_string()).collect();
            let ci = *r.pick(&[4usize, 5, 6, 8, 10, 11]);
            if ci < cells.len() {
                cells[ci] = r.pick(&toks).to_string();
                lines[li] = cells.join(",");
            }
        }
        lines.join("\n").into_bytes()
    } else if malformed {
        mutate_bytes(r, &csv)
    } else {
        csv.clone().into_bytes()
    };
    // DescribedReader::from_string takes a String: feed the bytes the way the CLI would read a file
    let dir = std::env::temp_dir().join(format!("acb_verif_fuzz_{}", std::process::id()));
    let _ = std::fs::create_dir_all(&dir);
    let path = dir.join("in.csv");
    std::fs::write(&path, &bytes).unwrap();
    let full = r.chance(50);
    let costs = r.chance(40);
    let mode = r.below(10);
    let date_fmt: Option<&str> = match r.below(24) {
        0 | 1 => Some("[year]/[month]/[day]"),
        2 => Some("[day]-[month]-[year]"),
        3 => Some("[bogus"),
        4 => Some(""),
        5 => Some("[year]-[month]-[day]"),
        _ => None,
    };
    let sym: Vec<String> = match r.below(20) {
        0 | 1 | 2 => vec!["S0:10:100".to_string()],
        3 | 4 => vec!["S0:0:0".to_string(), "S1:1.5:3".to_string()],
        5 => vec!["S0:-1:5".to_string()],
        6 => vec![":1:1".to_string()],
        7 => vec!["S0:10:100".to_string(), "S0:5:70".to_string()],
        8 => vec!["S1:2:20".to_string(), "S0:1:1".to_string(), "S1:2:20".to_string()],
        _ => vec![],
    };
    let desc = format!(
        "mode={} full={} costs={} datefmt={:?} b={:?} malformed={}",
        if mode < 6 { "tables" } else if mode < 8 { "summary" } else { "summary-annual" },
        full, costs, date_fmt, sym, malformed
    );
    let p2 = path.clone();
    let res = catch(move || -> String {
        let inits = match parse_initial_status(&sym) {
            Ok(v) => v,
            Err(_) => return "argerr".to_string(),
        };
        let parse_opts = TxCsvParseOptions {
            date_format: match date_fmt {
                Some(f) => match parse_dyn_date_format(f) {
                    Ok(x) => Some(x),
                    Err(_) => return "argerr".to_string(),
                },
                None => None,
            },
        };
        let readers = vec![DescribedReader::from_file_path(p2)];
        if mode < 6 {
            let (wh, _sb) = WriteHandle::string_buff_write_handle();
            let (eh, eb) = WriteHandle::string_buff_write_handle();
            let mut writer = TextWriter::new(wh);
            let r = async_std::task::block_on(run_acb_app_to_writer(
                &mut writer,
                readers,
                inits,
                &parse_opts,
                full,
                costs,
                app::rate_loader(),
                eh,
            ));
            // a failure of the run as a whole: what the user is told (stderr)
            if r.is_ok() { "ok".to_string() } else { format!("err {}", oneline(eb.borrow().as_str())) }
        } else {
            let options = Options { split_annual_summary_gains: mode >= 8, csv_parse_options: parse_opts, ..Options::default() };
            let r = async_std::task::block_on(run_acb_app_summary_to_model(
                crate::common::date_from_jd(crate::ledger::BASE_JD + 500),
                readers,
                inits,
                options,
                app::rate_loader(),
                WriteHandle::empty_write_handle(),
            ));
            match r {
                Ok(_) => "ok".to_string(),
                // per-security errors are attributed by construction; a general error must say where
                Err(e) => match e.general_error {
                    Some(g) => format!("err {}", oneline(&g)),
                    None => "secerr".to_string(),
                },
            }
        }
    });
    let _ = std::fs::remove_dir_all(&dir);
    out.push_str(&format!("case {} fuzz malformed={}\n", id, if malformed { 1 } else { 0 }));
    match res {
        Ok(o) => out.push_str(&format!("impl {}\n", o)),
        Err(p) => out.push_str(&format!("impl panic {}\n", oneline(&p))),
    }
    out.push_str(&format!("repro {}\n", oneline(&format!("{}\n--- bytes (lossy utf-8)\n{}", desc, String::from_utf8_lossy(&bytes)))));
    out.push_str("end\n");
    let _: HashMap<u8, u8> = HashMap::new();
}

/// Importer text, damaged line by line: a generated E*TRADE confirmation (release, purchase,
/// option exercise, trade confirmation in both layouts) with lines dropped, repeated, moved or
/// remarks inserted, offered to `parse_pdf_text`.  Any `Err` is a diagnostic; a panic is not.
fn doc_case(id: &str, r: &mut Rng, out: &mut String) {
    let c = crate::etrade::gen_case(r);
    let f = &c.files[r.below(c.files.len().max(1) as u64) as usize % c.files.len().max(1)];
    let mut lines: Vec<String> = f.text.split('\n').map(|l| l.to_string()).collect();
    let n = 1 + r.below(3);
    for _ in 0..n {
        if lines.len() < 3 {
            break;
        }
        let i = r.below(lines.len() as u64) as usize;
        match r.below(7) {
            0 => {
                lines.remove(i);
            }
            1 => {
                let l = lines[i].clone();
                lines.insert(i, l);
            }
            2 => {
                let j = r.below(lines.len() as u64) as usize;
                lines.swap(i, j);
            }
            3 => {
                let remark = *r.pick(&[
                    "        Note: Grant 2 was exercised in part.",
                    "        Grant 3",
                    "Shares Sold (1.0000)",
                    "Commission $0.00",
                    "        Sale Price $1.00",
                    "Trade Date Settlement Date Quantity Price Settlement Amount",
                ]);
                lines.insert(i, remark.to_string());
            }
            4 => lines.truncate(i.max(1)),
            5 => {
                // blank the numbers of a line
                lines[i] = lines[i].chars().map(|ch| if ch.is_ascii_digit() { ' ' } else { ch }).collect();
            }
            _ => {
                // glue a line to the next one (text extraction dropping a line break)
                if i + 1 < lines.len() {
                    let nx = lines.remove(i + 1);
                    lines[i].push_str(&nx);
                }
            }
        }
    }
    let text = lines.join("\n");
    let t2 = text.clone();
    let res = catch(move || match acb::peripheral::broker::etrade::parse_pdf_text(&t2, std::path::Path::new("doc.txt")) {
        Ok(_) => "ok".to_string(),
        Err(_) => "docerr".to_string(),
    });
    out.push_str(&format!("case {} fuzz malformed=1 doc=1\n", id));
    match res {
        Ok(o) => out.push_str(&format!("impl {}\n", o)),
        Err(p) => out.push_str(&format!("impl panic {}\n", oneline(&p))),
    }
    out.push_str(&format!("repro {}\n", oneline(&format!("parse_pdf_text on the damaged confirmation {}:\n{}", f.name, text))));
    out.push_str("end\n");
}
