//! Family `determinism` (C09): the real `acb` front end (this binary re-executed with
//! ACB_VERIF_MULTICALL=acb, i.e. `acb::cmd::command_main()` compiled from the current tree) is run
//! N times per mode on the same file; every process has fresh SipHash keys, so repeated runs
//! explore hash iteration orders.  Observations: per mode the number of distinct outputs (stdout +
//! exit status + every output file, byte for byte).  In addition the split expansion of every
//! security (`replace_global_security_splits`) is observed in-process for the correspondence with
//! the Lean model.
use std::path::{Path, PathBuf};
use std::process::Command;

use acb::portfolio::io::tx_csv::{parse_tx_csv, TxCsvParseOptions};
use acb::portfolio::splits::replace_global_security_splits;
use acb::portfolio::{split_txs_by_security, Affiliate, Tx, TxAction};
use acb::util::rw::{DescribedReader, WriteHandle};

use crate::appgen::*;
use crate::common::*;
use crate::rng::Rng;

pub struct DetCase {
    pub csv: String,
    pub summary_date: String,
}

fn buy(sec: &str, day: i32, aff: &str, shares: i64, price: i64) -> GenRow {
    GenRow {
        sec: sec.to_string(),
        trade_jd: day,
        settle_jd: day,
        action: "Buy",
        shares: Some(rust_decimal::Decimal::new(shares, 0)),
        price: Some(rust_decimal::Decimal::new(price, 0)),
        comm: Some(rust_decimal::Decimal::ZERO),
        cur: "CAD",
        rate: None,
        split: None,
        aff: aff.to_string(),
    }
}

/// A generated portfolio to which the three shapes that expose an unstable order are added (each
/// with probability 85 %): a global split on a security held by four affiliates; three securities
/// traded only by a non-default affiliate (three "ignored" notes from three securities); two days
/// of one year sharing that year's maximal total cost.
pub fn gen_case(r: &mut Rng) -> DetCase {
    let o = GenOpts { min_affs: 2, min_secs: 2, tie_pct: 30, global_split_pct: 8, oversell_pct: 1 };
    let mut rows = gen_rows(r, &o);
    let last_day = rows.iter().map(|x| x.settle_jd).max().unwrap_or(START_JD);
    let first_day = rows.iter().map(|x| x.settle_jd).min().unwrap_or(START_JD);
    if r.chance(85) {
        let sec = rows[0].sec.clone();
        for (k, a) in ["Spouse", "Kid", "Zed (R)", "Aunt"].iter().enumerate() {
            rows.push(buy(&sec, last_day + 1 + k as i32, a, 3 + k as i64, 20));
        }
        rows.push(GenRow {
            action: "Split",
            shares: None,
            price: None,
            comm: None,
            cur: "",
            split: Some("2-for-1"),
            ..buy(&sec, last_day + 10, "", 0, 0)
        });
    }
    if r.chance(85) {
        for (k, s) in ["NA", "NB", "NC", "ND"].iter().enumerate() {
            rows.push(buy(s, last_day + 2 + k as i32, if k % 2 == 0 { "Spouse" } else { "Default (R)" }, 5, 7));
        }
    }
    if r.chance(85) {
        let y = date_from_jd(last_day + 10).year() + 1;
        let jan10 = jd(time::Date::from_calendar_date(y, time::Month::January, 10).unwrap());
        rows.push(buy("TIE", jan10, "", 10, 10));
        rows.push(GenRow { action: "Sell", ..buy("TIE", jan10 + 1, "", 10, 10) });
        rows.push(buy("TIE", jan10 + 2, "", 10, 10));
    }
    // several securities rejected at once (over-sales): the closing list of failing securities
    // and the order of their messages must not depend on a hash order either
    if r.chance(50) {
        for (k, s) in ["ERA", "ERB", "ERC", "ERD"].iter().enumerate() {
            rows.push(buy(s, last_day + 3 + k as i32, "", 5, 7));
            rows.push(GenRow { action: "Sell", ..buy(s, last_day + 20 + k as i32, "", 9, 7) });
        }
    }
    // two securities whose names differ only by a space vs a dash (file names of --csv-output-dir)
    if r.chance(30) {
        rows.push(buy("BRK B", last_day + 4, "", 3, 11));
        rows.push(buy("BRK-B", last_day + 5, "", 4, 12));
    }
    // a superficial loss shared by two buyers who end the window with the same holding: their
    // adjustment rows come in affiliate order, whatever the hash order of the map they come from
    if r.chance(60) {
        let d = last_day + 30;
        rows.push(buy("EQL", d, "", 100, 50));
        rows.push(GenRow { action: "Sell", ..buy("EQL", d + 40, "", 60, 30) });
        for a in ["Aunt", "Kid", "Zoe", "Bob"] {
            rows.push(buy("EQL", d + 45, a, 7, 31));
        }
    }
    // three buyers whose holdings are 28-digit fractions after a 7-for-3 split: the total the
    // automatic adjustments are divided by (and print) must not depend on the order in which a hash
    // set hands the buyers out (F-09f: the last digit of a 28-digit sum depends on the order of its terms)
    if r.chance(60) {
        let d = last_day + 90;
        let frac = |sec: &str, day: i32, aff: &str, milli: i64, price: i64| GenRow {
            shares: Some(rust_decimal::Decimal::new(milli, 3)),
            ..buy(sec, day, aff, 1, price)
        };
        rows.push(buy("NDT", d, "", 100, 50));
        rows.push(frac("NDT", d, "Aunt", 30521, 50));
        rows.push(frac("NDT", d, "Kid", 21857, 50));
        rows.push(frac("NDT", d, "Zoe", 5713, 50));
        rows.push(GenRow { action: "Split", shares: None, price: None, comm: None, cur: "", rate: None, split: Some("7-for-3"), ..buy("NDT", d + 30, "", 1, 1) });
        rows.push(GenRow { action: "Sell", ..buy("NDT", d + 60, "", 70, 10) });
        rows.push(buy("NDT", d + 63, "Aunt", 5, 10));
        rows.push(buy("NDT", d + 63, "Kid", 6, 10));
        rows.push(buy("NDT", d + 63, "Zoe", 7, 10));
    }
    // a ticker that cannot be a file name as it stands (path separator), next to the name its file
    // gets: neither may stop, or share a file with, another security (F-08b)
    if r.chance(30) {
        rows.push(buy("BRK/B", last_day + 6, "", 2, 13));
        if r.chance(50) {
            rows.push(buy("BRK%2FB", last_day + 7, "", 2, 14));
        }
    }
    rows.sort_by_key(|x| x.settle_jd);
    let cut = first_day + ((last_day - first_day) as i64 * r.range(30, 110) / 100) as i32;
    // a recognised column given twice (a second memo column with other text): whichever cell the
    // reader prefers, it is the same one in every run
    let mut csv = csv_text(&rows);
    if r.chance(50) {
        csv = csv
            .lines()
            .enumerate()
            .map(|(i, l)| if i == 0 { format!("{},memo,Memo", l) } else { format!("{},first note {},second note {}", l, i, i) })
            .collect::<Vec<_>>()
            .join("\n")
            + "\n";
    }
    DetCase { csv, summary_date: date_str(date_from_jd(cut)) }
}

fn scratch_root() -> PathBuf {
    std::env::temp_dir().join(format!("acb_verif_det_{}", std::process::id()))
}

fn read_dir_sorted(dir: &Path) -> Vec<(String, Vec<u8>)> {
    let mut v = Vec::new();
    if let Ok(rd) = std::fs::read_dir(dir) {
        for e in rd.flatten() {
            let name = e.file_name().to_string_lossy().to_string();
            let data = std::fs::read(e.path()).unwrap_or_default();
            v.push((name, data));
        }
    }
    v.sort();
    v
}

/// One run of the front end: (exit code, stdout, output files)
fn run_acb(exe: &Path, home: &Path, args: &[String], outdir: Option<&Path>) -> (i32, Vec<u8>, Vec<(String, Vec<u8>)>) {
    if let Some(d) = outdir {
        let _ = std::fs::remove_dir_all(d);
    }
    let out = Command::new(exe)
        .args(args)
        .env("ACB_VERIF_MULTICALL", "acb")
        .env("HOME", home)
        .env_remove("RUST_LOG")
        .env_remove("DISPLAY_OPT_NONE")
        .output();
    match out {
        Ok(o) => {
            let files = outdir.map(read_dir_sorted).unwrap_or_default();
            (o.status.code().unwrap_or(-1), o.stdout, files)
        }
        Err(_) => (-2, Vec::new(), Vec::new()),
    }
}

fn first_diff(a: &[u8], b: &[u8]) -> String {
    let sa = String::from_utf8_lossy(a);
    let sb = String::from_utf8_lossy(b);
    for (i, (x, y)) in sa.lines().zip(sb.lines()).enumerate() {
        if x != y {
            return format!("line {}: {:?} / {:?}", i + 1, x.trim(), y.trim());
        }
    }
    format!("lengths {} / {}", a.len(), b.len())
}

fn stx_line(prefix: &str, si: usize, uni: &AffUniverse, tx: &Tx) -> String {
    format!(
        "{} {} {} {} {} {}",
        prefix,
        si,
        jd(tx.trade_date),
        if tx.action() == TxAction::Split { 1 } else { 0 },
        if tx.affiliate.is_global() { "g".to_string() } else { uni.key(&tx.affiliate).to_string() },
        tx.read_index
    )
}

/// In-process observation of the split expansion of every security.
fn splits_observation(csv: &str, out: &mut String) -> Result<(), String> {
    let mut rd = DescribedReader::from_string("gen.csv".to_string(), csv.to_string());
    let csv_txs = parse_tx_csv(&mut rd, 0, &TxCsvParseOptions::default(), &mut WriteHandle::empty_write_handle())?;
    let mut txs: Vec<Tx> = Vec::new();
    for c in csv_txs {
        // every generated row carries an explicit rate or is CAD: no rate loading needed
        txs.push(Tx::try_from(c)?);
    }
    txs.sort();
    let mut names: Vec<String> = Vec::new();
    for t in &txs {
        if !t.affiliate.is_global() && !names.contains(&t.affiliate.name().to_string()) {
            names.push(t.affiliate.name().to_string());
        }
    }
    let refs: Vec<&str> = names.iter().map(|s| s.as_str()).collect();
    let uni = AffUniverse::new(&refs);
    out.push_str(&format!("dflt {}\n", uni.key(&Affiliate::default())));
    let by_sec = split_txs_by_security(txs);
    let mut secs: Vec<&String> = by_sec.keys().collect();
    secs.sort();
    for (si, s) in secs.iter().enumerate() {
        let before = &by_sec[*s];
        for t in before {
            out.push_str(&stx_line("sx", si, &uni, t));
            out.push('\n');
        }
        let mut after = before.clone();
        match catch(move || {
            let r = replace_global_security_splits(&mut after);
            (r, after)
        }) {
            Ok((Ok(()), after)) => {
                out.push_str(&format!("impl expand {} ok\n", si));
                for t in &after {
                    out.push_str(&stx_line("impl sx", si, &uni, t));
                    out.push('\n');
                }
            }
            Ok((Err(_), _)) => out.push_str(&format!("impl expand {} err\n", si)),
            Err(p) => out.push_str(&format!("impl expand {} panic {}\n", si, oneline(&p))),
        }
    }
    Ok(())
}

pub fn run_case(id: &str, c: &DetCase, runs: usize, out: &mut String) {
    // number of distinct securities in the input (for the file count of --csv-output-dir)
    let nsecs = {
        let mut v: Vec<&str> = c.csv.lines().skip(1).filter_map(|l| l.split(',').next()).filter(|s| !s.is_empty()).collect();
        v.sort();
        v.dedup();
        v.len()
    };
    out.push_str(&format!("case {} determinism runs={} secs={}\n", id, runs, nsecs));
    out.push_str(&format!("in {} {}\n", c.summary_date, oneline(&c.csv)));
    if let Err(e) = splits_observation(&c.csv, out) {
        out.push_str(&format!("impl splits unparsable {}\n", oneline(&e)));
    }
    let root = scratch_root().join(id.replace(|ch: char| !ch.is_ascii_alphanumeric(), "_"));
    let home = root.join("home");
    let _ = std::fs::create_dir_all(&home);
    let file = root.join("in.csv");
    let outdir = root.join("out");
    let exe = std::env::current_exe().unwrap();
    if std::fs::write(&file, &c.csv).is_err() {
        out.push_str("impl result scratch-failed\nend\n");
        return;
    }
    let f = file.to_string_lossy().to_string();
    let od = outdir.to_string_lossy().to_string();
    let modes: Vec<(&str, Vec<String>, bool)> = vec![
        ("total-costs", vec![f.clone(), "--total-costs".into()], false),
        ("full-values", vec![f.clone(), "--total-costs".into(), "--print-full-values".into()], false),
        ("csv-dir", vec![f.clone(), "--total-costs".into(), "-d".into(), od.clone()], true),
        ("summary", vec![f.clone(), "--summarize-before".into(), c.summary_date.clone()], false),
        (
            "summary-annual",
            vec![f.clone(), "--summarize-before".into(), c.summary_date.clone(), "--summarize-annual-gains".into()],
            false,
        ),
    ];
    for (name, args, uses_dir) in modes {
        let dir = if uses_dir { Some(outdir.as_path()) } else { None };
        let first = run_acb(&exe, &home, &args, dir);
        let mut distinct: Vec<(i32, Vec<u8>, Vec<(String, Vec<u8>)>)> = vec![first];
        let mut diff = String::new();
        for _ in 1..runs {
            let r = run_acb(&exe, &home, &args, dir);
            if !distinct.contains(&r) {
                if diff.is_empty() {
                    let a = &distinct[0];
                    diff = if a.0 != r.0 {
                        format!("exit {} / {}", a.0, r.0)
                    } else if a.1 != r.1 {
                        format!("stdout {}", first_diff(&a.1, &r.1))
                    } else {
                        let mut d = "files".to_string();
                        for (x, y) in a.2.iter().zip(r.2.iter()) {
                            if x != y {
                                d = format!("file {} {}", x.0, first_diff(&x.1, &y.1));
                                break;
                            }
                        }
                        d
                    };
                }
                distinct.push(r);
            }
        }
        out.push_str(&format!(
            "impl mode {} runs {} distinct {} exit {} bytes {} files {}{}\n",
            name,
            runs,
            distinct.len(),
            distinct[0].0,
            distinct[0].1.len(),
            distinct[0].2.len(),
            if diff.is_empty() { String::new() } else { format!(" diff {}", oneline(&diff)) }
        ));
    }
    let _ = std::fs::remove_dir_all(&root);
    out.push_str(&format!("repro {}\n", oneline(&c.csv)));
    out.push_str("end\n");
}

pub fn cleanup() {
    let _ = std::fs::remove_dir_all(scratch_root());
}

pub fn parse_case(lines: &[String]) -> Option<DetCase> {
    for l in lines {
        if let Some(r) = l.strip_prefix("in ") {
            let (date, csv) = r.split_once(' ')?;
            return Some(DetCase { csv: unescape(csv), summary_date: date.to_string() });
        }
    }
    None
}
