//! Family `fxcrash` (C14): the harness re-executes itself as a child process that downloads a year
//! of rates through the real `RateLoader` + `CsvRatesCache` and is killed (hook `verif_hooks`:
//! ACB_VERIF_CRASH_AFTER_BYTES / ACB_VERIF_CRASH_AT) at every byte offset of the cache file write
//! and at every named step of the write procedure.  After each crash the parent records the files
//! left in the cache directory and asks a fresh `RateLoader` over that directory for every date.
use std::cell::RefCell;
use std::collections::BTreeMap;
use std::path::{Path, PathBuf};
use std::process::Command;
use std::rc::Rc;

use acb::fx::io::{CsvRatesCache, InMemoryRatesCache, RateLoader, RatesCache};
use acb::util::rw::WriteHandle;
use rust_decimal::Decimal;

use crate::common::*;
use crate::fxcache::scratch_dir;
use crate::fxcommon::*;
use crate::rng::Rng;

pub const STEPS: [&str; 5] = ["after_create", "after_flush", "after_sync", "before_rename", "after_rename"];

pub struct CrashCase {
    pub year: i32,
    /// the earlier run that left the old cache file behind (None: no file yet)
    pub old_today: Option<i32>,
    /// the run whose cache write is interrupted
    pub today: i32,
    /// the later run that reads the directory
    pub later_today: i32,
    pub cal: Calendar, // everything that will ever be published
    pub every: u32,    // byte offsets: every n-th (1 = all)
    /// an EARLIER interrupted write of the same year (killed at this point of the write procedure,
    /// always before the rename): it leaves a temporary file behind, which the interrupted write
    /// under test finds
    pub pre: Option<String>,
    /// the cache file of the year is a symbolic link to a file kept elsewhere (a synced folder)
    pub link: bool,
}

fn remote_at(cal: &Calendar, today: i32, year: i32) -> BTreeMap<i32, Vec<(i32, Decimal)>> {
    let known: Calendar = cal.iter().filter(|(j, _)| **j < today).map(|(j, v)| (*j, *v)).collect();
    let mut m = per_year(&known, None);
    for y in [year - 1, year, year + 1] {
        m.entry(y).or_default();
    }
    m
}

pub fn gen_case(r: &mut Rng, idx: u64, thorough: bool) -> CrashCase {
    let year = *r.pick(&[2016, 2017, 2019, 2020, 2024]);
    // thorough tier: whole years; every sixth case is run early in the NEXT year, so that the
    // interrupted write is the first write of a year that is already over
    // (quick tier: the third case, with a coarse grid of crash points — any interrupted in-place write
    // of a finished year shows, because nothing ever refreshes that year's file)
    let past = if thorough { idx % 6 == 5 } else { idx % 3 == 2 };
    let days = if past {
        (jan1_jd(year + 1) - jan1_jd(year)) + r.range(1, 5) as i32
    } else if thorough && idx % 3 == 2 {
        r.range(300, 366) as i32
    } else {
        r.range(25, 45) as i32
    };
    let lo = jan1_jd(year);
    let today = lo + days;
    let holes = r.below(3) as usize;
    let mut cal = gen_calendar(r, lo, today + 15, holes, 5);
    cal.remove(&lo);
    // January 2 always has a rate: no look-up of this year ever reaches back into the previous year
    let jan2 = rand_rate4(r);
    cal.insert(lo + 1, jan2);
    if r.chance(40) {
        for v in cal.values_mut() {
            *v = Decimal::ONE / Decimal::new(r.range(6500, 10500), 4);
        }
    }
    let old_today = if idx % 2 == 0 { None } else { Some(today - r.range(1, (days - 3) as i64) as i32) };
    let later_today = today + *r.pick(&[0, 0, 1, 3, 9]);
    // a full year has ~6000 byte offsets: take every 5th one there (and every date only near the end)
    let every = if past && !thorough { 40 } else if days > 100 { 5 } else { 1 };
    // (every second case: cut inside the digits of a rate — the worst thing to find lying around)
    let pre = if idx % 2 == 1 {
        Some(r.pick(&["b25", "b26", "b27", "b43"]).to_string())
    } else if r.chance(30) {
        Some(r.pick(&["after_create", "after_flush", "before_rename", "b5", "b17"]).to_string())
    } else {
        None
    };
    let link = old_today.is_some() && (idx % 4 == 1 || r.chance(30));
    CrashCase { year, old_today, today, later_today, cal, every, pre, link }
}

fn remote_arg(m: &BTreeMap<i32, Vec<(i32, Decimal)>>) -> String {
    let mut parts = Vec::new();
    for (y, v) in m {
        let rows: Vec<String> = v.iter().map(|(j, x)| format!("{}:{}", j, x)).collect();
        parts.push(format!("{}={}", y, rows.join(",")));
    }
    parts.join(";")
}

fn parse_remote_arg(s: &str) -> BTreeMap<i32, Vec<(i32, Decimal)>> {
    let mut m = BTreeMap::new();
    for part in s.split(';') {
        if let Some((y, rows)) = part.split_once('=') {
            let mut v = Vec::new();
            for row in rows.split(',') {
                if let Some((j, x)) = row.split_once(':') {
                    v.push((j.parse().unwrap(), x.parse().unwrap()));
                }
            }
            m.insert(y.parse().unwrap(), v);
        }
    }
    m
}

/// One run of the program on `dir`: download-and-cache as far as the look-up of `target` needs it.
fn run_loader(dir: &Path, today: i32, remote: &BTreeMap<i32, Vec<(i32, Decimal)>>, target: i32) -> (String, Vec<u32>) {
    acb::util::date::set_todays_date_for_test(date_from_jd(today));
    let map = new_remote_map();
    for (y, v) in remote {
        map.borrow_mut().insert(*y as u32, to_daily(v));
    }
    let calls: Rc<RefCell<Vec<u32>>> = Rc::new(RefCell::new(Vec::new()));
    let res = catch(|| {
        let mut loader = RateLoader::new(
            false,
            Box::new(CsvRatesCache::new(dir.to_path_buf(), WriteHandle::empty_write_handle())),
            Box::new(CountingRemote::new(&map, &calls)),
            WriteHandle::empty_write_handle(),
        );
        loader.blocking_get_effective_usd_cad_rate(date_from_jd(target))
    });
    let s = match res {
        Ok(Ok(r)) => format!("ok:{}:{}", jd(r.date), r.foreign_to_local_rate),
        Ok(Err(_)) => "err".to_string(),
        Err(p) => format!("panic:{}", oneline(&p).replace(' ', "_").replace(':', "_")),
    };
    let dl = calls.borrow().clone();
    (s, dl)
}

/// Child process: `fxcrash-child <dir> <today> <target> <remote>`; the crash is injected by the hook.
pub fn child_main(args: &[String]) {
    let dir = PathBuf::from(&args[2]);
    let today: i32 = args[3].parse().unwrap();
    let target: i32 = args[4].parse().unwrap();
    let remote = parse_remote_arg(&args[5]);
    let _ = run_loader(&dir, today, &remote, target);
}

fn esc(bytes: &[u8]) -> String {
    if bytes.is_empty() {
        return "<empty>".to_string();
    }
    let mut s = String::new();
    for b in bytes {
        match *b {
            b'\n' => s.push('|'),
            b' ' => s.push('_'),
            0x21..=0x7e => s.push(*b as char),
            _ => s.push_str(&format!("%{:02x}", b)),
        }
    }
    s
}

fn read_opt(p: &Path) -> Option<Vec<u8>> {
    std::fs::read(p).ok()
}

fn file_tok(o: &Option<Vec<u8>>) -> String {
    match o {
        None => "-".to_string(),
        Some(b) => esc(b),
    }
}

struct Snapshot {
    files: Vec<(String, Vec<u8>)>,
    /// name -> link target, for entries that are symbolic links (their content is in `files` too)
    links: Vec<(String, PathBuf)>,
}

fn snapshot(dir: &Path) -> Snapshot {
    let mut files = Vec::new();
    let mut links = Vec::new();
    if let Ok(rd) = std::fs::read_dir(dir) {
        for e in rd.flatten() {
            let name = e.file_name().to_string_lossy().to_string();
            if let Ok(t) = std::fs::read_link(e.path()) {
                links.push((name.clone(), t));
            }
            if let Ok(b) = std::fs::read(e.path()) {
                files.push((name, b));
            }
        }
    }
    files.sort();
    links.sort();
    Snapshot { files, links }
}

fn restore(dir: &Path, snap: &Snapshot) {
    let cur = snapshot(dir);
    if cur.files == snap.files && cur.links == snap.links {
        return;
    }
    let _ = std::fs::remove_dir_all(dir);
    std::fs::create_dir_all(dir).unwrap();
    for (n, b) in &snap.files {
        match snap.links.iter().find(|(ln, _)| ln == n) {
            Some((_, target)) => {
                if let Some(parent) = target.parent() {
                    let _ = std::fs::create_dir_all(parent);
                }
                std::fs::write(target, b).unwrap();
                #[cfg(unix)]
                std::os::unix::fs::symlink(target, dir.join(n)).unwrap();
            }
            None => std::fs::write(dir.join(n), b).unwrap(),
        }
    }
}

pub fn run_case(id: &str, c: &CrashCase, out: &mut String) {
    let dir = scratch_dir("fxcrash");
    let live = dir.join(format!("rates-{}.csv", c.year));
    let tmp = dir.join(format!("rates-{}.csv.tmp", c.year));
    let rem_new = remote_at(&c.cal, c.today, c.year);
    let rem_later = remote_at(&c.cal, c.later_today, c.year);
    out.push_str(&format!(
        "case {} fxcrash year={} today={} later={} every={} old={} pre={} link={}\n",
        id,
        c.year,
        c.today,
        c.later_today,
        c.every,
        c.old_today.map(|t| t.to_string()).unwrap_or("-".to_string()),
        c.pre.clone().unwrap_or("-".to_string()),
        c.link as u8
    ));
    for (y, v) in &rem_new {
        out.push_str(&rem_line(*y, v));
    }
    for (y, v) in &rem_later {
        out.push_str(&rem_line(*y, v).replacen("in rem", "in later", 1));
    }
    // a date not covered by any older cache: forces the download and the write — of the case's
    // year, also when the run takes place early in the next year
    let target = if c.today >= jan1_jd(c.year + 1) { jan1_jd(c.year + 1) - 2 } else { c.today - 1 };
    // the old cache file, written by an uninterrupted earlier run
    let _ = std::fs::remove_dir_all(&dir);
    std::fs::create_dir_all(&dir).unwrap();
    if let Some(t0) = c.old_today {
        let rem_old = remote_at(&c.cal, t0, c.year);
        for (y, v) in &rem_old {
            out.push_str(&rem_line(*y, v).replacen("in rem", "in old", 1));
        }
        let _ = run_loader(&dir, t0, &rem_old, t0 - 1);
        if c.link {
            // the old cache file lives in another folder; the cache directory holds a link to it
            let store = scratch_dir("fxcrashstore");
            let _ = std::fs::create_dir_all(&store);
            let target = store.join(format!("rates-{}.csv", c.year));
            if std::fs::rename(&live, &target).is_ok() {
                #[cfg(unix)]
                let _ = std::os::unix::fs::symlink(&target, &live);
            }
        }
    }
    // an earlier interrupted write of the same data (leaves its temporary file, never the new file)
    if let Some(p) = &c.pre {
        let exe = std::env::current_exe().unwrap();
        let (var, val) = match p.strip_prefix('b') {
            Some(n) if n.chars().all(|ch| ch.is_ascii_digit()) => ("ACB_VERIF_CRASH_AFTER_BYTES", n.to_string()),
            _ => ("ACB_VERIF_CRASH_AT", p.clone()),
        };
        let _ = Command::new(&exe)
            .args(["fxcrash-child", dir.to_str().unwrap(), &c.today.to_string(), &target.to_string(), &remote_arg(&rem_new)])
            .env(var, val)
            .stdout(std::process::Stdio::null())
            .stderr(std::process::Stdio::null())
            .status();
    }
    let base = snapshot(&dir);
    // an uninterrupted write, to learn the length of the file
    let _ = run_loader(&dir, c.today, &rem_new, target);
    let full = read_opt(&live).unwrap_or_default();
    out.push_str(&format!("in full {}\n", esc(&full)));
    // the lenient reader on every prefix of the file (what the in-place write could leave behind)
    {
        let dir2 = scratch_dir("fxcrashrd");
        std::fs::create_dir_all(&dir2).unwrap();
        let p2 = dir2.join(format!("rates-{}.csv", c.year));
        let mut n = 0usize;
        while n <= full.len() {
            std::fs::write(&p2, &full[..n]).unwrap();
            let res = catch(|| {
                CsvRatesCache::new(dir2.clone(), WriteHandle::empty_write_handle()).get_usd_cad_rates(c.year as u32)
            });
            let tok = match res {
                Ok(Ok(Some(rows))) => {
                    if rows.is_empty() {
                        "-".to_string()
                    } else {
                        rows.iter()
                            .map(|r| format!("{}:{}", jd(r.date), r.foreign_to_local_rate))
                            .collect::<Vec<_>>()
                            .join(",")
                    }
                }
                Ok(Ok(None)) => "none".to_string(),
                Ok(Err(_)) => "err".to_string(),
                Err(_) => "panic".to_string(),
            };
            out.push_str(&format!("impl read {} {}\n", n, tok));
            n += c.every as usize;
        }
        let _ = std::fs::remove_dir_all(&dir2);
    }
    let exe = std::env::current_exe().unwrap();
    let arg = remote_arg(&rem_new);
    let mut points: Vec<(String, String, String)> = Vec::new(); // (label, env var, value)
    let mut n = 0usize;
    while n <= full.len() {
        points.push((format!("b{}", n), "ACB_VERIF_CRASH_AFTER_BYTES".to_string(), n.to_string()));
        n += c.every as usize;
    }
    for s in STEPS {
        points.push((s.to_string(), "ACB_VERIF_CRASH_AT".to_string(), s.to_string()));
    }
    points.push(("none".to_string(), "ACB_VERIF_NOTHING".to_string(), "1".to_string()));
    let dates: Vec<i32> = ((jan1_jd(c.year) - 1)..=(c.later_today + 1))
        .filter(|d| c.every == 1 || c.later_today - *d < 40 || (*d - jan1_jd(c.year)) % 15 == 0)
        .collect();
    // what a loader with no cache at all answers in the later run
    let mut refs = Vec::new();
    for d in &dates {
        acb::util::date::set_todays_date_for_test(date_from_jd(c.later_today));
        let map = new_remote_map();
        for (y, v) in &rem_later {
            map.borrow_mut().insert(*y as u32, to_daily(v));
        }
        let calls: Rc<RefCell<Vec<u32>>> = Rc::new(RefCell::new(Vec::new()));
        let res = catch(|| {
            let mut l = RateLoader::new(
                false,
                Box::new(InMemoryRatesCache::new()),
                Box::new(CountingRemote::new(&map, &calls)),
                WriteHandle::empty_write_handle(),
            );
            l.blocking_get_effective_usd_cad_rate(date_from_jd(*d))
        });
        refs.push(match res {
            Ok(Ok(r)) => format!("ok:{}:{}", jd(r.date), r.foreign_to_local_rate),
            Ok(Err(_)) => "err".to_string(),
            Err(_) => "panic".to_string(),
        });
    }
    out.push_str(&format!("in dates {}\n", dates.iter().map(|d| d.to_string()).collect::<Vec<_>>().join(" ")));
    out.push_str(&format!("impl ref {}\n", refs.join(" ")));
    for (label, var, val) in &points {
        restore(&dir, &base);
        let st = Command::new(&exe)
            .args(["fxcrash-child", dir.to_str().unwrap(), &c.today.to_string(), &target.to_string(), &arg])
            .env(var, val)
            .stdout(std::process::Stdio::null())
            .stderr(std::process::Stdio::null())
            .status();
        let status = match st {
            Ok(s) if s.success() => "exit0".to_string(),
            Ok(s) => match s.code() {
                Some(c) => format!("exit{}", c),
                None => "killed".to_string(),
            },
            Err(_) => "spawnfail".to_string(),
        };
        let crash = snapshot(&dir);
        let others: Vec<String> = crash
            .files
            .iter()
            .filter(|(n, _)| dir.join(n) != live && dir.join(n) != tmp)
            .map(|(n, _)| n.clone())
            .collect();
        out.push_str(&format!(
            "in crash {}\nimpl fs {} status={} live={} tmp={} others={}\n",
            label,
            label,
            status,
            file_tok(&read_opt(&live)),
            file_tok(&read_opt(&tmp)),
            if others.is_empty() { "-".to_string() } else { others.join(",") }
        ));
        let mut toks = Vec::new();
        for d in &dates {
            restore(&dir, &crash);
            let (s, dl) = run_loader(&dir, c.later_today, &rem_later, *d);
            let dls: Vec<String> = dl.iter().map(|y| y.to_string()).collect();
            toks.push(format!("{}/{}", s, if dls.is_empty() { "-".to_string() } else { dls.join("+") }));
        }
        out.push_str(&format!("impl after {} {}\n", label, toks.join(" ")));
    }
    let _ = std::fs::remove_dir_all(&dir);
    out.push_str("end\n");
}

pub fn parse_case(lines: &[String]) -> Option<CrashCase> {
    let head: Vec<&str> = lines.first()?.split_whitespace().collect();
    let kv = |k: &str| -> Option<String> {
        head.iter().find_map(|t| t.strip_prefix(&format!("{}=", k)).map(|s| s.to_string()))
    };
    let mut cal = Calendar::new();
    for l in &lines[1..] {
        let t: Vec<&str> = l.split_whitespace().collect();
        if t.len() >= 3 && t[0] == "in" && (t[1] == "rem" || t[1] == "later" || t[1] == "old") {
            let mut i = 3;
            while i + 1 < t.len() {
                cal.insert(t[i].parse().ok()?, t[i + 1].parse().ok()?);
                i += 2;
            }
        }
    }
    let old = kv("old")?;
    Some(CrashCase {
        year: kv("year")?.parse().ok()?,
        old_today: if old == "-" { None } else { Some(old.parse().ok()?) },
        today: kv("today")?.parse().ok()?,
        later_today: kv("later")?.parse().ok()?,
        cal,
        every: kv("every").and_then(|v| v.parse().ok()).unwrap_or(1),
        pre: kv("pre").and_then(|v| if v == "-" { None } else { Some(v) }),
        link: kv("link").map(|v| v == "1").unwrap_or(false),
    })
}
