//! Family `fxcache` (C13): histories of runs over one persistent rate cache (in-memory, CSV files in
//! a scratch directory, or a cache with scripted I/O failures), each run with its own `today`,
//! force flag, remote data and sequence of look-ups.  Observed: every look-up's result, the years
//! downloaded during it, whether the cache covered the requested date, and the answer of an
//! uncached loader over the same remote data.
use std::cell::RefCell;
use std::collections::{BTreeMap, HashMap, HashSet};
use std::path::PathBuf;
use std::rc::Rc;

use acb::fx::io::{CsvRatesCache, InMemoryRatesCache, RateLoader, RatesCache};
use acb::fx::DailyRate;
use acb::util::rc::{RcRefCell, RcRefCellT};
use acb::util::rw::WriteHandle;
use rust_decimal::Decimal;

use crate::common::*;
use crate::fxcommon::*;
use crate::rng::Rng;

#[derive(Clone, Debug)]
pub struct RunSpec {
    pub today: i32,
    pub force: bool,
    pub rem: BTreeMap<i32, Vec<(i32, Decimal)>>,
    pub rderr: Vec<i32>,
    pub wrerr: Vec<i32>,
    pub lookups: Vec<i32>,
}

pub struct CacheCase {
    pub kind: String, // mem | csv | flaky
    pub seed: BTreeMap<i32, Vec<(i32, Decimal)>>,
    pub runs: Vec<RunSpec>,
}

/// A `RatesCache` over a shared map whose reads / writes fail for scripted years.
pub struct FlakyCache {
    pub map: RcRefCell<HashMap<u32, Vec<DailyRate>>>,
    pub rderr: Rc<RefCell<HashSet<u32>>>,
    pub wrerr: Rc<RefCell<HashSet<u32>>>,
}

impl RatesCache for FlakyCache {
    fn write_rates(&mut self, year: u32, rates: &Vec<DailyRate>) -> Result<(), String> {
        if self.wrerr.borrow().contains(&year) {
            return Err("scripted write error".to_string());
        }
        self.map.borrow_mut().insert(year, rates.clone());
        Ok(())
    }
    fn get_usd_cad_rates(&mut self, year: u32) -> Result<Option<Vec<DailyRate>>, String> {
        if self.rderr.borrow().contains(&year) {
            return Err("scripted read error".to_string());
        }
        Ok(self.map.borrow().get(&year).cloned())
    }
}

static SCRATCH_N: std::sync::atomic::AtomicU32 = std::sync::atomic::AtomicU32::new(0);

pub fn scratch_dir(tag: &str) -> PathBuf {
    let n = SCRATCH_N.fetch_add(1, std::sync::atomic::Ordering::SeqCst);
    // a memory file system when there is one (the crash runs sync every file they write)
    let base = match std::env::var("ACB_VERIF_SCRATCH") {
        Ok(d) => PathBuf::from(d),
        Err(_) => {
            let shm = PathBuf::from("/dev/shm");
            if shm.is_dir() { shm } else { std::env::temp_dir() }
        }
    };
    base.join(format!("acb_verif_{}_{}_{}", tag, std::process::id(), n))
}

// ------------------------------------------------------------------------------------ generation

pub fn gen_case(r: &mut Rng) -> CacheCase {
    let kind = match r.below(10) {
        0..=3 => "mem",
        4..=7 => "csv",
        _ => "flaky",
    }
    .to_string();
    let y = *r.pick(&[2015, 2016, 2017, 2019, 2020, 2023]);
    let boundary = r.chance(45);
    let lo = if boundary { jan1_jd(y + 1) - r.range(15, 40) as i32 } else { jan1_jd(y) + r.range(0, 250) as i32 };
    let hi = lo + r.range(40, 90) as i32;
    let holes = r.below(4) as usize;
    let mut cal = gen_calendar(r, lo, hi, holes, 9);
    for yy in [y, y + 1] {
        cal.remove(&jan1_jd(yy));
    }
    if r.chance(30) {
        // long decimals as produced by inverting a daily observation
        for v in cal.values_mut() {
            *v = Decimal::ONE / Decimal::new(r.range(6500, 10500), 4);
        }
    }
    let nruns = r.range(1, 4) as usize;
    let mut today = lo + r.range(5, 30) as i32;
    let mut had_today = false;
    let mut runs = Vec::new();
    let mut prev_today = today;
    for k in 0..nruns {
        if k > 0 {
            let step = *r.pick(&[0, 0, 1, 1, 2, 3, 7, 8, 15, 30, 40]);
            today += step;
            if step > 0 {
                had_today = false;
            }
        }
        let has_today = had_today || r.chance(50);
        had_today = has_today;
        let known: Calendar = cal
            .iter()
            .filter(|(j, _)| **j < today || (**j == today && has_today))
            .map(|(j, v)| (*j, *v))
            .collect();
        let mut rem = per_year(&known, None);
        for yy in (year_of_jd(lo) - 1)..=(year_of_jd(today + 12) + 1) {
            rem.entry(yy).or_default();
        }
        let n = r.range(1, 8) as usize;
        let mut lookups = Vec::new();
        for _ in 0..n {
            let d = match r.below(12) {
                0 => today,
                1 => today - 1,
                2 => today + 1,
                3 | 4 => r.range((prev_today - 3) as i64, today as i64) as i32, // newer than the previous run's cache
                5 | 6 | 7 => r.range(lo as i64, (prev_today.max(lo + 1)) as i64) as i32, // old date
                8 => jan1_jd(year_of_jd(today)) + r.range(-2, 3) as i32,
                9 => today - r.range(2, 9) as i32,
                _ => r.range((lo - 3) as i64, (today + 3) as i64) as i32,
            };
            lookups.push(d);
        }
        let force = r.chance(15);
        let (mut rderr, mut wrerr) = (Vec::new(), Vec::new());
        if kind == "flaky" {
            for yy in rem.keys() {
                if r.chance(25) {
                    rderr.push(*yy);
                }
                if r.chance(25) {
                    wrerr.push(*yy);
                }
            }
        }
        runs.push(RunSpec { today, force, rem, rderr, wrerr, lookups });
        prev_today = today;
    }
    // a truthful but sparse initial cache (as the unit tests seed it): some rows of what the first
    // run's remote knows, zero placeholders for some past days without a rate
    let mut seed: BTreeMap<i32, Vec<(i32, Decimal)>> = BTreeMap::new();
    if r.chance(20) {
        let first = &runs[0];
        let known: HashMap<i32, Decimal> =
            first.rem.values().flat_map(|v| v.iter().cloned()).collect();
        let a = r.range(lo as i64, first.today as i64) as i32;
        let b = (a + r.range(0, 20) as i32).min(first.today - 1);
        for j in a..=b {
            if r.chance(80) {
                let v = known.get(&j).cloned().unwrap_or(Decimal::ZERO);
                seed.entry(year_of_jd(j)).or_default().push((j, v));
            }
        }
    }
    CacheCase { kind, seed, runs }
}

// ------------------------------------------------------------------------------------- execution

struct CacheHandle {
    kind: String,
    map: RcRefCell<HashMap<u32, Vec<DailyRate>>>,
    dir: PathBuf,
    rderr: Rc<RefCell<HashSet<u32>>>,
    wrerr: Rc<RefCell<HashSet<u32>>>,
}

impl CacheHandle {
    fn new(kind: &str) -> CacheHandle {
        CacheHandle {
            kind: kind.to_string(),
            map: RcRefCellT::new(HashMap::new()),
            dir: scratch_dir("fxcache"),
            rderr: Rc::new(RefCell::new(HashSet::new())),
            wrerr: Rc::new(RefCell::new(HashSet::new())),
        }
    }
    fn boxed(&self) -> Box<dyn RatesCache> {
        match self.kind.as_str() {
            "mem" => Box::new(InMemoryRatesCache { rates_by_year: self.map.clone() }),
            "csv" => Box::new(CsvRatesCache::new(self.dir.clone(), WriteHandle::empty_write_handle())),
            _ => Box::new(FlakyCache { map: self.map.clone(), rderr: self.rderr.clone(), wrerr: self.wrerr.clone() }),
        }
    }
    /// Does the cached year of `d` (as a loader would read it) contain `d`?
    fn covers(&self, d: i32) -> bool {
        let date = date_from_jd(d);
        let y = date.year() as u32;
        match self.boxed().get_usd_cad_rates(y) {
            Ok(Some(rows)) => rows.iter().any(|x| x.date == date),
            _ => false,
        }
    }
    fn cleanup(&self) {
        if self.kind == "csv" {
            let _ = std::fs::remove_dir_all(&self.dir);
        }
    }
}

fn lk_str(res: Result<Result<DailyRate, String>, String>) -> String {
    match res {
        Ok(Ok(r)) => format!("ok {} {}", jd(r.date), r.foreign_to_local_rate),
        Ok(Err(_)) => "err".to_string(),
        Err(p) => format!("panic {}", oneline(&p).replace(' ', "_")),
    }
}

pub fn run_case(id: &str, c: &CacheCase, out: &mut String) {
    out.push_str(&format!("case {} fxcache cache={}\n", id, c.kind));
    let cache = CacheHandle::new(&c.kind);
    for (y, v) in &c.seed {
        out.push_str(&rem_line(*y, v).replacen("in rem", "in seed", 1));
        let _ = cache.boxed().write_rates(*y as u32, &to_daily(v));
    }
    for run in &c.runs {
        out.push_str(&format!("in run {} {}\n", run.today, run.force as u8));
        for (y, v) in &run.rem {
            out.push_str(&rem_line(*y, v));
        }
        for y in &run.rderr {
            out.push_str(&format!("in rderr {}\n", y));
        }
        for y in &run.wrerr {
            out.push_str(&format!("in wrerr {}\n", y));
        }
        acb::util::date::set_todays_date_for_test(date_from_jd(run.today));
        *cache.rderr.borrow_mut() = run.rderr.iter().map(|y| *y as u32).collect();
        *cache.wrerr.borrow_mut() = run.wrerr.iter().map(|y| *y as u32).collect();
        let remote = new_remote_map();
        for (y, v) in &run.rem {
            remote.borrow_mut().insert(*y as u32, to_daily(v));
        }
        let calls: Rc<RefCell<Vec<u32>>> = Rc::new(RefCell::new(Vec::new()));
        let mut loader = RateLoader::new(
            run.force,
            cache.boxed(),
            Box::new(CountingRemote::new(&remote, &calls)),
            WriteHandle::empty_write_handle(),
        );
        for d in &run.lookups {
            out.push_str(&format!("in lk {}\n", d));
            let cov = cache.covers(*d);
            let covall = (0..=7).all(|k| cache.covers(*d - k));
            let before = calls.borrow().len();
            let res = catch(|| loader.blocking_get_effective_usd_cad_rate(date_from_jd(*d)));
            let dl: Vec<String> = calls.borrow()[before..].iter().map(|y| y.to_string()).collect();
            out.push_str(&format!(
                "impl lk {} dl={} cov={} covall={}\n",
                lk_str(res),
                if dl.is_empty() { "-".to_string() } else { dl.join(",") },
                cov as u8,
                covall as u8
            ));
            // the same look-up with no cache: a new loader over an empty cache and the same remote
            let ref_calls: Rc<RefCell<Vec<u32>>> = Rc::new(RefCell::new(Vec::new()));
            let res = catch(|| {
                let mut fresh = RateLoader::new(
                    false,
                    Box::new(InMemoryRatesCache::new()),
                    Box::new(CountingRemote::new(&remote, &ref_calls)),
                    WriteHandle::empty_write_handle(),
                );
                fresh.blocking_get_effective_usd_cad_rate(date_from_jd(*d))
            });
            out.push_str(&format!("impl ref {}\n", lk_str(res)));
        }
    }
    cache.cleanup();
    out.push_str("end\n");
}

pub fn parse_case(lines: &[String]) -> Option<CacheCase> {
    let head: Vec<&str> = lines.first()?.split_whitespace().collect();
    let kind = head.iter().find_map(|t| t.strip_prefix("cache="))?.to_string();
    let mut c = CacheCase { kind, seed: BTreeMap::new(), runs: Vec::new() };
    let pairs = |t: &[&str]| -> Option<Vec<(i32, Decimal)>> {
        let mut v = Vec::new();
        let mut i = 0;
        while i + 1 < t.len() {
            v.push((t[i].parse().ok()?, t[i + 1].parse().ok()?));
            i += 2;
        }
        Some(v)
    };
    for l in &lines[1..] {
        let t: Vec<&str> = l.split_whitespace().collect();
        if t.first().copied() != Some("in") {
            continue;
        }
        match t.get(1).copied() {
            Some("seed") => {
                c.seed.insert(t.get(2)?.parse().ok()?, pairs(&t[3..])?);
            }
            Some("run") => c.runs.push(RunSpec {
                today: t.get(2)?.parse().ok()?,
                force: *t.get(3)? == "1",
                rem: BTreeMap::new(),
                rderr: vec![],
                wrerr: vec![],
                lookups: vec![],
            }),
            Some("rem") => {
                c.runs.last_mut()?.rem.insert(t.get(2)?.parse().ok()?, pairs(&t[3..])?);
            }
            Some("rderr") => c.runs.last_mut()?.rderr.push(t.get(2)?.parse().ok()?),
            Some("wrerr") => c.runs.last_mut()?.wrerr.push(t.get(2)?.parse().ok()?),
            Some("lk") => c.runs.last_mut()?.lookups.push(t.get(2)?.parse().ok()?),
            _ => {}
        }
    }
    Some(c)
}
