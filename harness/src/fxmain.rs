//! Entry point of the exchange-rate families (`fx`, `fxcache`, `fxcrash`) and their replay modes.
use std::io::Write;

use crate::rng::Rng;

/// Reads protocol cases from stdin and calls `f(case lines without `end`, id)` for each.
fn replay_stdin(mut f: impl FnMut(&[String], &str) -> bool) {
    let mut buf = String::new();
    std::io::Read::read_to_string(&mut std::io::stdin(), &mut buf).unwrap();
    let mut cur: Vec<String> = Vec::new();
    let mut n = 0;
    for l in buf.lines() {
        if l.starts_with("case ") {
            cur = vec![l.to_string()];
        } else if l == "end" {
            if !cur.is_empty() {
                let id = cur[0].split_whitespace().nth(1).unwrap_or("R").to_string();
                if f(&cur, &id) {
                    n += 1;
                }
            }
            cur.clear();
        } else if !cur.is_empty() {
            cur.push(l.to_string());
        }
    }
    if n == 0 {
        eprintln!("no replayable case on stdin");
        std::process::exit(2);
    }
}

pub fn run(args: &[String], seed: u64, count: u64, w: &mut dyn Write) {
    match args[1].as_str() {
        "fx" => {
            let mut s = String::new();
            crate::fx::cal_case(&format!("X{}-cal", seed), &mut s);
            w.write_all(s.as_bytes()).unwrap();
            let mut r = Rng::new(seed ^ 0xf0f0_1212);
            for i in 0..count {
                let mut cr = r.fork();
                let c = crate::fx::gen_case(&mut cr);
                let mut s = String::new();
                crate::fx::run_case(&format!("X{}-{}", seed, i), &c, &mut s);
                w.write_all(s.as_bytes()).unwrap();
            }
        }
        "fx-replay" => replay_stdin(|lines, id| match crate::fx::parse_case(lines) {
            Some(c) => {
                let mut s = String::new();
                crate::fx::run_case(id, &c, &mut s);
                w.write_all(s.as_bytes()).unwrap();
                true
            }
            None => false,
        }),
        "fxcache" => {
            let mut r = Rng::new(seed ^ 0xcac4_e000);
            for i in 0..count {
                let mut cr = r.fork();
                let c = crate::fxcache::gen_case(&mut cr);
                let mut s = String::new();
                crate::fxcache::run_case(&format!("H{}-{}", seed, i), &c, &mut s);
                w.write_all(s.as_bytes()).unwrap();
            }
        }
        "fxcache-replay" => replay_stdin(|lines, id| match crate::fxcache::parse_case(lines) {
            Some(c) => {
                let mut s = String::new();
                crate::fxcache::run_case(id, &c, &mut s);
                w.write_all(s.as_bytes()).unwrap();
                true
            }
            None => false,
        }),
        "fxcrash-child" => crate::fxcrash::child_main(args),
        "fxcrash" => {
            let thorough = args.iter().any(|a| a == "--thorough") || count >= 6;
            let mut r = Rng::new(seed ^ 0xc4a5_4000);
            for i in 0..count {
                let mut cr = r.fork();
                let c = crate::fxcrash::gen_case(&mut cr, i, thorough);
                let mut s = String::new();
                crate::fxcrash::run_case(&format!("K{}-{}", seed, i), &c, &mut s);
                w.write_all(s.as_bytes()).unwrap();
            }
        }
        "fxcrash-replay" => replay_stdin(|lines, id| match crate::fxcrash::parse_case(lines) {
            Some(c) => {
                let mut s = String::new();
                crate::fxcrash::run_case(id, &c, &mut s);
                w.write_all(s.as_bytes()).unwrap();
                true
            }
            None => false,
        }),
        f => {
            eprintln!("unknown family {}", f);
            std::process::exit(2);
        }
    }
}
