//! Family `layout` (C07): the same rows laid out differently (files, column order, header case and
//! padding, unrecognised columns, admissible row order) through the real
//! `run_acb_app_to_render_model`; observations = every rendered table of both runs.
use std::collections::HashMap;

use acb::app::run_acb_app_to_render_model;
use acb::app::AppRenderResult;
use acb::fx::io::testlib::new_test_rate_loader;
use acb::portfolio::io::tx_csv::TxCsvParseOptions;
use acb::portfolio::render::RenderTable;
use acb::util::rw::{DescribedReader, WriteHandle};
use async_std::task::block_on;
use rust_decimal::Decimal;

use crate::common::*;
use crate::csvrt::{stok, unstok};
use crate::rng::Rng;

pub const COLS: [&str; 15] = [
    "security",
    "trade date",
    "settlement date",
    "action",
    "shares",
    "amount/share",
    "commission",
    "currency",
    "exchange rate",
    "commission currency",
    "commission exchange rate",
    "superficial loss",
    "split ratio",
    "affiliate",
    "memo",
];

#[derive(Clone)]
pub struct Row {
    pub sec: String,
    pub settle_jd: i32,
    pub cells: Vec<String>, // in COLS order
}

pub struct Layout {
    pub order: Vec<usize>,        // row ids in the new order
    pub cuts: Vec<usize>,         // file boundaries (positions in the new order), ascending, inside (0, n)
    pub col_order: Vec<usize>,    // permutation of 0..15
    pub headers: Vec<String>,     // re-cased / padded header text per ORIGINAL column index
    pub extra: Vec<(usize, String, Vec<String>)>, // (insert position in the permuted header, header, cell per row id)
}

pub struct LayoutCase {
    pub rows: Vec<Row>,
    pub layout: Layout,
}

const SECS: [&str; 4] = ["FOO", "BAR", "BAZ.TO", "Q"];
const AFFS: [&str; 3] = ["Default", "Spouse", "Default (R)"];
const DAY_STEPS: [i32; 12] = [0, 0, 0, 0, 1, 1, 2, 5, 29, 30, 31, 200];

fn d2(v: i64, dp: u32) -> String {
    Decimal::new(v, dp).normalize().to_string()
}

pub fn gen_rows(r: &mut Rng) -> Vec<Row> {
    let n_sec = 1 + r.below(4) as usize;
    let secs: Vec<&str> = SECS[..n_sec].to_vec();
    // affiliates per security
    let sec_affs: Vec<Vec<&str>> = secs
        .iter()
        .map(|_| {
            let k = 1 + r.below(3) as usize;
            AFFS[..k].to_vec()
        })
        .collect();
    let n = match r.below(10) {
        0..=2 => r.range(2, 6),
        3..=7 => r.range(5, 14),
        _ => r.range(12, 28),
    } as usize;
    let mut bal: HashMap<(usize, usize), Decimal> = HashMap::new();
    let mut day = 2458850 + r.range(0, 300) as i32;
    let mut rows = Vec::new();
    for k in 0..n {
        day += *r.pick(&DAY_STEPS);
        let si = r.below(n_sec as u64) as usize;
        let ai = r.below(sec_affs[si].len() as u64) as usize;
        let aff = sec_affs[si][ai];
        let registered = aff.contains("(R)");
        let b = *bal.get(&(si, ai)).unwrap_or(&Decimal::ZERO);
        let mut roll = r.below(100);
        let offend = r.chance(2);
        if !offend {
            if (45..78).contains(&roll) && b.is_zero() {
                roll = 0;
            }
            if (78..88).contains(&roll) && (b.is_zero() || registered) {
                roll = 0;
            }
        }
        let settle = date_from_jd(day);
        let trade = date_from_jd(day - if r.chance(70) { 2 } else { 0 });
        let mut cells: Vec<String> = vec![String::new(); 15];
        cells[0] = secs[si].to_string();
        cells[1] = date_str(trade);
        cells[2] = date_str(settle);
        cells[13] = if r.chance(15) && aff == "Default" && sec_affs[si].len() == 1 {
            String::new()
        } else {
            aff.to_string()
        };
        // some memos start with '#' (a comment marker in many CSV dialects, not in this one)
        cells[14] = if r.chance(15) { format!("#r{}", k) } else { format!("r{}", k) };
        let usd = r.chance(35);
        let set_cur = |cells: &mut Vec<String>, r: &mut Rng| {
            if usd {
                cells[7] = "USD".to_string();
                cells[8] = d2(r.range(9000, 15000), 4);
            } else if r.chance(60) {
                cells[7] = "CAD".to_string();
            }
        };
        if roll < 45 {
            let sh = Decimal::new(r.range(1, 200), if r.chance(80) { 0 } else { 1 });
            cells[3] = "Buy".to_string();
            cells[4] = sh.normalize().to_string();
            cells[5] = d2(r.range(100, 20000), 2);
            if r.chance(50) {
                cells[6] = d2(r.range(0, 1500), 2);
            }
            set_cur(&mut cells, r);
            if r.chance(10) {
                cells[9] = "USD".to_string();
                cells[10] = d2(r.range(9000, 15000), 4);
            }
            bal.insert((si, ai), b + sh);
        } else if roll < 78 {
            let sh = if offend {
                b + Decimal::ONE
            } else if r.chance(25) {
                b
            } else {
                // a share count not above the balance
                let whole = b.trunc();
                if whole.is_zero() {
                    b
                } else {
                    let w: i64 = whole.to_string().parse().unwrap_or(1);
                    Decimal::new(r.range(1, w.max(1)), 0)
                }
            };
            cells[3] = "Sell".to_string();
            cells[4] = sh.normalize().to_string();
            cells[5] = d2(r.range(100, 20000), 2);
            if r.chance(50) {
                cells[6] = d2(r.range(0, 1500), 2);
            }
            set_cur(&mut cells, r);
            bal.insert((si, ai), (b - sh).max(Decimal::ZERO));
        } else if roll < 88 {
            cells[3] = "RoC".to_string();
            cells[5] = d2(r.range(1, 20), 3);
            set_cur(&mut cells, r);
        } else {
            let (post, pre) = *r.pick(&[(2, 1), (3, 1), (1, 2), (3, 2)]);
            cells[3] = "Split".to_string();
            cells[12] = if post < pre && r.chance(50) {
                format!("{}.0-for-{}.0", post, pre)
            } else {
                format!("{}-for-{}", post, pre)
            };
            // a split always names its affiliate unless the security has one affiliate only
            if sec_affs[si].len() > 1 {
                cells[13] = aff.to_string();
            }
            let nb = b * Decimal::new(post, 0) / Decimal::new(pre, 0);
            bal.insert((si, ai), if post < pre && !cells[12].contains('.') { nb.trunc() } else { nb });
        }
        rows.push(Row { sec: secs[si].to_string(), settle_jd: day, cells });
    }
    rows
}

fn shuffle<T>(r: &mut Rng, v: &mut Vec<T>) {
    for i in (1..v.len()).rev() {
        let j = r.below(i as u64 + 1) as usize;
        v.swap(i, j);
    }
}

const PADS: [&str; 5] = ["", " ", "  ", "\t", " \t "];
const EXTRA_HEADERS: [&str; 8] = ["notes", "x", "security 2", "Date2", "", "share", "rate", "Memo2"];
const JUNK: [&str; 8] = ["", "1", "abc", "2020-01-01", "a, b", "\"q\"", " pad ", "Buy"];

pub fn gen_layout(r: &mut Rng, rows: &[Row]) -> Layout {
    let n = rows.len();
    // admissible row order: random keys, then within every (security, settlement date) class the
    // keys are handed out in input order
    let mut order: Vec<usize> = (0..n).collect();
    if r.chance(70) {
        let mut key: Vec<u64> = (0..n).map(|_| r.below(1_000_000)).collect();
        let mut classes: HashMap<(String, i32), Vec<usize>> = HashMap::new();
        for (i, row) in rows.iter().enumerate() {
            classes.entry((row.sec.clone(), row.settle_jd)).or_default().push(i);
        }
        let mut cls: Vec<&Vec<usize>> = classes.values().collect();
        cls.sort();
        for members in cls {
            let mut ks: Vec<u64> = members.iter().map(|i| key[*i]).collect();
            ks.sort();
            for (m, k) in members.iter().zip(ks) {
                key[*m] = k;
            }
        }
        order.sort_by_key(|i| (key[*i], *i));
    }
    let mut cuts: Vec<usize> = Vec::new();
    if n >= 2 && r.chance(65) {
        let k = 1 + r.below(3);
        for _ in 0..k {
            let c = r.range(1, n as i64 - 1) as usize;
            if !cuts.contains(&c) {
                cuts.push(c);
            }
        }
        cuts.sort();
    }
    let mut col_order: Vec<usize> = (0..15).collect();
    if r.chance(65) {
        shuffle(r, &mut col_order);
    }
    let mut headers: Vec<String> = COLS.iter().map(|s| s.to_string()).collect();
    if r.chance(65) {
        for h in headers.iter_mut() {
            let mut s = String::new();
            for c in h.chars() {
                if r.chance(40) {
                    s.extend(c.to_uppercase());
                } else {
                    s.push(c);
                }
            }
            *h = format!("{}{}{}", r.pick(&PADS), s, r.pick(&PADS));
        }
    }
    let mut extra = Vec::new();
    if r.chance(50) {
        let k = 1 + r.below(3);
        for j in 0..k {
            let pos = r.below(15 + j + 1) as usize;
            let h = r.pick(&EXTRA_HEADERS).to_string();
            let cells: Vec<String> = (0..n).map(|_| r.pick(&JUNK).to_string()).collect();
            extra.push((pos, h, cells));
        }
    }
    Layout { order, cuts, col_order, headers, extra }
}

fn quote(s: &str) -> String {
    if s.contains(',') || s.contains('"') || s.contains('\n') || s.contains('\r') {
        format!("\"{}\"", s.replace('"', "\"\""))
    } else {
        s.to_string()
    }
}

fn csv_line(cells: &[String]) -> String {
    let mut s = cells.iter().map(|c| quote(c)).collect::<Vec<_>>().join(",");
    s.push('\n');
    s
}

pub fn base_files(rows: &[Row]) -> Vec<String> {
    let mut s = csv_line(&COLS.iter().map(|c| c.to_string()).collect::<Vec<_>>());
    for r in rows {
        s.push_str(&csv_line(&r.cells));
    }
    vec![s]
}

pub fn laid_out_files(rows: &[Row], l: &Layout) -> Vec<String> {
    let build_line = |get: &dyn Fn(usize) -> String, extra_cell: &dyn Fn(usize) -> String| -> String {
        let mut cells: Vec<String> = l.col_order.iter().map(|c| get(*c)).collect();
        for (j, (pos, _, _)) in l.extra.iter().enumerate() {
            let p = (*pos).min(cells.len());
            cells.insert(p, extra_cell(j));
        }
        csv_line(&cells)
    };
    let header = build_line(&|c| l.headers[c].clone(), &|j| l.extra[j].1.clone());
    let mut files = Vec::new();
    let mut cur = header.clone();
    for (pos, rid) in l.order.iter().enumerate() {
        if l.cuts.contains(&pos) {
            files.push(cur);
            cur = header.clone();
        }
        let row = &rows[*rid];
        cur.push_str(&build_line(&|c| row.cells[c].clone(), &|j| l.extra[j].2[*rid].clone()));
    }
    files.push(cur);
    files
}

// ------------------------------------------------------------------------------------------
// observations

/// free text as one token: `\` `space` newline CR escaped
fn etok(s: &str) -> String {
    let mut o = String::from("e");
    for c in s.chars() {
        match c {
            '\\' => o.push_str("\\\\"),
            ' ' => o.push_str("\\s"),
            '\n' => o.push_str("\\n"),
            '\r' => o.push_str("\\r"),
            '\t' => o.push_str("\\t"),
            c => o.push(c),
        }
    }
    o
}

/// Numbers are compared by value at 1e-9: every number in a table is rounded to 9 decimals and
/// printed without trailing zeros (`$0.000` = `$0`).  With full-value rendering the scale and the
/// 28th digit of a sum depend on the order in which a HashMap hands out the securities — run-to-run
/// noise on identical input (measured with VERIF_LAYOUT_SELF=1), which is C09's subject.
fn canon_num(s: &str) -> String {
    use std::str::FromStr;
    let cs: Vec<char> = s.chars().collect();
    let mut o = String::new();
    let mut i = 0;
    while i < cs.len() {
        if cs[i].is_ascii_digit() {
            let mut j = i;
            while j < cs.len() && cs[j].is_ascii_digit() {
                j += 1;
            }
            if j + 1 < cs.len() && cs[j] == '.' && cs[j + 1].is_ascii_digit() {
                let mut k = j + 1;
                while k < cs.len() && cs[k].is_ascii_digit() {
                    k += 1;
                }
                let text: String = cs[i..k].iter().collect();
                match Decimal::from_str(&text) {
                    Ok(d) => o.push_str(
                        &d.round_dp_with_strategy(9, rust_decimal::RoundingStrategy::MidpointAwayFromZero)
                            .normalize()
                            .to_string(),
                    ),
                    Err(_) => o.push_str(&text),
                }
                i = k;
            } else {
                for c in &cs[i..j] {
                    o.push(*c);
                }
                i = j;
            }
        } else {
            o.push(cs[i]);
            i += 1;
        }
    }
    o
}

fn table_dump(t: &RenderTable, sort_notes: bool) -> String {
    let mut notes = t.notes.clone();
    if sort_notes {
        notes.sort();
    }
    let rows: Vec<String> = t.rows.iter().map(|r| r.join("\u{1f}")).collect();
    canon_num(&format!(
        "H:{}\u{1e}R:{}\u{1e}F:{}\u{1e}N:{}\u{1e}E:{}",
        t.header.join("\u{1f}"),
        rows.join("\u{1d}"),
        t.footer.join("\u{1f}"),
        notes.join("\u{1f}"),
        t.errors.join("\u{1f}")
    ))
}

fn observe(which: &str, files: Vec<String>, out: &mut String) {
    let readers: Vec<DescribedReader> = files
        .into_iter()
        .enumerate()
        .map(|(i, f)| DescribedReader::from_string(format!("f{}.csv", i), f))
        .collect();
    let res = catch(move || {
        let (loader, _, _) = new_test_rate_loader(false);
        block_on(run_acb_app_to_render_model(
            readers,
            HashMap::new(),
            &TxCsvParseOptions::default(),
            true,
            true,
            loader,
            WriteHandle::empty_write_handle(),
        ))
    });
    match res {
        Err(p) => out.push_str(&format!("impl {} panic {}\n", which, p.replace(' ', "_"))),
        Ok(Err(e)) => out.push_str(&format!("impl {} err {}\n", which, etok(&e))),
        Ok(Ok(rr)) => dump_result(which, &rr, out),
    }
}

fn dump_result(which: &str, rr: &AppRenderResult, out: &mut String) {
    out.push_str(&format!("impl {} ok\n", which));
    let mut secs: Vec<&String> = rr.security_tables.keys().collect();
    secs.sort();
    for s in secs {
        let t = &rr.security_tables[s];
        out.push_str(&format!("impl {} sec {} {}\n", which, stok(s), etok(&table_dump(t, false))));
        // processing order of the input rows = their memo tags in table order
        let memo_col = t.header.iter().position(|h| h == "Memo");
        let tags: Vec<String> = t
            .rows
            .iter()
            .filter_map(|r| memo_col.and_then(|c| r.get(c)).cloned())
            .map(|m| m.trim_start_matches('#').to_string())
            .filter(|m| m.starts_with('r') && m[1..].chars().all(|c| c.is_ascii_digit()) && m.len() > 1)
            .map(|m| m[1..].to_string())
            .collect();
        out.push_str(&format!("impl {} order {} {} {}\n", which, stok(s), t.errors.len(), tags.join(",")));
    }
    out.push_str(&format!("impl {} agg {}\n", which, etok(&table_dump(&rr.aggregate_gains_table, false))));
    if let Some(c) = &rr.costs_tables {
        out.push_str(&format!("impl {} totalhdr {}\n", which, etok(&c.total.header.join("\u{1f}"))));
        let mut notes = c.total.notes.clone();
        notes.sort();
        out.push_str(&format!("impl {} totalnotes {}\n", which, etok(&notes.join("\u{1f}"))));
        for row in &c.total.rows {
            out.push_str(&format!(
                "impl {} total {} {} {}\n",
                which,
                etok(row.first().map(|s| s.as_str()).unwrap_or("")),
                etok(&canon_num(row.get(1).map(|s| s.as_str()).unwrap_or(""))),
                etok(&canon_num(&row.join("\u{1f}")))
            ));
        }
        for row in &c.yearly.rows {
            out.push_str(&format!(
                "impl {} yearly {} {}\n",
                which,
                etok(row.first().map(|s| s.as_str()).unwrap_or("")),
                etok(&canon_num(&row.join("\u{1f}")))
            ));
        }
    }
}

pub fn run_case(id: &str, c: &LayoutCase, out: &mut String) {
    let l = &c.layout;
    let ident_cols = l.col_order.iter().enumerate().all(|(i, c)| i == *c);
    let ident_rows = l.order.iter().enumerate().all(|(i, c)| i == *c);
    let ident_hdr = l.headers.iter().zip(COLS.iter()).all(|(a, b)| a == b);
    out.push_str(&format!(
        "case {} layout n={} files={} colperm={} rowperm={} recase={} extra={}\n",
        id,
        c.rows.len(),
        l.cuts.len() + 1,
        !ident_cols as u8,
        !ident_rows as u8,
        !ident_hdr as u8,
        l.extra.len()
    ));
    for (k, r) in c.rows.iter().enumerate() {
        out.push_str(&format!("in row {} {} {}", k, stok(&r.sec), r.settle_jd));
        for cell in &r.cells {
            out.push(' ');
            out.push_str(&stok(cell));
        }
        out.push('\n');
    }
    out.push_str(&format!(
        "in order {}\n",
        l.order.iter().map(|x| x.to_string()).collect::<Vec<_>>().join(",")
    ));
    out.push_str(&format!(
        "in cuts {}\n",
        l.cuts.iter().map(|x| x.to_string()).collect::<Vec<_>>().join(",")
    ));
    out.push_str(&format!(
        "in cols {}\n",
        l.col_order.iter().map(|x| x.to_string()).collect::<Vec<_>>().join(",")
    ));
    out.push_str("in headers");
    for h in &l.headers {
        out.push(' ');
        out.push_str(&stok(h));
    }
    out.push('\n');
    for (pos, h, cells) in &l.extra {
        out.push_str(&format!("in extra {} {}", pos, stok(h)));
        for cell in cells {
            out.push(' ');
            out.push_str(&stok(cell));
        }
        out.push('\n');
    }
    observe("base", base_files(&c.rows), out);
    // VERIF_LAYOUT_SELF=1: run the base layout twice (measures run-to-run noise that is not C07's subject)
    let files = if std::env::var("VERIF_LAYOUT_SELF").is_ok() { base_files(&c.rows) } else { laid_out_files(&c.rows, l) };
    let repro = files.join("-----\n");
    observe("relaid", files, out);
    out.push_str(&format!("repro {}\n", oneline(&repro)));
    out.push_str("end\n");
}

pub fn gen_case(r: &mut Rng) -> LayoutCase {
    let mut rows = gen_rows(r);
    // now and then: a few note rows without an action (spreadsheet sub-headings) in the first half.
    // The reader rejects such a row in every layout; whatever a program does with them, it must do
    // the same in every layout.
    if r.chance(6) && rows.len() >= 4 {
        for k in 0..(2 + r.below(2)) {
            let pos = r.below((rows.len() / 2).max(1) as u64) as usize;
            let mut cells: Vec<String> = vec![String::new(); 15];
            cells[0] = rows[pos].cells[0].clone();
            cells[1] = rows[pos].cells[1].clone();
            cells[2] = rows[pos].cells[2].clone();
            cells[14] = format!("note{}", k);
            let note = Row { sec: rows[pos].sec.clone(), settle_jd: rows[pos].settle_jd, cells };
            rows.insert(pos, note);
        }
    }
    // now and then: two or three wholly blank rows (",,,,": spreadsheet spacer lines) somewhere in the
    // first half.  The reader rejects them in every layout today; a program that starts to tolerate
    // them must still number the rows of the following files as before (seeded change C07-14).
    // Decided from the rows themselves, not from the generator's stream, so that the other cases
    // stay what they were.
    let h = rows.iter().fold(rows.len() as u64, |a, x| a.wrapping_mul(31).wrapping_add(x.settle_jd as u64));
    if h % 12 == 5 && rows.len() >= 4 {
        let nb = 2 + ((h / 12) % 2) as usize;
        let pos = ((h / 24) as usize) % (rows.len() / 2).max(1);
        for _ in 0..nb {
            let blank = Row { sec: rows[pos].sec.clone(), settle_jd: rows[pos].settle_jd, cells: vec![String::new(); 15] };
            rows.insert(pos, blank);
        }
    }
    let layout = gen_layout(r, &rows);
    LayoutCase { rows, layout }
}

fn parse_list(s: Option<&str>) -> Vec<usize> {
    s.unwrap_or("").split(',').filter_map(|x| x.parse().ok()).collect()
}

pub fn replay(lines: &[String], out: &mut String) -> bool {
    let head: Vec<&str> = lines[0].split_whitespace().collect();
    let id = head.get(1).copied().unwrap_or("R");
    let mut rows = Vec::new();
    let mut layout = Layout {
        order: vec![],
        cuts: vec![],
        col_order: (0..15).collect(),
        headers: COLS.iter().map(|s| s.to_string()).collect(),
        extra: vec![],
    };
    for l in lines.iter().skip(1) {
        let t: Vec<&str> = l.split_whitespace().collect();
        if t.len() < 2 || t[0] != "in" {
            continue;
        }
        match t[1] {
            "row" if t.len() >= 5 => {
                let cells: Option<Vec<String>> = t[5..].iter().map(|c| unstok(c)).collect();
                let (Some(sec), Ok(jd), Some(cells)) = (unstok(t[3]), t[4].parse::<i32>(), cells) else {
                    return false;
                };
                rows.push(Row { sec, settle_jd: jd, cells });
            }
            "order" => layout.order = parse_list(t.get(2).copied()),
            "cuts" => layout.cuts = parse_list(t.get(2).copied()),
            "cols" => layout.col_order = parse_list(t.get(2).copied()),
            "headers" => {
                let Some(h) = t[2..].iter().map(|c| unstok(c)).collect::<Option<Vec<String>>>() else {
                    return false;
                };
                layout.headers = h;
            }
            "extra" if t.len() >= 4 => {
                let Some(cells) = t[4..].iter().map(|c| unstok(c)).collect::<Option<Vec<String>>>() else {
                    return false;
                };
                let (Ok(pos), Some(h)) = (t[2].parse::<usize>(), unstok(t[3])) else {
                    return false;
                };
                layout.extra.push((pos, h, cells));
            }
            _ => {}
        }
    }
    if layout.order.len() != rows.len() || layout.col_order.len() != 15 || layout.headers.len() != 15 {
        return false;
    }
    run_case(id, &LayoutCase { rows, layout }, out);
    true
}
