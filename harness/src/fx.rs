//! Family `fx` (C12): `RateLoader::get_effective_usd_cad_rate` of a FRESH loader over
//! `MockRemoteRateLoader` / `JsonRemoteRateLoader` (scripted `HttpRequester`), and CSV rows through
//! `load_tx_rates` + `Tx::try_from` for the currency rules.
use std::cell::RefCell;
use std::collections::{BTreeMap, HashMap};
use std::rc::Rc;

use acb::fx::io::pub_testlib::MockRemoteRateLoader;
use acb::fx::io::{InMemoryRatesCache, RateLoader};
use acb::fx::DailyRate;
use acb::portfolio::io::tx_loader::load_tx_rates;
use acb::portfolio::{CsvTx, Currency, Tx, TxAction, TxActionSpecifics};
use acb::util::rc::RcRefCellT;
use acb::util::rw::WriteHandle;
use rust_decimal::Decimal;

use crate::common::*;
use crate::fxcommon::*;
use crate::rng::Rng;

#[derive(Clone, Debug, PartialEq)]
pub enum DateSpec {
    Good(i32),
    Bad,     // "d": "01-02-2016"
    Missing, // no "d"
    NonObj,  // the observation is not an object
}

#[derive(Clone, Debug, PartialEq)]
pub enum Field {
    Absent,
    Bad(u8),         // malformed in one of several ways
    Val(Decimal),    // {"v": "<decimal>"}
    ValNum(Decimal), // {"v": <number>}
}

#[derive(Clone, Debug)]
pub struct ObsRec {
    pub date: DateSpec,
    pub noon: Field,
    pub daily: Field,
}

#[derive(Clone, Debug)]
pub struct Row {
    pub trade: i32,
    pub settle: i32,
    pub cur: Option<String>,
    pub fx: Option<Decimal>,
    pub ccur: Option<String>,
    pub cfx: Option<Decimal>,
}

pub struct FxCase {
    pub json: bool,
    pub today: i32,
    pub force: bool,
    pub rem: BTreeMap<i32, Vec<(i32, Decimal)>>,
    pub srv: BTreeMap<(String, i32), Vec<ObsRec>>, // ("noon"|"daily", year)
    pub lookups: Vec<i32>,
    pub rows: Vec<Row>,
    pub cal_days: Vec<i32>,
    /// the look-ups go through ONE loader, in order (a run looks rates up row by row)
    pub seq: bool,
}

const NOON: &str = "IEXE0101";
const DAILY: &str = "FXCADUSD";

fn field_json(key: &str, f: &Field) -> Option<String> {
    match f {
        Field::Absent => None,
        Field::Val(v) => Some(format!("\"{}\":{{\"v\":\"{}\"}}", key, v)),
        Field::ValNum(v) => Some(format!("\"{}\":{{\"v\":{}}}", key, v)),
        Field::Bad(k) => Some(match k % 6 {
            0 => format!("\"{}\":\"1.333\"", key),
            1 => format!("\"{}\":{{}}", key),
            2 => format!("\"{}\":{{\"v\":\"kljsdf\"}}", key),
            3 => format!("\"{}\":{{\"v\":\"0\"}}", key),
            4 => format!("\"{}\":{{\"v\":\"-1.25\"}}", key),
            _ => format!("\"{}\":{{\"v\":{{}}}}", key),
        }),
    }
}

fn obs_json(o: &ObsRec) -> String {
    if o.date == DateSpec::NonObj {
        return "1234".to_string();
    }
    let mut parts: Vec<String> = Vec::new();
    match &o.date {
        DateSpec::Good(j) => parts.push(format!("\"d\":\"{}\"", date_str(date_from_jd(*j)))),
        DateSpec::Bad => parts.push("\"d\":\"01-02-2016\"".to_string()),
        _ => {}
    }
    if let Some(s) = field_json(NOON, &o.noon) {
        parts.push(s);
    }
    if let Some(s) = field_json(DAILY, &o.daily) {
        parts.push(s);
    }
    format!("{{{}}}", parts.join(","))
}

fn body_json(recs: &[ObsRec]) -> String {
    let v: Vec<String> = recs.iter().map(obs_json).collect();
    format!("{{\"terms\":{{}},\"observations\":[{}]}}", v.join(","))
}

fn field_tok(f: &Field) -> String {
    match f {
        Field::Absent => "-".to_string(),
        Field::Bad(k) => format!("b{}", k),
        Field::Val(v) => v.to_string(),
        Field::ValNum(v) => format!("n{}", v),
    }
}

fn parse_field(s: &str) -> Option<Field> {
    if s == "-" {
        Some(Field::Absent)
    } else if let Some(k) = s.strip_prefix('b') {
        Some(Field::Bad(k.parse().ok()?))
    } else if let Some(v) = s.strip_prefix('n') {
        Some(Field::ValNum(v.parse().ok()?))
    } else {
        Some(Field::Val(s.parse().ok()?))
    }
}

fn date_tok(d: &DateSpec) -> String {
    match d {
        DateSpec::Good(j) => j.to_string(),
        DateSpec::Bad => "bad".to_string(),
        DateSpec::Missing => "none".to_string(),
        DateSpec::NonObj => "nonobj".to_string(),
    }
}

fn parse_date_tok(s: &str) -> Option<DateSpec> {
    Some(match s {
        "bad" => DateSpec::Bad,
        "none" => DateSpec::Missing,
        "nonobj" => DateSpec::NonObj,
        j => DateSpec::Good(j.parse().ok()?),
    })
}

fn opt_tok<T: ToString>(o: &Option<T>) -> String {
    match o {
        Some(v) => v.to_string(),
        None => "-".to_string(),
    }
}

// ------------------------------------------------------------------------------------ generation

const YEARS: [i32; 14] = [2014, 2015, 2016, 2016, 2016, 2017, 2017, 2017, 2018, 2019, 2020, 2021, 2023, 2024];

pub fn gen_case(r: &mut Rng) -> FxCase {
    let json = r.chance(35);
    let y = *r.pick(&YEARS);
    // window
    let (lo, hi) = match r.below(10) {
        0..=3 => (jan1_jd(y + 1) - r.range(8, 25) as i32, jan1_jd(y + 1) + r.range(3, 25) as i32),
        4..=6 => (jan1_jd(y), jan1_jd(y) + r.range(10, 45) as i32),
        _ => {
            let s = jan1_jd(y) + r.range(20, 300) as i32;
            (s, s + r.range(15, 50) as i32)
        }
    };
    let holes = r.below(4) as usize;
    let mut cal = gen_calendar(r, lo, hi, holes, 9);
    // New Year's Day and Christmas are never business days
    for yy in [y, y + 1] {
        cal.remove(&jan1_jd(yy));
        cal.remove(&(jan1_jd(yy) - 7));
    }
    let today = match r.below(10) {
        0..=2 => hi + 1,
        3 => hi,
        4 => hi - r.range(1, 6) as i32,
        5 => lo + (hi - lo) / 2,
        6 => hi + r.range(300, 800) as i32,
        7 => jan1_jd(y + 1),
        8 => jan1_jd(y + 1) + 1,
        _ => hi + r.range(2, 12) as i32,
    };
    // what the remote knows: nothing after today; today's own rate may not be out yet
    let mut known: Calendar = cal.iter().filter(|(j, _)| **j <= today).map(|(j, v)| (*j, *v)).collect();
    if r.chance(50) {
        known.remove(&today);
    }
    let mut rem = per_year(&known, None);
    for yy in [y - 1, y, y + 1, y + 2] {
        if r.chance(85) {
            rem.entry(yy).or_default();
        }
    }
    // occasionally malformed remote data (model fidelity only; the oracle skips them)
    if !json && r.chance(8) {
        let keys: Vec<i32> = rem.keys().cloned().collect();
        let k = *r.pick(&keys);
        let v = rem.get_mut(&k).unwrap();
        match r.below(5) {
            0 => v.push((today + r.range(1, 5) as i32, rand_rate4(r))), // future data
            1 => {
                if let Some(x) = v.first().cloned() {
                    v.push(x) // duplicate, unsorted
                }
            }
            2 => {
                if v.len() >= 2 {
                    let i = r.below(v.len() as u64 - 1) as usize;
                    v.swap(i, i + 1)
                }
            }
            3 => {
                if !v.is_empty() {
                    let i = r.below(v.len() as u64) as usize;
                    v[i].1 = Decimal::ZERO
                }
            }
            _ => v.push((jan1_jd(k + 1) + r.range(0, 3) as i32, rand_rate4(r))), // next year's day
        }
    }
    let force = r.chance(25);

    let mut srv: BTreeMap<(String, i32), Vec<ObsRec>> = BTreeMap::new();
    if json {
        let dirty = r.chance(30);
        for (yy, v) in rem.iter() {
            let right = if *yy >= 2017 { "daily" } else { "noon" };
            let wrong = if *yy >= 2017 { "noon" } else { "daily" };
            let mut recs: Vec<ObsRec> = Vec::new();
            for (j, rate) in v {
                let numeric = r.chance(10);
                let mk = |d: Decimal| if numeric { Field::ValNum(d) } else { Field::Val(d) };
                let rec = if right == "noon" {
                    ObsRec { date: DateSpec::Good(*j), noon: mk(*rate), daily: Field::Absent }
                } else {
                    // published value is CAD->USD; 4 decimals like the real series
                    let cadusd = Decimal::new(r.range(6500, 10500), 4);
                    ObsRec { date: DateSpec::Good(*j), noon: Field::Absent, daily: mk(cadusd) }
                };
                recs.push(rec);
            }
            if dirty {
                let n = r.range(1, 3);
                for _ in 0..n {
                    let pos = r.below(recs.len() as u64 + 1) as usize;
                    let j = lo + r.range(0, (hi - lo) as i64) as i32;
                    let date = match r.below(6) {
                        0 => DateSpec::Bad,
                        1 => DateSpec::Missing,
                        2 => DateSpec::NonObj,
                        _ => DateSpec::Good(j),
                    };
                    let rf = |r: &mut Rng| match r.below(6) {
                        0 => Field::Absent,
                        1 => Field::Bad(r.below(6) as u8),
                        // an observation of zero (or below) must be skipped like any unusable record
                        2 => Field::Val(Decimal::ZERO),
                        3 if r.chance(30) => Field::Val(Decimal::new(-r.range(1, 15000), 4)),
                        _ => Field::Val(Decimal::new(r.range(6500, 15000), 4)),
                    };
                    let rec = ObsRec { date, noon: rf(r), daily: rf(r) };
                    // keep dates unique and sorted among good records: only insert a good-dated dirty
                    // record if that day has no record yet, at its sorted position
                    if let DateSpec::Good(jj) = rec.date {
                        if year_of_jd(jj) != *yy || jj > today {
                            continue;
                        }
                        if recs.iter().any(|o| o.date == DateSpec::Good(jj)) {
                            continue;
                        }
                        let p = recs
                            .iter()
                            .position(|o| matches!(o.date, DateSpec::Good(x) if x > jj))
                            .unwrap_or(recs.len());
                        recs.insert(p, rec);
                    } else {
                        recs.insert(pos, rec);
                    }
                }
            }
            srv.insert((right.to_string(), *yy), recs);
            if r.chance(50) {
                // decoy: the other series also has data for this year (different values)
                let mut decoy = Vec::new();
                for (j, _) in v {
                    let d = Decimal::new(r.range(6500, 15000), 4);
                    decoy.push(if wrong == "noon" {
                        ObsRec { date: DateSpec::Good(*j), noon: Field::Val(d), daily: Field::Absent }
                    } else {
                        ObsRec { date: DateSpec::Good(*j), noon: Field::Absent, daily: Field::Val(d) }
                    });
                }
                srv.insert((wrong.to_string(), *yy), decoy);
            }
        }
        rem.clear();
    }

    // look-ups
    let mut cand: Vec<i32> = vec![today - 1, today, today + 1, today - 7, today - 8, jan1_jd(y + 1) - 1,
        jan1_jd(y + 1), jan1_jd(y + 1) + 1, jan1_jd(y + 1) + 2, jan1_jd(y), jan1_jd(y) + 1, lo, hi, hi - 1, hi - 2];
    // days after the end of each gap in the calendar
    let days: Vec<i32> = cal.keys().cloned().collect();
    for w in days.windows(2) {
        if w[1] - w[0] >= 2 {
            cand.push(w[0] + 1);
            cand.push(w[1] - 1);
        }
    }
    if let Some(last) = days.last() {
        for k in [6, 7, 8, 9] {
            cand.push(last + k);
        }
    }
    if let Some(first) = days.first() {
        cand.push(first - 1);
        cand.push(first + 7);
    }
    let n = r.range(5, 11) as usize;
    let mut lookups = Vec::new();
    for _ in 0..n {
        match r.below(10) {
            0..=4 => lookups.push(*r.pick(&cand)),
            5..=8 => lookups.push(r.range(lo as i64, hi as i64) as i32),
            _ => lookups.push(r.range((lo - 10) as i64, (hi + 12) as i64) as i32),
        }
    }

    // rows
    // (currency, rate) scenarios of one amount: mostly valid
    let slots: [(&str, &str); 25] = [
        ("USD", "-"), ("USD", "-"), ("USD", "-"), ("USD", "-"), ("USD", "-"), ("usd", "-"),
        ("USD", "1.25"), ("USD", "1.3001"), ("CAD", "-"), ("-", "-"), ("-", "-"), ("CAD", "1"), ("cad", "1.0"),
        ("EUR", "0.75"), ("EUR", "1.5"),
        // offences
        ("EUR", "-"), ("CAD", "1.25"), ("-", "1.25"), ("USD", "0"), ("USD", "-1.5"),
        // CAD with a rate that is almost, but not, 1
        ("CAD", "1.004"), ("CAD", "0.996"), ("-", "1.0000000001"), ("CAD", "0.99999999"), ("CAD", "1.00"),
    ];
    let nrows = r.below(5) as usize;
    let mut rows = Vec::new();
    for _ in 0..nrows {
        let trade = if r.chance(70) { *r.pick(&cand) } else { *r.pick(&lookups) };
        let settle = trade + r.range(0, 3) as i32;
        let pc = |s: &str| if s == "-" { None } else { Some(s.to_string()) };
        let pr = |s: &str| if s == "-" { None } else { Some(dec(s)) };
        let a = *r.pick(&slots);
        let b = if r.chance(55) { ("-", "-") } else { *r.pick(&slots) };
        let (cur, fx) = (pc(a.0), pr(a.1));
        let (ccur, cfx) = (pc(b.0), pr(b.1));
        rows.push(Row { trade, settle, cur, fx, ccur, cfx });
    }

    // calendar probes
    let mut cal_days = vec![lo, hi, today, jan1_jd(y + 1) - 1, jan1_jd(y + 1)];
    cal_days.push(jan1_jd(1900) + r.range(0, 73000) as i32);

    let seq = r.chance(40);
    FxCase { json, today, force, rem, srv, lookups, rows, cal_days, seq }
}

// ------------------------------------------------------------------------------------- execution

fn make_loader(c: &FxCase, urls: &Rc<RefCell<Vec<(String, i32)>>>) -> RateLoader {
    acb::util::date::set_todays_date_for_test(date_from_jd(c.today));
    let cache_map = RcRefCellT::new(HashMap::new());
    if c.force {
        // garbage in the cache must be ignored when every first load is forced
        for y in 2013..2027u32 {
            cache_map
                .borrow_mut()
                .insert(y, vec![DailyRate::new(jan1(y as i32), Decimal::new(4242, 2))]);
        }
    }
    let cache = Box::new(InMemoryRatesCache { rates_by_year: cache_map });
    if c.json {
        let mut bodies = HashMap::new();
        for ((series, y), recs) in &c.srv {
            let key = if series == "noon" { NOON } else { DAILY };
            bodies.insert((key.to_string(), *y), body_json(recs));
        }
        let req = ScriptedRequester { bodies: Rc::new(RefCell::new(bodies)), log: urls.clone() };
        RateLoader::new_cached_remote_loader(c.force, cache, Box::new(req), WriteHandle::empty_write_handle())
    } else {
        let remote = new_remote_map();
        for (y, v) in &c.rem {
            remote.borrow_mut().insert(*y as u32, to_daily(v));
        }
        RateLoader::new(
            c.force,
            cache,
            Box::new(MockRemoteRateLoader { remote_year_rates: remote }),
            WriteHandle::empty_write_handle(),
        )
    }
}

fn cur_of(s: &Option<String>) -> Option<Currency> {
    s.as_ref().map(|x| Currency::new(x))
}

pub fn run_case(id: &str, c: &FxCase, out: &mut String) {
    out.push_str(&format!(
        "case {} fx kind={} today={} force={} seq={}\n",
        id,
        if c.json { "json" } else { "mock" },
        c.today,
        c.force as u8,
        c.seq as u8
    ));
    for (y, v) in &c.rem {
        out.push_str(&rem_line(*y, v));
    }
    for ((series, y), recs) in &c.srv {
        out.push_str(&format!("in srv {} {}", series, y));
        for o in recs {
            out.push_str(&format!(" {}:{}:{}", date_tok(&o.date), field_tok(&o.noon), field_tok(&o.daily)));
        }
        out.push('\n');
    }
    for d in &c.lookups {
        out.push_str(&format!("in lk {}\n", d));
    }
    for rw in &c.rows {
        out.push_str(&format!(
            "in row {} {} {} {} {} {}\n",
            rw.trade,
            rw.settle,
            opt_tok(&rw.cur),
            opt_tok(&rw.fx),
            opt_tok(&rw.ccur),
            opt_tok(&rw.cfx)
        ));
    }
    // calendar probes against the `time` crate
    for j in &c.cal_days {
        let d = date_from_jd(*j);
        out.push_str(&format!("impl cal {} {} {}\n", j, d.year(), jan1_jd(d.year())));
    }
    let urls: Rc<RefCell<Vec<(String, i32)>>> = Rc::new(RefCell::new(Vec::new()));
    let mut shared = if c.seq { Some(make_loader(c, &urls)) } else { None };
    for d in &c.lookups {
        let res = catch(|| match shared.as_mut() {
            Some(loader) => loader.blocking_get_effective_usd_cad_rate(date_from_jd(*d)),
            None => {
                let mut loader = make_loader(c, &urls);
                loader.blocking_get_effective_usd_cad_rate(date_from_jd(*d))
            }
        });
        match res {
            Ok(Ok(r)) => {
                out.push_str(&format!("impl lk {} ok {} {}\n", d, jd(r.date), r.foreign_to_local_rate))
            }
            Ok(Err(_)) => out.push_str(&format!("impl lk {} err\n", d)),
            Err(p) => out.push_str(&format!("impl lk {} panic {}\n", d, oneline(&p).replace(' ', "_"))),
        }
    }
    for (i, rw) in c.rows.iter().enumerate() {
        let res = catch(|| {
            let mut loader = make_loader(c, &urls);
            let csv = CsvTx {
                security: Some("FOO".to_string()),
                trade_date: Some(date_from_jd(rw.trade)),
                settlement_date: Some(date_from_jd(rw.settle)),
                action: Some(if i % 2 == 0 { TxAction::Buy } else { TxAction::Sell }),
                shares: Some(dec("10")),
                amount_per_share: Some(dec("5")),
                commission: Some(dec("1")),
                tx_currency: cur_of(&rw.cur),
                tx_curr_to_local_exchange_rate: rw.fx,
                commission_currency: cur_of(&rw.ccur),
                commission_curr_to_local_exchange_rate: rw.cfx,
                ..CsvTx::default()
            };
            let mut v = vec![csv];
            match async_std::task::block_on(load_tx_rates(&mut v, &mut loader)) {
                Err(_) => "err load".to_string(),
                Ok(()) => match Tx::try_from(v.remove(0)) {
                    Err(_) => "err conv".to_string(),
                    Ok(tx) => match tx.action_specifics {
                        TxActionSpecifics::Buy(b) => {
                            let t = &b.tx_currency_and_rate;
                            // the commission's currency and rate as the ledger reads them
                            // (`commission_currency_and_rate()`), "-" when no separate one is given
                            let (cc, cr) = match &b.separate_commission_currency {
                                Some(_) => {
                                    let x = b.commission_currency_and_rate();
                                    (x.currency.as_str().to_string(), x.exchange_rate.to_string())
                                }
                                None => ("-".to_string(), "-".to_string()),
                            };
                            format!("ok {} {} {} {}", t.currency.as_str(), *t.exchange_rate, cc, cr)
                        }
                        TxActionSpecifics::Sell(b) => {
                            let t = &b.tx_currency_and_rate;
                            let (cc, cr) = match &b.separate_commission_currency {
                                Some(_) => {
                                    let x = b.commission_currency_and_rate();
                                    (x.currency.as_str().to_string(), x.exchange_rate.to_string())
                                }
                                None => ("-".to_string(), "-".to_string()),
                            };
                            format!("ok {} {} {} {}", t.currency.as_str(), *t.exchange_rate, cc, cr)
                        }
                        _ => "err other".to_string(),
                    },
                },
            }
        });
        match res {
            Ok(s) => out.push_str(&format!("impl row {} {}\n", i, s)),
            Err(p) => out.push_str(&format!("impl row {} panic {}\n", i, oneline(&p).replace(' ', "_"))),
        }
    }
    for (series, y) in urls.borrow().iter() {
        out.push_str(&format!("impl url {} {}\n", y, series));
    }
    out.push_str("end\n");
}

/// One case with every January 1 / December 31 of 1900..2100 and every day of 2015-2025 (year only):
/// validates the model's calendar against the `time` crate.
pub fn cal_case(id: &str, out: &mut String) {
    out.push_str(&format!("case {} fx kind=cal today=0 force=0\n", id));
    for y in 1900..=2100 {
        let j = jan1_jd(y);
        for d in [j - 1, j, j + 58, j + 59, j + 60] {
            let dd = date_from_jd(d);
            out.push_str(&format!("impl cal {} {} {}\n", d, dd.year(), jan1_jd(dd.year())));
        }
    }
    out.push_str("end\n");
}

pub fn parse_case(lines: &[String]) -> Option<FxCase> {
    let head: Vec<&str> = lines.first()?.split_whitespace().collect();
    let kv = |k: &str| -> Option<String> {
        head.iter().find_map(|t| t.strip_prefix(&format!("{}=", k)).map(|s| s.to_string()))
    };
    let kind = kv("kind")?;
    if kind == "cal" {
        return None;
    }
    let mut c = FxCase {
        json: kind == "json",
        today: kv("today")?.parse().ok()?,
        force: kv("force")? == "1",
        rem: BTreeMap::new(),
        srv: BTreeMap::new(),
        lookups: vec![],
        rows: vec![],
        cal_days: vec![],
        seq: kv("seq").map(|v| v == "1").unwrap_or(false),
    };
    for l in &lines[1..] {
        let mut t: Vec<&str> = l.split_whitespace().collect();
        if t.first().copied() == Some("in") {
            t.remove(0);
        }
        match t.first().copied() {
            Some("rem") => {
                let y: i32 = t.get(1)?.parse().ok()?;
                let mut v = Vec::new();
                let mut i = 2;
                while i + 1 < t.len() {
                    v.push((t[i].parse().ok()?, t[i + 1].parse().ok()?));
                    i += 2;
                }
                c.rem.insert(y, v);
            }
            Some("srv") => {
                let y: i32 = t.get(2)?.parse().ok()?;
                let mut v = Vec::new();
                for tok in &t[3..] {
                    let p: Vec<&str> = tok.split(':').collect();
                    if p.len() != 3 {
                        return None;
                    }
                    v.push(ObsRec { date: parse_date_tok(p[0])?, noon: parse_field(p[1])?, daily: parse_field(p[2])? });
                }
                c.srv.insert((t.get(1)?.to_string(), y), v);
            }
            Some("lk") => c.lookups.push(t.get(1)?.parse().ok()?),
            Some("row") => {
                let o = |s: &str| if s == "-" { None } else { Some(s.to_string()) };
                let od = |s: &str| if s == "-" { None } else { s.parse().ok() };
                c.rows.push(Row {
                    trade: t.get(1)?.parse().ok()?,
                    settle: t.get(2)?.parse().ok()?,
                    cur: o(t.get(3)?),
                    fx: od(t.get(4)?),
                    ccur: o(t.get(5)?),
                    cfx: od(t.get(6)?),
                });
            }
            _ => {}
        }
    }
    Some(c)
}
