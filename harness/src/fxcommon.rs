//! Shared by the `fx`, `fxcache` and `fxcrash` families: publication calendars, a counting remote
//! loader around the repo's `MockRemoteRateLoader`, a scripted `HttpRequester`.
use std::cell::RefCell;
use std::collections::{BTreeMap, HashMap};
use std::rc::Rc;

use acb::fx::io::pub_testlib::MockRemoteRateLoader;
use acb::fx::io::{RateLoadResult, RemoteRateLoader};
use acb::fx::DailyRate;
use acb::util::http::HttpRequester;
use acb::util::rc::{RcRefCell, RcRefCellT};
use rust_decimal::Decimal;
use time::{Date, Month};

use crate::common::*;
use crate::rng::Rng;

pub fn jan1(year: i32) -> Date {
    Date::from_calendar_date(year, Month::January, 1).unwrap()
}

pub fn jan1_jd(year: i32) -> i32 {
    jd(jan1(year))
}

pub fn year_of_jd(j: i32) -> i32 {
    date_from_jd(j).year()
}

/// Monday = 0 .. Sunday = 6
pub fn weekday(j: i32) -> i32 {
    j.rem_euclid(7)
}

pub fn rand_rate4(r: &mut Rng) -> Decimal {
    Decimal::new(r.range(9500, 15500), 4)
}

/// A publication calendar: day -> USD/CAD rate (as the loader should see it).
pub type Calendar = BTreeMap<i32, Decimal>;

/// Business days of [lo, hi] minus `holes` holiday runs of 1..=max_run consecutive days.
pub fn gen_calendar(r: &mut Rng, lo: i32, hi: i32, holes: usize, max_run: i32) -> Calendar {
    let mut cal = Calendar::new();
    let weekends = !r.chance(10);
    for j in lo..=hi {
        if weekends && weekday(j) >= 5 {
            continue;
        }
        cal.insert(j, rand_rate4(r));
    }
    for _ in 0..holes {
        let start = r.range(lo as i64, hi as i64) as i32;
        let len = r.range(1, max_run as i64) as i32;
        for j in start..start + len {
            cal.remove(&j);
        }
    }
    cal
}

/// Split a calendar into the per-year lists a remote loader returns (sorted by date).
pub fn per_year(cal: &Calendar, upto: Option<i32>) -> BTreeMap<i32, Vec<(i32, Decimal)>> {
    let mut m: BTreeMap<i32, Vec<(i32, Decimal)>> = BTreeMap::new();
    for (j, v) in cal {
        if let Some(u) = upto {
            if *j > u {
                continue;
            }
        }
        m.entry(year_of_jd(*j)).or_default().push((*j, *v));
    }
    m
}

pub fn to_daily(v: &[(i32, Decimal)]) -> Vec<DailyRate> {
    v.iter().map(|(j, x)| DailyRate::new(date_from_jd(*j), *x)).collect()
}

pub fn rem_line(year: i32, v: &[(i32, Decimal)]) -> String {
    let mut s = format!("in rem {}", year);
    for (j, x) in v {
        s.push_str(&format!(" {} {}", j, x));
    }
    s.push('\n');
    s
}

/// `RemoteRateLoader` that delegates to the repo's mock and logs every call (year).
pub struct CountingRemote {
    pub inner: MockRemoteRateLoader,
    pub calls: Rc<RefCell<Vec<u32>>>,
}

impl CountingRemote {
    pub fn new(
        years: &RcRefCell<HashMap<u32, Vec<DailyRate>>>,
        calls: &Rc<RefCell<Vec<u32>>>,
    ) -> CountingRemote {
        CountingRemote {
            inner: MockRemoteRateLoader { remote_year_rates: years.clone() },
            calls: calls.clone(),
        }
    }
}

#[async_trait::async_trait(?Send)]
impl RemoteRateLoader for CountingRemote {
    async fn get_remote_usd_cad_rates(&self, year: u32) -> Result<RateLoadResult, String> {
        self.calls.borrow_mut().push(year);
        self.inner.get_remote_usd_cad_rates(year).await
    }
}

pub fn new_remote_map() -> RcRefCell<HashMap<u32, Vec<DailyRate>>> {
    RcRefCellT::new(HashMap::new())
}

/// Scripted HTTP layer: (series, year) -> body; logs the (series, year) of every request.
pub struct ScriptedRequester {
    pub bodies: Rc<RefCell<HashMap<(String, i32), String>>>,
    pub log: Rc<RefCell<Vec<(String, i32)>>>,
}

pub fn parse_valet_url(url: &str) -> Option<(String, i32)> {
    // https://www.bankofcanada.ca/valet/observations/<SERIES>/json?start_date=<Y>-01-01&end_date=<Y>-12-31
    let rest = url.strip_prefix("https://www.bankofcanada.ca/valet/observations/")?;
    let (series, q) = rest.split_once("/json?")?;
    let q = q.strip_prefix("start_date=")?;
    let (sd, ed) = q.split_once("&end_date=")?;
    let y: i32 = sd.strip_suffix("-01-01")?.parse().ok()?;
    let y2: i32 = ed.strip_suffix("-12-31")?.parse().ok()?;
    if y != y2 {
        return None;
    }
    Some((series.to_string(), y))
}

#[async_trait::async_trait(?Send)]
impl HttpRequester for ScriptedRequester {
    async fn get(&self, url: &str) -> Result<String, String> {
        match parse_valet_url(url) {
            Some(k) => {
                self.log.borrow_mut().push(k.clone());
                match self.bodies.borrow().get(&k) {
                    Some(b) => Ok(b.clone()),
                    None => Err("404".to_string()),
                }
            }
            None => {
                self.log.borrow_mut().push((format!("BADURL:{}", url.replace(' ', "_")), 0));
                Err("bad url".to_string())
            }
        }
    }
}
