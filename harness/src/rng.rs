//! splitmix64: every random choice of a run derives from one seed.
#[derive(Clone)]
pub struct Rng(pub u64);

impl Rng {
    pub fn new(seed: u64) -> Self {
        // mix the seed first: the state advances by a constant, so an affine seeding would make
        // the streams of consecutive seeds overlap (shifted by one draw)
        let mut z = seed.wrapping_add(0x1234_5678_9abc_def1);
        z = (z ^ (z >> 33)).wrapping_mul(0xFF51AFD7ED558CCD);
        z = (z ^ (z >> 33)).wrapping_mul(0xC4CEB9FE1A85EC53);
        Rng(z ^ (z >> 33))
    }
    pub fn next(&mut self) -> u64 {
        self.0 = self.0.wrapping_add(0x9E3779B97F4A7C15);
        let mut z = self.0;
        z = (z ^ (z >> 30)).wrapping_mul(0xBF58476D1CE4E5B9);
        z = (z ^ (z >> 27)).wrapping_mul(0x94D049BB133111EB);
        z ^ (z >> 31)
    }
    /// uniform in 0..n (n > 0)
    pub fn below(&mut self, n: u64) -> u64 {
        self.next() % n
    }
    pub fn range(&mut self, lo: i64, hi: i64) -> i64 {
        lo + (self.below((hi - lo + 1) as u64) as i64)
    }
    pub fn chance(&mut self, percent: u64) -> bool {
        self.below(100) < percent
    }
    pub fn pick<'a, T>(&mut self, xs: &'a [T]) -> &'a T {
        &xs[self.below(xs.len() as u64) as usize]
    }
    pub fn fork(&mut self) -> Rng {
        Rng(self.next())
    }
}
