//! Family `questrade` (C18): generated Questrade activity exports, written as real .xlsx files
//! with rust_xlsxwriter, read back with the `office` crate (exactly what the converter sees),
//! converted by the real `tx_export_convert_impl::run_with_args`, and the produced CSV fed to the
//! real `parse_tx_csv` / `Tx::try_from`.
//!
//! One case = one logical export + option combination, laid out as 1..3 physical sheets
//! (column permutations, unrelated and blank-headed columns).  For every layout the harness
//! prints the sheet as read by `office` (input of the model) and the implementation's observation.
use std::path::{Path, PathBuf};

use acb::peripheral::tx_export_convert_impl::{run_with_args, Args};
use acb::portfolio::io::tx_csv::{parse_tx_csv, TxCsvParseOptions};
use acb::portfolio::{Affiliate, CsvTx, Currency, Tx, TxAction};
use acb::util::rw::{DescribedReader, WriteHandle};
use clap::Parser;
use rust_decimal::prelude::FromPrimitive;
use rust_decimal::Decimal;

use crate::common::*;
use crate::rng::Rng;

// ---------------------------------------------------------------------------------------------
// Cells, sheets, options

#[derive(Clone, Debug, PartialEq)]
pub enum CellV {
    Empty,
    Str(String),
    Num(f64),
    Bool(bool),
}

#[derive(Clone, Debug)]
pub struct PhysSheet {
    pub hdr: Vec<CellV>,
    pub rows: Vec<Vec<CellV>>,
}

#[derive(Clone, Debug)]
pub enum Pat {
    Any,         // regex "."
    Sub(String), // literal substring (regex-escaped)
}

impl Pat {
    fn regex(&self) -> String {
        match self {
            Pat::Any => ".".to_string(),
            Pat::Sub(s) => regex::escape(s),
        }
    }
    fn tok(&self) -> String {
        match self {
            Pat::Any => "any".to_string(),
            Pat::Sub(s) => format!("sub:{}", esc(s)),
        }
    }
}

#[derive(Clone, Debug)]
pub struct Opts {
    pub acct: Option<Pat>,
    pub sec: Option<Pat>,
    pub no_fx: bool,
    pub no_sort: bool,
    pub rate: Option<Decimal>,
}

pub struct QtCase {
    pub opts: Opts,
    pub sheets: Vec<PhysSheet>,
}

/// Protocol escaping of arbitrary text into one space-free token.
pub fn esc(s: &str) -> String {
    if s.is_empty() {
        return "%e".to_string();
    }
    let mut o = String::new();
    for b in s.bytes() {
        match b {
            b'%' | b' ' | b'\n' | b'\r' | b'\t' | b':' | b'|' => o.push_str(&format!("%{:02X}", b)),
            0x21..=0x7e => o.push(b as char),
            _ => o.push_str(&format!("%{:02X}", b)),
        }
    }
    o
}

pub fn unesc(s: &str) -> String {
    if s == "%e" {
        return String::new();
    }
    let b = s.as_bytes();
    let mut out: Vec<u8> = Vec::new();
    let mut i = 0;
    while i < b.len() {
        if b[i] == b'%' && i + 3 <= b.len() {
            if let Ok(v) = u8::from_str_radix(&s[i + 1..i + 3], 16) {
                out.push(v);
                i += 3;
                continue;
            }
        }
        out.push(b[i]);
        i += 1;
    }
    String::from_utf8_lossy(&out).to_string()
}

// ---------------------------------------------------------------------------------------------
// Generator

pub const FIELDS: [&str; 14] = [
    "Transaction Date",
    "Settlement Date",
    "Action",
    "Symbol",
    "Description",
    "Quantity",
    "Price",
    "Gross Amount",
    "Commission",
    "Net Amount",
    "Currency",
    "Account #",
    "Activity Type",
    "Account Type",
];
const F_TDATE: usize = 0;
const F_SDATE: usize = 1;
const F_ACTION: usize = 2;
const F_SYMBOL: usize = 3;
const F_DESC: usize = 4;
const F_QTY: usize = 5;
const F_PRICE: usize = 6;
const F_GROSS: usize = 7;
const F_COMM: usize = 8;
const F_NET: usize = 9;
const F_CUR: usize = 10;
const F_ACCTNUM: usize = 11;
const F_ACTTYPE: usize = 12;
const F_ACCTTYPE: usize = 13;
/// columns the converter never reads
const UNUSED: [usize; 3] = [F_DESC, F_GROSS, F_ACTTYPE];

const ACCTS: [(&str, &str); 8] = [
    ("Individual margin", "10000003"),
    ("Individual TFSA", "10000001"),
    ("Individual RRSP", "10000002"),
    ("Family RESP", "10000004"),
    ("Individual Cash", "2000-A7"),
    ("Joint margin", "10000005"),
    ("Spousal rrsp", "10000006"),
    ("individual tfsa", "30000001"),
];
const SYMBOLS: [&str; 10] = ["CCO", "UCO", "DLR.TO", "H038778", "XIU.TO", "AAPL", "VFV.TO", "BRK.B", "EFX", "CFX"];
const IGNORED: [&str; 14] =
    ["BRW", "TFI", "TF6", "MGR", "DEP", "NAC", "CON", "INT", "EFT", "RDM", "", "dep", "Int", "eft"];
const TIMES: [&str; 6] =
    [" 12:00:00 AM", " 12:00:00 AM", " 12:00:00 AM", " 09:30:00 AM", " 03:15:42 PM", ""];

const BASE_JD_2023: i32 = 2459947; // 2023-01-02

fn dec_str(m: i64, dp: u32) -> String {
    Decimal::new(m, dp).normalize().to_string()
}

/// numeric cell: mostly a number cell, sometimes the same value as text
fn num_cell(r: &mut Rng, m: i64, dp: u32) -> CellV {
    if r.chance(82) {
        CellV::Num(m as f64 / 10f64.powi(dp as i32))
    } else {
        CellV::Str(dec_str(m, dp))
    }
}

fn s(x: &str) -> CellV {
    if x.is_empty() {
        CellV::Empty
    } else {
        CellV::Str(x.to_string())
    }
}

fn rand_mant(r: &mut Rng, max_int: i64) -> (i64, u32) {
    let dp = match r.below(10) {
        0..=3 => 0,
        4..=6 => 2,
        7 => 1,
        8 => 3,
        _ => 4,
    };
    (r.range(1, max_int * 10i64.pow(dp)), dp)
}

struct DayClock {
    day: i32,
}

impl DayClock {
    fn step(&mut self, r: &mut Rng) {
        self.day += match r.below(20) {
            0..=10 => 0,
            11..=14 => 1,
            15..=16 => 2,
            17 => 3,
            18 => 7,
            _ => 40,
        };
    }
    fn date(&self, off: i32) -> String {
        date_str(date_from_jd(BASE_JD_2023 + self.day + off))
    }
}

fn blank_row() -> Vec<CellV> {
    vec![CellV::Empty; 14]
}

fn acct_cells(r: &mut Rng, row: &mut Vec<CellV>, a: (&str, &str)) {
    row[F_ACCTTYPE] = s(a.0);
    // account numbers are sometimes stored as numbers
    row[F_ACCTNUM] = match a.1.parse::<f64>() {
        Ok(v) if r.chance(30) => CellV::Num(v),
        _ => s(a.1),
    };
}

fn cur_cell(r: &mut Rng, usd_pct: u64) -> (CellV, bool) {
    // (cell, is_usd)
    let k = r.below(100);
    if k < usd_pct {
        if r.chance(8) {
            (s("usd"), true)
        } else {
            (s("USD"), true)
        }
    } else if k < 97 {
        match r.below(12) {
            0 => (CellV::Empty, false),
            1 => (s("cad"), false),
            _ => (s("CAD"), false),
        }
    } else {
        (s("EUR"), false)
    }
}

fn gen_rows(r: &mut Rng, accts: &[(&'static str, &'static str)], malformed: bool) -> Vec<Vec<CellV>> {
    let n = match r.below(10) {
        0 => r.below(3),
        1..=6 => 3 + r.below(8),
        _ => 8 + r.below(10),
    } as usize;
    let mut clock = DayClock { day: r.below(300) as i32 };
    let mut rows: Vec<Vec<CellV>> = Vec::new();
    while rows.len() < n {
        clock.step(r);
        let a = *r.pick(accts);
        let time = *r.pick(&TIMES);
        let settle_off = *r.pick(&[0, 0, 1, 2, 2, 2, 3]);
        let mut row = blank_row();
        row[F_TDATE] = s(&format!("{}{}", clock.date(0), time));
        row[F_SDATE] = s(&format!("{}{}", clock.date(settle_off), time));
        acct_cells(r, &mut row, a);
        let k = r.below(100);
        if k < 52 {
            // BUY / SELL / DIS / LIQ
            let (act, sign, free): (&str, i64, bool) = match r.below(20) {
                0..=8 => ("BUY", 1, false),
                9..=15 => ("SELL", -1, false),
                16..=17 => ("DIS", 1, true),
                _ => ("LIQ", -1, true),
            };
            let act = match r.below(12) {
                0 => act.to_lowercase(),
                1 => {
                    let mut c = act.to_lowercase();
                    c[..1].make_ascii_uppercase();
                    c
                }
                _ => act.to_string(),
            };
            row[F_ACTION] = s(&act);
            row[F_ACTTYPE] = s("Trades");
            row[F_SYMBOL] = if r.chance(3) { CellV::Num(r.range(1000, 9999) as f64) } else { s(*r.pick(&SYMBOLS)) };
            row[F_DESC] = s("SOME SECURITY INC");
            let (qm, qd) = rand_mant(r, 500);
            let qsign = if r.chance(10) { -sign } else { sign };
            let qm = if r.chance(2) { 0 } else { qm * qsign };
            row[F_QTY] = num_cell(r, qm, qd);
            let (pm, pd) = if free && r.chance(85) { (0, 0) } else { rand_mant(r, 300) };
            row[F_PRICE] = num_cell(r, pm, pd);
            let cm = if free || r.chance(30) {
                0
            } else if r.chance(88) {
                -r.range(1, 1999)
            } else {
                r.range(1, 1999)
            };
            row[F_COMM] = num_cell(r, cm, 2);
            let gross = Decimal::new(-qm, qd) * Decimal::new(pm, pd);
            row[F_GROSS] = s(&gross.normalize().to_string());
            row[F_NET] = s(&(gross + Decimal::new(cm, 2)).normalize().to_string());
            let (c, _) = cur_cell(r, 48);
            row[F_CUR] = c;
            if malformed && r.chance(25) {
                match r.below(9) {
                    0 => row[F_QTY] = CellV::Empty,
                    1 => row[F_PRICE] = s("abc"),
                    2 => row[F_TDATE] = s("2023-1-7"),
                    3 => row[F_SYMBOL] = CellV::Empty,
                    4 => row[F_COMM] = CellV::Bool(true),
                    5 => row[F_SDATE] = CellV::Empty,
                    6 => row[F_COMM] = CellV::Empty,
                    7 => row[F_SDATE] = s("2023-02-30 12:00:00 AM"),
                    _ => row[F_TDATE] = CellV::Num(44930.0),
                }
            }
            rows.push(row);
        } else if k < 64 {
            // DIV
            row[F_ACTION] = s(if r.chance(10) { "div" } else { "DIV" });
            row[F_ACTTYPE] = s("Dividends");
            row[F_SYMBOL] = s(*r.pick(&SYMBOLS));
            row[F_QTY] = num_cell(r, 0, 0);
            row[F_PRICE] = num_cell(r, 0, 0);
            row[F_COMM] = num_cell(r, 0, 0);
            let (nm, nd) = rand_mant(r, 400);
            let nm = match r.below(40) {
                0 => 0,
                1 | 2 => -nm,
                _ => nm,
            };
            row[F_NET] = num_cell(r, nm, nd);
            row[F_GROSS] = CellV::Empty;
            let (c, _) = cur_cell(r, 60);
            row[F_CUR] = c;
            if malformed && r.chance(15) {
                match r.below(3) {
                    0 => row[F_NET] = CellV::Empty,
                    1 => row[F_SYMBOL] = CellV::Empty,
                    _ => row[F_NET] = s("n/a"),
                }
            }
            rows.push(row);
        } else if k < 78 {
            // FXT pair
            let (um, _) = rand_mant(r, 5000);
            let um = um.min(50_000_000);
            let usd_sign = if r.chance(50) { 1 } else { -1 };
            let rate = r.range(12000, 14500); // 4 dp
            let usd = Decimal::new(um * usd_sign, 2);
            let cad = (-usd * Decimal::new(rate, 4)).round_dp(2);
            let mut usd_row = row.clone();
            let mut cad_row = row.clone();
            for x in [&mut usd_row, &mut cad_row] {
                x[F_ACTION] = s(if r.chance(8) { "fxt" } else { "FXT" });
                x[F_ACTTYPE] = s("FX conversion");
                x[F_QTY] = num_cell(r, 0, 0);
                x[F_PRICE] = num_cell(r, 0, 0);
                x[F_COMM] = num_cell(r, 0, 0);
            }
            usd_row[F_CUR] = s("USD");
            cad_row[F_CUR] = s("CAD");
            let usd_m = (usd * Decimal::new(100, 0)).normalize().to_string().parse::<i64>().unwrap_or(0);
            let cad_m = (cad * Decimal::new(100, 0)).normalize().to_string().parse::<i64>().unwrap_or(0);
            usd_row[F_NET] = num_cell(r, usd_m, 2);
            cad_row[F_NET] = num_cell(r, cad_m, 2);
            let mut single = false;
            if malformed && r.chance(45) {
                match r.below(10) {
                    0 => cad_row[F_NET] = num_cell(r, -cad_m, 2), // same signs
                    1 => usd_row[F_CUR] = s("CAD"),
                    2 => cad_row[F_CUR] = s("USD"),
                    3 => {
                        if accts.len() > 1 {
                            let b = *r.pick(accts);
                            acct_cells(r, &mut cad_row, b);
                        } else {
                            cad_row[F_ACCTNUM] = s("99999");
                        }
                    }
                    4 => cad_row[F_TDATE] = s(&format!("{}{}", clock.date(1), time)),
                    5 => usd_row[F_NET] = num_cell(r, 0, 2), // F-05c
                    6 => cad_row[F_NET] = num_cell(r, 0, 2),
                    7 => usd_row[F_CUR] = s("EUR"),
                    8 => single = true,
                    _ => usd_row[F_NET] = CellV::Empty,
                }
            }
            if single {
                rows.push(if r.chance(50) { usd_row } else { cad_row });
            } else if r.chance(50) {
                rows.push(usd_row);
                rows.push(cad_row);
            } else {
                rows.push(cad_row);
                rows.push(usd_row);
            }
        } else if k < 97 {
            // documented non-trade activity
            row[F_ACTION] = s(*r.pick(&IGNORED));
            row[F_ACTTYPE] = s("Deposits");
            if r.chance(50) {
                row[F_SYMBOL] = s(*r.pick(&SYMBOLS));
            }
            let (nm, nd) = rand_mant(r, 3000);
            row[F_NET] = num_cell(r, nm, nd);
            let (c, _) = cur_cell(r, 40);
            row[F_CUR] = c;
            if r.chance(25) {
                // such rows often lack dates / amounts altogether: must still be ignored silently
                row[F_SDATE] = CellV::Empty;
                row[F_QTY] = s("-");
            }
            rows.push(row);
        } else if malformed {
            row[F_ACTION] = s(*r.pick(&["XXX", "SPLIT", "BUYX"]));
            row[F_SYMBOL] = s("CCO");
            rows.push(row);
        }
    }
    rows
}

#[derive(Clone)]
enum Col {
    Field(usize),
    Extra(String),
    Blank(u8), // 0 = empty header, 1 = numeric header, 2 = boolean header
}

fn standard_layout() -> Vec<Col> {
    (0..14).map(Col::Field).collect()
}

fn random_layout(r: &mut Rng, bad_header: bool) -> Vec<Col> {
    let mut cols: Vec<Col> = Vec::new();
    // malformed stream: a used column is missing, or its name heads two columns
    let drop = if bad_header && r.chance(50) { Some(*r.pick(&[F_COMM, F_CUR, F_NET, F_SYMBOL, F_ACCTTYPE, F_SDATE])) } else { None };
    for f in 0..14 {
        if (UNUSED.contains(&f) && r.chance(30)) || drop == Some(f) {
            continue;
        }
        cols.push(Col::Field(f));
    }
    if bad_header && drop.is_none() {
        let f = *r.pick(&[F_ACTION, F_QTY, F_PRICE, F_CUR, F_ACCTNUM]);
        cols.push(Col::Extra(FIELDS[f].to_string()));
    }
    if r.chance(75) {
        // Fisher-Yates
        for i in (1..cols.len()).rev() {
            let j = r.below(i as u64 + 1) as usize;
            cols.swap(i, j);
        }
    }
    let n_extra = *r.pick(&[0, 0, 1, 1, 2]);
    for k in 0..n_extra {
        let name = (*r.pick(&["Notes", "Foo", "Action ", "action", "Symbol2", "Net", "Amount"])).to_string();
        let name = if k > 0 { format!("{}{}", name, k) } else { name };
        let pos = r.below(cols.len() as u64 + 1) as usize;
        cols.insert(pos, Col::Extra(name));
    }
    let n_blank = *r.pick(&[0, 1, 1, 1, 2]);
    for _ in 0..n_blank {
        let kind = *r.pick(&[0u8, 0, 0, 1, 2]);
        // biased towards the front: a blank header BEFORE named columns is the interesting case
        let pos = if r.chance(50) { r.below(3).min(cols.len() as u64) as usize } else { r.below(cols.len() as u64 + 1) as usize };
        cols.insert(pos, Col::Blank(kind));
    }
    cols
}

fn filler(r: &mut Rng) -> CellV {
    match r.below(6) {
        0 | 1 => CellV::Empty,
        2 => CellV::Num(r.range(-50, 50) as f64),
        3 => s("BUY"),
        4 => s("x y"),
        _ => s("USD"),
    }
}

fn lay_out(r: &mut Rng, layout: &[Col], rows: &[Vec<CellV>]) -> PhysSheet {
    let hdr: Vec<CellV> = layout
        .iter()
        .map(|c| match c {
            Col::Field(f) => s(FIELDS[*f]),
            Col::Extra(n) => s(n),
            Col::Blank(0) => CellV::Empty,
            Col::Blank(1) => CellV::Num(3.0),
            Col::Blank(_) => CellV::Bool(true),
        })
        .collect();
    let prows = rows
        .iter()
        .map(|row| {
            layout
                .iter()
                .map(|c| match c {
                    Col::Field(f) => row[*f].clone(),
                    _ => filler(r),
                })
                .collect()
        })
        .collect();
    PhysSheet { hdr, rows: prows }
}

pub fn gen_case(r: &mut Rng) -> QtCase {
    let n_acct = *r.pick(&[1, 1, 1, 1, 2, 2, 3]);
    let mut accts: Vec<(&'static str, &'static str)> = Vec::new();
    while accts.len() < n_acct {
        let a = *r.pick(&ACCTS);
        if !accts.contains(&a) {
            accts.push(a);
        }
    }
    let malformed = r.chance(22);
    let rows = gen_rows(r, &accts, malformed);
    let acct = if accts.len() == 1 {
        match r.below(4) {
            0 | 1 => None,
            2 => Some(Pat::Any),
            _ => Some(Pat::Sub(accts[0].0.split(' ').last().unwrap().to_string())),
        }
    } else {
        match r.below(20) {
            0..=2 => None,
            3..=9 => Some(Pat::Any),
            10..=13 => Some(Pat::Sub(r.pick(&accts).1.to_string())),
            14..=17 => Some(Pat::Sub(r.pick(&accts).0.split(' ').last().unwrap().to_string())),
            18 => Some(Pat::Sub("Individual".to_string())),
            _ => Some(Pat::Sub("zzz".to_string())),
        }
    };
    let sec = match r.below(20) {
        0..=13 => None,
        14..=16 => Some(Pat::Sub((*r.pick(&SYMBOLS)).to_string())),
        17 => Some(Pat::Sub("FX".to_string())),
        18 => Some(Pat::Sub("U".to_string())),
        _ => Some(Pat::Any),
    };
    let rate = if r.chance(35) { Some(Decimal::new(r.range(11000, 15000), 4).normalize()) } else { None };
    let opts = Opts { acct, sec, no_fx: r.chance(25), no_sort: r.chance(30), rate };
    let mut sheets = Vec::new();
    let bad_header = malformed && r.chance(25);
    let base = if r.chance(50) && !bad_header { standard_layout() } else { random_layout(r, bad_header) };
    sheets.push(lay_out(r, &base, &rows));
    let n_var = *r.pick(&[0, 1, 1, 1, 2]);
    for _ in 0..n_var {
        let bad = bad_header && r.chance(50);
        let l = random_layout(r, bad);
        sheets.push(lay_out(r, &l, &rows));
    }
    QtCase { opts, sheets }
}

// ---------------------------------------------------------------------------------------------
// Running the implementation

pub struct Scratch {
    pub dir: PathBuf,
}

impl Scratch {
    pub fn new() -> Self {
        let dir = std::env::temp_dir().join(format!("acb_verif_qt_{}", std::process::id()));
        std::fs::create_dir_all(&dir).expect("scratch dir");
        Scratch { dir }
    }
}

impl Drop for Scratch {
    fn drop(&mut self) {
        let _ = std::fs::remove_dir_all(&self.dir);
    }
}

fn write_xlsx(path: &Path, sh: &PhysSheet) -> Result<(), String> {
    let mut wb = rust_xlsxwriter::Workbook::new();
    let ws = wb.add_worksheet();
    let mut all = vec![&sh.hdr];
    all.extend(sh.rows.iter());
    for (ri, row) in all.iter().enumerate() {
        for (ci, c) in row.iter().enumerate() {
            let (ri, ci) = (ri as u32, ci as u16);
            match c {
                CellV::Empty => {}
                CellV::Str(v) => {
                    ws.write_string(ri, ci, v.as_str()).map_err(|e| e.to_string())?;
                }
                CellV::Num(v) => {
                    ws.write_number(ri, ci, *v).map_err(|e| e.to_string())?;
                }
                CellV::Bool(v) => {
                    ws.write_boolean(ri, ci, *v).map_err(|e| e.to_string())?;
                }
            }
        }
    }
    wb.save(path).map_err(|e| e.to_string())
}

/// The sheet exactly as the converter will see it.
fn read_back(path: &Path) -> Result<Vec<Vec<office::DataType>>, String> {
    let mut wb = office::Excel::open(path).map_err(|e| e.to_string())?;
    let names = wb.sheet_names().map_err(|e| e.to_string())?;
    let name = names.first().ok_or("no sheet")?.clone();
    let range = wb.worksheet_range(&name).map_err(|e| e.to_string())?;
    let (h, w) = range.get_size();
    if h == 0 || w == 0 {
        return Ok(Vec::new());
    }
    Ok(range.rows().map(|r| r.to_vec()).collect())
}

fn cell_tok(c: &office::DataType) -> String {
    use office::DataType as D;
    match c {
        D::Empty => "E".to_string(),
        D::String(v) => format!("S:{}", esc(v)),
        D::Float(v) => match Decimal::from_f64(*v) {
            Some(d) => format!("N:{}:{}", d, esc(&v.to_string())),
            None => format!("X:{}", esc(&v.to_string())),
        },
        D::Int(v) => format!("N:{}:{}", v, esc(&v.to_string())),
        D::Bool(v) => format!("B:{}", if *v { 1 } else { 0 }),
        D::Error(e) => format!("X:{}", esc(&format!("{e:?}"))),
    }
}

fn err_kind(msg: &str) -> &'static str {
    let table: [(&str, &str); 20] = [
        ("Sheet contained no column", "noColumn"),
        ("Unable to parse date", "badDate"),
        // messages of time::error::Parse passed through by convert_date_str
        ("must be in the range", "badDate"),
        ("could not be parsed", "badDate"),
        ("Unrecognized transaction action", "unknownAction"),
        ("Symbol was empty", "emptySymbol"),
        ("was empty", "emptyValue"),
        ("Unable to parse number", "badNumber"),
        ("unconvertible to Decimal", "badNumber"),
        ("not convertible to Decimal", "notNumber"),
        ("Error in ", "cellError"),
        ("FXTs not supported between", "fxtCurrencies"),
        ("was also CAD", "fxtCurrencies"),
        ("were on different dates", "fxtDates"),
        ("were in different accounts", "fxtAccounts"),
        ("Both FXTs have positive", "fxtBothPositive"),
        ("Both FXTs have negative", "fxtBothNegative"),
        ("zero amount", "fxtZero"),
        ("not supported", "fxUnsupported"),
        ("Unpaired FXT", "unpaired"),
    ];
    for (pat, k) in table {
        if msg.contains(pat) {
            return k;
        }
    }
    "other"
}

fn date_key(d: time::Date) -> String {
    format!("{:04}{:02}{:02}", d.year(), d.month() as u8, d.day())
}

fn tx_line(k: usize, t: &CsvTx) -> String {
    let aff = match &t.affiliate {
        None => "D",
        Some(a) if *a == Affiliate::default() => "D",
        Some(a) if *a == Affiliate::default_registered() => "R",
        Some(_) => "O",
    };
    format!(
        "impl {} tx {} {} {} {} {} {} {} {} {} {} {}\n",
        k,
        esc(t.security.as_deref().unwrap_or("")),
        t.trade_date.map(date_key).unwrap_or("-".to_string()),
        t.settlement_date.map(date_key).unwrap_or("-".to_string()),
        match t.action {
            Some(TxAction::Buy) => "B",
            Some(TxAction::Sell) => "S",
            _ => "?",
        },
        opt_dec(t.shares),
        opt_dec(t.amount_per_share),
        opt_dec(t.commission),
        esc(t.tx_currency.as_ref().map(|c| c.as_str()).unwrap_or("")),
        opt_dec(t.tx_curr_to_local_exchange_rate),
        aff,
        esc(t.memo.as_deref().unwrap_or("")),
    )
}

/// Stand-in for `load_tx_rates` (C12's subject): a USD row without a rate gets the day's rate.
fn fill_rates(txs: &mut Vec<CsvTx>) {
    for t in txs.iter_mut() {
        if t.tx_curr_to_local_exchange_rate.is_none() && t.tx_currency == Some(Currency::usd()) {
            t.tx_curr_to_local_exchange_rate = Some(Decimal::new(13, 1));
        }
    }
}

fn argv_for(opts: &Opts, path: &str) -> Vec<String> {
    let mut argv = vec!["tx-export-convert".to_string()];
    if let Some(p) = &opts.acct {
        argv.push("--account".into());
        argv.push(p.regex());
    }
    if let Some(p) = &opts.sec {
        argv.push("--security".into());
        argv.push(p.regex());
    }
    if opts.no_fx {
        argv.push("--no-fx".into());
    }
    if opts.no_sort {
        argv.push("--no-sort".into());
    }
    if let Some(rt) = &opts.rate {
        argv.push("--usd-exchange-rate".into());
        argv.push(rt.to_string());
    }
    argv.push(path.to_string());
    argv
}

fn run_sheet(k: usize, opts: &Opts, sh: &PhysSheet, scratch: &Scratch, out: &mut String) -> bool {
    let path = scratch.dir.join(format!("export_{}.xlsx", k));
    if let Err(e) = write_xlsx(&path, sh) {
        eprintln!("cannot write xlsx: {}", e);
        return false;
    }
    let cells = match read_back(&path) {
        Ok(c) if !c.is_empty() => c,
        _ => return false,
    };
    out.push_str(&format!("in sheet {}\n", k));
    for (i, row) in cells.iter().enumerate() {
        let toks: Vec<String> = row.iter().map(cell_tok).collect();
        out.push_str(&format!("in {} {}\n", if i == 0 { "hdr" } else { "row" }, toks.join(" ")));
    }
    let argv = argv_for(opts, path.to_str().unwrap());
    let args = match Args::try_parse_from(argv) {
        Ok(a) => a,
        Err(e) => {
            out.push_str(&format!("impl {} status argerr {}\n", k, esc(&e.to_string())));
            return true;
        }
    };
    let (out_w, out_b) = WriteHandle::string_buff_write_handle();
    let (err_w, err_b) = WriteHandle::string_buff_write_handle();
    let res = catch(move || run_with_args(args, out_w, err_w));
    let csv = out_b.borrow_mut().export_string();
    let errs = err_b.borrow_mut().export_string();
    let _ = std::fs::remove_file(&path);
    match res {
        Err(p) => {
            out.push_str(&format!("impl {} status panic {}\n", k, esc(&p)));
            return true;
        }
        Ok(r) => {
            let row_errs = errs.starts_with("Errors:");
            if r.is_ok() {
                out.push_str(&format!("impl {} status ok\n", k));
            } else if row_errs {
                out.push_str(&format!("impl {} status rowerrs\n", k));
            } else {
                let kind = if errs.contains("multiple accounts") {
                    "multiAccount"
                } else if errs.contains("Sheet was empty") {
                    "sheetEmpty"
                } else {
                    "other"
                };
                out.push_str(&format!("impl {} status fatal {} {}\n", k, kind, esc(errs.trim())));
            }
            if row_errs {
                let body = &errs["Errors:".len()..];
                for l in body.lines() {
                    let l = l.trim();
                    if let Some(rest) = l.strip_prefix("- Row ") {
                        let (n, msg) = rest.split_once(": ").unwrap_or((rest, ""));
                        out.push_str(&format!("impl {} err {} {} {}\n", k, n, err_kind(msg), esc(msg)));
                    } else if !l.is_empty() {
                        out.push_str(&format!("impl {} err 0 other {}\n", k, esc(l)));
                    }
                }
            }
        }
    }
    if csv.is_empty() {
        out.push_str(&format!("impl {} csv none\n", k));
        return true;
    }
    let mut rd = DescribedReader::from_string("out".to_string(), csv.clone());
    let mut sink = WriteHandle::empty_write_handle();
    match parse_tx_csv(&mut rd, 0, &TxCsvParseOptions::default(), &mut sink) {
        Err(e) => out.push_str(&format!("impl {} csv unparsable {}\n", k, esc(&e))),
        Ok(mut txs) => {
            out.push_str(&format!("impl {} csv rows {}\n", k, txs.len()));
            for t in &txs {
                out.push_str(&tx_line(k, t));
            }
            fill_rates(&mut txs);
            let mut n_ok = 0;
            let mut first = String::new();
            let n = txs.len();
            for t in txs {
                match Tx::try_from(t) {
                    Ok(_) => n_ok += 1,
                    Err(e) => {
                        if first.is_empty() {
                            first = e
                        }
                    }
                }
            }
            out.push_str(&format!("impl {} accept {} {} {}\n", k, n_ok, n, esc(&first)));
        }
    }
    true
}

fn opts_toks(o: &Opts) -> String {
    format!(
        "acct={} sec={} nofx={} nosort={} rate={}",
        o.acct.as_ref().map(|p| p.tok()).unwrap_or("-".to_string()),
        o.sec.as_ref().map(|p| p.tok()).unwrap_or("-".to_string()),
        o.no_fx as u8,
        o.no_sort as u8,
        opt_dec(o.rate),
    )
}

fn show_cell(c: &CellV) -> String {
    match c {
        CellV::Empty => String::new(),
        CellV::Str(v) => format!("\"{}\"", v),
        CellV::Num(v) => v.to_string(),
        CellV::Bool(v) => v.to_string(),
    }
}

pub fn run_case(id: &str, c: &QtCase, scratch: &Scratch, out: &mut String) {
    let mut body = String::new();
    let mut n = 0;
    for sh in c.sheets.iter() {
        if run_sheet(n, &c.opts, sh, scratch, &mut body) {
            n += 1;
        } else if n == 0 {
            return; // unusable base sheet (cannot happen with the generator)
        }
    }
    out.push_str(&format!("case {} questrade {} nsheets={}\n", id, opts_toks(&c.opts), n));
    out.push_str(&body);
    let mut rep = format!("{}\n", argv_for(&c.opts, "export.xlsx").join(" "));
    if let Some(sh) = c.sheets.first() {
        rep.push_str(&sh.hdr.iter().map(show_cell).collect::<Vec<_>>().join(" | "));
        rep.push('\n');
        for r in &sh.rows {
            rep.push_str(&r.iter().map(show_cell).collect::<Vec<_>>().join(" | "));
            rep.push('\n');
        }
    }
    out.push_str(&format!("repro {}\n", oneline(&rep)));
    out.push_str("end\n");
}

// ---------------------------------------------------------------------------------------------
// Replay: rebuild the physical sheets and options from the `case` and `in` lines.

fn parse_cell(t: &str) -> Option<CellV> {
    if t == "E" {
        return Some(CellV::Empty);
    }
    let (k, rest) = t.split_once(':')?;
    match k {
        "S" => Some(CellV::Str(unesc(rest))),
        "N" => {
            let (_, shown) = rest.split_once(':')?;
            unesc(shown).parse::<f64>().ok().map(CellV::Num)
        }
        "B" => Some(CellV::Bool(rest == "1")),
        _ => None,
    }
}

fn parse_pat(v: &str) -> Option<Option<Pat>> {
    if v == "-" {
        Some(None)
    } else if v == "any" {
        Some(Some(Pat::Any))
    } else {
        v.strip_prefix("sub:").map(|x| Some(Pat::Sub(unesc(x))))
    }
}

pub fn parse_case(lines: &[String]) -> Option<QtCase> {
    let head: Vec<&str> = lines.first()?.split_whitespace().collect();
    let mut opts = Opts { acct: None, sec: None, no_fx: false, no_sort: false, rate: None };
    for t in &head {
        if let Some(v) = t.strip_prefix("acct=") {
            opts.acct = parse_pat(v)?;
        } else if let Some(v) = t.strip_prefix("sec=") {
            opts.sec = parse_pat(v)?;
        } else if let Some(v) = t.strip_prefix("nofx=") {
            opts.no_fx = v == "1";
        } else if let Some(v) = t.strip_prefix("nosort=") {
            opts.no_sort = v == "1";
        } else if let Some(v) = t.strip_prefix("rate=") {
            opts.rate = if v == "-" { None } else { Some(Decimal::from_str_exact(v).ok()?) };
        }
    }
    let mut sheets: Vec<PhysSheet> = Vec::new();
    for l in &lines[1..] {
        let toks: Vec<&str> = l.split_whitespace().collect();
        match toks.as_slice() {
            ["in", "sheet", _] => sheets.push(PhysSheet { hdr: Vec::new(), rows: Vec::new() }),
            ["in", "hdr", cells @ ..] => {
                sheets.last_mut()?.hdr = cells.iter().map(|c| parse_cell(c)).collect::<Option<Vec<_>>>()?;
            }
            ["in", "row", cells @ ..] => {
                let row = cells.iter().map(|c| parse_cell(c)).collect::<Option<Vec<_>>>()?;
                sheets.last_mut()?.rows.push(row);
            }
            _ => {}
        }
    }
    if sheets.is_empty() {
        return None;
    }
    Some(QtCase { opts, sheets })
}

/// Replays every `corpus/C18/*.case` (located relative to the harness executable:
/// harness/target/release/acb_verif_harness -> ../../../corpus/C18).
pub fn corpus_cases(scratch: &Scratch) -> Vec<String> {
    let mut out = Vec::new();
    let dir = match std::env::current_exe() {
        Ok(p) => match p.ancestors().nth(4) {
            Some(root) => root.join("corpus").join("C18"),
            None => return out,
        },
        Err(_) => return out,
    };
    let mut files: Vec<PathBuf> = match std::fs::read_dir(&dir) {
        Ok(rd) => rd.filter_map(|e| e.ok().map(|e| e.path())).filter(|p| p.extension().map(|x| x == "case").unwrap_or(false)).collect(),
        Err(_) => return out,
    };
    files.sort();
    for f in files {
        let text = match std::fs::read_to_string(&f) {
            Ok(t) => t,
            Err(_) => continue,
        };
        let lines: Vec<String> = text.lines().filter(|l| *l != "end").map(|l| l.to_string()).collect();
        if let Some(c) = parse_case(&lines) {
            let id = lines[0].split_whitespace().nth(1).unwrap_or("corpus").to_string();
            let mut s = String::new();
            run_case(&id, &c, scratch, &mut s);
            out.push(s);
        }
    }
    out
}
