//! Family `symbase` (C16): `-b SYM:n:c` versus a prepended opening purchase by the default
//! affiliate, both through the real pipeline; plus malformed `-b` strings through
//! `parse_initial_status`.
use acb::app::input_parse::parse_initial_status;
use acb::portfolio::{Affiliate, Tx};
use rust_decimal::Decimal;

use crate::app::{self, AppCase};
use crate::common::*;
use crate::ledger;
use crate::rng::Rng;

fn opening_buy(sec: &str, n: Decimal, price: Decimal, day: i32) -> Tx {
    use acb::portfolio::{BuyTxSpecifics, TxActionSpecifics};
    use acb::util::decimal::{GreaterEqualZeroDecimal, PosDecimal};
    Tx {
        security: sec.to_string(),
        trade_date: date_from_jd(day),
        settlement_date: date_from_jd(day),
        action_specifics: TxActionSpecifics::Buy(BuyTxSpecifics {
            shares: PosDecimal::try_from(n).unwrap(),
            amount_per_share: GreaterEqualZeroDecimal::try_from(price).unwrap(),
            commission: GreaterEqualZeroDecimal::try_from(Decimal::ZERO).unwrap(),
            tx_currency_and_rate: ledger::cer("CAD", Decimal::ONE),
            separate_commission_currency: None,
        }),
        memo: String::new(),
        affiliate: Affiliate::default(),
        read_index: 0,
    }
}

pub fn run_case(id: &str, r: &mut Rng, out: &mut String) {
    // one or two securities; the first gets the opening position
    let mut names = vec!["Default".to_string()];
    let (rows0, _) = app::gen_security(r, "S0", &mut names);
    let mut lists = vec![rows0];
    if r.chance(40) {
        let (rows1, _) = app::gen_security(r, "S1", &mut names);
        lists.push(rows1);
    }
    let first_day = lists[0].iter().map(|t| jd(t.settlement_date)).min().unwrap_or(ledger::BASE_JD);
    let mut rows = app::interleave(r, lists);
    // now and then the ticker is typed in lower case — in the rows and in `-b` alike
    let key0 = if r.chance(15) { "s0" } else { "S0" };
    if key0 == "s0" {
        for t in rows.iter_mut() {
            if t.security == "S0" {
                t.security = "s0".to_string();
            }
        }
    }
    let zero = r.chance(8);
    // no shares but a cost base (what a fully denied loss leaves behind until the repurchase): the
    // equivalent row is a cost-base adjustment instead of a purchase
    let zero_with_cost = !zero && r.chance(6);
    let n = if zero || zero_with_cost { Decimal::ZERO } else if r.chance(50) { Decimal::new(r.range(1, 200), 0) } else { Decimal::new(r.range(1, 200000), 3) };
    let price = if r.chance(15) { Decimal::ZERO } else { Decimal::new(r.range(1, 500000), 4) };
    let c = if zero { Decimal::ZERO } else if zero_with_cost { Decimal::new(r.range(1, 500000), 2) } else { n * price };
    // an opening position of an unrelated security must not matter
    let mut inits = vec![(key0.to_string(), n, c)];
    if r.chance(30) {
        inits.push(("QQQ".to_string(), Decimal::new(7, 0), Decimal::new(70, 0)));
    }
    let case_a = AppCase { names: names.clone(), rows: rows.clone(), inits: inits.clone(), cuts: vec![] };
    // A: correspondence with the model (ordinary app case)
    app::run_case(&format!("{}a", id), &case_a, out);
    // B: metamorphic pair on the implementation alone
    let uni = app::universe(&case_a);
    let res_a = app::run_app(&rows, &[], &inits);
    let mut rows_b = Vec::new();
    if zero_with_cost {
        let mut t = opening_buy(key0, Decimal::ONE, Decimal::ONE, first_day - 31 - r.range(0, 400) as i32);
        t.action_specifics = acb::portfolio::TxActionSpecifics::Sfla(acb::portfolio::SflaTxSpecifics {
            shares_affected: acb::util::decimal::PosDecimal::try_from(Decimal::ONE).unwrap(),
            amount_per_share: acb::util::decimal::PosDecimal::try_from(c).unwrap(),
        });
        rows_b.push(t);
    } else if !zero {
        rows_b.push(opening_buy(key0, n, price, first_day - 31 - r.range(0, 400) as i32));
    }
    rows_b.extend(rows.iter().cloned());
    let inits_b: Vec<(String, Decimal, Decimal)> = inits.iter().filter(|i| i.0 != key0).cloned().collect();
    let res_b = app::run_app(&rows_b, &[], &inits_b);
    out.push_str(&format!("case {} symbase zero={} n={} c={}\n", id, if zero { 1 } else { 0 }, n, c));
    app::emit_result(&uni, "implA", &res_a, out);
    app::emit_result(&uni, "implB", &res_b, out);
    let mut repro = format!("A: -b {}:{}:{}   B: opening purchase of {} @ {} prepended\n", key0, n, c, n, price);
    repro.push_str(&app::txs_to_csv(&rows_b));
    out.push_str(&format!("repro {}\n", oneline(&repro)));
    out.push_str("end\n");
}

/// `-b` keys are security names, compared exactly: an opening position given for a name that
/// differs from the CSV's security only in letter case belongs to another security and must
/// leave the report as it is without any `-b`.
pub fn run_casekey_case(id: &str, r: &mut Rng, out: &mut String) {
    let mut names = vec!["Default".to_string()];
    let (rows0, _) = app::gen_security(r, "S0", &mut names);
    let mut lists = vec![rows0];
    if r.chance(40) {
        let (rows1, _) = app::gen_security(r, "S1", &mut names);
        lists.push(rows1);
    }
    let rows = app::interleave(r, lists);
    let n = Decimal::new(r.range(1, 200), 0);
    let c = n * Decimal::new(r.range(1, 5000), 2);
    let inits = vec![("s0".to_string(), n, c)];
    let case_a = AppCase { names: names.clone(), rows: rows.clone(), inits: vec![], cuts: vec![] };
    let uni = app::universe(&case_a);
    let res_a = app::run_app(&rows, &[], &inits);
    let res_b = app::run_app(&rows, &[], &[]);
    out.push_str(&format!("case {} symbase zero=1 n={} c={} casekey=1\n", id, n, c));
    app::emit_result(&uni, "implA", &res_a, out);
    app::emit_result(&uni, "implB", &res_b, out);
    let mut repro = format!("A: -b s0:{}:{}   B: no -b\n", n, c);
    repro.push_str(&app::txs_to_csv(&rows));
    out.push_str(&format!("repro {}\n", oneline(&repro)));
    out.push_str("end\n");
}

/// Malformed and well-formed `-b` strings through the real parser.
pub fn run_parse_case(id: &str, r: &mut Rng, out: &mut String) {
    // a cost base is a sum of costs converted at exchange rates: more than two decimals are normal
    let good = format!("SYM:{}:{}", r.range(0, 500), Decimal::new(r.range(0, 100000000), if r.chance(50) { 2 } else { 2 + r.below(5) as u32 }));
    let variants: Vec<(String, bool)> = vec![
        (good.clone(), true),
        (" SYM :1.5:0".to_string(), true),
        ("Brk.b:1.25:300".to_string(), true),
        ("goog:20:1000.00".to_string(), true),
        ("SYM:2.125:1000.1255".to_string(), true),
        ("DUST:8:0.000001".to_string(), true),
        ("SYM:0:0".to_string(), true),
        // a decimal comma or a thousands separator is not a number here
        ("XYZ:100:1234,56".to_string(), false),
        ("SYM:1,5:10".to_string(), false),
        ("SYM:1,000:10".to_string(), false),
        ("SYM:1".to_string(), false),
        ("SYM:1:2:3".to_string(), false),
        (":1:2".to_string(), false),
        ("   :1:2".to_string(), false),
        ("SYM:-1:2".to_string(), false),
        ("SYM:1:-2".to_string(), false),
        ("SYM:x:2".to_string(), false),
        ("SYM:1:y".to_string(), false),
        ("SYM::2".to_string(), false),
        ("SYM:1:".to_string(), false),
        ("".to_string(), false),
    ];
    let (spec, expect_ok) = r.pick(&variants).clone();
    // a malformed entry anywhere in the list must reject the whole option set
    let mut list = vec![good];
    let pos = r.below(2) as usize;
    list.insert(pos, spec.clone());
    let res = catch(|| parse_initial_status(&list));
    let got = match &res {
        Ok(Ok(m)) => {
            // the parsed entries, sorted: symbol|shares|acb
            let mut items: Vec<String> = m
                .iter()
                .map(|(k, v)| {
                    format!(
                        "{}|{}|{}|{}",
                        k.replace(' ', "\\s"),
                        v.security.replace(' ', "\\s"),
                        *v.share_balance,
                        v.total_acb.map(|a| a.to_string()).unwrap_or("-".to_string())
                    )
                })
                .collect();
            items.sort();
            format!("ok {}", items.join(" "))
        }
        Ok(Err(_)) => "err".to_string(),
        Err(p) => format!("panic {}", oneline(p)),
    };
    out.push_str(&format!(
        "case {} symparse expect={} which={}\nin {}\nin {}\nimpl {}\nrepro -b {:?}\nend\n",
        id,
        if expect_ok { "ok" } else { "err" },
        pos,
        oneline(&list[0]).replace(' ', "\\s"),
        oneline(&list[1]).replace(' ', "\\s"),
        got,
        list
    ));
}
