//! Family `cli`: the command-line front end itself (src/cmd.rs), which the library-level families
//! bypass.  The harness re-executes itself as the real `acb` (ACB_VERIF_MULTICALL=acb) and checks, on
//! the implementation alone:
//!  * kind=files  (C07): `acb f1 f2 f3` — the rows split over several files GIVEN IN THAT ORDER, with
//!    file names that are not in alphabetical order — prints exactly what `acb all.csv` prints for
//!    the single concatenated file;
//!  * kind=summary (C10): `acb --summarize-before D file` prints exactly the summary CSV that the
//!    library entry point produces for the date D (so the later rows are the ones settling after D).
use std::collections::HashMap;
use std::path::{Path, PathBuf};
use std::process::Command;

use acb::app::{run_acb_app_summary_to_model, Options};
use acb::portfolio::io::tx_csv::write_txs_to_csv;
use acb::portfolio::{Tx, TxActionSpecifics};
use acb::util::rw::{DescribedReader, WriteHandle};

use crate::app;
use crate::common::*;
use crate::rng::Rng;

fn scratch_root() -> PathBuf {
    std::env::temp_dir().join(format!("acb_verif_cli_{}", std::process::id()))
}

fn run_acb(home: &Path, cwd: &Path, args: &[String]) -> (i32, String) {
    let exe = std::env::current_exe().unwrap();
    let out = Command::new(exe)
        .args(args)
        .current_dir(cwd)
        .env("ACB_VERIF_MULTICALL", "acb")
        .env("HOME", home)
        .env_remove("RUST_LOG")
        .output();
    match out {
        Ok(o) => (o.status.code().unwrap_or(-1), String::from_utf8_lossy(&o.stdout).to_string()),
        Err(_) => (-2, String::new()),
    }
}

fn first_diff_line(a: &str, b: &str) -> String {
    for (i, (x, y)) in a.lines().zip(b.lines()).enumerate() {
        if x != y {
            return format!("line {}: '{}' vs '{}'", i + 1, x.trim(), y.trim());
        }
    }
    format!("length {} vs {} lines", a.lines().count(), b.lines().count())
}

pub fn run_case(id: &str, r: &mut Rng, out: &mut String) {
    let root = scratch_root().join(id.replace(|ch: char| !ch.is_ascii_alphanumeric(), "_"));
    let home = root.join("home");
    let _ = std::fs::create_dir_all(&home);
    let k = r.below(100);
    if k < 35 {
        files_case(id, r, &root, &home, out);
    } else if k < 58 {
        summary_case(id, r, &root, &home, out);
    } else if k < 73 {
        symbase_case(id, r, &root, &home, out);
    } else if k < 82 {
        spelling_case(id, r, &root, &home, out);
    } else if k < 89 {
        options_case(id, r, &root, &home, out);
    } else {
        sumlocal_case(id, r, out);
    }
    let _ = std::fs::remove_dir_all(&root);
}

fn files_case(id: &str, r: &mut Rng, root: &Path, home: &Path, out: &mut String) {
    let c = app::gen_case(r);
    if c.rows.len() < 2 {
        return;
    }
    // 2-3 chunks in order
    let nfiles = 2 + r.below(2) as usize;
    let mut cuts: Vec<usize> = Vec::new();
    let mut left = c.rows.len();
    for k in 0..nfiles {
        let n = if k + 1 == nfiles { left } else { 1 + r.below((left.saturating_sub(nfiles - k - 1)).max(1) as u64) as usize };
        let n = n.min(left);
        if n == 0 {
            break;
        }
        cuts.push(n);
        left -= n;
    }
    // names that are NOT in alphabetical order more often than not
    let mut pool = vec!["m.csv", "a.csv", "z.csv", "b.csv", "10.csv", "9.csv"];
    let mut names = Vec::new();
    for _ in 0..cuts.len() {
        let i = r.below(pool.len() as u64) as usize;
        names.push(pool.remove(i).to_string());
    }
    let mut start = 0;
    for (k, n) in cuts.iter().enumerate() {
        let _ = std::fs::write(root.join(&names[k]), app::txs_to_csv(&c.rows[start..start + n]));
        start += n;
    }
    let _ = std::fs::write(root.join("all.csv"), app::txs_to_csv(&c.rows));
    let mut extra: Vec<String> = Vec::new();
    if r.chance(30) {
        extra.push("--total-costs".into());
    }
    if r.chance(30) {
        extra.push("--print-full-values".into());
    }
    let mut args1 = names.clone();
    args1.extend(extra.clone());
    let mut args2 = vec!["all.csv".to_string()];
    args2.extend(extra.clone());
    let (rc1, o1) = run_acb(home, root, &args1);
    let (rc2, o2) = run_acb(home, root, &args2);
    let sorted = { let mut s = names.clone(); s.sort(); s == names };
    out.push_str(&format!("case {} cli kind=files nfiles={} sorted={} rows={}\n", id, names.len(), if sorted { 1 } else { 0 }, c.rows.len()));
    if rc1 == rc2 && o1 == o2 {
        out.push_str(&format!("impl same exit={} bytes={}\n", rc1, o1.len()));
    } else {
        out.push_str(&format!("impl differ exit={}/{} {}\n", rc1, rc2, oneline(&first_diff_line(&o1, &o2))));
    }
    let mut repro = format!("acb {} {}   versus   acb all.csv {}\n", names.join(" "), extra.join(" "), extra.join(" "));
    let mut start = 0;
    for (k, n) in cuts.iter().enumerate() {
        repro.push_str(&format!("--- {}\n{}", names[k], app::txs_to_csv(&c.rows[start..start + n])));
        start += n;
    }
    out.push_str(&format!("repro {}\nend\n", oneline(&repro)));
}

fn summary_case(id: &str, r: &mut Rng, root: &Path, home: &Path, out: &mut String) {
    let mut names = vec!["Default".to_string()];
    let (mut rows, _init) = app::gen_security(r, "S0", &mut names);
    rows.retain(|t| match &t.action_specifics {
        TxActionSpecifics::Sfla(_) => false,
        TxActionSpecifics::Sell(s) => s.specified_superficial_loss.is_none(),
        _ => true,
    });
    if rows.is_empty() {
        return;
    }
    // the summary date ON a settlement date (the boundary case), or next to it
    let k = r.below(rows.len() as u64) as usize;
    let cut = jd(rows[k].settlement_date) + *r.pick(&[0i32, 0, 0, 1, -1]);
    let annual = r.chance(30);
    let csv = app::txs_to_csv(&rows);
    let _ = std::fs::write(root.join("in.csv"), &csv);
    let mut args = vec!["in.csv".to_string(), "--summarize-before".to_string(), date_str(date_from_jd(cut))];
    if annual {
        args.push("--summarize-annual-gains".into());
    }
    let (rc, stdout) = run_acb(home, root, &args);
    // the library entry point for the same date
    let readers = vec![DescribedReader::from_string("in.csv".to_string(), csv.clone())];
    let options = Options { split_annual_summary_gains: annual, ..Options::default() };
    let lib = catch(move || {
        async_std::task::block_on(run_acb_app_summary_to_model(
            date_from_jd(cut),
            readers,
            HashMap::new(),
            options,
            app::rate_loader(),
            WriteHandle::empty_write_handle(),
        ))
    });
    let expect: Option<String> = match lib {
        Ok(Ok(data)) => {
            if data.txs.is_empty() {
                Some(String::new())
            } else {
                let csv_txs: Vec<acb::portfolio::CsvTx> = data.txs.iter().map(|t: &Tx| t.to_csvtx()).collect();
                let (mut wh, sb) = WriteHandle::string_buff_write_handle();
                write_txs_to_csv(&csv_txs, &mut wh).ok();
                let s = sb.borrow().as_str().to_string();
                Some(s)
            }
        }
        _ => None,
    };
    out.push_str(&format!("case {} cli kind=summary annual={} rows={}\n", id, if annual { 1 } else { 0 }, rows.len()));
    match expect {
        None => out.push_str(&format!("impl skipped exit={}\n", rc)), // erroneous history: not C10's domain
        Some(e) => {
            // letter case of affiliate names: see symbase_case
            if stdout.to_lowercase() == e.to_lowercase() {
                out.push_str(&format!("impl same exit={} bytes={}\n", rc, stdout.len()));
            } else {
                out.push_str(&format!("impl differ exit={}/0 {}\n", rc, oneline(&first_diff_line(&stdout, &e))));
            }
        }
    }
    out.push_str(&format!("repro {}\nend\n", oneline(&format!("acb {}\n--- in.csv\n{}", args.join(" "), csv))));
}

/// kind=symbase (C16): `acb -b SPEC... file` as a child process.  What `parse_initial_status` (the
/// library's own parser of the specifications) rejects, the command line must reject before any
/// processing (non-zero exit, nothing on stdout); what it accepts must print what the library run
/// with those opening positions prints.
fn symbase_case(id: &str, r: &mut Rng, root: &Path, home: &Path, out: &mut String) {
    use acb::app::input_parse::parse_initial_status;
    use acb::app::outfmt::text::TextWriter;
    use acb::app::run_acb_app_to_writer;
    use acb::portfolio::io::tx_csv::TxCsvParseOptions;
    let c = app::gen_case(r);
    if c.rows.is_empty() {
        return;
    }
    let csv = app::txs_to_csv(&c.rows);
    let _ = std::fs::write(root.join("in.csv"), &csv);
    let sec0 = c.rows[0].security.clone();
    let good = [
        format!("{}:10:100", sec0),
        "ZZZ:1.5:30".to_string(),
        format!("{}:0:0", sec0),
        "QQQ:7:0".to_string(),
        // tickers are free text up to the first colon; costs may have more than two decimals
        "BRK-B:10:4000".to_string(),
        "XIU.TO:5:100.125".to_string(),
        "BRK/B:1:2".to_string(),
        format!("{}:8:1000.1255", sec0),
        "A B:3:9".to_string(),
    ];
    let bad = ["", "   ", "FOO:10", ":1:1", "FOO:-1:5", "FOO:x:1", "FOO:1:y", "FOO:1:2:3", "FOO", "\t"];
    let mut specs: Vec<String> = Vec::new();
    for _ in 0..(1 + r.below(2)) {
        specs.push(r.pick(&good).clone());
    }
    let malformed = r.chance(50);
    if malformed {
        let pos = r.below(specs.len() as u64 + 1) as usize;
        specs.insert(pos, r.pick(&bad).to_string());
    }
    let mut args: Vec<String> = Vec::new();
    for sp in &specs {
        args.push("-b".into());
        args.push(sp.clone());
    }
    args.push("in.csv".into());
    let (rc, stdout) = run_acb(home, root, &args);
    let lib = parse_initial_status(&specs);
    out.push_str(&format!("case {} cli kind=symbase malformed={} rows={}\n", id, if malformed { 1 } else { 0 }, c.rows.len()));
    match lib {
        Err(_) => {
            if rc != 0 && stdout.trim().is_empty() {
                out.push_str(&format!("impl same exit={} bytes=0\n", rc));
            } else {
                out.push_str(&format!(
                    "impl differ exit={}/nonzero a --symbol-base list that parse_initial_status rejects was accepted: the run printed {} bytes\n",
                    rc,
                    stdout.len()
                ));
            }
        }
        Ok(inits) => {
            let readers = vec![DescribedReader::from_string("in.csv".to_string(), csv.clone())];
            let libout = catch(move || {
                let (wh, sb) = WriteHandle::string_buff_write_handle();
                let (eh, _eb) = WriteHandle::string_buff_write_handle();
                let mut writer = TextWriter::new(wh);
                let res = async_std::task::block_on(run_acb_app_to_writer(
                    &mut writer,
                    readers,
                    inits,
                    &TxCsvParseOptions::default(),
                    false,
                    false,
                    app::rate_loader(),
                    eh,
                ));
                let s = sb.borrow().as_str().to_string();
                (res.is_ok(), s)
            });
            match libout {
                Ok((ok, text)) => {
                    // the front end appends a list of the failing securities to the report
                    // (an affiliate is shown in the spelling under which the PROCESS first met it: the
                    // child process and this one may differ in that, so letter case is not compared)
                    let (stdout, text) = (stdout.to_lowercase(), text.to_lowercase());
                    let rest_ok = stdout.starts_with(&text) && {
                        let rest = stdout[text.len()..].trim();
                        rest.is_empty() || rest.starts_with("[!] there are errors for the following securities")
                    };
                    if rest_ok && (ok == (rc == 0)) {
                        out.push_str(&format!("impl same exit={} bytes={}\n", rc, stdout.len()));
                    } else {
                        out.push_str(&format!("impl differ exit={}/{} {}\n", rc, if ok { 0 } else { 1 }, oneline(&first_diff_line(&stdout, &text))));
                    }
                }
                Err(_) => out.push_str(&format!("impl skipped exit={}\n", rc)),
            }
        }
    }
    out.push_str(&format!("repro {}\nend\n", oneline(&format!("acb {}\n--- in.csv\n{}", args.iter().map(|a| format!("'{}'", a)).collect::<Vec<_>>().join(" "), csv))));
}

/// kind=spelling (C01, C17): an affiliate is identified by its name up to letter case and
/// surrounding blanks ("Default", "default", "DEFAULT" are the default affiliate).  The same rows
/// with the names typed as they are and typed in lower / upper / mixed case must print the same
/// report (figures, cost tables, ignored-transaction notes), up to the spelling itself.
fn spelling_case(id: &str, r: &mut Rng, root: &Path, home: &Path, out: &mut String) {
    let c = app::gen_case(r);
    if c.rows.is_empty() {
        return;
    }
    // the default affiliate named explicitly in every row that belongs to it
    let mode = 1 + r.below(3) as u8;
    let canon = app::txs_to_csv_spelled(&c.rows, 0);
    let other = app::txs_to_csv_spelled(&c.rows, mode);
    let _ = std::fs::write(root.join("canon.csv"), &canon);
    let _ = std::fs::write(root.join("other.csv"), &other);
    let mut extra: Vec<String> = Vec::new();
    if r.chance(70) {
        extra.push("--total-costs".into());
    }
    let mut a1 = vec!["canon.csv".to_string()];
    a1.extend(extra.clone());
    let mut a2 = vec!["other.csv".to_string()];
    a2.extend(extra.clone());
    let (rc1, o1) = run_acb(home, root, &a1);
    let (rc2, o2) = run_acb(home, root, &a2);
    out.push_str(&format!("case {} cli kind=spelling mode={} rows={}\n", id, mode, c.rows.len()));
    if rc1 == rc2 && o1.to_lowercase() == o2.to_lowercase() {
        out.push_str(&format!("impl same exit={} bytes={}\n", rc1, o1.len()));
    } else {
        out.push_str(&format!("impl differ exit={}/{} {}\n", rc1, rc2, oneline(&first_diff_line(&o1.to_lowercase(), &o2.to_lowercase()))));
    }
    out.push_str(&format!("repro {}\nend\n", oneline(&format!("acb canon.csv {}   versus   acb other.csv {}\n--- canon.csv\n{}--- other.csv\n{}", extra.join(" "), extra.join(" "), canon, other))));
}

/// kind=options (C01, C06, C17): `acb [--print-full-values] [--total-costs] [--date-fmt F] file` as a
/// child process prints what the library entry point prints when it is given the same options —
/// the option handling of the front end (src/cmd.rs) adds nothing and loses nothing.
fn options_case(id: &str, r: &mut Rng, root: &Path, home: &Path, out: &mut String) {
    use acb::app::outfmt::text::TextWriter;
    use acb::app::run_acb_app_to_writer;
    use acb::portfolio::io::tx_csv::TxCsvParseOptions;
    use acb::util::date::parse_dyn_date_format;
    let c = app::gen_case(r);
    if c.rows.is_empty() {
        return;
    }
    let full = r.chance(50);
    let costs = r.chance(50);
    let slash = r.chance(35);
    let mut csv = app::txs_to_csv(&c.rows);
    if slash {
        // dates typed as 2020/01/05, announced with --date-fmt
        let mut t = String::with_capacity(csv.len());
        let b: Vec<char> = csv.chars().collect();
        let mut i = 0;
        while i < b.len() {
            if i + 10 <= b.len()
                && b[i..i + 4].iter().all(|ch| ch.is_ascii_digit())
                && b[i + 4] == '-'
                && b[i + 5..i + 7].iter().all(|ch| ch.is_ascii_digit())
                && b[i + 7] == '-'
                && b[i + 8..i + 10].iter().all(|ch| ch.is_ascii_digit())
            {
                for (k, ch) in b[i..i + 10].iter().enumerate() {
                    t.push(if k == 4 || k == 7 { '/' } else { *ch });
                }
                i += 10;
            } else {
                t.push(b[i]);
                i += 1;
            }
        }
        csv = t;
    }
    let _ = std::fs::write(root.join("in.csv"), &csv);
    let mut args: Vec<String> = vec!["in.csv".into()];
    if full {
        args.push("--print-full-values".into());
    }
    if costs {
        args.push("--total-costs".into());
    }
    let fmt = "[year]/[month]/[day]";
    if slash {
        args.push("--date-fmt".into());
        args.push(fmt.into());
    }
    let (rc, stdout) = run_acb(home, root, &args);
    let readers = vec![DescribedReader::from_string("in.csv".to_string(), csv.clone())];
    let libout = catch(move || {
        let (wh, sb) = WriteHandle::string_buff_write_handle();
        let (eh, _eb) = WriteHandle::string_buff_write_handle();
        let mut writer = TextWriter::new(wh);
        let parse_opts = TxCsvParseOptions { date_format: if slash { Some(parse_dyn_date_format(fmt).unwrap()) } else { None } };
        let res = async_std::task::block_on(run_acb_app_to_writer(
            &mut writer,
            readers,
            HashMap::new(),
            &parse_opts,
            full,
            costs,
            app::rate_loader(),
            eh,
        ));
        let s = sb.borrow().as_str().to_string();
        (res.is_ok(), s)
    });
    out.push_str(&format!("case {} cli kind=options full={} costs={} datefmt={} rows={}\n", id, full as u8, costs as u8, slash as u8, c.rows.len()));
    match libout {
        Ok((ok, text)) => {
            let (stdout, text) = (stdout.to_lowercase(), text.to_lowercase());
            let rest_ok = stdout.starts_with(&text) && {
                let rest = stdout[text.len()..].trim();
                rest.is_empty() || rest.starts_with("[!] there are errors for the following securities")
            };
            if rest_ok && (ok == (rc == 0)) {
                out.push_str(&format!("impl same exit={} bytes={}\n", rc, stdout.len()));
            } else {
                out.push_str(&format!("impl differ exit={}/{} {}\n", rc, if ok { 0 } else { 1 }, oneline(&first_diff_line(&stdout, &text))));
            }
        }
        Err(_) => out.push_str(&format!("impl skipped exit={}\n", rc)),
    }
    out.push_str(&format!("repro {}\nend\n", oneline(&format!("acb {}\n--- in.csv\n{}", args.iter().map(|a| format!("'{}'", a)).collect::<Vec<_>>().join(" "), csv))));
}

/// kind=sumlocal (C08, C10): the summary of two securities given together is, security by security,
/// the summary of each given alone (library entry point; implementation only).
fn sumlocal_case(id: &str, r: &mut Rng, out: &mut String) {
    let mut names = vec!["Default".to_string()];
    let (mut rows0, _) = app::gen_security(r, "S0", &mut names);
    let (mut rows1, _) = app::gen_security(r, "S1", &mut names);
    for rows in [&mut rows0, &mut rows1] {
        rows.retain(|t| match &t.action_specifics {
            TxActionSpecifics::Sfla(_) => false,
            TxActionSpecifics::Sell(s) => s.specified_superficial_loss.is_none(),
            _ => true,
        });
    }
    if rows0.is_empty() || rows1.is_empty() {
        return;
    }
    // a summary date inside the period both securities trade in, often after one of them has stopped
    let days: Vec<i32> = rows0.iter().chain(rows1.iter()).map(|t| jd(t.settlement_date)).collect();
    let cut = *r.pick(&days) + *r.pick(&[0i32, 0, 1, -1, 10, 40]);
    let annual = r.chance(30);
    let all = app::interleave(r, vec![rows0.clone(), rows1.clone()]);
    let run = |rows: &[Tx]| -> Option<Vec<String>> {
        let csv = app::txs_to_csv_spelled(rows, 0);
        let readers = vec![DescribedReader::from_string("in.csv".to_string(), csv)];
        let options = Options { split_annual_summary_gains: annual, ..Options::default() };
        let lib = catch(move || {
            async_std::task::block_on(run_acb_app_summary_to_model(
                date_from_jd(cut),
                readers,
                HashMap::new(),
                options,
                app::rate_loader(),
                WriteHandle::empty_write_handle(),
            ))
        });
        match lib {
            Ok(Ok(data)) => {
                let mut v = Vec::new();
                for t in &data.txs {
                    let (mut wh, sb) = WriteHandle::string_buff_write_handle();
                    write_txs_to_csv(&vec![t.to_csvtx()], &mut wh).ok();
                    let line = sb.borrow().as_str().lines().nth(1).unwrap_or("").to_string();
                    v.push(format!("{}|{}", t.security, line));
                }
                Some(v)
            }
            _ => None,
        }
    };
    let (a, b, ab) = (run(&rows0), run(&rows1), run(&all));
    out.push_str(&format!("case {} cli kind=sumlocal annual={} rows={}\n", id, annual as u8, all.len()));
    match (a, b, ab) {
        (Some(a), Some(b), Some(ab)) => {
            let of = |v: &Vec<String>, sec: &str| -> Vec<String> { v.iter().filter(|l| l.starts_with(&format!("{}|", sec))).cloned().collect() };
            // the written columns depend on the whole list; compare the cells that are always there
            let key = |l: &String| -> String { l.split(',').take(8).collect::<Vec<_>>().join(",") };
            let same = |x: Vec<String>, y: Vec<String>| x.iter().map(key).collect::<Vec<_>>() == y.iter().map(key).collect::<Vec<_>>();
            if same(of(&ab, "S0"), a.clone()) && same(of(&ab, "S1"), b.clone()) {
                out.push_str(&format!("impl same exit=0 bytes={}\n", ab.len()));
            } else {
                out.push_str(&format!(
                    "impl differ exit=0/0 together: {} | S0 alone: {} | S1 alone: {}\n",
                    oneline(&ab.join(" ; ")),
                    oneline(&a.join(" ; ")),
                    oneline(&b.join(" ; "))
                ));
            }
        }
        _ => out.push_str("impl skipped exit=0\n"),
    }
    out.push_str(&format!("repro {}\nend\n", oneline(&format!("summary before {} annual={} of both securities vs each alone\n--- in.csv\n{}", date_str(date_from_jd(cut)), annual, app::txs_to_csv_spelled(&all, 0)))));
}

pub fn cleanup() {
    let _ = std::fs::remove_dir_all(scratch_root());
}
