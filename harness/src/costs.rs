//! Family `costs` (C17): generated portfolios through the real application with `--total-costs`
//! and full-precision rendering.  Observations: the TxDeltas the report is computed from (as the
//! abstract rows of the Lean model) and the two rendered cost tables with their notes.
use acb::portfolio::render::RenderTable;
use acb::portfolio::TxDelta;
use acb::util::date::parse_standard_date;

use crate::appgen::*;
use crate::common::*;
use crate::rng::Rng;

pub struct CostsCase {
    pub csv: String,
}

pub fn gen_case(r: &mut Rng) -> CostsCase {
    let o = GenOpts { tie_pct: 25, ..GenOpts::default() };
    CostsCase { csv: csv_text(&gen_rows(r, &o)) }
}

fn aff_universe_of(deltas: &[&TxDelta]) -> AffUniverse {
    let mut names: Vec<String> = Vec::new();
    for d in deltas {
        let n = d.tx.affiliate.name().to_string();
        if !names.contains(&n) {
            names.push(n);
        }
    }
    let refs: Vec<&str> = names.iter().map(|s| s.as_str()).collect();
    AffUniverse::new(&refs)
}

fn opt_acb(s: &acb::portfolio::PortfolioSecurityStatus) -> String {
    opt_dec(s.total_acb.map(|a| *a))
}

/// One rendered cost table: `kind` is "total" (Date, Total, secs…) or "yearly" (Year, Date, Total, secs…).
fn table_lines(kind: &str, t: &RenderTable, secs: &[String], out: &mut String) -> Result<(), String> {
    let skip = if kind == "total" { 2 } else { 3 };
    // header columns -> security indices
    let mut cols: Vec<String> = Vec::new();
    for h in &t.header[skip.min(t.header.len())..] {
        let i = secs.iter().position(|s| s == h).ok_or(format!("unknown column {}", h))?;
        cols.push(i.to_string());
    }
    out.push_str(&format!("impl {}cols {}\n", kind, cols.join(" ")));
    for row in &t.rows {
        let mut toks: Vec<String> = Vec::new();
        let mut i = 0;
        if kind == "yearly" {
            toks.push(row[0].clone());
            i = 1;
        }
        let d = parse_standard_date(&row[i]).map_err(|e| format!("date {}: {}", row[i], e))?;
        toks.push(jd(d).to_string());
        for c in &row[i + 1..] {
            toks.push(money_tok(c).ok_or(format!("cell {}", c))?);
        }
        out.push_str(&format!("impl {} {}\n", kind, toks.join(" ")));
    }
    Ok(())
}

fn note_line(note: &str, secs: &[String], uni: &AffUniverse) -> Result<String, String> {
    // "{date} ({sec}) ignored transaction from registered affiliate"
    // "{date} ({sec}) ignored transaction from non-default affiliate {af_name}"
    let date = note.get(0..10).ok_or("short note")?;
    let d = parse_standard_date(date).map_err(|e| e.to_string())?;
    let open = note.find('(').ok_or("no (")?;
    let close = note[open..].find(')').ok_or("no )")? + open;
    let sec = &note[open + 1..close];
    let si = secs.iter().position(|s| s == sec).ok_or(format!("note about unknown security {}", sec))?;
    let rest = &note[close + 1..];
    if rest == " ignored transaction from registered affiliate" {
        Ok(format!("impl note reg {} {}", jd(d), si))
    } else if let Some(name) = rest.strip_prefix(" ignored transaction from non-default affiliate ") {
        let k = uni.affs.iter().position(|a| a.name() == name).ok_or(format!("note about unknown affiliate {}", name))?;
        Ok(format!("impl note nondef {} {} {}", jd(d), si, k))
    } else {
        Err(format!("unrecognised note: {}", note))
    }
}

pub fn run_case(id: &str, c: &CostsCase, out: &mut String) {
    out.push_str(&format!("case {} costs\n", id));
    out.push_str(&format!("in {}\n", oneline(&c.csv)));
    // 1. the deltas the report is computed from
    let deltas = match run_deltas(&c.csv) {
        Ok(Ok(m)) => m,
        Ok(Err(e)) => {
            out.push_str(&format!("impl result err {}\nrepro {}\nend\n", oneline(&e), oneline(&c.csv)));
            return;
        }
        Err(p) => {
            out.push_str(&format!("impl result panic {}\nrepro {}\nend\n", oneline(&p), oneline(&c.csv)));
            return;
        }
    };
    let mut secs: Vec<String> = deltas.keys().cloned().collect();
    secs.sort();
    let mut all: Vec<&TxDelta> = Vec::new();
    let mut n_err = 0;
    for s in &secs {
        let res = &deltas[s];
        if res.0.is_err() {
            n_err += 1;
        }
        all.extend(res.deltas_or_partial_deltas().iter());
    }
    let uni = aff_universe_of(&all);
    out.push_str(&format!("secs {}\n", secs.join(" ")));
    out.push_str(&format!("errsecs {}\n", n_err));
    for d in &all {
        let si = secs.iter().position(|s| *s == d.post_status.security).unwrap();
        out.push_str(&format!(
            "row {} {} {} {} {} {} {}\n",
            si,
            jd(d.tx.settlement_date),
            d.tx.settlement_date.year(),
            opt_acb(&d.pre_status),
            opt_acb(&d.post_status),
            // decided here, independently of Affiliate::is_default(): the default affiliate is the
            // one a blank affiliate cell denotes, or its registered counterpart
            if d.tx.affiliate.id() == acb::portfolio::Affiliate::default().id()
                || d.tx.affiliate.id() == acb::portfolio::Affiliate::default_registered().id()
            {
                1
            } else {
                0
            },
            uni.key(&d.tx.affiliate)
        ));
    }
    // 2. the rendered tables (full precision)
    match run_render(&c.csv, true, true) {
        Ok(Ok(res)) => match res.costs_tables {
            Some(ct) => {
                let mut body = String::new();
                let mut r = table_lines("total", &ct.total, &secs, &mut body);
                if r.is_ok() {
                    r = table_lines("yearly", &ct.yearly, &secs, &mut body);
                }
                if r.is_ok() {
                    for n in &ct.total.notes {
                        match note_line(n, &secs, &uni) {
                            Ok(l) => {
                                body.push_str(&l);
                                body.push('\n');
                            }
                            Err(e) => {
                                r = Err(e);
                                break;
                            }
                        }
                    }
                }
                match r {
                    Ok(()) => {
                        out.push_str(&body);
                        out.push_str(&format!(
                            "impl ynotes {}\n",
                            if ct.total.notes == ct.yearly.notes { "same" } else { "differ" }
                        ));
                        out.push_str("impl result ok\n");
                    }
                    Err(e) => out.push_str(&format!("impl result unparsable {}\n", oneline(&e))),
                }
            }
            None => out.push_str("impl result err no-costs-tables\n"),
        },
        Ok(Err(e)) => out.push_str(&format!("impl result err {}\n", oneline(&e))),
        Err(p) => out.push_str(&format!("impl result panic {}\n", oneline(&p))),
    }
    out.push_str(&format!("repro {}\n", oneline(&c.csv)));
    out.push_str("end\n");
}

/// Replay: the CSV text is carried in the `repro` line of the case.
pub fn parse_case(lines: &[String]) -> Option<CostsCase> {
    for l in lines {
        if let Some(r) = l.strip_prefix("in ") {
            return Some(CostsCase { csv: unescape(r) });
        }
    }
    None
}
