//! Family `costs` (C17): generated portfolios through the real application with `--total-costs`
//! and full-precision rendering.  Observations: the TxDeltas the report is computed from (as the
//! abstract rows of the Lean model) and the two rendered cost tables with their notes.
use acb::portfolio::render::RenderTable;
use acb::portfolio::TxDelta;
use rust_decimal::Decimal;
use acb::util::date::parse_standard_date;

use crate::appgen::*;
use crate::common::*;
use crate::rng::Rng;

pub struct CostsCase {
    pub csv: String,
    /// synthetic delta list fed straight to calc_total_costs (sec, settle jd, pre, post, affiliate),
    /// securities interleaved; empty = use the CSV through the whole application
    pub synth: Vec<(String, i32, Option<Decimal>, Option<Decimal>, String)>,
}

/// A hand-built delta list in the style of tests/integrated_render_total_costs_test.rs: securities
/// interleaved (only each security's own rows are chronological), many cost values per day.
fn gen_synth(r: &mut Rng) -> Vec<(String, i32, Option<Decimal>, Option<Decimal>, String)> {
    let secs = ["SECA", "XXXX", "MID", "ZZ"];
    let n_secs = r.range(1, 4) as usize;
    let affs = ["", "", "", "Spouse", "Default (R)", "Defaulted", "(R)"];
    let n = r.range(1, 30) as usize;
    let mut day: Vec<i32> = (0..n_secs).map(|_| START_JD + r.range(0, 400) as i32).collect();
    let mut last: Vec<Decimal> = (0..n_secs).map(|_| if r.chance(50) { Decimal::ZERO } else { Decimal::new(r.range(0, 5000), 1) }).collect();
    let mut out = Vec::new();
    for _ in 0..n {
        let si = r.below(n_secs as u64) as usize;
        day[si] += *r.pick(&[0, 0, 0, 1, 1, 3, 30, 300, 400]);
        let af = *r.pick(&affs);
        let registered = af.contains("(R)");
        let post = if r.chance(25) { Decimal::ZERO } else { Decimal::new(r.range(0, 5000), 1) };
        if registered {
            out.push((secs[si].to_string(), day[si], None, None, af.to_string()));
        } else if af.is_empty() {
            out.push((secs[si].to_string(), day[si], Some(last[si]), Some(post), af.to_string()));
            last[si] = post;
        } else {
            out.push((secs[si].to_string(), day[si], Some(Decimal::new(r.range(0, 900), 0)), Some(post), af.to_string()));
        }
    }
    out
}

pub fn gen_case(r: &mut Rng) -> CostsCase {
    if r.chance(25) {
        return CostsCase { csv: String::new(), synth: gen_synth(r) };
    }
    let o = GenOpts { tie_pct: 25, ..GenOpts::default() };
    CostsCase { csv: csv_text(&gen_rows(r, &o)), synth: Vec::new() }
}

fn synth_delta(sec: &str, day: i32, pre: Option<Decimal>, post: Option<Decimal>, aff: &str) -> TxDelta {
    use acb::portfolio::{Affiliate, CurrencyAndExchangeRate, PortfolioSecurityStatus, RocTxSpecifics, Tx, TxActionSpecifics};
    use acb::util::decimal::GreaterEqualZeroDecimal as Gez;
    let st = |acb: Option<Decimal>| {
        std::rc::Rc::new(PortfolioSecurityStatus {
            security: sec.to_string(),
            total_acb: acb.map(|v| Gez::try_from(v).unwrap()),
            share_balance: Gez::zero(),
            all_affiliate_share_balance: Gez::zero(),
        })
    };
    TxDelta {
        tx: Tx {
            security: sec.to_string(),
            trade_date: date_from_jd(day),
            settlement_date: date_from_jd(day),
            action_specifics: TxActionSpecifics::Roc(RocTxSpecifics {
                amount_per_held_share: Gez::zero(),
                tx_currency_and_rate: CurrencyAndExchangeRate::default(),
            }),
            memo: String::new(),
            affiliate: Affiliate::from_strep(aff),
            read_index: 0,
        },
        pre_status: st(pre),
        post_status: st(post),
        capital_gain: None,
        sfl: None,
    }
}

fn aff_universe_of(deltas: &[&TxDelta]) -> AffUniverse {
    let mut names: Vec<String> = Vec::new();
    for d in deltas {
        let n = d.tx.affiliate.name().to_string();
        if !names.contains(&n) {
            names.push(n);
        }
    }
    let refs: Vec<&str> = names.iter().map(|s| s.as_str()).collect();
    AffUniverse::new(&refs)
}

fn opt_acb(s: &acb::portfolio::PortfolioSecurityStatus) -> String {
    opt_dec(s.total_acb.map(|a| *a))
}

/// One rendered cost table: `kind` is "total" (Date, Total, secs…) or "yearly" (Year, Date, Total, secs…).
fn table_lines(kind: &str, t: &RenderTable, secs: &[String], out: &mut String) -> Result<(), String> {
    let skip = if kind == "total" { 2 } else { 3 };
    // header columns -> security indices
    let mut cols: Vec<String> = Vec::new();
    for h in &t.header[skip.min(t.header.len())..] {
        let i = secs.iter().position(|s| s == h).ok_or(format!("unknown column {}", h))?;
        cols.push(i.to_string());
    }
    out.push_str(&format!("impl {}cols {}\n", kind, cols.join(" ")));
    for row in &t.rows {
        let mut toks: Vec<String> = Vec::new();
        let mut i = 0;
        if kind == "yearly" {
            toks.push(row[0].clone());
            i = 1;
        }
        let d = parse_standard_date(&row[i]).map_err(|e| format!("date {}: {}", row[i], e))?;
        toks.push(jd(d).to_string());
        for c in &row[i + 1..] {
            toks.push(money_tok(c).ok_or(format!("cell {}", c))?);
        }
        out.push_str(&format!("impl {} {}\n", kind, toks.join(" ")));
    }
    Ok(())
}

fn note_line(note: &str, secs: &[String], uni: &AffUniverse) -> Result<String, String> {
    // "{date} ({sec}) ignored transaction from registered affiliate"
    // "{date} ({sec}) ignored transaction from non-default affiliate {af_name}"
    let date = note.get(0..10).ok_or("short note")?;
    let d = parse_standard_date(date).map_err(|e| e.to_string())?;
    let open = note.find('(').ok_or("no (")?;
    let close = note[open..].find(')').ok_or("no )")? + open;
    let sec = &note[open + 1..close];
    let si = secs.iter().position(|s| s == sec).ok_or(format!("note about unknown security {}", sec))?;
    let rest = &note[close + 1..];
    if rest == " ignored transaction from registered affiliate" {
        Ok(format!("impl note reg {} {}", jd(d), si))
    } else if let Some(name) = rest.strip_prefix(" ignored transaction from non-default affiliate ") {
        let k = uni.affs.iter().position(|a| a.name() == name).ok_or(format!("note about unknown affiliate {}", name))?;
        Ok(format!("impl note nondef {} {} {}", jd(d), si, k))
    } else {
        Err(format!("unrecognised note: {}", note))
    }
}

fn row_line(secs: &[String], uni: &AffUniverse, d: &TxDelta) -> String {
    let si = secs.iter().position(|s| *s == d.post_status.security).unwrap();
    // "default affiliate" is decided here, independently of Affiliate::is_default(): it is the
    // one a blank affiliate cell denotes, or its registered counterpart
    let dflt = d.tx.affiliate.id() == acb::portfolio::Affiliate::default().id()
        || d.tx.affiliate.id() == acb::portfolio::Affiliate::default_registered().id();
    format!(
        "row {} {} {} {} {} {} {}\n",
        si,
        jd(d.tx.settlement_date),
        d.tx.settlement_date.year(),
        opt_acb(&d.pre_status),
        opt_acb(&d.post_status),
        if dflt { 1 } else { 0 },
        uni.key(&d.tx.affiliate)
    )
}

fn tables_lines(ct: &acb::portfolio::render::CostsTables, secs: &[String], uni: &AffUniverse, out: &mut String) {
    let mut body = String::new();
    let mut r = table_lines("total", &ct.total, secs, &mut body);
    if r.is_ok() {
        r = table_lines("yearly", &ct.yearly, secs, &mut body);
    }
    if r.is_ok() {
        for n in &ct.total.notes {
            match note_line(n, secs, uni) {
                Ok(l) => {
                    body.push_str(&l);
                    body.push('\n');
                }
                Err(e) => {
                    r = Err(e);
                    break;
                }
            }
        }
    }
    match r {
        Ok(()) => {
            out.push_str(&body);
            out.push_str(&format!("impl ynotes {}\n", if ct.total.notes == ct.yearly.notes { "same" } else { "differ" }));
            out.push_str("impl result ok\n");
        }
        Err(e) => out.push_str(&format!("impl result unparsable {}\n", oneline(&e))),
    }
}

fn synth_text(c: &CostsCase) -> String {
    c.synth
        .iter()
        .map(|(s, d, pre, post, a)| format!("{}|{}|{}|{}|{}", s, d, opt_dec(*pre), opt_dec(*post), a))
        .collect::<Vec<_>>()
        .join(";")
}

fn run_synth(id: &str, c: &CostsCase, out: &mut String) {
    out.push_str(&format!("case {} costs synth=1\n", id));
    out.push_str(&format!("in synth {}\n", synth_text(c).replace(' ', "_")));
    let deltas: Vec<TxDelta> = c.synth.iter().map(|(s, d, pre, post, a)| synth_delta(s, *d, *pre, *post, a)).collect();
    let mut secs: Vec<String> = Vec::new();
    for d in &deltas {
        if !secs.contains(&d.post_status.security) {
            secs.push(d.post_status.security.clone());
        }
    }
    secs.sort();
    let refs: Vec<&TxDelta> = deltas.iter().collect();
    let uni = aff_universe_of(&refs);
    out.push_str(&format!("secs {}\n", secs.join(" ")));
    out.push_str("errsecs 0\n");
    for d in &deltas {
        out.push_str(&row_line(&secs, &uni, d));
    }
    let ds = deltas.clone();
    match catch(move || {
        let costs = acb::portfolio::bookkeeping::calc_total_costs(&ds);
        acb::portfolio::render::render_total_costs(&costs, true)
    }) {
        Ok(ct) => tables_lines(&ct, &secs, &uni, out),
        Err(p) => out.push_str(&format!("impl result panic {}\n", oneline(&p))),
    }
    out.push_str(&format!("repro synthetic deltas (security|settle day|pre acb|post acb|affiliate): {}\n", synth_text(c)));
    out.push_str("end\n");
}

pub fn run_case(id: &str, c: &CostsCase, out: &mut String) {
    if !c.synth.is_empty() {
        return run_synth(id, c, out);
    }
    out.push_str(&format!("case {} costs\n", id));
    out.push_str(&format!("in {}\n", oneline(&c.csv)));
    // 1. the deltas the report is computed from
    let deltas = match run_deltas(&c.csv) {
        Ok(Ok(m)) => m,
        Ok(Err(e)) => {
            out.push_str(&format!("impl result err {}\nrepro {}\nend\n", oneline(&e), oneline(&c.csv)));
            return;
        }
        Err(p) => {
            out.push_str(&format!("impl result panic {}\nrepro {}\nend\n", oneline(&p), oneline(&c.csv)));
            return;
        }
    };
    let mut secs: Vec<String> = deltas.keys().cloned().collect();
    secs.sort();
    let mut all: Vec<&TxDelta> = Vec::new();
    let mut n_err = 0;
    for s in &secs {
        let res = &deltas[s];
        if res.0.is_err() {
            n_err += 1;
        }
        all.extend(res.deltas_or_partial_deltas().iter());
    }
    let uni = aff_universe_of(&all);
    out.push_str(&format!("secs {}\n", secs.join(" ")));
    out.push_str(&format!("errsecs {}\n", n_err));
    for d in &all {
        out.push_str(&row_line(&secs, &uni, d));
    }
    // 2. the rendered tables (full precision)
    match run_render(&c.csv, true, true) {
        Ok(Ok(res)) => match res.costs_tables {
            Some(ct) => tables_lines(&ct, &secs, &uni, out),
            None => out.push_str("impl result err no-costs-tables\n"),
        },
        Ok(Err(e)) => out.push_str(&format!("impl result err {}\n", oneline(&e))),
        Err(p) => out.push_str(&format!("impl result panic {}\n", oneline(&p))),
    }
    out.push_str(&format!("repro {}\n", oneline(&c.csv)));
    out.push_str("end\n");
}

/// Replay: the CSV text is carried in the `repro` line of the case.
pub fn parse_case(lines: &[String]) -> Option<CostsCase> {
    for l in lines {
        if let Some(r) = l.strip_prefix("in synth ") {
            let mut synth = Vec::new();
            for item in r.split(';') {
                let f: Vec<&str> = item.split('|').collect();
                if f.len() != 5 {
                    return None;
                }
                let o = |s: &str| if s == "-" { Some(None) } else { Decimal::from_str_exact(s).ok().map(Some) };
                synth.push((f[0].to_string(), f[1].parse().ok()?, o(f[2])?, o(f[3])?, f[4].replace('_', " ")));
            }
            return Some(CostsCase { csv: String::new(), synth });
        }
        if let Some(r) = l.strip_prefix("in ") {
            return Some(CostsCase { csv: unescape(r), synth: Vec::new() });
        }
    }
    None
}
