//! Family `pages` (C20): the page-ordering helpers of src/peripheral/pdf.rs on real (in-memory)
//! lopdf documents.
//!
//!   case <id> pages kind=chunks|raw|cli n=<pages>
//!   in n <pages>
//!   in g <p> <p> ...          one line per hint group (kind=raw: the groups given to the iterator)
//!   impl chunk <p> ...        kind=chunks|cli: one line per group returned by
//!                             safe_page_chunks_with_remainder_pn (absent for kind=raw)
//!   impl y <page> <k>         one line per item yielded by OptimizedPageIter: the page number it
//!                             reported and the number k read back from the text of that page
//!                             (every page k of the test document carries the text "PG<k>X")
//!   impl end none|oob|unwrap|other
//!   end
use std::fmt::Write as _;
use std::sync::Arc;

use acb::peripheral::pdf::LazyPageTextVec;
use lopdf::content::{Content, Operation};
use lopdf::{dictionary, Document, Object, Stream};

use crate::common::catch;
use crate::rng::Rng;

/// The hint groups `parse_statement` passes (checked against the translator's value by the driver).
pub const CLI_HINTS: &[&[u32]] = &[&[1, 7], &[6, 8]];

pub fn make_doc(n: u32) -> Document {
    let mut doc = Document::with_version("1.5");
    let pages_id = doc.new_object_id();
    let font_id = doc.add_object(dictionary! {
        "Type" => "Font", "Subtype" => "Type1", "BaseFont" => "Courier",
    });
    let resources_id = doc.add_object(dictionary! {
        "Font" => dictionary! { "F1" => font_id },
    });
    let mut kids: Vec<Object> = Vec::new();
    for k in 1..=n {
        let content = Content {
            operations: vec![
                Operation::new("BT", vec![]),
                Operation::new("Tf", vec!["F1".into(), 12.into()]),
                Operation::new("Td", vec![100.into(), 600.into()]),
                Operation::new("Tj", vec![Object::string_literal(format!("PG{}X", k))]),
                Operation::new("ET", vec![]),
            ],
        };
        let content_id = doc.add_object(Stream::new(dictionary! {}, content.encode().unwrap()));
        let page_id = doc.add_object(dictionary! {
            "Type" => "Page", "Parent" => pages_id, "Contents" => content_id,
        });
        kids.push(page_id.into());
    }
    let pages = dictionary! {
        "Type" => "Pages", "Kids" => kids, "Count" => n as i64,
        "Resources" => resources_id,
        "MediaBox" => vec![0.into(), 0.into(), 595.into(), 842.into()],
    };
    doc.objects.insert(pages_id, Object::Dictionary(pages));
    let catalog_id = doc.add_object(dictionary! { "Type" => "Catalog", "Pages" => pages_id });
    doc.trailer.set("Root", catalog_id);
    doc
}

fn page_no_of_text(t: &str) -> u32 {
    // "PG<k>X"
    if let Some(i) = t.find("PG") {
        let rest = &t[i + 2..];
        if let Some(j) = rest.find('X') {
            return rest[..j].trim().parse().unwrap_or(0);
        }
    }
    0
}

pub struct Docs {
    docs: Vec<Option<Arc<Document>>>,
}

impl Docs {
    pub fn new() -> Self {
        Docs { docs: Vec::new() }
    }
    pub fn get(&mut self, n: u32) -> Arc<Document> {
        let i = n as usize;
        if self.docs.len() <= i {
            self.docs.resize(i + 1, None);
        }
        if self.docs[i].is_none() {
            self.docs[i] = Some(Arc::new(make_doc(n)));
        }
        self.docs[i].clone().unwrap()
    }
}

fn classify_panic(msg: &str) -> &'static str {
    if msg.contains("index out of bounds") {
        "oob"
    } else if msg.contains("unwrap()` on a `None`") {
        "unwrap"
    } else {
        "other"
    }
}

/// Drives the real iterator to exhaustion (or panic) and prints what it yielded.
fn run_iter(doc: Arc<Document>, groups: Vec<Vec<u32>>, out: &mut String) {
    // yields are collected outside the closure so that the prefix before a panic is kept
    let yielded = std::cell::RefCell::new(Vec::<(u32, u32)>::new());
    let res = catch(|| {
        let mut lazy = LazyPageTextVec::new(doc, false);
        let it = lazy.optimized_iter(groups);
        for (pn, txt) in it {
            yielded.borrow_mut().push((pn, page_no_of_text(txt.as_str())));
        }
    });
    for (pn, k) in yielded.borrow().iter() {
        writeln!(out, "impl y {} {}", pn, k).unwrap();
    }
    match res {
        Ok(()) => writeln!(out, "impl end none").unwrap(),
        Err(m) => writeln!(out, "impl end {}", classify_panic(&m)).unwrap(),
    }
}

fn groups_str(gs: &[Vec<u32>]) -> String {
    gs.iter()
        .map(|g| g.iter().map(|p| p.to_string()).collect::<Vec<_>>().join(","))
        .collect::<Vec<_>>()
        .join(";")
}

pub fn run_case(id: &str, kind: &str, n: u32, groups: &[Vec<u32>], docs: &mut Docs, out: &mut String) {
    writeln!(out, "case {} pages kind={} n={}", id, kind, n).unwrap();
    writeln!(out, "in n {}", n).unwrap();
    for g in groups {
        let toks: Vec<String> = g.iter().map(|p| p.to_string()).collect();
        writeln!(out, "in g {}", toks.join(" ")).unwrap();
    }
    let doc = docs.get(n);
    if kind == "raw" {
        run_iter(doc, groups.to_vec(), out);
    } else {
        let hints: Vec<Vec<u32>> = groups.to_vec();
        match catch(|| LazyPageTextVec::safe_page_chunks_with_remainder_pn(n, &hints)) {
            Ok(chunks) => {
                for c in &chunks {
                    let toks: Vec<String> = c.iter().map(|p| p.to_string()).collect();
                    writeln!(out, "impl chunk {}", toks.join(" ")).unwrap();
                }
                // never hand page 0 to the real iterator (u32 underflow -> 32 GiB resize)
                if chunks.iter().all(|c| c.iter().all(|p| *p >= 1 && *p <= n)) {
                    run_iter(doc, chunks, out);
                } else {
                    writeln!(out, "impl end skipped").unwrap();
                }
            }
            Err(m) => writeln!(out, "impl end chunkpanic:{}", classify_panic(&m)).unwrap(),
        }
    }
    writeln!(
        out,
        "repro pages kind={} num_pages={} groups=[{}]",
        kind,
        n,
        groups_str(groups)
    )
    .unwrap();
    writeln!(out, "end").unwrap();
}

fn gen_group(r: &mut Rng, maxp: u64, in_range_n: Option<u32>) -> Vec<u32> {
    let len = match r.below(10) {
        0 => 0,
        1..=3 => 1,
        4..=6 => 2,
        7..=8 => 3,
        _ => 4,
    };
    let mut g = Vec::new();
    for _ in 0..len {
        let p = match in_range_n {
            Some(n) => 1 + r.below(n as u64) as u32,
            None => r.below(maxp + 1) as u32,
        };
        g.push(p);
    }
    if r.chance(40) {
        g.sort();
    }
    if r.chance(30) {
        g.dedup();
    }
    g
}

/// All lists of at most `maxlen` pages over 0..=maxp.
fn all_groups(maxp: u32, maxlen: usize) -> Vec<Vec<u32>> {
    let mut res: Vec<Vec<u32>> = vec![vec![]];
    let mut frontier: Vec<Vec<u32>> = vec![vec![]];
    for _ in 0..maxlen {
        let mut next = Vec::new();
        for g in &frontier {
            for p in 0..=maxp {
                let mut h = g.clone();
                h.push(p);
                next.push(h);
            }
        }
        res.extend(next.iter().cloned());
        frontier = next;
    }
    res
}

pub fn run_family(seed: u64, count: u64, exh: u32, w: &mut dyn std::io::Write) {
    let mut docs = Docs::new();
    let mut idx = 0u64;
    let mut emit = |kind: &str, n: u32, groups: &[Vec<u32>], docs: &mut Docs, w: &mut dyn std::io::Write| {
        let mut s = String::new();
        run_case(&format!("P{}-{}", seed, idx), kind, n, groups, docs, &mut s);
        idx += 1;
        w.write_all(s.as_bytes()).unwrap();
    };
    // 1. the CLI's hints for every page count 0..=12 and a few larger ones
    let cli: Vec<Vec<u32>> = CLI_HINTS.iter().map(|g| g.to_vec()).collect();
    for n in (0..=12).chain([20u32, 33].into_iter()) {
        emit("cli", n, &cli, &mut docs, w);
    }
    // 2. exhaustive small scope: n <= exh, at most two hint groups of at most two pages over 0..=exh+1
    let gs = all_groups(exh + 1, 2);
    for n in 0..=exh {
        emit("chunks", n, &[], &mut docs, w);
        for a in &gs {
            emit("chunks", n, &[a.clone()], &mut docs, w);
            for b in &gs {
                emit("chunks", n, &[a.clone(), b.clone()], &mut docs, w);
            }
        }
    }
    //    and the iterator alone on every sequence of at most two non-empty groups of at most
    //    three in-range pages (any order, duplicates allowed)
    for n in 1..=exh.min(3) {
        let ing: Vec<Vec<u32>> = all_groups(n, 3)
            .into_iter()
            .filter(|g| !g.is_empty() && g.iter().all(|p| *p >= 1))
            .collect();
        for a in &ing {
            emit("raw", n, &[a.clone()], &mut docs, w);
            for b in &ing {
                emit("raw", n, &[a.clone(), b.clone()], &mut docs, w);
            }
        }
    }
    // 3. random: n <= 12, up to 4 groups over pages 0..=14, any order
    let mut r = Rng::new(seed);
    for _ in 0..count {
        let mut cr = r.fork();
        let n = cr.below(13) as u32;
        if cr.chance(70) || n == 0 {
            let ng = cr.below(5) as usize;
            let groups: Vec<Vec<u32>> = (0..ng).map(|_| gen_group(&mut cr, 14, None)).collect();
            emit("chunks", n, &groups, &mut docs, w);
        } else {
            let ng = 1 + cr.below(4) as usize;
            let groups: Vec<Vec<u32>> = (0..ng)
                .map(|_| gen_group(&mut cr, 14, Some(n)))
                .filter(|g| !g.is_empty())
                .collect();
            emit("raw", n, &groups, &mut docs, w);
        }
    }
}

/// Replay: reads `case`/`in` lines and re-runs the implementation.
pub fn replay(lines: &[String], docs: &mut Docs, out: &mut String) -> bool {
    let head: Vec<&str> = lines[0].split_whitespace().collect();
    if head.len() < 3 || head[2] != "pages" {
        return false;
    }
    let id = head[1];
    let kind = head.iter().find_map(|t| t.strip_prefix("kind=")).unwrap_or("chunks");
    let mut n = 0u32;
    let mut groups: Vec<Vec<u32>> = Vec::new();
    for l in &lines[1..] {
        let t: Vec<&str> = l.split_whitespace().collect();
        if t.len() >= 3 && t[0] == "in" && t[1] == "n" {
            n = t[2].parse().unwrap_or(0);
        } else if t.len() >= 2 && t[0] == "in" && t[1] == "g" {
            groups.push(t[2..].iter().filter_map(|x| x.parse().ok()).collect());
        }
    }
    run_case(id, kind, n, &groups, docs, out);
    true
}
