//! Family `etrade` (C19): generated E*TRADE confirmations (.txt, derived from the recorded text
//! layouts in tests/data/etrade_scenarios and the ESO sample of etrade.rs' unit tests) through the
//! real `etrade_plan_pdf_tx_extract_impl::run_with_args`, the entry point of the integration test.
//!
//!   case <id> etrade scen=<tags>
//!   in b <sec> <acq jd> <acqSettle jd> <fmv> <shares> <stcTx|-> <stcSettle|-> <stcPrice|-> <stcShares|-> <stcFee|-> <tag>
//!   in t <sec> <trade jd> <settle jd> buy|sell <price> <shares> <commission+fee> <file> <row>
//!        (the generator's intended records, in the order the tool reads them: files sorted by name)
//!   impl pb … / impl pt …      what parse_pdf_text made of the generated texts (same formats)
//!   impl perr <file>           parse_pdf_text failed on a generated file
//!   impl out ok|err|panic
//!   impl nerr <n>              number of "Error:" lines on stderr
//!   impl row <sec> <trade jd> <settle jd> buy|sell <shares> <price> <commission> buy|stc|manual
//!   impl acb <n accepted by parse_tx_csv + Tx::try_from> <n rows>
//!   repro <file names and texts>
//!   end
use std::fmt::Write as _;
use std::path::PathBuf;

use acb::peripheral::broker::etrade::{parse_pdf_text, EtradePdfContent};
use acb::peripheral::etrade_plan_pdf_tx_extract_impl::{run_with_args, Args};
use acb::portfolio::io::tx_csv::{parse_tx_csv, TxCsvParseOptions};
use acb::portfolio::{Tx, TxAction};
use acb::util::rw::{DescribedReader, WriteHandle};
use rust_decimal::Decimal;
use time::{Date, Duration, Month};

use crate::common::{catch, oneline};
use crate::rng::Rng;

macro_rules! sample {
    ($p:expr) => {
        include_str!(concat!(env!("CARGO_MANIFEST_DIR"), "/../repo_link/tests/data/etrade_scenarios/", $p))
    };
}

const RSU_TEMPLATES: &[&str] = &[
    sample!("2024_with_manual_sells/pypdf/rsu_1.txt"),
    sample!("2024_with_manual_sells/dfltpdf/rsu_1.txt"),
    sample!("2022_sample/lopdf/rsu.txt"),
    sample!("2022_sample/pypdf/rsu.txt"),
];
const ESPP_TEMPLATES: &[&str] = &[sample!("2022_sample/lopdf/espp.txt"), sample!("2022_sample/pypdf/espp.txt")];
const PRE_TEMPLATES: &[(&str, bool)] = &[
    (sample!("2022_sample/lopdf/trade_conf_2.txt"), false),
    (sample!("2022_sample/pypdf/trade_conf_2.txt"), true),
];
const POST_TEMPLATES: &[&str] = &[
    sample!("2024_with_manual_sells/pypdf/trade_conf_1.txt"),
    sample!("2024_with_manual_sells/dfltpdf/trade_conf_4_1.txt"),
];
/// layout of the option-exercise confirmation (from SAMPLE_ESO in broker/etrade.rs' unit tests)
const ESO_HEAD: &str = "
        Account Number 11223344
        Tax Payment Method Sell-to-cover
        Company Name (Symbol) Foo Inc.
        (FOO)

        Exercise Type: Same-Day Sale Registration

        Shares Sold @SOLD@

        Exercise Details
";
const ESO_TAIL: &str = "
        Exercise Date:  @DATE@

        Provided by Foo Inc.
        John Doe
        Employee ID: 1111
        STOCK PLAN EXERCISE CONFIRMATION
        ";

#[derive(Clone, Debug)]
pub struct GBenefit {
    pub sec: String,
    pub acq: Date,
    pub fmv: Decimal,
    pub shares: Decimal,
    pub stc_tx: Option<Date>,
    pub stc_price: Option<Decimal>,
    pub stc_shares: Option<Decimal>,
    pub stc_fee: Option<Decimal>,
    pub tag: u32,
}

#[derive(Clone, Debug)]
pub struct GTrade {
    pub sec: String,
    pub trade: Date,
    pub settle: Date,
    pub sell: bool,
    pub price: Decimal,
    pub shares: u32,
    pub commission: Option<Decimal>,
    pub fee: Option<Decimal>,
}

pub struct GFile {
    pub name: String,
    pub text: String,
    pub benefits: Vec<GBenefit>,
    pub trades: Vec<GTrade>,
}

pub struct Case {
    pub files: Vec<GFile>, // in generation order (shuffled relative to the names)
    pub scen: String,
}

fn dash_date(d: Date) -> String {
    format!("{:02}-{:02}-{:04}", d.month() as u8, d.day(), d.year())
}
fn slash_date(d: Date) -> String {
    format!("{:02}/{:02}/{:04}", d.month() as u8, d.day(), d.year())
}
fn short_date(d: Date) -> String {
    format!("{:02}/{:02}/{:02}", d.month() as u8, d.day(), d.year() % 100)
}

/// Replaces the maximal run of characters from `charset` that follows the first occurrence of
/// `key` which is followed (after blanks) by such a character.
fn set_after(text: &str, key: &str, charset: &str, new: &str) -> String {
    let mut from = 0;
    while let Some(i) = text[from..].find(key) {
        let start = from + i + key.len();
        let rest = &text[start..];
        let ws = rest.len() - rest.trim_start_matches(' ').len();
        let val = &rest[ws..];
        let n = val.chars().take_while(|c| charset.contains(*c)).count();
        if n > 0 {
            let mut s = String::new();
            s.push_str(&text[..start + ws]);
            s.push_str(new);
            s.push_str(&val[n..]);
            return s;
        }
        from = start;
    }
    panic!("etrade template: key {:?} not found", key);
}

const NUM: &str = "0123456789.,";
const DATE: &str = "0123456789-/";

/// the ticker in parentheses after the company name — which may itself contain a parenthesised word
fn ticker_paren(r: &mut Rng, sec: &str) -> String {
    if r.chance(15) {
        format!("(CANADA), LTD.({})", sec)
    } else {
        format!("({})", sec)
    }
}

fn rsu_text(r: &mut Rng, b: &GBenefit, award: u32) -> String {
    let t = *r.pick(RSU_TEMPLATES);
    let mut s = t.replace("(FOO)", &ticker_paren(r, &b.sec));
    s = set_after(&s, "Award Number R", NUM, &award.to_string());
    s = set_after(&s, "Release Date ", DATE, &dash_date(b.acq));
    s = set_after(&s, "Shares Released ", NUM, &format!("{:.4}", b.shares));
    s = set_after(&s, "Market Value Per Share $", NUM, &format!("{:.6}", b.fmv));
    s = set_after(&s, "Sale Price Per Share $", NUM, &format!("{:.6}", b.stc_price.unwrap()));
    s = set_after(&s, "Shares Sold (", NUM, &format!("{:.4}", b.stc_shares.unwrap()));
    s = set_after(&s, "\nFee ($", NUM, &format!("{:.2}", b.stc_fee.unwrap()));
    s
}

fn espp_text(r: &mut Rng, b: &GBenefit) -> String {
    let t = *r.pick(ESPP_TEMPLATES);
    let mut s = t.replace("(FOO)", &ticker_paren(r, &b.sec));
    s = set_after(&s, "\nPurchase Date ", DATE, &dash_date(b.acq));
    s = set_after(&s, "\nShares Purchased ", NUM, &format!("{:.4}", b.shares));
    s = set_after(&s, "Purchase Value per Share $", NUM, &format!("{:.6}", b.fmv));
    match b.stc_shares {
        Some(sold) => {
            s = set_after(&s, "Shares Sold to Cover Taxes ", NUM, &format!("{:.4}", sold));
            s = set_after(&s, "Sale Price for Shares Sold to Cover Taxes $", NUM, &format!("{:.6}", b.stc_price.unwrap()));
            s = set_after(&s, "Fees ($", NUM, &format!("{:.2}", b.stc_fee.unwrap()));
        }
        None => {
            // the no-sale form of the unit test: the sale lines are absent
            s = s
                .lines()
                .filter(|l| {
                    !(l.contains("Sold to Cover Taxes")
                        || l.contains("Fees (")
                        || l.contains("Total Taxes Collected")
                        || l.contains("Value Of Shares Sold")
                        || l.contains("Amount in Excess"))
                })
                .collect::<Vec<_>>()
                .join("\n");
        }
    }
    s
}

struct EsoGrant {
    number: u32,
    fmv: Decimal,
    shares: u32,
    fee: Decimal,
}

/// a price as printed: thousands separators in the integer part, decimals as they are
fn price_commas(d: Decimal) -> String {
    let s = d.to_string();
    let (i, f) = match s.split_once('.') {
        Some((i, f)) => (i.to_string(), format!(".{}", f)),
        None => (s.clone(), ".00".to_string()),
    };
    let mut out = String::new();
    for (k, c) in i.chars().enumerate() {
        if k > 0 && (i.len() - k) % 3 == 0 {
            out.push(',');
        }
        out.push(c);
    }
    format!("{}{}", out, f)
}

fn money_commas(d: Decimal) -> String {
    let s = format!("{:.2}", d);
    let (i, f) = s.split_once('.').unwrap();
    let mut out = String::new();
    for (k, c) in i.chars().enumerate() {
        if k > 0 && (i.len() - k) % 3 == 0 {
            out.push(',');
        }
        out.push(c);
    }
    format!("{}.{}", out, f)
}

fn eso_text(sec: &str, date: Date, sold: u32, sale_price: Decimal, grants: &[EsoGrant]) -> String {
    let mut s = ESO_HEAD.replace("(FOO)", &format!("({})", sec)).replace("@SOLD@", &money_commas(Decimal::from(sold)).replace(".00", ""));
    for (i, g) in grants.iter().enumerate() {
        write!(
            s,
            "\n        Grant {}\n        Grant Number {}\n        Exercise Market Value ${}\n        Shares Exercised {}\n        Sale Price ${}\n        Comission/Fee ${:.2}\n",
            i + 1,
            g.number,
            money_commas(g.fmv),
            g.shares,
            money_commas(sale_price),
            g.fee
        )
        .unwrap();
    }
    s.push_str(&ESO_TAIL.replace("@DATE@", &slash_date(date)));
    s
}

fn pre_trade_text(r: &mut Rng, trades: &[GTrade]) -> String {
    let (t, merged) = *r.pick(PRE_TEMPLATES);
    let head_end = t.find("TYPE\n").expect("pre-2023 template: no TYPE line") + 5;
    let tail_start = t.find("237 ").expect("pre-2023 template: no footer");
    let mut s = t[..head_end].to_string();
    for g in trades {
        let principal = g.price * Decimal::from(g.shares);
        writeln!(
            s,
            "{} {} {} {} {} {} ${} Stock Plan PRINCIPAL ${}",
            short_date(g.trade),
            short_date(g.settle),
            if merged { "61".to_string() } else { "6 1".to_string() },
            g.sec,
            if g.sell { "SELL" } else { "BUY" },
            g.shares,
            if g.price >= Decimal::new(1000, 0) { price_commas(g.price) } else { g.price.to_string() },
            money_commas(principal)
        )
        .unwrap();
        let co = if merged { "SYSTEMS INCCOM" } else { "SYSTEMS INC COM" };
        match (g.commission, g.fee) {
            (Some(c), Some(f)) => {
                writeln!(s, "{} {} COMMISSION ${:.2}\nFEE ${:.2}", g.sec, co, c, f).unwrap();
            }
            (Some(c), None) => writeln!(s, "{} {} COMMISSION ${:.2}", g.sec, co, c).unwrap(),
            (None, Some(f)) => writeln!(s, "{} {} FEE ${:.2}", g.sec, co, f).unwrap(),
            (None, None) => writeln!(s, "{} {}", g.sec, co).unwrap(),
        }
        writeln!(s, "NET AMOUNT ${}", money_commas(principal)).unwrap();
        if !merged {
            s.push('\n');
        }
    }
    s.push('\n');
    s.push_str(&t[tail_start..]);
    s
}

fn post_trade_text(r: &mut Rng, g: &GTrade) -> String {
    let t = *r.pick(POST_TEMPLATES);
    let key = "Settlement Amount\n";
    let i = t.find(key).expect("post-2023 template: header") + key.len();
    let j = i + t[i..].find('\n').unwrap();
    let price_txt = if g.price >= Decimal::new(1000, 0) { price_commas(g.price) } else { g.price.to_string() };
    let mut s = format!("{}{} {} {} {}{}", &t[..i], slash_date(g.trade), slash_date(g.settle), g.shares, price_txt, &t[j..]);
    s = s.replace("Transaction Type: Sold", if g.sell { "Transaction Type: Sold" } else { "Transaction Type: Bought" });
    s = s.replace("ISIN: FOO /", &format!("ISIN: {} /", g.sec));
    match g.commission {
        Some(c) => s = set_after(&s, "\nCommission $", NUM, &format!("{:.2}", c)),
        None => s = s.lines().filter(|l| !l.starts_with("Commission $")).collect::<Vec<_>>().join("\n"),
    }
    match g.fee {
        Some(f) => s = set_after(&s, "Transaction Fee $", NUM, &format!("{:.2}", f)),
        None => s = s.lines().filter(|l| !l.starts_with("Transaction Fee $") && *l != "Supplemental").collect::<Vec<_>>().join("\n"),
    }
    s
}

fn gen_price(r: &mut Rng, around: i64) -> Decimal {
    let cents = (around * 100 + r.range(-300, 300)).max(1);
    match r.below(4) {
        0 => Decimal::new(cents * 100 + r.range(0, 99), 4),
        _ => Decimal::new(cents, 2),
    }
}

fn split_shares(r: &mut Rng, total: u32) -> Vec<u32> {
    let parts = match r.below(10) {
        0..=4 => 1,
        5..=6 => 2,
        7 => 3,
        8 => 4,
        _ => 5,
    };
    let parts = parts.min(total);
    let mut left = total;
    let mut v = Vec::new();
    for k in 0..parts {
        let remaining_parts = parts - k;
        if remaining_parts == 1 {
            v.push(left);
        } else {
            let maxp = left - (remaining_parts - 1);
            let p = 1 + r.below(maxp as u64) as u32;
            v.push(p);
            left -= p;
        }
    }
    v
}

pub fn gen_case(r: &mut Rng) -> Case {
    let mut scen: Vec<String> = Vec::new();
    let year = 2021 + r.below(5) as i32;
    let base = Date::from_calendar_date(year, Month::February, 1).unwrap() + Duration::days(r.below(280) as i64);
    let secs = ["FOO", "BAR"];
    let two_secs = r.chance(20);
    let nb = 1 + r.below(3) as usize;
    let close = r.chance(60);
    let pre_layout = r.chance(45);
    scen.push(if pre_layout { "pre".into() } else { "post".into() });

    let mut benefit_files: Vec<GFile> = Vec::new();
    let mut trades: Vec<GTrade> = Vec::new();
    let mut day = 0i64;
    let mut last_sold: Option<u32> = None;
    let mut kinds: Vec<&str> = Vec::new();
    for bi in 0..nb {
        let sec = if two_secs && r.chance(40) { secs[1] } else { secs[0] }.to_string();
        let acq = base + Duration::days(day);
        day += if close { r.range(0, 4) } else { r.range(7, 40) };
        // now and then a four-figure share price, printed with a thousands separator as the
        // confirmations do for every other amount
        let px = if r.chance(12) { r.range(1000, 4000) } else { r.range(20, 400) };
        let kind = match r.below(10) {
            0..=5 => "rsu",
            6..=7 => "espp",
            8 => "esppnosale",
            _ => "eso",
        };
        kinds.push(kind);
        let shares = 10 + r.below(200) as u32;
        let mut sold = 1 + r.below((shares.min(60)) as u64) as u32;
        if let Some(ls) = last_sold {
            if r.chance(35) {
                sold = ls.min(shares); // equal share counts across benefits
            }
        }
        let stc_price = gen_price(r, px);
        let fee = Decimal::new(r.range(0, 2500), 2);
        let fmv = gen_price(r, px);
        let name_key = r.below(1000);
        match kind {
            "rsu" | "espp" => {
                let b = GBenefit {
                    sec: sec.clone(),
                    acq,
                    fmv,
                    shares: Decimal::from(shares),
                    stc_tx: None,
                    stc_price: Some(stc_price),
                    stc_shares: Some(Decimal::from(sold)),
                    stc_fee: Some(fee),
                    tag: bi as u32,
                };
                let award = 10000 + r.below(90000) as u32;
                let text = if kind == "rsu" { rsu_text(r, &b, award) } else { espp_text(r, &b) };
                benefit_files.push(GFile { name: format!("{:03}_{}_{}.txt", name_key, kind, bi), text, benefits: vec![b], trades: vec![] });
                last_sold = Some(sold);
            }
            "esppnosale" => {
                let b = GBenefit {
                    sec: sec.clone(),
                    acq,
                    fmv,
                    shares: Decimal::from(shares),
                    stc_tx: None,
                    stc_price: None,
                    stc_shares: None,
                    stc_fee: None,
                    tag: bi as u32,
                };
                let text = espp_text(r, &b);
                benefit_files.push(GFile { name: format!("{:03}_espp_{}.txt", name_key, bi), text, benefits: vec![b], trades: vec![] });
                continue;
            }
            _ => {
                // option exercise: 1-2 grants, same-day sale of `sold` shares in total
                let ng = 1 + r.below(2) as usize;
                let mut grants = Vec::new();
                let mut fee_sum = Decimal::ZERO;
                for _ in 0..ng {
                    let g = EsoGrant { number: 1000 + r.below(9000) as u32, fmv: gen_price(r, px).round_dp(2), shares: 10 + r.below(100) as u32, fee: Decimal::new(r.range(0, 1500), 2) };
                    fee_sum += g.fee;
                    grants.push(g);
                }
                let sale = Decimal::new((px * 100 + r.range(-300, 300)).max(1), 2);
                let mut bs = Vec::new();
                for (gi, g) in grants.iter().enumerate() {
                    let last = gi == ng - 1;
                    bs.push(GBenefit {
                        sec: sec.clone(),
                        acq,
                        fmv: g.fmv,
                        shares: Decimal::from(g.shares),
                        stc_tx: if last { Some(acq) } else { None },
                        stc_price: if last { Some(sale) } else { None },
                        stc_shares: if last { Some(Decimal::from(sold)) } else { None },
                        stc_fee: if last { Some(fee_sum) } else { None },
                        tag: (bi * 10 + gi) as u32,
                    });
                }
                let text = eso_text(&sec, acq, sold, sale, &grants);
                benefit_files.push(GFile { name: format!("{:03}_eso_{}.txt", name_key, bi), text, benefits: bs, trades: vec![] });
                last_sold = Some(sold);
            }
        }
        // the trades of this sell-to-cover
        let b_price = benefit_files.last().unwrap().benefits.last().unwrap().stc_price.unwrap();
        let fault = r.below(100);
        let off = if kind == "eso" { 0 } else { *r.pick(&[0i64, 1, 1, 1, 2, 2, 3, 5]) };
        let mut parts = split_shares(r, sold);
        if fault < 4 {
            scen.push("late".into()); // one day too late
        } else if fault < 7 {
            scen.push("early".into());
        } else if fault < 10 {
            scen.push("missing".into());
            parts.pop();
        } else if fault < 13 {
            scen.push("short".into()); // share counts do not add up
            parts[0] += 1;
        } else if fault < 19 && sold >= 2 {
            // the counts add up only together with a sale of ANOTHER security in the window
            scen.push("crosssec".into());
            if parts.len() < 2 {
                let k = 1 + r.below(sold as u64 - 1) as u32;
                parts = vec![k, sold - k];
            }
        }
        let cross = fault >= 13 && fault < 19 && sold >= 2;
        // a sell-to-cover filled in lots, two of them with the same figures (10 + 10 + 5)
        let twin_parts = fault >= 19 && fault < 29 && sold >= 3;
        if twin_parts {
            let k = 1 + r.below((sold as u64 - 1) / 2) as u32;
            parts = if sold == 2 * k { vec![k, k] } else { vec![k, k, sold - 2 * k] };
            scen.push("twinparts".into());
        }
        let mut first_part: Option<(i64, Decimal, Option<Decimal>, Option<Decimal>)> = None;
        let np = parts.len();
        for (pi, p) in parts.iter().enumerate() {
            let mut t_off = off;
            if fault < 4 {
                t_off = 6;
            } else if fault < 7 {
                t_off = -1;
            } else if r.chance(10) && np > 1 {
                t_off = (off + pi as i64).min(5); // varying dates inside the window
            }
            let td = acq + Duration::days(t_off);
            // part prices around the benefit's sale price
            let price = (b_price + Decimal::new(r.range(-150, 150), 2)).max(Decimal::new(1, 2));
            let commission = if r.chance(80) { Some(Decimal::new(r.range(0, 2500), 2)) } else { None };
            // the recorded pre-2023 layout always prints a FEE (or COMMISSION) on the description line
            let fee = if r.chance(80) || (pre_layout && commission.is_none()) { Some(Decimal::new(r.range(1, 60), 2)) } else { None };
            let (t_off, td, price, commission, fee) = match (&first_part, twin_parts && pi == 1) {
                (Some(f), true) => (f.0, acq + Duration::days(f.0), f.1, f.2, f.3),
                _ => (t_off, td, price, commission, fee),
            };
            let _ = t_off;
            if pi == 0 {
                first_part = Some((t_off, price, commission, fee));
            }
            let tsec = if cross && pi == np - 1 { if sec == secs[0] { secs[1].to_string() } else { secs[0].to_string() } } else { sec.clone() };
            trades.push(GTrade { sec: tsec, trade: td, settle: td + Duration::days(2), sell: true, price, shares: *p, commission, fee });
        }
        // distractors: manual sales that compete with this sell-to-cover
        if r.chance(45) {
            let n = 1 + r.below(2);
            for _ in 0..n {
                let shares = match r.below(4) {
                    0 => sold,                             // same count as the whole sale
                    1 => parts.first().copied().unwrap_or(1),   // same count as one part
                    _ => 1 + r.below(60) as u32,
                };
                let far = r.chance(70);
                let price = if far { b_price + Decimal::new(r.range(2000, 6000), 2) } else { b_price + Decimal::new(r.range(-150, 150), 2) };
                let td = acq + Duration::days(r.range(-3, 8));
                trades.push(GTrade {
                    sec: if two_secs && r.chance(30) { secs[1].to_string() } else { sec.clone() },
                    trade: td,
                    settle: td + Duration::days(r.range(1, 3)),
                    sell: !r.chance(12),
                    price: price.max(Decimal::new(1, 2)),
                    shares,
                    commission: Some(Decimal::new(r.range(0, 999), 2)),
                    fee: if r.chance(50) { Some(Decimal::new(r.range(1, 60), 2)) } else { None },
                });
            }
            scen.push("distract".into());
        }
    }
    // unrelated manual trades far away
    for _ in 0..r.below(3) {
        let td = base + Duration::days(r.range(-60, 120));
        trades.push(GTrade {
            sec: secs[0].to_string(),
            trade: td,
            settle: td + Duration::days(2),
            sell: !r.chance(25),
            price: gen_price(r, 150),
            shares: 1 + r.below(40) as u32,
            commission: Some(Decimal::new(r.range(0, 999), 2)),
            fee: Some(Decimal::new(r.range(1, 60), 2)),
        });
    }
    // an order filled in two equal lots: two manual trades with the same figures are two trades
    if r.chance(10) {
        let td = base + Duration::days(r.range(-60, 120));
        let t = GTrade {
            sec: secs[0].to_string(),
            trade: td,
            settle: td + Duration::days(2),
            sell: !r.chance(25),
            price: gen_price(r, 150),
            shares: 1 + r.below(40) as u32,
            commission: Some(Decimal::new(r.range(0, 999), 2)),
            fee: Some(Decimal::new(r.range(1, 60), 2)),
        };
        trades.push(t.clone());
        trades.push(t);
        scen.push("twinlots".into());
    }
    scen.push(format!("k={}", kinds.join("+")));

    // ---- trade confirmation files
    let mut files = benefit_files;
    // random order of the trades, then grouped into files
    for i in (1..trades.len()).rev() {
        let j = r.below(i as u64 + 1) as usize;
        trades.swap(i, j);
    }
    if pre_layout {
        // same trade date => same confirmation (as E*TRADE does); rows in the order generated
        let mut groups: Vec<Vec<GTrade>> = Vec::new();
        for t in trades {
            match groups.iter_mut().find(|g| g[0].trade == t.trade && r.chance(80)) {
                Some(g) => g.push(t),
                None => groups.push(vec![t]),
            }
        }
        for (gi, g) in groups.into_iter().enumerate() {
            let text = pre_trade_text(r, &g);
            let key = r.below(1000);
            files.push(GFile { name: format!("{:03}_trade_conf_{}.txt", key, gi), text, benefits: vec![], trades: g });
        }
    } else {
        for (ti, t) in trades.into_iter().enumerate() {
            let text = post_trade_text(r, &t);
            let key = r.below(1000);
            files.push(GFile { name: format!("{:03}_trade_conf_{}.txt", key, ti), text, benefits: vec![], trades: vec![t] });
        }
    }
    // two confirmations with the same file name in two directories (downloads kept per half-year)
    if r.chance(12) {
        let idx: Vec<usize> = files.iter().enumerate().filter(|(_, f)| !f.benefits.is_empty()).map(|(i, _)| i).collect();
        if idx.len() >= 2 {
            files[idx[0]].name = "p1/confirmation.txt".to_string();
            files[idx[1]].name = "p2/confirmation.txt".to_string();
            scen.push("samename".into());
        }
    }
    // shuffled order on the command line
    for i in (1..files.len()).rev() {
        let j = r.below(i as u64 + 1) as usize;
        files.swap(i, j);
    }
    Case { files, scen: scen.join(",") }
}

fn opt_jd(d: Option<Date>) -> String {
    d.map(|x| x.to_julian_day().to_string()).unwrap_or_else(|| "-".into())
}
fn opt_dec(d: Option<Decimal>) -> String {
    d.map(|x| x.to_string()).unwrap_or_else(|| "-".into())
}

struct SecIds(Vec<String>);
impl SecIds {
    fn id(&mut self, s: &str) -> usize {
        if let Some(i) = self.0.iter().position(|x| x == s) {
            i + 1
        } else {
            self.0.push(s.to_string());
            self.0.len()
        }
    }
}

pub fn run_case(id: &str, c: &Case, scratch_root: &std::path::Path, out: &mut String) {
    writeln!(out, "case {} etrade scen={}", id, c.scen).unwrap();
    let mut ids = SecIds(vec!["FOO".into(), "BAR".into()]);
    // the order in which the tool reads the files: sorted by path
    let mut order: Vec<usize> = (0..c.files.len()).collect();
    order.sort_by(|a, b| c.files[*a].name.cmp(&c.files[*b].name));
    for (rank, fi) in order.iter().enumerate() {
        let f = &c.files[*fi];
        for b in &f.benefits {
            writeln!(
                out,
                "in b {} {} {} {} {} {} {} {} {} {} {}",
                ids.id(&b.sec),
                b.acq.to_julian_day(),
                b.acq.to_julian_day(),
                b.fmv,
                b.shares,
                opt_jd(b.stc_tx),
                opt_jd(b.stc_tx),
                opt_dec(b.stc_price),
                opt_dec(b.stc_shares),
                opt_dec(b.stc_fee),
                b.tag
            )
            .unwrap();
        }
        for (row, t) in f.trades.iter().enumerate() {
            writeln!(
                out,
                "in t {} {} {} {} {} {} {} {} {}",
                ids.id(&t.sec),
                t.trade.to_julian_day(),
                t.settle.to_julian_day(),
                if t.sell { "sell" } else { "buy" },
                t.price,
                t.shares,
                t.commission.unwrap_or(Decimal::ZERO) + t.fee.unwrap_or(Decimal::ZERO),
                rank,
                row + 1
            )
            .unwrap();
        }
    }
    // ---- files on disk
    let dir = scratch_root.join(id);
    let _ = std::fs::remove_dir_all(&dir);
    std::fs::create_dir_all(&dir).expect("scratch dir");
    let mut paths: Vec<PathBuf> = Vec::new();
    for f in &c.files {
        let p = dir.join(&f.name);
        if let Some(parent) = p.parent() {
            let _ = std::fs::create_dir_all(parent);
        }
        std::fs::write(&p, &f.text).expect("write scratch file");
        paths.push(p);
    }
    // ---- what the text layer makes of the files (same order as the tool)
    for (rank, fi) in order.iter().enumerate() {
        let f = &c.files[*fi];
        let p = dir.join(&f.name);
        match catch(|| parse_pdf_text(&f.text, &p)) {
            Ok(Ok(EtradePdfContent::BenefitConfirmation(bs))) => {
                for (k, b) in bs.iter().enumerate() {
                    let tag = f.benefits.get(k).map(|x| x.tag).unwrap_or(999);
                    writeln!(
                        out,
                        "impl pb {} {} {} {} {} {} {} {} {} {} {}",
                        ids.id(&b.security),
                        b.acquire_tx_date.to_julian_day(),
                        b.acquire_settle_date.to_julian_day(),
                        b.acquire_share_price,
                        b.acquire_shares,
                        opt_jd(b.sell_to_cover_tx_date),
                        opt_jd(b.sell_to_cover_settle_date),
                        opt_dec(b.sell_to_cover_price),
                        opt_dec(b.sell_to_cover_shares),
                        opt_dec(b.sell_to_cover_fee),
                        tag
                    )
                    .unwrap();
                }
            }
            Ok(Ok(EtradePdfContent::TradeConfirmation(ts))) => {
                for t in &ts {
                    writeln!(
                        out,
                        "impl pt {} {} {} {} {} {} {} {} {}",
                        ids.id(&t.security),
                        t.trade_date.to_julian_day(),
                        t.settlement_date.to_julian_day(),
                        match t.action {
                            TxAction::Buy => "buy",
                            TxAction::Sell => "sell",
                            _ => "other",
                        },
                        t.amount_per_share,
                        t.num_shares,
                        t.commission,
                        rank,
                        t.row_num
                    )
                    .unwrap();
                }
            }
            _ => writeln!(out, "impl perr {}", rank).unwrap(),
        }
    }
    // ---- the tool
    let (out_w, out_b) = WriteHandle::string_buff_write_handle();
    let (err_w, err_b) = WriteHandle::string_buff_write_handle();
    let args = Args { files: paths.clone(), pretty: false, extract_only: false, debug: false };
    let res = catch(|| run_with_args(args, out_w, err_w));
    let csv = out_b.borrow_mut().export_string();
    let errtxt = err_b.borrow_mut().export_string();
    match res {
        Err(_) => writeln!(out, "impl out panic").unwrap(),
        Ok(Err(())) => {
            writeln!(out, "impl out err").unwrap();
            writeln!(out, "impl nerr {}", errtxt.lines().filter(|l| l.starts_with("Error:")).count()).unwrap();
        }
        Ok(Ok(())) => {
            writeln!(out, "impl out ok").unwrap();
            // the CSV through the real acb reader
            let mut rd = DescribedReader::from_string("etrade csv".to_string(), csv.clone());
            let mut ew = WriteHandle::empty_write_handle();
            match catch(|| parse_tx_csv(&mut rd, 0, &TxCsvParseOptions::default(), &mut ew)) {
                Ok(Ok(rows)) => {
                    let mut accepted = 0;
                    for row in &rows {
                        let memo = row.memo.clone().unwrap_or_default();
                        let kind = if memo.ends_with("(manual trade)") {
                            "manual"
                        } else if row.action == Some(TxAction::Buy) {
                            "buy"
                        } else {
                            "stc"
                        };
                        writeln!(
                            out,
                            "impl row {} {} {} {} {} {} {} {}",
                            ids.id(row.security.as_deref().unwrap_or("?")),
                            row.trade_date.map(|d| d.to_julian_day()).unwrap_or(0),
                            row.settlement_date.map(|d| d.to_julian_day()).unwrap_or(0),
                            match row.action {
                                Some(TxAction::Buy) => "buy",
                                Some(TxAction::Sell) => "sell",
                                _ => "other",
                            },
                            opt_dec(row.shares),
                            opt_dec(row.amount_per_share),
                            opt_dec(row.commission),
                            kind
                        )
                        .unwrap();
                        // acb fills in the Bank of Canada rate of the trade date for USD rows
                        // without a rate before it builds a Tx (C12); any positive rate stands in
                        let mut filled = row.clone();
                        if filled.tx_curr_to_local_exchange_rate.is_none() && filled.tx_currency.as_ref().map(|c| !c.is_default()).unwrap_or(false) {
                            filled.tx_curr_to_local_exchange_rate = Some(Decimal::new(125, 2));
                        }
                        if let Ok(Ok(_)) = catch(|| Tx::try_from(filled)) {
                            accepted += 1;
                        }
                    }
                    writeln!(out, "impl acb {} {}", accepted, rows.len()).unwrap();
                }
                _ => writeln!(out, "impl acb 0 -1").unwrap(),
            }
        }
    }
    let _ = std::fs::remove_dir_all(&dir);
    let mut rep = String::new();
    for f in &c.files {
        write!(rep, "==== {}\n{}\n", f.name, f.text).unwrap();
    }
    writeln!(out, "repro {}", oneline(&rep)).unwrap();
    writeln!(out, "end").unwrap();
}

/// The two recorded scenarios of the integration test, run through the same pipeline (no `in`
/// records: the driver takes the parsed records as input for these).
pub fn recorded() -> Vec<Case> {
    let mk = |files: Vec<(&str, &str)>, scen: &str| Case {
        files: files.into_iter().map(|(n, t)| GFile { name: n.to_string(), text: t.to_string(), benefits: vec![], trades: vec![] }).collect(),
        scen: scen.to_string(),
    };
    vec![
        mk(
            vec![
                ("espp.txt", sample!("2022_sample/lopdf/espp.txt")),
                ("rsu.txt", sample!("2022_sample/lopdf/rsu.txt")),
                ("trade_conf_1.txt", sample!("2022_sample/lopdf/trade_conf_1.txt")),
                ("trade_conf_2.txt", sample!("2022_sample/lopdf/trade_conf_2.txt")),
            ],
            "recorded2022",
        ),
        mk(
            vec![
                ("rsu_1.txt", sample!("2024_with_manual_sells/pypdf/rsu_1.txt")),
                ("rsu_2.txt", sample!("2024_with_manual_sells/pypdf/rsu_2.txt")),
                ("trade_conf_1.txt", sample!("2024_with_manual_sells/pypdf/trade_conf_1.txt")),
                ("trade_conf_2.txt", sample!("2024_with_manual_sells/pypdf/trade_conf_2.txt")),
                ("trade_conf_3.txt", sample!("2024_with_manual_sells/pypdf/trade_conf_3.txt")),
                ("trade_conf_4_1.txt", sample!("2024_with_manual_sells/pypdf/trade_conf_4_1.txt")),
                ("trade_conf_4_2.txt", sample!("2024_with_manual_sells/pypdf/trade_conf_4_2.txt")),
                ("trade_conf_5_1.txt", sample!("2024_with_manual_sells/pypdf/trade_conf_5_1.txt")),
                ("trade_conf_5_2.txt", sample!("2024_with_manual_sells/pypdf/trade_conf_5_2.txt")),
            ],
            "recorded2024",
        ),
    ]
}

pub fn scratch_root() -> PathBuf {
    std::env::temp_dir().join(format!("acb_verif_etrade_{}", std::process::id()))
}

/// F-05d probe (not part of any check): one RSU release and `n` sales inside its window; prints
/// the wall time of run_with_args.  The subset search is exponential in `n`.
pub fn blowup(n: u32) {
    let mut r = Rng::new(99);
    let acq = Date::from_calendar_date(2024, Month::March, 4).unwrap();
    let b = GBenefit { sec: "FOO".into(), acq, fmv: Decimal::new(10000, 2), shares: Decimal::from(5000), stc_tx: None,
        stc_price: Some(Decimal::new(10100, 2)), stc_shares: Some(Decimal::from(3)), stc_fee: Some(Decimal::new(100, 2)), tag: 0 };
    let root = scratch_root();
    let dir = root.join("blowup");
    std::fs::create_dir_all(&dir).unwrap();
    let mut paths = vec![dir.join("000_rsu.txt")];
    std::fs::write(&paths[0], rsu_text(&mut r, &b, 12345)).unwrap();
    for i in 0..n {
        let t = GTrade { sec: "FOO".into(), trade: acq + Duration::days(1), settle: acq + Duration::days(3), sell: true,
            price: Decimal::new(10100 + i as i64, 2), shares: if i < 2 { 1 + i } else { 7 + 2 * i }, commission: Some(Decimal::new(100, 2)), fee: None };
        let p = dir.join(format!("{:03}_trade.txt", i + 1));
        std::fs::write(&p, post_trade_text(&mut r, &t)).unwrap();
        paths.push(p);
    }
    let (out_w, _ob) = WriteHandle::string_buff_write_handle();
    let (err_w, _eb) = WriteHandle::string_buff_write_handle();
    let t0 = std::time::Instant::now();
    let res = run_with_args(Args { files: paths, pretty: false, extract_only: false, debug: false }, out_w, err_w);
    println!("n={} ok={} elapsed_ms={}", n, res.is_ok(), t0.elapsed().as_millis());
    let _ = std::fs::remove_dir_all(&root);
}
