//! Family `gains` (C06): generated portfolios through the real application twice — with
//! `--print-full-values` and with default options — both with `--total-costs`.  Observations: the
//! TxDeltas' capital gains (model input), the rendered rows' gains, every footer, the aggregate
//! table, and every dollar figure of every table as a (full, default) pair.
use acb::portfolio::render::RenderTable;
use acb::util::date::parse_standard_date;

use crate::appgen::*;
use crate::common::*;
use crate::rng::Rng;

pub struct GainsCase {
    pub csv: String,
}

pub fn gen_case(r: &mut Rng) -> GainsCase {
    let o = GenOpts { tie_pct: 5, oversell_pct: 3, ..GenOpts::default() };
    let mut rows = gen_rows(r, &o);
    // prices with three decimals now and then, so that products land exactly half-way between cents
    for row in rows.iter_mut() {
        if let Some(p) = row.price {
            if r.chance(25) {
                row.price = Some(p + rust_decimal::Decimal::new(5, 3));
            }
        }
    }
    // a security whose yearly gains cancel exactly (+100 one year, -100 a later year): its total is
    // zero although its years are not
    if r.chance(20) {
        let d0 = crate::appgen::START_JD + 50 + r.range(0, 300) as i32;
        let mk = |day: i32, action: &'static str, sh: i64, px: i64| crate::appgen::GenRow {
            sec: "CAN".to_string(),
            trade_jd: day,
            settle_jd: day,
            action,
            shares: Some(rust_decimal::Decimal::new(sh, 0)),
            price: Some(rust_decimal::Decimal::new(px, 0)),
            comm: Some(rust_decimal::Decimal::ZERO),
            cur: "CAD",
            rate: None,
            split: None,
            aff: String::new(),
        };
        rows.push(mk(d0, "Buy", 10, 20));
        rows.push(mk(d0 + 40, "Sell", 5, 40));
        rows.push(mk(d0 + 40 + 400, "Sell", 5, 0));
        rows.sort_by_key(|x| x.settle_jd);
    }
    // a loss of exactly half a cent (1 share bought at 1.005, sold at 1.000): shown as -$0.01
    if r.chance(15) {
        let d0 = crate::appgen::START_JD + 20 + r.range(0, 300) as i32;
        let mk = |day: i32, action: &'static str, px: i64| crate::appgen::GenRow {
            sec: "HLF".to_string(),
            trade_jd: day,
            settle_jd: day,
            action,
            shares: Some(rust_decimal::Decimal::ONE),
            price: Some(rust_decimal::Decimal::new(px, 3)),
            comm: Some(rust_decimal::Decimal::ZERO),
            cur: "CAD",
            rate: None,
            split: None,
            aff: String::new(),
        };
        rows.push(mk(d0, "Buy", 1005));
        rows.push(mk(d0 + 45, "Sell", 1000));
        rows.sort_by_key(|x| x.settle_jd);
    }
    GainsCase { csv: csv_text(&rows) }
}

fn is_num_char(c: char) -> bool {
    c.is_ascii_digit() || c == '.'
}

/// All currency figures of a cell, in order: `$x`, `-$x`, `+$x` and `(x CUR)`.
/// Returned as (signed decimal text, raw digits as printed).
pub fn money_tokens(cell: &str) -> Vec<(String, String)> {
    let cs: Vec<char> = cell.chars().collect();
    let mut out = Vec::new();
    let mut i = 0;
    while i < cs.len() {
        if cs[i] == '$' {
            let neg = i > 0 && cs[i - 1] == '-';
            let mut j = i + 1;
            while j < cs.len() && is_num_char(cs[j]) {
                j += 1;
            }
            let raw: String = cs[i + 1..j].iter().collect();
            if !raw.is_empty() {
                out.push((if neg { format!("-{}", raw) } else { raw.clone() }, raw));
            }
            i = j;
        } else if cs[i] == '(' {
            // (123.45 USD)
            let mut j = i + 1;
            while j < cs.len() && is_num_char(cs[j]) {
                j += 1;
            }
            let mut k = j;
            if k < cs.len() && cs[k] == ' ' && j > i + 1 {
                k += 1;
                let s = k;
                while k < cs.len() && cs[k].is_ascii_uppercase() {
                    k += 1;
                }
                if k > s && k < cs.len() && cs[k] == ')' {
                    let raw: String = cs[i + 1..j].iter().collect();
                    out.push((raw.clone(), raw));
                    i = k;
                    continue;
                }
            }
            i += 1;
        } else {
            i += 1;
        }
    }
    out
}

fn cell_pairs(name: &str, full: &RenderTable, def: &RenderTable, out: &mut String) {
    let mut fcells: Vec<&String> = Vec::new();
    let mut dcells: Vec<&String> = Vec::new();
    for r in &full.rows {
        fcells.extend(r.iter());
    }
    fcells.extend(full.footer.iter());
    for r in &def.rows {
        dcells.extend(r.iter());
    }
    dcells.extend(def.footer.iter());
    if fcells.len() != dcells.len() {
        out.push_str(&format!("cellmismatch {} cells {} {}\n", name, fcells.len(), dcells.len()));
        return;
    }
    for (f, d) in fcells.iter().zip(dcells.iter()) {
        let ft = money_tokens(f);
        let dt = money_tokens(d);
        if ft.len() != dt.len() {
            out.push_str(&format!("cellmismatch {} tokens {} {}\n", name, oneline(f).replace(' ', "_"), oneline(d).replace(' ', "_")));
            continue;
        }
        for (a, b) in ft.iter().zip(dt.iter()) {
            // full value, default value, default digits as printed
            out.push_str(&format!("cell {} {} {}\n", a.0, b.0, b.1));
        }
    }
}

fn first_money(cell: &str) -> String {
    money_tokens(cell).first().map(|t| t.0.clone()).unwrap_or_else(|| "-".to_string())
}

pub fn run_case(id: &str, c: &GainsCase, out: &mut String) {
    out.push_str(&format!("case {} gains\n", id));
    out.push_str(&format!("in {}\n", oneline(&c.csv)));
    let fin = |out: &mut String, res: &str| {
        out.push_str(&format!("impl result {}\nrepro {}\nend\n", res, oneline(&c.csv)));
    };
    let deltas = match run_deltas(&c.csv) {
        Ok(Ok(m)) => m,
        Ok(Err(e)) => return fin(out, &format!("err {}", oneline(&e))),
        Err(p) => return fin(out, &format!("panic {}", oneline(&p))),
    };
    let mut secs: Vec<String> = deltas.keys().cloned().collect();
    secs.sort();
    out.push_str(&format!("secs {}\n", secs.join(" ")));
    let mut boundary = 0;
    for (si, s) in secs.iter().enumerate() {
        let res = &deltas[s];
        out.push_str(&format!("gsec {} {}\n", si, if res.0.is_ok() { 1 } else { 0 }));
        for d in res.deltas_or_partial_deltas() {
            if d.capital_gain.is_some() && d.tx.trade_date.year() != d.tx.settlement_date.year() {
                boundary += 1;
            }
            out.push_str(&format!(
                "grow {} {} {} {}\n",
                si,
                jd(d.tx.settlement_date),
                d.tx.settlement_date.year(),
                opt_dec(d.capital_gain)
            ));
        }
    }
    out.push_str(&format!("boundary {}\n", boundary));
    let full = match run_render(&c.csv, true, true) {
        Ok(Ok(r)) => r,
        Ok(Err(e)) => return fin(out, &format!("err {}", oneline(&e))),
        Err(p) => return fin(out, &format!("panic {}", oneline(&p))),
    };
    let def = match run_render(&c.csv, false, true) {
        Ok(Ok(r)) => r,
        Ok(Err(e)) => return fin(out, &format!("err-default {}", oneline(&e))),
        Err(p) => return fin(out, &format!("panic {}", oneline(&p))),
    };
    let mut problems: Vec<String> = Vec::new();
    for (si, s) in secs.iter().enumerate() {
        let (tf, td) = match (full.security_tables.get(s), def.security_tables.get(s)) {
            (Some(a), Some(b)) => (a, b),
            _ => {
                problems.push(format!("no table for {}", s));
                continue;
            }
        };
        out.push_str(&format!("terr {} {}\n", si, tf.errors.len()));
        if tf.rows.len() != td.rows.len() {
            problems.push(format!("row counts differ for {}", s));
            continue;
        }
        for (rf, rd) in tf.rows.iter().zip(td.rows.iter()) {
            match parse_standard_date(&rf[2]) {
                Ok(d) => out.push_str(&format!("trow {} {} {} {}\n", si, jd(d), first_money(&rf[9]), first_money(&rd[9]))),
                Err(e) => problems.push(format!("date {}: {}", rf[2], e)),
            }
        }
        // footer: label cell 8, value cell 9, one line each
        let labels: Vec<&str> = tf.footer[8].split('\n').collect();
        let vf: Vec<&str> = tf.footer[9].split('\n').collect();
        let vd: Vec<&str> = td.footer[9].split('\n').collect();
        if labels.len() != vf.len() || labels.len() != vd.len() || td.footer[8] != tf.footer[8] {
            problems.push(format!("footer shape of {}", s));
            continue;
        }
        for i in 0..labels.len() {
            out.push_str(&format!(
                "tfoot {} {} {} {}\n",
                si,
                if labels[i] == "Total" { "total".to_string() } else { labels[i].to_string() },
                first_money(vf[i]),
                first_money(vd[i])
            ));
        }
        cell_pairs(s, tf, td, out);
    }
    let (af, ad) = (&full.aggregate_gains_table, &def.aggregate_gains_table);
    if af.rows.len() != ad.rows.len() {
        problems.push("aggregate row counts differ".to_string());
    } else {
        for (rf, rd) in af.rows.iter().zip(ad.rows.iter()) {
            let label = if rf[0] == "Since inception" { "total".to_string() } else { rf[0].clone() };
            if rf[0] != rd[0] {
                problems.push("aggregate labels differ".to_string());
            }
            out.push_str(&format!("agg {} {} {}\n", label, first_money(&rf[1]), first_money(&rd[1])));
        }
        cell_pairs("aggregate", af, ad, out);
    }
    if let (Some(cf), Some(cd)) = (&full.costs_tables, &def.costs_tables) {
        cell_pairs("total-costs", &cf.total, &cd.total, out);
        cell_pairs("yearly-costs", &cf.yearly, &cd.yearly, out);
    }
    if problems.is_empty() {
        out.push_str("impl result ok\n");
    } else {
        out.push_str(&format!("impl result unparsable {}\n", oneline(&problems.join("; "))));
    }
    out.push_str(&format!("repro {}\n", oneline(&c.csv)));
    out.push_str("end\n");
}

pub fn parse_case(lines: &[String]) -> Option<GainsCase> {
    for l in lines {
        if let Some(r) = l.strip_prefix("in ") {
            return Some(GainsCase { csv: unescape(r) });
        }
    }
    None
}
