//! Family `splitneutral` (C15): a history H and the history H' obtained by inserting an a-for-b
//! split (one row per affiliate, or one row for all affiliates) at some position and restating
//! every later share quantity (x a/b) and per-share amount (/ (a/b)); both through the real code.
use acb::portfolio::{Affiliate, SplitRatio, SplitTxSpecifics, Tx, TxActionSpecifics};
use acb::util::decimal::{GreaterEqualZeroDecimal, PosDecimal};
use rust_decimal::Decimal;

use crate::app;
use crate::common::*;
use crate::ledger;
use crate::rng::Rng;

fn pos(d: Decimal) -> PosDecimal {
    PosDecimal::try_from(d).unwrap()
}
fn gez(d: Decimal) -> GreaterEqualZeroDecimal {
    GreaterEqualZeroDecimal::try_from(d).unwrap()
}

/// restate one later row for a split with factor post/pre
fn restate(tx: &Tx, post: Decimal, pre: Decimal) -> Tx {
    let mut t = tx.clone();
    t.action_specifics = match &tx.action_specifics {
        TxActionSpecifics::Buy(b) => {
            let mut b = b.clone();
            b.shares = pos(*b.shares * post / pre);
            b.amount_per_share = gez(*b.amount_per_share * pre / post);
            TxActionSpecifics::Buy(b)
        }
        TxActionSpecifics::Sell(b) => {
            let mut b = b.clone();
            b.shares = pos(*b.shares * post / pre);
            b.amount_per_share = gez(*b.amount_per_share * pre / post);
            TxActionSpecifics::Sell(b)
        }
        TxActionSpecifics::Roc(x) => {
            let mut x = x.clone();
            x.amount_per_held_share = gez(*x.amount_per_held_share * pre / post);
            TxActionSpecifics::Roc(x)
        }
        TxActionSpecifics::Sfla(x) => {
            let mut x = x.clone();
            x.shares_affected = pos(*x.shares_affected * post / pre);
            x.amount_per_share = pos(*x.amount_per_share * pre / post);
            TxActionSpecifics::Sfla(x)
        }
        TxActionSpecifics::Split(x) => TxActionSpecifics::Split(x.clone()),
    };
    t
}

pub fn run_case(id: &str, r: &mut Rng, out: &mut String) {
    // base history: valid-ish single security, no whole-number-only reverse splits later on
    let mut names = vec!["Default".to_string()];
    let (mut rows, init) = app::gen_security(r, "S0", &mut names);
    for t in rows.iter_mut() {
        if let TxActionSpecifics::Split(s) = &mut t.action_specifics {
            s.ratio.reverse_integer_only = false;
        }
    }
    let inits: Vec<(String, Decimal, Decimal)> = init.into_iter().collect();
    // the inserted split: factors whose share scaling stays exact in decimals
    let forms: [(&str, &str); 8] = [("2", "1"), ("3", "1"), ("3", "2"), ("1.0", "2.0"), ("5", "2"), ("7", "2"), ("1.0", "4.0"), ("1.5", "1")];
    let (post_s, pre_s) = *r.pick(&forms);
    let (post, pre) = (dec(post_s), dec(pre_s));
    // insertion points whose day is not within a day of an existing split (acb rejects a split for
    // all affiliates next to an affiliate-specific one as a probable duplicate: finding F-04d)
    let day_of = |k: usize| if k == 0 { jd(rows[0].settlement_date) } else { jd(rows[k - 1].settlement_date) };
    let ok_k: Vec<usize> = (0..=rows.len())
        .filter(|k| {
            let d = day_of(*k);
            !rows.iter().any(|t| {
                matches!(t.action_specifics, TxActionSpecifics::Split(_))
                    && ((jd(t.trade_date) - d).abs() <= 2 || (jd(t.settlement_date) - d).abs() <= 2)
            })
        })
        .collect();
    if ok_k.is_empty() {
        return;
    }
    let k = *r.pick(&ok_k);
    let day = day_of(k);
    let global = r.chance(50);
    let mut affs: Vec<Affiliate> = Vec::new();
    for t in &rows {
        if !t.affiliate.is_global() && !affs.iter().any(|a| a.id() == t.affiliate.id()) {
            affs.push(t.affiliate.clone());
        }
    }
    if !inits.is_empty() && !affs.iter().any(|a| a.id() == Affiliate::default().id()) {
        affs.push(Affiliate::default());
    }
    let mk_split = |af: Affiliate| Tx {
        security: "S0".to_string(),
        trade_date: date_from_jd(day),
        settlement_date: date_from_jd(day),
        action_specifics: TxActionSpecifics::Split(SplitTxSpecifics {
            ratio: SplitRatio { pre_split: pos(pre), post_split: pos(post), reverse_integer_only: false },
        }),
        memo: String::new(),
        affiliate: af,
        read_index: 0,
    };
    let mut rows2: Vec<Tx> = rows[..k].to_vec();
    let n_split_rows;
    if global {
        rows2.push(mk_split(Affiliate::global()));
        n_split_rows = 1;
    } else {
        for a in &affs {
            rows2.push(mk_split(a.clone()));
        }
        n_split_rows = affs.len();
    }
    for t in &rows[k..] {
        rows2.push(restate(t, post, pre));
    }
    let case = app::AppCase { names: names.clone(), rows: rows.clone(), inits: inits.clone(), cuts: vec![] };
    let uni = app::universe(&case);
    let res_a = app::run_app(&rows, &[], &inits);
    let res_b = app::run_app(&rows2, &[], &inits);
    out.push_str(&format!(
        "case {} splitneutral k={} nsplit={} post={} pre={} global={} n={}\n",
        id, k, n_split_rows, post, pre, if global { 1 } else { 0 }, rows.len()
    ));
    // which input rows are at or after the insertion point (by read index in run A)
    app::emit_result(&uni, "implA", &res_a, out);
    app::emit_result(&uni, "implB", &res_b, out);
    let mut repro = format!("H' = H with a {}-for-{} split ({}) inserted before row {} and later rows restated\n", post_s, pre_s, if global { "all affiliates" } else { "one row per affiliate" }, k);
    for (s, sh, acb) in &inits {
        repro.push_str(&format!("-b {}:{}:{}\n", s, sh, acb));
    }
    repro.push_str("H:\n");
    repro.push_str(&app::txs_to_csv(&rows));
    repro.push_str("H':\n");
    repro.push_str(&app::txs_to_csv(&rows2));
    out.push_str(&format!("repro {}\n", oneline(&repro)));
    out.push_str("end\n");
    let _ = ledger::BASE_JD;
}
