//! Family `fmv` (C20): generated Questrade statement texts (documented allocation-table layout,
//! see the doc comment of parse_fmvs_from_page and the unit tests of
//! questrade_statement_fmv_impl.rs) through the real `parse_statement_text`.
//!
//!   case <id> fmv wf=0|1 scen=<scenario>
//!   in pg                         start of a page
//!   in l <tok> ...                one text line of the current page, tokenised (blank: `in l`)
//!   in t page <idx>               the generator's table (only when wf=1): page index,
//!   in t pre|header|mid|post <tok> ...   the lines of that page around the rows,
//!   in t row <own 0|1> <alloc> <fmv> <allocVal> <fmvVal>
//!   in t rl <tok> ...             description lines of the last `row` (first one follows the bullet)
//!   in t total <lead> <total> <totalVal>
//!   in t month <julian day>
//!   impl ok <julian day> <total> <rows>
//!   impl fmv <alloc> <fmv> <desc tok> ...
//!   impl err nosec|alloc|fmv|nototal|nomonth|nofmv|month|other
//!   impl panic
//!   repro <page texts, escaped>
//!   end
use std::fmt::Write as _;

use acb::peripheral::questrade_statement_fmv_impl::parse_statement_text;
use time::{Date, Month};

use crate::common::{catch, oneline};
use crate::rng::Rng;

const BULLET: &str = "■";

#[derive(Clone)]
pub struct Row {
    pub desc: Vec<Vec<String>>, // description lines (first follows the bullet), tokens
    pub alloc: String,
    pub fmv: String,
    pub own_line: bool,
}

#[derive(Clone)]
pub struct Table {
    pub pre: Vec<Vec<String>>,
    pub header: Vec<String>,
    pub mid: Vec<Vec<String>>,
    pub rows: Vec<Row>,
    pub total_lead: String,
    pub total: String,
    pub post: Vec<Vec<String>>,
}

pub struct Case {
    pub pages: Vec<String>,
    pub wf: bool,
    pub scen: String,
    pub table: Option<(usize, Table)>,
    pub month: Option<Date>,
}

fn toks(s: &str) -> Vec<String> {
    s.split_whitespace().map(|t| t.to_string()).collect()
}

const WORDS: &[&str] = &[
    "BLABLA", "ETF", "(BLABLA)", "SOME", "GIC", "ANOTHER", "VANGUARD", "S&P", "500", "INDEX", "UNITS", "CPD",
    "DUE", "INT", "1Y", "2Y", "5Y", "01/01/2024", "12/31/2025", "4.00%", "5.000%", "(XXXXXX)", "(YYYYYY)",
    "CL-A", "BOND", "GOVT", "CANADA", "TRUST", "SER.7", "99", "2030", "2.5", "7", "1,000", "US$", "NON-VTG",
    "100.0", "3.25", "A", "RBC", "HISA", "#2010", "0.5%", "10000",
];

fn num_like(t: &str) -> bool {
    let mut cs = t.chars();
    match cs.next() {
        Some(c) if c.is_ascii_digit() => cs.all(|c| c.is_ascii_digit() || c == ',' || c == '.'),
        _ => false,
    }
}

fn gen_desc_line(r: &mut Rng, len: usize) -> Vec<String> {
    (0..len).map(|_| r.pick(WORDS).to_string()).collect()
}

fn group_thousands(n: u64) -> String {
    let s = n.to_string();
    let mut out = String::new();
    for (i, c) in s.chars().enumerate() {
        if i > 0 && (s.len() - i) % 3 == 0 {
            out.push(',');
        }
        out.push(c);
    }
    out
}

fn gen_money(r: &mut Rng) -> String {
    let whole = match r.below(5) {
        0 => r.below(10),
        1 => r.below(1000),
        2 => r.below(100_000),
        3 => r.below(10_000_000),
        _ => r.below(2_000_000_000),
    };
    let w = if r.chance(85) { group_thousands(whole) } else { whole.to_string() };
    match r.below(6) {
        0 => w,
        1 | 2 => format!("{}.{}", w, r.below(10)),
        _ => format!("{}.{:02}", w, r.below(100)),
    }
}

fn gen_alloc(r: &mut Rng, max_tenths: u64) -> (String, u64) {
    let tenths = r.below(max_tenths + 1);
    let s = match r.below(4) {
        0 => format!("{}.{}{}", tenths / 10, tenths % 10, r.below(10)),
        _ => format!("{}.{}", tenths / 10, tenths % 10),
    };
    (s, tenths)
}

/// Is this accumulated text taken for a finished security by SEC_DATA_RE (token view)?
fn sec_data_like(ts: &[String]) -> bool {
    let n = ts.len();
    if n < 3 {
        return false;
    }
    let a = &ts[n - 2];
    let f = &ts[n - 1];
    let a_ok = a.len() >= 2 && a.chars().next().unwrap().is_ascii_digit() && a.chars().all(|c| c.is_ascii_digit() || c == '.');
    a_ok && num_like(f)
}

fn total_like(line: &[String]) -> bool {
    let lead = |t: &str| {
        let cs: Vec<char> = t.chars().collect();
        (cs.len() == 5 || cs.len() == 6) && cs[0] == '1' && cs[1] == '0' && cs[2] == '0' && cs[4] == '0' && (cs.len() == 5 || cs[5] == '0')
    };
    match line.len() {
        2 => lead(&line[0]) && line[1].len() >= 2 && num_like(&line[1]),
        3 => line[0] == "100" && (line[1] == "0" || line[1] == "00") && line[2].len() >= 2 && num_like(&line[2]),
        _ => false,
    }
}

fn gen_rows(r: &mut Rng) -> Vec<Row> {
    // a dust position (0.0 %) listed before a holding that prints as 100.0 % (a rounded figure) and
    // whose description spans several lines, so that its figures stand on their own line
    if r.chance(8) {
        let mut rows = Vec::new();
        for _ in 0..(1 + r.below(2)) {
            let len = 2 + r.below(3) as usize;
            rows.push(Row { desc: vec![gen_desc_line(r, len)], alloc: "0.0".to_string(), fmv: gen_money(r), own_line: false });
        }
        let nl = 2 + r.below(2) as usize;
        rows.push(Row {
            desc: (0..nl).map(|_| { let n = 1 + r.below(4) as usize; gen_desc_line(r, n) }).collect(),
            alloc: if r.chance(70) { "100.0".to_string() } else { "100.00".to_string() },
            fmv: gen_money(r),
            own_line: true,
        });
        return rows;
    }
    let single = r.chance(22);
    let n = if single {
        1
    } else {
        match r.below(10) {
            0 => 0,
            1 | 2 => 1,
            3 | 4 | 5 => 2,
            6 | 7 => 3,
            8 => 5,
            _ => 8,
        }
    };
    let mut left: u64 = 1000;
    let mut rows = Vec::new();
    for _ in 0..n {
        let nlines = match r.below(10) {
            0..=4 => 1,
            5..=7 => 2,
            8 => 3,
            _ => 4,
        };
        let mut desc: Vec<Vec<String>> = Vec::new();
        for _ in 0..nlines {
            let len = 1 + r.below(6) as usize;
            desc.push(gen_desc_line(r, len));
        }
        let (alloc, tenths) = if single {
            (if r.chance(80) { "100.0".to_string() } else { "100.00".to_string() }, 1000)
        } else {
            gen_alloc(r, left)
        };
        left -= tenths.min(left);
        rows.push(Row { desc, alloc, fmv: gen_money(r), own_line: r.chance(if single { 70 } else { 40 }) });
    }
    // two lots of the same holding: character-identical descriptions, each row still counts
    if rows.len() >= 2 && r.chance(8) {
        let i = r.below(rows.len() as u64) as usize;
        let j = (i + 1 + r.below(rows.len() as u64 - 1) as usize) % rows.len();
        let d = rows[i].desc.clone();
        rows[j].desc = d;
    }
    rows
}

/// Makes the rows unambiguous for the parser (the table stays in the documented layout either
/// way): a continuation line that looks like a total row while the text so far looks finished
/// gets a harmless word appended to the text before it.
fn disambiguate(rows: &mut Vec<Row>) {
    for row in rows.iter_mut() {
        loop {
            let lines = row_text_lines(row);
            let mut acc: Vec<String> = lines[0].clone();
            let mut bad: Option<usize> = None;
            for (k, l) in lines.iter().enumerate().skip(1) {
                if total_like(l) && sec_data_like(&acc) {
                    bad = Some(k);
                    break;
                }
                acc.extend(l.iter().cloned());
            }
            match bad {
                None => break,
                Some(k) => {
                    // the description line before line k (k-1 < desc.len() always holds here)
                    let i = (k - 1).min(row.desc.len() - 1);
                    row.desc[i].push("(CODE)".to_string());
                }
            }
        }
    }
}

/// text lines of a row without the bullet
fn row_text_lines(row: &Row) -> Vec<Vec<String>> {
    let mut lines = row.desc.clone();
    if row.own_line {
        lines.push(vec![row.alloc.clone(), row.fmv.clone()]);
    } else {
        let last = lines.len() - 1;
        lines[last].push(row.alloc.clone());
        lines[last].push(row.fmv.clone());
    }
    lines
}

fn is_ambiguous(rows: &[Row]) -> bool {
    rows.iter().any(|row| {
        let lines = row_text_lines(row);
        let mut acc: Vec<String> = lines[0].clone();
        for l in lines.iter().skip(1) {
            if total_like(l) && sec_data_like(&acc) {
                return true;
            }
            acc.extend(l.iter().cloned());
        }
        false
    })
}

fn sanitize_rows(rows: &mut Vec<Row>) {
    for row in rows.iter_mut() {
        for (i, l) in row.desc.iter_mut().enumerate() {
            // a continuation line must not look like a complete total row by itself unless the
            // disambiguation below can handle it; simply avoid two-token "100.0 N" description lines
            if i > 0 && total_like(l) {
                l.insert(0, "NOTE".to_string());
            }
        }
    }
}

const JUNK: &[&str] = &[
    "Leading garbage",
    "Account #: 1234",
    "Page 7 of 12",
    "MARKET VALUE SUMMARY",
    "See notes ¹ ² ³ on the last page",
    "Questrade, Inc. 5700 Yonge St",
    "Cash 12.5 1,000.00 CAD",
    "TFSA 53-1234-5",
    "100 % of nothing",
];

fn gen_junk(r: &mut Rng, max: u64) -> Vec<Vec<String>> {
    (0..r.below(max + 1)).map(|_| toks(*r.pick(JUNK))).collect()
}

fn render_line(r: &mut Rng, ts: &[String]) -> String {
    let mut s = String::new();
    for _ in 0..r.below(4) * 4 {
        s.push(' ');
    }
    if r.chance(5) {
        s.push('\t');
    }
    for (i, t) in ts.iter().enumerate() {
        // now and then the bullet is glued to the first word of the description
        if i == 1 && ts[0] == BULLET && r.chance(10) {
            s.push_str(t);
            continue;
        }
        if i > 0 {
            match r.below(10) {
                0 => s.push_str("  "),
                1 => s.push_str("   "),
                2 => s.push('\t'),
                _ => s.push(' '),
            }
        }
        s.push_str(t);
    }
    if r.chance(20) {
        s.push_str("  ");
    }
    s
}

fn render_table(r: &mut Rng, t: &Table) -> String {
    let mut lines: Vec<String> = Vec::new();
    let blank = |r: &mut Rng, lines: &mut Vec<String>, pct: u64| {
        while r.chance(pct) {
            lines.push(if r.chance(50) { String::new() } else { "   ".to_string() });
        }
    };
    for l in &t.pre {
        lines.push(render_line(r, l));
        blank(r, &mut lines, 20);
    }
    lines.push(render_line(r, &t.header));
    blank(r, &mut lines, 40);
    for l in &t.mid {
        lines.push(render_line(r, l));
        blank(r, &mut lines, 20);
    }
    for row in &t.rows {
        let tl = row_text_lines(row);
        for (i, l) in tl.iter().enumerate() {
            let mut l2 = l.clone();
            if i == 0 {
                l2.insert(0, BULLET.to_string());
            }
            lines.push(render_line(r, &l2));
            blank(r, &mut lines, 10);
        }
        blank(r, &mut lines, 40);
    }
    lines.push(render_line(r, &[t.total_lead.clone(), t.total.clone()]));
    blank(r, &mut lines, 30);
    for l in &t.post {
        lines.push(render_line(r, l));
        blank(r, &mut lines, 20);
    }
    lines.join("\n")
}

const MONTHS: &[(&str, Month)] = &[
    ("January", Month::January), ("February", Month::February), ("March", Month::March), ("April", Month::April),
    ("May", Month::May), ("June", Month::June), ("July", Month::July), ("August", Month::August),
    ("September", Month::September), ("October", Month::October), ("November", Month::November),
    ("December", Month::December), ("Sept", Month::September), ("feb", Month::February), ("DEC", Month::December),
];

fn month_page(r: &mut Rng, word: &str, day: u32, year: i32) -> String {
    let lead = match r.below(3) {
        0 => "Current month:",
        1 => "CURRENT MONTH:",
        _ => "current Month:",
    };
    let gap = if r.chance(50) { " " } else { "  " };
    format!(
        "{}\n  Account #:  1234 {}{}{} {}, {} trailing garbage\nmore text",
        r.pick(JUNK),
        lead,
        gap,
        word,
        day,
        year
    )
}

pub fn gen_case(r: &mut Rng) -> Case {
    let mut rows = gen_rows(r);
    sanitize_rows(&mut rows);
    let want_amb = r.chance(2);
    if want_amb {
        // F-20b: a single 100 % holding, figures on their own line, description ending in two
        // number-like tokens
        let mut row = Row {
            desc: (0..1 + r.below(2)).map(|_| { let n = 1 + r.below(4) as usize; gen_desc_line(r, n) }).collect(),
            alloc: "100.0".to_string(),
            fmv: gen_money(r),
            own_line: true,
        };
        let last = row.desc.len() - 1;
        row.desc[last].push(r.pick(&["2.5", "3.25", "10000", "99"]).to_string());
        row.desc[last].push(r.pick(&["2030", "7", "1,000"]).to_string());
        rows = vec![row];
        sanitize_rows(&mut rows);
    } else {
        disambiguate(&mut rows);
    }
    let marker_pre: Vec<Vec<String>> = match r.below(3) {
        0 => vec![toks("Securities Owned"), toks("Combined in (CAD)¹")],
        1 => vec![toks("Securities Owned Combined in (CAD)")],
        _ => vec![toks("Leading garbage"), toks("Securities"), toks("Owned Combined"), toks("in (CAD)¹ ²")],
    };
    let mut pre = gen_junk(r, 2);
    pre.extend(marker_pre);
    let header = if r.chance(80) { toks("ALLOCATION (%)² MARKET VALUE ($)³") } else { toks("ALLOCATION (%) | MARKET VALUE ($)") };
    let mid = if r.chance(15) { vec![toks("+----------+-------")] } else { vec![] };
    let total_lead = if r.chance(75) { "100.0" } else { "100.00" }.to_string();
    let mut total = gen_money(r);
    if total.len() < 2 {
        total.push_str(".0");
    }
    let mut post = gen_junk(r, 2);
    if r.chance(10) {
        // a further allocation table below on the same page (per-account tables)
        post.push(toks("ALLOCATION (%)² MARKET VALUE ($)³"));
        post.push(toks("■ OTHER THING 100.0 5.0"));
        post.push(toks("100.0 5.0"));
    }
    let mut table = Table { pre, header, mid, rows, total_lead, total, post };

    let mut wf = true; // ambiguous tables (F-20b) are still in the documented layout
    let mut scen = if is_ambiguous(&table.rows) { "amb".to_string() } else { "plain".to_string() };

    // ---- malformed stream: damage the table text
    let mut table_text = render_table(r, &table);
    let damage = r.below(100);
    if damage < 14 {
        wf = false;
        let mut lines: Vec<String> = table_text.lines().map(|s| s.to_string()).collect();
        match damage {
            0 | 1 => {
                scen = "nototal".into();
                // drop every total-like line
                lines.retain(|l| !total_like(&toks(l)));
            }
            2 | 3 => {
                scen = "noheader".into();
                lines.retain(|l| !l.contains("ALLOCATION"));
            }
            4 | 5 => {
                scen = "nofigures".into();
                // first row loses its figures
                if let Some(row) = table.rows.first() {
                    let a = row.alloc.clone();
                    let f = row.fmv.clone();
                    let mut done = false;
                    for l in lines.iter_mut() {
                        let ts = toks(l);
                        let n = ts.len();
                        if !done && n >= 2 && ts[n - 2] == a && ts[n - 1] == f {
                            *l = ts[..n - 2].join(" ");
                            done = true;
                        }
                    }
                }
            }
            6 | 7 => {
                scen = "twodots".into();
                if let Some(row) = table.rows.first() {
                    let a = row.alloc.clone();
                    for l in lines.iter_mut() {
                        if toks(l).iter().any(|t| *t == a) {
                            *l = l.replacen(&a, &format!("{}.1", a), 1);
                            break;
                        }
                    }
                }
            }
            8 | 9 => {
                scen = "barebullet".into();
                // a bullet alone on its line before the first row
                if let Some(i) = lines.iter().position(|l| l.contains(BULLET)) {
                    lines.insert(i, format!("  {}  ", BULLET));
                }
            }
            10 | 11 => {
                scen = "midbullet".into();
                if let Some(i) = lines.iter().position(|l| l.contains(BULLET)) {
                    lines.insert(i, format!("legend {} colour", BULLET));
                }
            }
            _ => {
                scen = "truncated".into();
                let keep = r.below(lines.len() as u64 + 1) as usize;
                lines.truncate(keep);
            }
        }
        table_text = lines.join("\n");
    }

    // ---- pages
    let year = 2000 + r.below(40) as i32;
    let (mword, mon) = *r.pick(MONTHS);
    let day = 1 + r.below(28) as u32;
    let date = Date::from_calendar_date(year, mon, day as u8).unwrap();
    let mut pages: Vec<String> = Vec::new();
    let mut month = Some(date);
    let junk_page = |r: &mut Rng| format!("{}\n{}\n", r.pick(JUNK), r.pick(JUNK));
    let layout = r.below(100);
    let table_idx;
    if layout < 50 {
        // month page first, optional junk, table page
        pages.push(month_page(r, mword, day, year));
        for _ in 0..r.below(3) {
            pages.push(junk_page(r));
        }
        table_idx = pages.len();
        pages.push(table_text.clone());
    } else if layout < 65 {
        // month on the table page itself
        table_idx = pages.len();
        let m = month_page(r, mword, day, year);
        let mut pre2: Vec<Vec<String>> = m.lines().map(toks).filter(|l| !l.is_empty()).collect();
        pre2.extend(table.pre.iter().cloned());
        table.pre = pre2;
        pages.push(format!("{}\n{}", m, table_text));
    } else if layout < 75 {
        // an unreadable month word first (ignored), the real one later
        pages.push(month_page(r, "Smarch", 3, 2001));
        pages.push(month_page(r, mword, day, year));
        table_idx = pages.len();
        pages.push(table_text.clone());
    } else if layout < 83 {
        // two month pages: the first wins
        pages.push(month_page(r, mword, day, year));
        pages.push(month_page(r, "March", 1, 1999));
        table_idx = pages.len();
        pages.push(table_text.clone());
    } else if layout < 89 {
        scen = format!("{}+monthlate", scen);
        wf = false;
        month = None;
        table_idx = pages.len();
        pages.push(table_text.clone());
        pages.push(month_page(r, mword, day, year));
    } else if layout < 94 {
        scen = format!("{}+baddate", scen);
        wf = false;
        month = None;
        pages.push(month_page(r, "February", 30, year));
        table_idx = pages.len();
        pages.push(table_text.clone());
    } else {
        scen = format!("{}+nomarker", scen);
        wf = false;
        month = None;
        pages.push(month_page(r, mword, day, year));
        table_idx = pages.len();
        pages.push(table_text.replace("(CAD)", "(USD)"));
    }
    // pages after the table page: junk or a second table page (ignored)
    if r.chance(30) {
        pages.push("Securities Owned Combined in (CAD)\nALLOCATION (%) MARKET VALUE ($)\n■ FOO ETF (FOO) 80.0 80,000.0\n100.0 100,000.01\n".to_string());
    }
    if r.chance(30) {
        pages.push(junk_page(r));
    }
    Case {
        pages,
        wf,
        scen,
        table: if wf { Some((table_idx, table)) } else { None },
        month: if wf { month } else { None },
    }
}

fn err_class(e: &str) -> &'static str {
    if e.starts_with("Unable to parse allocation and FMV") {
        "nosec"
    } else if e.starts_with("Unable to parse allocation from") {
        "alloc"
    } else if e.starts_with("Unable to parse FMV from") {
        "fmv"
    } else if e.starts_with("No header or allocation total line found") {
        "nototal"
    } else if e.starts_with("Could not find month") {
        "nomonth"
    } else if e.starts_with("Did not find FMVs") {
        "nofmv"
    } else {
        "month"
    }
}

fn dec_of(s: &str) -> String {
    // the generator's own reading of a figure: commas removed (exact decimal text)
    s.replace(',', "")
}

pub fn run_pages(id: &str, pages: &[String], wf: bool, scen: &str, table: Option<&(usize, Table)>, month: Option<Date>, out: &mut String) {
    writeln!(out, "case {} fmv wf={} scen={}", id, if wf { 1 } else { 0 }, scen).unwrap();
    for p in pages {
        writeln!(out, "in pg").unwrap();
        for l in p.lines() {
            let mut ts: Vec<String> = l.split_whitespace().map(|t| t.to_string()).collect();
            // the bullet that opens a row may be glued to the first word (`^\s*■\s*(\S.*)`): the model
            // reads it as a token of its own
            if let Some(first) = ts.first().cloned() {
                if first.starts_with(BULLET) && first.len() > BULLET.len() {
                    ts[0] = BULLET.to_string();
                    ts.insert(1, first[BULLET.len()..].to_string());
                }
            }
            writeln!(out, "in l {}", ts.join(" ")).unwrap();
        }
    }
    if let Some((idx, t)) = table {
        writeln!(out, "in t page {}", idx).unwrap();
        for l in &t.pre {
            writeln!(out, "in t pre {}", l.join(" ")).unwrap();
        }
        writeln!(out, "in t header {}", t.header.join(" ")).unwrap();
        for l in &t.mid {
            writeln!(out, "in t mid {}", l.join(" ")).unwrap();
        }
        for row in &t.rows {
            writeln!(
                out,
                "in t row {} {} {} {} {}",
                if row.own_line { 1 } else { 0 },
                row.alloc,
                row.fmv,
                dec_of(&row.alloc),
                dec_of(&row.fmv)
            )
            .unwrap();
            for l in &row.desc {
                writeln!(out, "in t rl {}", l.join(" ")).unwrap();
            }
        }
        writeln!(out, "in t total {} {} {}", t.total_lead, t.total, dec_of(&t.total)).unwrap();
        for l in &t.post {
            writeln!(out, "in t post {}", l.join(" ")).unwrap();
        }
        if let Some(d) = month {
            writeln!(out, "in t month {}", d.to_julian_day()).unwrap();
        }
    }
    let pv: Vec<String> = pages.to_vec();
    match catch(|| parse_statement_text(pv.iter())) {
        Err(_) => writeln!(out, "impl panic").unwrap(),
        Ok(Err(e)) => writeln!(out, "impl err {}", err_class(&e)).unwrap(),
        Ok(Ok(st)) => {
            writeln!(out, "impl ok {} {} {}", st.month_date.to_julian_day(), st.total, st.fmvs.len()).unwrap();
            for f in &st.fmvs {
                let d: Vec<&str> = f.security_desc.split_whitespace().collect();
                writeln!(out, "impl fmv {} {} {}", f.allocation, f.fmv, d.join(" ")).unwrap();
            }
        }
    }
    writeln!(out, "repro {}", oneline(&pages.join("\n\u{c}\n"))).unwrap();
    writeln!(out, "end").unwrap();
}

pub fn run_case(id: &str, c: &Case, out: &mut String) {
    run_pages(id, &c.pages, c.wf, &c.scen, c.table.as_ref(), c.month, out);
}

/// Fixed cases: the tables of the repository's unit tests and the F-20b witness.
pub fn corpus() -> Vec<Case> {
    let month = "Leading garbage\n  Account #:  1234 Current month:  February 28, 2024 trailing garbage".to_string();
    let date = Date::from_calendar_date(2024, Month::February, 28).unwrap();
    let mk = |rows: Vec<Row>, total: &str| Table {
        pre: vec![toks("Securities Owned"), toks("Combined in (CAD)¹")],
        header: toks("ALLOCATION (%)² MARKET VALUE ($)³"),
        mid: vec![],
        rows,
        total_lead: "100.0".into(),
        total: total.into(),
        post: vec![],
    };
    let row = |lines: &[&str], a: &str, f: &str, own: bool| Row {
        desc: lines.iter().map(|l| toks(l)).collect(),
        alloc: a.into(),
        fmv: f.into(),
        own_line: own,
    };
    let mut r = Rng::new(7);
    let mut res = Vec::new();
    let tables = vec![
        ("unit-empty", mk(vec![], "0.0")),
        (
            "unit-three",
            mk(
                vec![
                    row(&["BLABLA ETF (BLABLA)"], "80.0", "80,000.0", false),
                    row(&["SOME GIC 01/01/2024", "4.00% 1Y DUE 01/01/2024 INT 4.000% (XXXXXX)"], "5.0", "5,000.1", false),
                    row(&["ANOTHER GIC 01/01/2025", "5.00% 2Y CPD DUE 01/01/2025 INT 5.00%", "(YYYYYY)"], "15.0", "15,000.0", true),
                ],
                "100,000.01",
            ),
        ),
        (
            "unit-single",
            mk(vec![row(&["SOME GIC 01/01/2024", "4.00% 1Y DUE 01/01/2024 INT 4.000% (XXXXXX)"], "100.0", "99,999.99", true)], "100,000.00"),
        ),
        ("amb", mk(vec![row(&["GOVT BOND 2.5 2030"], "100.0", "50,000.00", true)], "50,000.00")),
    ];
    for (name, t) in tables {
        let text = render_table(&mut r, &t);
        res.push(Case { pages: vec![month.clone(), text], wf: true, scen: name.to_string(), table: Some((1, t)), month: Some(date) });
    }
    res
}

/// Replay: only the page texts are needed; they are rebuilt from the `in pg` / `in l` lines
/// (token separators become single blanks, which the parser does not distinguish).
pub fn replay(lines: &[String], out: &mut String) -> bool {
    let head: Vec<&str> = lines[0].split_whitespace().collect();
    if head.len() < 3 || head[2] != "fmv" {
        return false;
    }
    let mut pages: Vec<String> = Vec::new();
    for l in &lines[1..] {
        if l == "in pg" {
            pages.push(String::new());
        } else if l == "in l" || l.starts_with("in l ") {
            if let Some(p) = pages.last_mut() {
                p.push_str(l.get(5..).unwrap_or(""));
                p.push('\n');
            }
        }
    }
    // table lines are passed through unchanged so that the oracle still applies
    let scen = head.iter().find_map(|t| t.strip_prefix("scen=")).unwrap_or("replay");
    let wf = head.iter().any(|t| *t == "wf=1");
    writeln!(out, "case {} fmv wf={} scen={}", head[1], if wf { 1 } else { 0 }, scen).unwrap();
    for l in &lines[1..] {
        if l.starts_with("in ") {
            writeln!(out, "{}", l).unwrap();
        }
    }
    match catch(|| parse_statement_text(pages.iter())) {
        Err(_) => writeln!(out, "impl panic").unwrap(),
        Ok(Err(e)) => writeln!(out, "impl err {}", err_class(&e)).unwrap(),
        Ok(Ok(st)) => {
            writeln!(out, "impl ok {} {} {}", st.month_date.to_julian_day(), st.total, st.fmvs.len()).unwrap();
            for f in &st.fmvs {
                let d: Vec<&str> = f.security_desc.split_whitespace().collect();
                writeln!(out, "impl fmv {} {} {}", f.allocation, f.fmv, d.join(" ")).unwrap();
            }
        }
    }
    writeln!(out, "end").unwrap();
    true
}
