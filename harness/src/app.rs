//! Family `app`: several securities through the real application pipeline
//! (`run_acb_app_to_delta_models`: CSV parsing, global read index, sort, split by security,
//! global-split expansion, ledger), plus the C08 metamorphic oracle (A alone, B alone, A with B).
use std::collections::HashMap;

use acb::app::run_acb_app_to_delta_models;
use acb::fx::io::pub_testlib::MockRemoteRateLoader;
use acb::fx::io::{InMemoryRatesCache, RateLoader};
use acb::portfolio::bookkeeping::DeltaListResult;
use acb::portfolio::io::tx_csv::TxCsvParseOptions;
use acb::portfolio::{Affiliate, PortfolioSecurityStatus, Tx, TxActionSpecifics};
use acb::util::decimal::GreaterEqualZeroDecimal;
use acb::util::rc::RcRefCellT;
use acb::util::rw::{DescribedReader, WriteHandle};
use rust_decimal::Decimal;

use crate::common::*;
use crate::ledger;
use crate::rng::Rng;

pub fn rate_loader() -> RateLoader {
    RateLoader::new(
        false,
        Box::new(InMemoryRatesCache::new()),
        Box::new(MockRemoteRateLoader { remote_year_rates: RcRefCellT::new(HashMap::new()) }),
        WriteHandle::empty_write_handle(),
    )
}

/// The harness's own CSV rendering of `Tx` rows: always all columns, the affiliate named
/// explicitly (empty = the `__global__` affiliate of a Split for all affiliates), so that the
/// text determines the transactions whatever subset of rows ends up in one file.
pub fn txs_to_csv(txs: &[Tx]) -> String {
    txs_to_csv_spelled(txs, 1)
}

/// `spelling`: how affiliate names are typed — 0 as they are, 1 some rows in another capitalisation
/// (decided by the row's content), 2 all lower case, 3 all upper case.
pub fn txs_to_csv_spelled(txs: &[Tx], spelling: u8) -> String {
    let mut s = String::from(
        "security,trade date,settlement date,action,shares,amount/share,commission,currency,exchange rate,commission currency,commission exchange rate,superficial loss,split ratio,affiliate,memo\n",
    );
    for (ri, t) in txs.iter().enumerate() {
        let d = |x: time::Date| date_str(x);
        let mut aff = if t.affiliate.is_global() { String::new() } else { t.affiliate.name().to_string() };
        // the same affiliate typed in another capitalisation in some later rows (one ledger all the same)
        // (decided by the row's own content, so that a row is spelled the same in whatever file it is)
        let _ = ri;
        if !aff.is_empty() {
            match spelling {
                1 => match (jd(t.settlement_date) as usize * 7 + jd(t.trade_date) as usize + aff.len()) % 13 {
                    0 => aff = aff.to_uppercase(),
                    1 => aff = aff.to_lowercase(),
                    _ => {}
                },
                2 => aff = aff.to_lowercase(),
                3 => aff = aff.to_uppercase(),
                _ => {}
            }
        }
        let (act, sh, px, comm, cur, fx, ccur, cfx, sfl, ratio) = match &t.action_specifics {
            TxActionSpecifics::Buy(b) => (
                "Buy",
                b.shares.to_string(),
                b.amount_per_share.to_string(),
                b.commission.to_string(),
                b.tx_currency_and_rate.currency.to_string(),
                b.tx_currency_and_rate.exchange_rate.to_string(),
                b.separate_commission_currency.as_ref().map(|c| c.currency.to_string()).unwrap_or_default(),
                b.separate_commission_currency.as_ref().map(|c| c.exchange_rate.to_string()).unwrap_or_default(),
                String::new(),
                String::new(),
            ),
            TxActionSpecifics::Sell(b) => (
                "Sell",
                b.shares.to_string(),
                b.amount_per_share.to_string(),
                b.commission.to_string(),
                b.tx_currency_and_rate.currency.to_string(),
                b.tx_currency_and_rate.exchange_rate.to_string(),
                b.separate_commission_currency.as_ref().map(|c| c.currency.to_string()).unwrap_or_default(),
                b.separate_commission_currency.as_ref().map(|c| c.exchange_rate.to_string()).unwrap_or_default(),
                b.specified_superficial_loss
                    .as_ref()
                    .map(|x| format!("{}{}", *x.superficial_loss, if x.force { "!" } else { "" }))
                    .unwrap_or_default(),
                String::new(),
            ),
            TxActionSpecifics::Roc(x) => (
                "RoC",
                String::new(),
                x.amount_per_held_share.to_string(),
                String::new(),
                x.tx_currency_and_rate.currency.to_string(),
                x.tx_currency_and_rate.exchange_rate.to_string(),
                String::new(),
                String::new(),
                String::new(),
                String::new(),
            ),
            TxActionSpecifics::Sfla(x) => (
                "SfLA",
                x.shares_affected.to_string(),
                x.amount_per_share.to_string(),
                String::new(),
                String::new(),
                String::new(),
                String::new(),
                String::new(),
                String::new(),
                String::new(),
            ),
            TxActionSpecifics::Split(x) => (
                "Split",
                String::new(),
                String::new(),
                String::new(),
                String::new(),
                String::new(),
                String::new(),
                String::new(),
                String::new(),
                x.ratio.to_string(),
            ),
        };
        s.push_str(&format!(
            "{},{},{},{},{},{},{},{},{},{},{},{},{},{},\n",
            t.security, d(t.trade_date), d(t.settlement_date), act, sh, px, comm, cur, fx, ccur, cfx, sfl, ratio, aff
        ));
    }
    s
}

pub struct AppCase {
    pub names: Vec<String>,                          // affiliate names of the whole case
    pub rows: Vec<Tx>,                               // file order; read_index is assigned by the app
    pub inits: Vec<(String, Decimal, Decimal)>,      // security, shares, acb
    pub cuts: Vec<usize>,                            // file boundaries (row counts per file)
}

pub type AppResult = Result<HashMap<String, DeltaListResult>, String>;

pub fn init_map(inits: &[(String, Decimal, Decimal)]) -> HashMap<String, PortfolioSecurityStatus> {
    let mut m = HashMap::new();
    for (s, sh, acb) in inits {
        m.insert(
            s.clone(),
            PortfolioSecurityStatus {
                security: s.clone(),
                share_balance: GreaterEqualZeroDecimal::try_from(*sh).unwrap(),
                all_affiliate_share_balance: GreaterEqualZeroDecimal::try_from(*sh).unwrap(),
                total_acb: Some(GreaterEqualZeroDecimal::try_from(*acb).unwrap()),
            },
        );
    }
    m
}

/// Runs the real pipeline on CSV files made of `rows` cut at `cuts`.
pub fn run_app(rows: &[Tx], cuts: &[usize], inits: &[(String, Decimal, Decimal)]) -> Result<AppResult, String> {
    let mut readers = Vec::new();
    let mut start = 0usize;
    let mut k = 0;
    let mut bounds: Vec<usize> = cuts.to_vec();
    let total: usize = bounds.iter().sum();
    if total < rows.len() {
        bounds.push(rows.len() - total);
    }
    for n in bounds {
        let end = (start + n).min(rows.len());
        if end > start {
            readers.push(DescribedReader::from_string(format!("file{}.csv", k), txs_to_csv(&rows[start..end])));
            k += 1;
        }
        start = end;
    }
    let inits = init_map(inits);
    catch(move || {
        async_std::task::block_on(run_acb_app_to_delta_models(
            readers,
            inits,
            &TxCsvParseOptions::default(),
            rate_loader(),
            WriteHandle::empty_write_handle(),
        ))
    })
}

fn rename(mut tx: Tx, sec: &str) -> Tx {
    tx.security = sec.to_string();
    tx
}

/// Random merge of per-security row lists preserving each list's order.
pub fn interleave(r: &mut Rng, mut lists: Vec<Vec<Tx>>) -> Vec<Tx> {
    let mut out = Vec::new();
    for l in lists.iter_mut() {
        l.reverse();
    }
    loop {
        let nonempty: Vec<usize> = (0..lists.len()).filter(|i| !lists[*i].is_empty()).collect();
        if nonempty.is_empty() {
            break;
        }
        let i = *r.pick(&nonempty);
        out.push(lists[i].pop().unwrap());
    }
    out
}

pub fn gen_security(r: &mut Rng, sec: &str, names: &mut Vec<String>) -> (Vec<Tx>, Option<(String, Decimal, Decimal)>) {
    // every fifth security is a window-style history (loss sales with acquisitions around the
    // 30-day edges, declared superficial losses incl. 0 and 0!)
    let c = match r.below(10) {
        0 => ledger::gen_window_case(r, None),
        1 => ledger::gen_window_boundary_case(r),
        _ => ledger::gen_case(r),
    };
    for a in &c.uni.affs {
        let n = a.name().to_string();
        if !names.contains(&n) {
            names.push(n);
        }
    }
    let mut rows: Vec<Tx> = c.txs.into_iter().map(|t| rename(t, sec)).collect();
    // twin fills: now and then a purchase is followed by a row identical in every field
    if r.chance(6) {
        if let Some(i) = rows.iter().position(|t| matches!(t.action_specifics, TxActionSpecifics::Buy(_))) {
            let twin = rows[i].clone();
            rows.insert(i + 1, twin);
        }
    }
    // turn some per-affiliate splits into global ones
    let globalize = r.chance(60);
    for t in rows.iter_mut() {
        if let TxActionSpecifics::Split(_) = t.action_specifics {
            if globalize && r.chance(70) {
                t.affiliate = Affiliate::global();
            }
        }
    }
    // now and then the user kept both entries of a split: the one for all affiliates and a
    // per-affiliate one next to it (the split validation refuses THIS security; F-04d)
    if r.chance(3) {
        if let Some(i) = rows.iter().position(|t| matches!(t.action_specifics, TxActionSpecifics::Split(_)) && t.affiliate.is_global()) {
            let mut dup = rows[i].clone();
            dup.affiliate = Affiliate::default();
            rows.insert(i + 1, dup);
        }
    }
    let init = c.init.map(|(sh, acb)| (sec.to_string(), sh, acb));
    (rows, init)
}

pub fn gen_case(r: &mut Rng) -> AppCase {
    let nsec = 1 + r.below(4) as usize;
    let mut names = vec!["Default".to_string()];
    let mut lists = Vec::new();
    let mut inits = Vec::new();
    for k in 0..nsec {
        let sec = format!("S{}", k);
        let (rows, init) = gen_security(r, &sec, &mut names);
        lists.push(rows);
        if let Some(i) = init {
            inits.push(i);
        }
    }
    // an opening position for a security that has no rows at all
    if r.chance(10) {
        inits.push(("ZZZ".to_string(), Decimal::new(5, 0), Decimal::new(50, 0)));
    }
    let mut rows = interleave(r, lists);
    // the rows need not come in date order, nor the files in date ranges: any order that keeps the
    // relative order of the rows of one security settling on the same day gives the same report
    if r.chance(30) && rows.len() > 2 {
        let n = rows.len();
        let mut key: Vec<u64> = (0..n).map(|_| r.below(1_000_000)).collect();
        let mut classes: HashMap<(String, i32), Vec<usize>> = HashMap::new();
        for (i, t) in rows.iter().enumerate() {
            classes.entry((t.security.clone(), jd(t.settlement_date))).or_default().push(i);
        }
        let mut cls: Vec<Vec<usize>> = classes.into_values().collect();
        cls.sort();
        for members in cls {
            let mut ks: Vec<u64> = members.iter().map(|i| key[*i]).collect();
            ks.sort();
            for (m, k) in members.iter().zip(ks) {
                key[*m] = k;
            }
        }
        let mut order: Vec<usize> = (0..n).collect();
        order.sort_by_key(|i| (key[*i], *i));
        rows = order.into_iter().map(|i| rows[i].clone()).collect();
    }
    let mut cuts = Vec::new();
    if r.chance(40) && rows.len() > 1 {
        let mut left = rows.len();
        while left > 0 && cuts.len() < 3 {
            let n = 1 + r.below(left as u64) as usize;
            cuts.push(n);
            left -= n;
        }
    }
    AppCase { names, rows, inits, cuts }
}

pub fn universe(c: &AppCase) -> AffUniverse {
    let refs: Vec<&str> = c.names.iter().map(|s| s.as_str()).collect();
    AffUniverse::new(&refs)
}

pub fn sec_num(s: &str) -> usize {
    // ("s0" is security 0 typed in lower case — a ticker is compared as it is written, and a case
    // uses one spelling throughout)
    if s == "ZZZ" { 999 } else { s.trim_start_matches(['S', 's']).parse().unwrap_or(998) }
}

pub fn emit_rows(uni: &AffUniverse, rows: &[Tx], out: &mut String) {
    for (i, tx) in rows.iter().enumerate() {
        let glob = tx.affiliate.is_global();
        let mut t = tx.clone();
        t.read_index = i as u32;
        if glob {
            t.affiliate = Affiliate::default();
        }
        let line = ledger::tx_line(uni, &t);
        out.push_str(&format!("row {} {} {}\n", sec_num(&tx.security), if glob { 1 } else { 0 }, &line[3..]));
    }
}

pub fn emit_result(uni: &AffUniverse, tag: &str, res: &Result<AppResult, String>, out: &mut String) {
    match res {
        Err(p) => out.push_str(&format!("{} panic {}\n", tag, oneline(p))),
        Ok(Err(e)) => out.push_str(&format!("{} abort {}\n", tag, oneline(e))),
        Ok(Ok(m)) => {
            let mut secs: Vec<&String> = m.keys().collect();
            secs.sort();
            for s in secs {
                let dl = &m[s];
                for d in dl.deltas_or_partial_deltas() {
                    let line = ledger::delta_line(uni, d);
                    out.push_str(&format!("{} delta {} {}\n", tag, sec_num(s), &line["impl delta ".len()..]));
                }
                match &dl.0 {
                    Ok(_) => out.push_str(&format!("{} sec {} ok\n", tag, sec_num(s))),
                    Err(e) => out.push_str(&format!("{} sec {} err {}\n", tag, sec_num(s), oneline(&e.err_msg))),
                }
            }
        }
    }
}

/// C08 metamorphic runs on the implementation alone: every security is re-run with the other
/// securities' rows removed; the Lean driver compares the observations (at 1e-9, modulo the
/// HashSet order inside the expansion of a global split).
fn emit_alone_runs(uni: &AffUniverse, c: &AppCase, out: &mut String) {
    let mut secs: Vec<String> = c.rows.iter().map(|t| t.security.clone()).collect();
    secs.sort();
    secs.dedup();
    if secs.len() < 2 {
        return;
    }
    for s in &secs {
        let rows: Vec<Tx> = c.rows.iter().filter(|t| &t.security == s).cloned().collect();
        // alone = this security's rows and ITS opening position only
        let own_inits: Vec<(String, Decimal, Decimal)> = c.inits.iter().filter(|i| &i.0 == s).cloned().collect();
        let res = run_app(&rows, &[], &own_inits);
        match &res {
            Ok(Ok(_)) => emit_result(uni, "alone", &res, out),
            Ok(Err(e)) => out.push_str(&format!("alone secabort {} {}\n", sec_num(s), oneline(e))),
            Err(p) => out.push_str(&format!("alone secabort {} panic {}\n", sec_num(s), oneline(p))),
        }
    }
}

pub fn run_case(id: &str, c: &AppCase, out: &mut String) {
    let uni = universe(c);
    out.push_str(&format!("case {} app dflt={}\n", id, uni.default_key()));
    for (s, sh, acb) in &c.inits {
        out.push_str(&format!("init {} {}:{}\n", sec_num(s), sh, acb));
    }
    emit_rows(&uni, &c.rows, out);
    let res = run_app(&c.rows, &c.cuts, &c.inits);
    emit_result(&uni, "impl", &res, out);
    emit_alone_runs(&uni, c, out);
    let mut repro = String::new();
    for (s, sh, acb) in &c.inits {
        repro.push_str(&format!("-b {}:{}:{}\n", s, sh, acb));
    }
    repro.push_str(&format!("files cut at {:?}\n", c.cuts));
    repro.push_str(&txs_to_csv(&c.rows));
    out.push_str(&format!("repro {}\n", oneline(&repro)));
    out.push_str("end\n");
}


/// Parses `row <sec> <glob> <trade> <settle> <idx> <affkey> <R|N> <action...>` protocol lines back
/// into transactions (for the `*-replay` modes); affiliate names are synthesised from the keys.
pub fn parse_rows(dflt: usize, lines: &[String]) -> Option<(Vec<String>, Vec<Tx>)> {
    let mut names: Vec<String> = vec!["Default".to_string()];
    let mut rows = Vec::new();
    for l in lines {
        let t: Vec<&str> = l.split_whitespace().collect();
        if t.first() != Some(&"row") {
            continue;
        }
        let sec: usize = t[1].parse().ok()?;
        let glob = t[2] == "1";
        let fake = vec![format!("case x ledger dflt={} init=-", dflt), format!("tx {}", t[3..].join(" "))];
        let c = ledger::parse_case(&fake)?;
        let mut tx = c.txs.into_iter().next()?;
        tx.security = if sec == 999 { "ZZZ".to_string() } else { format!("S{}", sec) };
        if glob {
            tx.affiliate = Affiliate::global();
        } else {
            let n = tx.affiliate.name().to_string();
            if !names.contains(&n) {
                names.push(n);
            }
        }
        rows.push(tx);
    }
    Some((names, rows))
}

/// `app-replay`: re-runs one `app` case from its protocol lines (rows and opening positions; the
/// rows are given as one file — the file boundaries of the original case are not part of the
/// protocol).
pub fn replay(lines: &[String], out: &mut String) -> bool {
    let head: Vec<&str> = match lines.first() {
        Some(l) => l.split_whitespace().collect(),
        None => return false,
    };
    if head.len() < 3 || head[0] != "case" || head[2] != "app" {
        return false;
    }
    let dflt: usize = head.iter().find_map(|t| t.strip_prefix("dflt=")).and_then(|v| v.parse().ok()).unwrap_or(0);
    let Some((names, rows)) = parse_rows(dflt, &lines[1..]) else { return false };
    let mut inits = Vec::new();
    for l in &lines[1..] {
        let t: Vec<&str> = l.split_whitespace().collect();
        if t.len() == 3 && t[0] == "init" {
            let sec: usize = match t[1].parse() { Ok(v) => v, Err(_) => return false };
            let Some((sh, acb)) = t[2].split_once(':') else { return false };
            let (Ok(sh), Ok(acb)) = (sh.parse::<Decimal>(), acb.parse::<Decimal>()) else { return false };
            inits.push((if sec == 999 { "ZZZ".to_string() } else { format!("S{}", sec) }, sh, acb));
        }
    }
    let c = AppCase { names, rows, inits, cuts: vec![] };
    run_case(head[1], &c, out);
    true
}

/// Two securities rejected for the same reason on the same day — their messages are byte for byte
/// the same ("Invalid RoC tx on <date>: Registered affiliates do not have an ACB to adjust") — and,
/// optionally, a security holding a vanishing number of shares with an ordinary cost base (its
/// cost per share is beyond what a 96-bit decimal can hold).  Each must still be reported on its own.
pub fn add_twin_failures(c: &mut AppCase, r: &mut Rng) {
    use acb::portfolio::{RocTxSpecifics, SflaTxSpecifics};
    let reg = Affiliate::from_strep("Zed (R)");
    if !c.names.iter().any(|n| n == reg.name()) {
        c.names.push(reg.name().to_string());
    }
    let day = ledger::BASE_JD + 700 + r.below(200) as i32;
    for sec in ["S7", "S8"] {
        let mut b = ledger::mk_tx(day, &reg, ledger::buy(Decimal::new(10, 0), Decimal::new(10, 0)));
        b.security = sec.to_string();
        let mut x = ledger::mk_tx(
            day + 5,
            &reg,
            TxActionSpecifics::Roc(RocTxSpecifics {
                amount_per_held_share: GreaterEqualZeroDecimal::try_from(Decimal::new(25, 2)).unwrap(),
                tx_currency_and_rate: ledger::cer("CAD", Decimal::ONE),
            }),
        );
        x.security = sec.to_string();
        c.rows.push(b);
        c.rows.push(x);
    }
    if r.chance(50) {
        let dflt = Affiliate::default();
        let mut b = ledger::mk_tx(day, &dflt, ledger::buy(Decimal::ONE, Decimal::new(100, 0)));
        b.security = "S9".to_string();
        let almost_all: Decimal = "0.9999999999999999999999999999".parse().unwrap();
        let mut s1 = ledger::mk_tx(day + 1, &dflt, ledger::sell(almost_all, Decimal::new(100, 0), None));
        s1.security = "S9".to_string();
        let mut a = ledger::mk_tx(
            day + 2,
            &dflt,
            TxActionSpecifics::Sfla(SflaTxSpecifics {
                shares_affected: acb::util::decimal::PosDecimal::try_from(Decimal::ONE).unwrap(),
                amount_per_share: acb::util::decimal::PosDecimal::try_from(Decimal::new(100, 0)).unwrap(),
            }),
        );
        a.security = "S9".to_string();
        c.rows.push(b);
        c.rows.push(s1);
        c.rows.push(a);
    }
}
