//! Family `csvrt` (C11): generated `Tx` lists through the real
//! `write_txs_to_csv -> parse_tx_csv -> Tx::try_from -> write_txs_to_csv`, plus cell-level
//! observations of the text functions the codec is made of.
use std::str::FromStr;

use acb::portfolio::io::tx_csv::{parse_tx_csv, txs_to_csv_table, write_txs_to_csv, TxCsvParseOptions};
use acb::portfolio::{
    Affiliate, AffiliateDedupTable, BuyTxSpecifics, CsvTx, Currency, CurrencyAndExchangeRate,
    RocTxSpecifics, SFLInput, SellTxSpecifics, SflaTxSpecifics, SplitRatio, SplitTxSpecifics, Tx,
    TxActionSpecifics,
};
use acb::util::decimal::{
    to_string_min_precision, GreaterEqualZeroDecimal, LessEqualZeroDecimal, PosDecimal,
};
use acb::util::rw::{DescribedReader, WriteHandle};
use rust_decimal::Decimal;
use time::{Date, Month};

use crate::common::*;
use crate::rng::Rng;

// ------------------------------------------------------------------------------------------
// protocol encodings

/// string token: `s` + hex code points joined by `.`
pub fn stok(s: &str) -> String {
    let mut o = String::from("s");
    let mut first = true;
    for c in s.chars() {
        if !first {
            o.push('.');
        }
        first = false;
        o.push_str(&format!("{:x}", c as u32));
    }
    o
}

pub fn unstok(t: &str) -> Option<String> {
    let body = t.strip_prefix('s')?;
    if body.is_empty() {
        return Some(String::new());
    }
    let mut o = String::new();
    for h in body.split('.') {
        o.push(char::from_u32(u32::from_str_radix(h, 16).ok()?)?);
    }
    Some(o)
}

pub fn dtok(d: &Decimal) -> String {
    format!(
        "{}:{}:{}",
        if d.is_sign_negative() { 1 } else { 0 },
        d.mantissa().unsigned_abs(),
        d.scale()
    )
}

pub fn undtok(t: &str) -> Option<Decimal> {
    let p: Vec<&str> = t.split(':').collect();
    if p.len() != 3 {
        return None;
    }
    let m: i128 = p[1].parse().ok()?;
    let sc: u32 = p[2].parse().ok()?;
    let mut d = Decimal::try_from_i128_with_scale(m, sc).ok()?;
    if p[0] == "1" {
        d.set_sign_negative(true);
    }
    Some(d)
}

fn date_tok(d: Date) -> String {
    format!("{}-{}-{}", d.year(), d.month() as u8, d.day())
}

fn undate_tok(t: &str) -> Option<Date> {
    // year may be negative: split from the right
    let mut it = t.rsplitn(3, '-');
    let day: u8 = it.next()?.parse().ok()?;
    let mon: u8 = it.next()?.parse().ok()?;
    let year: i32 = it.next()?.parse().ok()?;
    Date::from_calendar_date(year, Month::try_from(mon).ok()?, day).ok()
}

fn cr_tok(c: &CurrencyAndExchangeRate) -> String {
    format!("{} {}", stok(c.currency.as_str()), dtok(&c.exchange_rate))
}

fn ocr_tok(c: &Option<CurrencyAndExchangeRate>) -> String {
    match c {
        Some(c) => cr_tok(c),
        None => "- -".to_string(),
    }
}

fn sfl_tok(s: &Option<SFLInput>) -> String {
    match s {
        Some(s) => format!("{} {}", dtok(&s.superficial_loss), if s.force { 1 } else { 0 }),
        None => "- 0".to_string(),
    }
}

pub fn tx_tok(tx: &Tx) -> String {
    let spec = match &tx.action_specifics {
        TxActionSpecifics::Buy(b) => format!(
            "buy {} {} {} {} {}",
            dtok(&b.shares),
            dtok(&b.amount_per_share),
            dtok(&b.commission),
            cr_tok(&b.tx_currency_and_rate),
            ocr_tok(&b.separate_commission_currency)
        ),
        TxActionSpecifics::Sell(b) => format!(
            "sell {} {} {} {} {} {}",
            dtok(&b.shares),
            dtok(&b.amount_per_share),
            dtok(&b.commission),
            cr_tok(&b.tx_currency_and_rate),
            ocr_tok(&b.separate_commission_currency),
            sfl_tok(&b.specified_superficial_loss)
        ),
        TxActionSpecifics::Roc(b) => {
            format!("roc {} {}", dtok(&b.amount_per_held_share), cr_tok(&b.tx_currency_and_rate))
        }
        TxActionSpecifics::Sfla(b) => {
            format!("sfla {} {}", dtok(&b.shares_affected), dtok(&b.amount_per_share))
        }
        TxActionSpecifics::Split(b) => format!(
            "split {} {} {}",
            dtok(&b.ratio.post_split),
            dtok(&b.ratio.pre_split),
            if b.ratio.reverse_integer_only { 1 } else { 0 }
        ),
    };
    format!(
        "{} {} {} {} {} {} {} {} {}",
        tx.read_index,
        stok(&tx.security),
        date_tok(tx.trade_date),
        date_tok(tx.settlement_date),
        stok(tx.affiliate.id()),
        stok(tx.affiliate.name()),
        if tx.affiliate.registered() { 1 } else { 0 },
        stok(&tx.memo),
        spec
    )
}

fn pos(d: Decimal) -> Option<PosDecimal> {
    PosDecimal::try_from(d).ok()
}
fn gez(d: Decimal) -> Option<GreaterEqualZeroDecimal> {
    GreaterEqualZeroDecimal::try_from(d).ok()
}

fn parse_cr(c: &str, r: &str) -> Option<CurrencyAndExchangeRate> {
    CurrencyAndExchangeRate::try_new(Currency::new(&unstok(c)?), pos(undtok(r)?)?).ok()
}

fn parse_ocr(c: &str, r: &str) -> Option<Option<CurrencyAndExchangeRate>> {
    if c == "-" {
        Some(None)
    } else {
        Some(Some(parse_cr(c, r)?))
    }
}

/// inverse of `tx_tok` (the affiliate is rebuilt from its name)
pub fn parse_tx_tok(t: &[&str]) -> Option<Tx> {
    if t.len() < 9 {
        return None;
    }
    let rest = &t[9..];
    let spec = match t[8] {
        "buy" if rest.len() == 7 => TxActionSpecifics::Buy(BuyTxSpecifics {
            shares: pos(undtok(rest[0])?)?,
            amount_per_share: gez(undtok(rest[1])?)?,
            commission: gez(undtok(rest[2])?)?,
            tx_currency_and_rate: parse_cr(rest[3], rest[4])?,
            separate_commission_currency: parse_ocr(rest[5], rest[6])?,
        }),
        "sell" if rest.len() == 9 => TxActionSpecifics::Sell(SellTxSpecifics {
            shares: pos(undtok(rest[0])?)?,
            amount_per_share: gez(undtok(rest[1])?)?,
            commission: gez(undtok(rest[2])?)?,
            tx_currency_and_rate: parse_cr(rest[3], rest[4])?,
            separate_commission_currency: parse_ocr(rest[5], rest[6])?,
            specified_superficial_loss: if rest[7] == "-" {
                None
            } else {
                Some(SFLInput {
                    superficial_loss: LessEqualZeroDecimal::try_from(undtok(rest[7])?).ok()?,
                    force: rest[8] == "1",
                })
            },
        }),
        "roc" if rest.len() == 3 => TxActionSpecifics::Roc(RocTxSpecifics {
            amount_per_held_share: gez(undtok(rest[0])?)?,
            tx_currency_and_rate: parse_cr(rest[1], rest[2])?,
        }),
        "sfla" if rest.len() == 2 => TxActionSpecifics::Sfla(SflaTxSpecifics {
            shares_affected: pos(undtok(rest[0])?)?,
            amount_per_share: pos(undtok(rest[1])?)?,
        }),
        "split" if rest.len() == 3 => TxActionSpecifics::Split(SplitTxSpecifics {
            ratio: SplitRatio {
                post_split: pos(undtok(rest[0])?)?,
                pre_split: pos(undtok(rest[1])?)?,
                reverse_integer_only: rest[2] == "1",
            },
        }),
        _ => return None,
    };
    Some(Tx {
        security: unstok(t[1])?,
        trade_date: undate_tok(t[2])?,
        settlement_date: undate_tok(t[3])?,
        action_specifics: spec,
        memo: unstok(t[7])?,
        affiliate: Affiliate::from_strep(&unstok(t[5])?),
        read_index: t[0].parse().ok()?,
    })
}

fn hex(b: &[u8]) -> String {
    let mut o = String::with_capacity(b.len() * 2 + 1);
    o.push('x');
    for x in b {
        o.push_str(&format!("{:02x}", x));
    }
    o
}

// ------------------------------------------------------------------------------------------
// generators

const MAX96: u128 = (1u128 << 96) - 1;

fn rand_mantissa(r: &mut Rng) -> u128 {
    match r.below(10) {
        0..=3 => r.below(100_000) as u128,
        4..=5 => r.next() as u128,
        6..=7 => ((r.next() as u128) << 32 | r.below(1 << 32) as u128) & MAX96,
        8 => MAX96 - r.below(1000) as u128,
        _ => {
            // many trailing zeros
            let z = r.below(12) as u32;
            (r.below(100_000) as u128) * 10u128.pow(z)
        }
    }
}

fn mk_dec(m: u128, scale: u32) -> Decimal {
    Decimal::try_from_i128_with_scale(m as i128, scale).unwrap()
}

/// arbitrary non-negative decimal, scale 0..=28
fn rand_dec(r: &mut Rng) -> Decimal {
    let scale = match r.below(10) {
        0..=2 => 0,
        3..=5 => r.below(5) as u32,
        6..=8 => r.below(29) as u32,
        _ => 28,
    };
    mk_dec(rand_mantissa(r), scale)
}

fn rand_pos(r: &mut Rng) -> PosDecimal {
    loop {
        if let Ok(p) = PosDecimal::try_from(rand_dec(r)) {
            return p;
        }
    }
}

fn rand_gez(r: &mut Rng) -> GreaterEqualZeroDecimal {
    let d = if r.chance(15) { mk_dec(0, r.below(4) as u32) } else { rand_dec(r) };
    GreaterEqualZeroDecimal::try_from(d).unwrap()
}

const CURS: [&str; 6] = ["CAD", "USD", "XYZ", "eur", "cad", "Zł"];

fn rand_cr(r: &mut Rng, odd: bool) -> CurrencyAndExchangeRate {
    let c = if odd && r.chance(30) { " usd" } else { *r.pick(&CURS) };
    let cur = Currency::new(c);
    if cur.is_default() {
        let one = match r.below(3) {
            0 => mk_dec(1, 0),
            1 => mk_dec(10, 1),
            _ => mk_dec(100, 2),
        };
        CurrencyAndExchangeRate::rq_new(cur, PosDecimal::try_from(one).unwrap())
    } else {
        let rate = if r.chance(8) {
            // a foreign currency at par: the rate 1 (or 1.0, 1.00) is still an explicit rate
            PosDecimal::try_from(match r.below(3) { 0 => mk_dec(1, 0), 1 => mk_dec(10, 1), _ => mk_dec(100, 2) }).unwrap()
        } else if r.chance(60) {
            PosDecimal::try_from(Decimal::new(r.range(1, 30000), 4)).unwrap()
        } else {
            rand_pos(r)
        };
        CurrencyAndExchangeRate::rq_new(cur, rate)
    }
}

const SECS: [&str; 8] = ["FOO", "BAR.TO", "X Y", "ÜBER", "foo", "a,b", "q\"q", "-"];
const ODD_SECS: [&str; 3] = [" FOO", "BAR ", "\tX"];

const MEMO_PARTS: [&str; 24] = [
    "", "plain", "a, b", "say \"hi\"", "line1\nline2", "cr\rlf\r\n", " lead", "trail ", "é中文",
    "  ", "\t", "x;y", "'single'", "#hash", "\u{a0}nbsp\u{a0}", "\"",
    // backslashes (an escape character in some CSV dialects, not in this one), also next to quotes
    "C:\\dir\\f", "\\", "\\\"q\\\"", "a\\,b",
    // what a spreadsheet would take for a formula
    "=SUM(A1)", "+1", "-x", "@cmd",
];

pub const AFF_SPELLINGS: [&str; 18] = [
    "", "Default", "default", "DEFAULT", " spouse (r) ", "(R)", "Spouse", "SPOUSE", "spouse(R)",
    "a  b", "Ünï (r)", "(r)(R)", "Bob ( R )", "x (R) y", "  ", "((r)r)", "Default (R)", "Élan",
];

fn rand_memo(r: &mut Rng) -> String {
    let n = r.below(4);
    let mut s = String::new();
    for _ in 0..n {
        s.push_str(*r.pick(&MEMO_PARTS));
    }
    s
}

fn rand_date(r: &mut Rng) -> Date {
    let y = match r.below(20) {
        0 => r.range(0, 9999) as i32,
        1 => *r.pick(&[0, 1, 999, 1000, 9999, 1900, 2000, 2100]),
        _ => r.range(1990, 2035) as i32,
    };
    let m = r.range(1, 12) as u8;
    let mon = Month::try_from(m).unwrap();
    let dim = time::util::days_in_year_month(y, mon);
    let d = if r.chance(20) { dim } else { r.range(1, dim as i64) as u8 };
    Date::from_calendar_date(y, mon, d).unwrap()
}

fn rand_int_pos(r: &mut Rng, big: bool) -> Decimal {
    // integer value, possibly written with a scale
    let v: u128 = if big {
        match r.below(3) {
            0 => MAX96 / 10 - r.below(5) as u128,
            1 => MAX96 / 10 + 1 + r.below(5) as u128,
            _ => MAX96 - r.below(5) as u128,
        }
    } else {
        r.range(1, 1000) as u128
    };
    let sc = if r.chance(75) { 0 } else { r.below(3) as u32 };
    if (v as f64) * 10f64.powi(sc as i32) < (MAX96 as f64) * 0.99 {
        mk_dec(v * 10u128.pow(sc), sc)
    } else {
        mk_dec(v, 0)
    }
}

fn rand_split(r: &mut Rng, odd: bool) -> SplitRatio {
    let (post, pre) = match r.below(10) {
        0..=5 => (rand_int_pos(r, false), rand_int_pos(r, false)),
        6..=7 => (
            Decimal::new(r.range(1, 5000), r.below(4) as u32),
            Decimal::new(r.range(1, 5000), r.below(4) as u32),
        ),
        8 => {
            let b = r.chance(50);
            (rand_int_pos(r, b), rand_int_pos(r, true))
        }
        _ => (*rand_pos(r), *rand_pos(r)),
    };
    let post = PosDecimal::try_from(post).unwrap();
    let pre = PosDecimal::try_from(pre).unwrap();
    let reverse = *pre > *post;
    let ints = post.is_integer() && pre.is_integer();
    let mut io = reverse && ints && r.chance(50);
    if odd && r.chance(50) {
        io = !io; // outside the parser's normal form
    }
    SplitRatio { pre_split: pre, post_split: post, reverse_integer_only: io }
}

pub struct RtCase {
    pub txs: Vec<Tx>,
}

pub fn gen_rt(r: &mut Rng) -> RtCase {
    // now and then a long list (beyond the csv writer's 8 KiB buffer) with multi-byte memos
    let long = r.chance(2);
    let n = if long {
        r.range(250, 700)
    } else {
        match r.below(10) {
            0 => 0,
            1..=4 => r.range(1, 3),
            5..=8 => r.range(3, 8),
            _ => r.range(8, 20),
        }
    } as usize;
    if long {
        // plain, valid purchases: the point is the size of the file and the multi-byte memos
        let mut txs = Vec::new();
        for i in 0..n {
            txs.push(Tx {
                security: "FOO".to_string(),
                trade_date: Date::from_calendar_date(2020, Month::January, 2).unwrap(),
                settlement_date: Date::from_calendar_date(2020, Month::January, 6).unwrap(),
                action_specifics: TxActionSpecifics::Buy(BuyTxSpecifics {
                    shares: PosDecimal::try_from(mk_dec(1 + i as u128, 0)).unwrap(),
                    amount_per_share: GreaterEqualZeroDecimal::try_from(mk_dec(1050, 2)).unwrap(),
                    commission: GreaterEqualZeroDecimal::try_from(mk_dec(0, 0)).unwrap(),
                    tx_currency_and_rate: CurrencyAndExchangeRate::default(),
                    separate_commission_currency: None,
                }),
                memo: format!("{}日本語のメモ é {}", "x".repeat(r.below(4) as usize), i),
                affiliate: Affiliate::default(),
                read_index: i as u32,
            });
        }
        return RtCase { txs };
    }
    // odd = values outside the parser's normal form may appear (round trip need not be exact)
    let odd = r.chance(10);
    let all_default = r.chance(40);
    let few_optional = r.chance(30);
    let mut txs = Vec::new();
    for i in 0..n {
        let sec = if odd && r.chance(30) { *r.pick(&ODD_SECS) } else { *r.pick(&SECS) };
        let td = rand_date(r);
        let sd = if r.chance(50) { td } else { rand_date(r) };
        let roll = r.below(100);
        let spec = if roll < 35 {
            TxActionSpecifics::Buy(BuyTxSpecifics {
                shares: rand_pos(r),
                amount_per_share: rand_gez(r),
                commission: rand_gez(r),
                tx_currency_and_rate: if few_optional {
                    CurrencyAndExchangeRate::default()
                } else {
                    rand_cr(r, odd)
                },
                separate_commission_currency: if !few_optional && r.chance(30) {
                    Some(rand_cr(r, odd))
                } else {
                    None
                },
            })
        } else if roll < 65 {
            TxActionSpecifics::Sell(SellTxSpecifics {
                shares: rand_pos(r),
                amount_per_share: rand_gez(r),
                commission: rand_gez(r),
                tx_currency_and_rate: if few_optional {
                    CurrencyAndExchangeRate::default()
                } else {
                    rand_cr(r, odd)
                },
                separate_commission_currency: if !few_optional && r.chance(30) {
                    Some(rand_cr(r, odd))
                } else {
                    None
                },
                specified_superficial_loss: if !few_optional && r.chance(40) {
                    let mut d = if r.chance(20) { mk_dec(0, r.below(3) as u32) } else { rand_dec(r) };
                    if !d.is_zero() {
                        d.set_sign_negative(true);
                    } else if odd && r.chance(50) {
                        d.set_sign_negative(true); // negative zero
                    }
                    Some(SFLInput {
                        superficial_loss: LessEqualZeroDecimal::try_from(d).unwrap(),
                        force: r.chance(50),
                    })
                } else {
                    None
                },
            })
        } else if roll < 75 {
            TxActionSpecifics::Roc(RocTxSpecifics {
                amount_per_held_share: rand_gez(r),
                tx_currency_and_rate: rand_cr(r, odd),
            })
        } else if roll < 85 {
            TxActionSpecifics::Sfla(SflaTxSpecifics {
                shares_affected: rand_pos(r),
                amount_per_share: rand_pos(r),
            })
        } else {
            TxActionSpecifics::Split(SplitTxSpecifics { ratio: rand_split(r, odd) })
        };
        let is_split = matches!(spec, TxActionSpecifics::Split(_));
        let aff = if all_default {
            Affiliate::from_strep(*r.pick(&["", "Default", "default"]))
        } else if is_split && r.chance(40) {
            Affiliate::global()
        } else {
            Affiliate::from_strep(*r.pick(&AFF_SPELLINGS))
        };
        txs.push(Tx {
            security: sec.to_string(),
            trade_date: td,
            settlement_date: sd,
            action_specifics: spec,
            memo: if long { format!("{}日本語のメモ é {}", "x".repeat(r.below(4) as usize), i) } else { rand_memo(r) },
            affiliate: aff,
            read_index: if r.chance(50) { i as u32 } else { r.below(1000) as u32 },
        });
    }
    RtCase { txs }
}

// ------------------------------------------------------------------------------------------
// runner: round trip

fn read_back(text: &str) -> Result<Vec<Tx>, String> {
    let mut rd = DescribedReader::from_string("rt".to_string(), text.to_string());
    let csv_txs = parse_tx_csv(
        &mut rd,
        0,
        &TxCsvParseOptions::default(),
        &mut WriteHandle::empty_write_handle(),
    )?;
    let mut out = Vec::new();
    for c in csv_txs {
        out.push(Tx::try_from(c)?);
    }
    Ok(out)
}

fn write_all(txs: &Vec<Tx>) -> Result<Vec<u8>, String> {
    let csv_txs: Vec<CsvTx> = txs.iter().map(|t| t.to_csvtx()).collect();
    let mut buf: Vec<u8> = Vec::new();
    write_txs_to_csv(&csv_txs, &mut buf).map_err(|e| e.to_string())?;
    Ok(buf)
}

pub fn run_rt(id: &str, c: &RtCase, out: &mut String) {
    out.push_str(&format!("case {} csvrt kind=rt n={}\n", id, c.txs.len()));
    for t in &c.txs {
        out.push_str(&format!("in tx {}\n", tx_tok(t)));
    }
    let txs = c.txs.clone();
    let res = catch(move || {
        let mut o = String::new();
        let csv_txs: Vec<CsvTx> = txs.iter().map(|t| t.to_csvtx()).collect();
        let table = txs_to_csv_table(&csv_txs);
        o.push_str("impl hdr");
        for h in &table.header {
            o.push(' ');
            o.push_str(&stok(h));
        }
        o.push('\n');
        for (i, row) in table.rows.iter().enumerate() {
            o.push_str(&format!("impl row {}", i));
            for v in row {
                o.push(' ');
                o.push_str(&stok(v));
            }
            o.push('\n');
        }
        let b1 = match write_all(&txs) {
            Ok(b) => b,
            Err(e) => {
                o.push_str(&format!("impl write1 err {}\n", stok(&e)));
                return (o, None);
            }
        };
        o.push_str(&format!("impl bytes1 {}\n", hex(&b1)));
        // the same list through the in-memory writer (what the web UI and the summary mode use)
        {
            let (mut wh, sb) = acb::util::rw::WriteHandle::string_buff_write_handle();
            match write_txs_to_csv(&csv_txs, &mut wh) {
                Ok(_) => {
                    if sb.borrow().as_str().as_bytes() == &b1[..] {
                        o.push_str("impl sbuf same\n");
                    } else {
                        o.push_str("impl sbuf differ\n");
                    }
                }
                Err(e) => o.push_str(&format!("impl sbuf err {}\n", stok(&e.to_string()))),
            }
        }
        let text = match String::from_utf8(b1.clone()) {
            Ok(t) => t,
            Err(_) => {
                o.push_str("impl read err sutf8\n");
                return (o, Some(b1));
            }
        };
        match read_back(&text) {
            Err(e) => o.push_str(&format!("impl read err {}\n", stok(&e))),
            Ok(back) => {
                o.push_str(&format!("impl read ok {}\n", back.len()));
                for (i, t) in back.iter().enumerate() {
                    o.push_str(&format!("impl rtx {}\n", tx_tok(t)));
                    // field-wise equality by the implementation's own `==`
                    if let Some(orig) = txs.get(i) {
                        o.push_str(&format!(
                            "impl same {} {} {} {} {} {} {}\n",
                            i,
                            (orig.security == t.security) as u8,
                            (orig.trade_date == t.trade_date) as u8,
                            (orig.settlement_date == t.settlement_date) as u8,
                            (orig.action_specifics == t.action_specifics) as u8,
                            (orig.affiliate == t.affiliate) as u8,
                            (orig.memo.trim() == t.memo) as u8,
                        ));
                    }
                }
                match write_all(&back) {
                    Ok(b2) => {
                        o.push_str(&format!("impl bytes2 {}\n", hex(&b2)));
                        // once more: read the second file, write a third
                        if let Ok(back2) = read_back(&String::from_utf8_lossy(&b2)) {
                            if let Ok(b3) = write_all(&back2) {
                                o.push_str(&format!("impl bytes3 {}\n", hex(&b3)));
                            }
                        }
                    }
                    Err(e) => o.push_str(&format!("impl write2 err {}\n", stok(&e))),
                }
            }
        }
        (o, Some(b1))
    });
    match res {
        Ok((o, b1)) => {
            out.push_str(&o);
            if let Some(b) = b1 {
                out.push_str(&format!("repro {}\n", oneline(&String::from_utf8_lossy(&b))));
            }
        }
        Err(p) => out.push_str(&format!("impl panic {}\n", p.replace(' ', "_"))),
    }
    out.push_str("end\n");
}

pub fn parse_rt(lines: &[String]) -> Option<RtCase> {
    let mut txs = Vec::new();
    for l in lines.iter().skip(1) {
        let t: Vec<&str> = l.split_whitespace().collect();
        if t.len() > 2 && t[0] == "in" && t[1] == "tx" {
            txs.push(parse_tx_tok(&t[2..])?);
        }
    }
    Some(RtCase { txs })
}

// ------------------------------------------------------------------------------------------
// cell-level observations

const DEC_TEXTS: [&str; 28] = [
    "0", "-0", "0.0", "-0.00", "1", "+1", "-1", "1.", ".5", ".", "", "-", "1.2.3", "1e5", "abc", " 1",
    "1 ", "00012.3400", "79228162514264337593543950335", "79228162514264337593543950336",
    "7922816251426433759354395033.5", "0.0000000000000000000000000001",
    "0.00000000000000000000000000001", "12,5", "１２", "1-", "--1", "1.5!",
];

const SPLIT_TEXTS: [&str; 24] = [
    "2-for-1", "1-for-2", "1.0-for-2.0", "1.-for-2", "1-FOR-2", "1-For-2.5", " 3-for-1 ", "3 -for-1",
    "3-for-", "-for-1", "0-for-1", "1-for-0", "1..2-for-1", "1-for-1", "2-for-1-for-1", "2for1", "",
    "1.50-for-1", "10-for-1.0", "1.0-for-1", "٣-for-1", "1-for-2x", "2.-for-3.", ".5-for-1",
];

const SFL_TEXTS: [&str; 14] = [
    "-1.5", "-1.5!", "0", "0!", "-0.00", "1.5", "1.5!", "!", "", "-1.5!!", "-1.5 !", "abc!", "-.5!", "- 1",
];

const DATE_TEXTS: [&str; 16] = [
    "2020-01-05", "2020-1-5", "2020-02-30", "2020-02-29", "2019-02-29", "1900-02-29", "2000-02-29",
    "0000-01-01", "9999-12-31", "20200105", "2020/01/05", "2020-13-01", "2020-00-10", "2020-01-00",
    "2020-01-32", "",
];

const ACT_TEXTS: [&str; 12] =
    ["Buy", "buy", "SELL", " RoC ", "SfLA", "sfla", "split", "Sold", "bought", "", "b uy", "ＢＵＹ"];

const TEXT_ALPHABET: [&str; 24] = [
    "a", "B", "z", "Z", " ", "  ", "\t", "\u{a0}", "\u{2003}", "\u{3000}", "(", ")", "r", "R", "(r)",
    "(R)", "é", "É", "Ж", "ж", "ł", "İ", "\u{212a}", "ß",
];

fn rand_text(r: &mut Rng, max: u64) -> String {
    let n = r.below(max + 1);
    let mut s = String::new();
    for _ in 0..n {
        s.push_str(*r.pick(&TEXT_ALPHABET));
    }
    s
}

pub fn gen_cells(r: &mut Rng) -> Vec<(String, String)> {
    let mut v: Vec<(String, String)> = Vec::new();
    let n = r.range(3, 10);
    for _ in 0..n {
        match r.below(12) {
            0 | 1 => {
                // to_string_min_precision on an arbitrary decimal
                let mut d = rand_dec(r);
                if r.chance(40) {
                    d.set_sign_negative(true);
                }
                // acb only ever asks for a minimum precision of 0 or 2
                v.push(("minp".into(), format!("{} {}", dtok(&d), r.below(3))));
            }
            2 => {
                // Display with a precision
                // rust_decimal's Display buffer holds 32 characters: larger requests panic there
                let d = rand_dec(r);
                let whole = d.trunc().to_string().len() as u64;
                let maxp = if whole + 1 >= 32 { 0 } else { std::cmp::min(28, 32 - whole - 1) };
                v.push(("disp".into(), format!("{} {}", dtok(&d), r.below(maxp + 1))));
            }
            3 => {
                let t = if r.chance(50) {
                    r.pick(&DEC_TEXTS).to_string()
                } else {
                    let mut d = rand_dec(r);
                    if r.chance(30) {
                        d.set_sign_negative(true);
                    }
                    d.to_string()
                };
                v.push(("dec".into(), stok(&t)));
            }
            4 => {
                let t = if r.chance(60) {
                    r.pick(&SPLIT_TEXTS).to_string()
                } else {
                    format!("{}", rand_split(r, true))
                };
                v.push(("split".into(), stok(&t)));
            }
            5 => v.push(("sfl".into(), stok(*r.pick(&SFL_TEXTS)))),
            6 => {
                let t = if r.chance(50) { r.pick(&AFF_SPELLINGS).to_string() } else { rand_text(r, 8) };
                v.push(("strep".into(), stok(&t)));
            }
            7 => {
                let t = if r.chance(50) {
                    r.pick(&DATE_TEXTS).to_string()
                } else {
                    format!("{}", rand_date(r))
                };
                v.push(("date".into(), stok(&t)));
            }
            8 => v.push(("act".into(), stok(*r.pick(&ACT_TEXTS)))),
            9 => {
                let t = if r.chance(50) { r.pick(&CURS).to_string() } else { rand_text(r, 4) };
                v.push(("cur".into(), stok(&t)));
            }
            10 => v.push(("trim".into(), stok(&rand_text(r, 8)))),
            _ => v.push(("lower".into(), stok(&rand_text(r, 8)))),
        }
    }
    v
}

fn dec_obs(r: Result<Decimal, rust_decimal::Error>) -> String {
    match r {
        Ok(d) => format!("ok {}", dtok(&d)),
        Err(_) => "err".to_string(),
    }
}

fn cell_obs(kind: &str, arg: &str) -> Option<String> {
    let toks: Vec<&str> = arg.split_whitespace().collect();
    Some(match kind {
        "minp" => {
            let d = undtok(toks.first()?)?;
            let p: usize = toks.get(1)?.parse().ok()?;
            stok(&to_string_min_precision(&d, p))
        }
        "disp" => {
            let d = undtok(toks.first()?)?;
            let p: usize = toks.get(1)?.parse().ok()?;
            format!("{} {}", stok(&format!("{:.1$}", d, p)), stok(&d.to_string()))
        }
        "dec" => {
            let s = unstok(toks.first()?)?;
            format!("{} exact {}", dec_obs(Decimal::from_str(&s)), dec_obs(Decimal::from_str_exact(&s)))
        }
        "split" => {
            let s = unstok(toks.first()?)?;
            match SplitRatio::parse(&s) {
                Ok(x) => format!(
                    "ok {} {} {} {}",
                    dtok(&x.post_split),
                    dtok(&x.pre_split),
                    x.reverse_integer_only as u8,
                    stok(&x.to_string())
                ),
                Err(_) => "err".to_string(),
            }
        }
        "sfl" => {
            // parse_csv_superficial_loss is private: observed through a one-row CSV
            let s = unstok(toks.first()?)?;
            let text = format!(
                "security,trade date,settlement date,action,shares,amount/share,superficial loss\nFOO,2020-01-01,2020-01-01,Sell,1,1,\"{}\"\n",
                s.replace('"', "\"\"")
            );
            let mut rd = DescribedReader::from_string("sfl".to_string(), text);
            match parse_tx_csv(
                &mut rd,
                0,
                &TxCsvParseOptions::default(),
                &mut WriteHandle::empty_write_handle(),
            ) {
                Ok(v) if v.len() == 1 => match &v[0].specified_superficial_loss {
                    Some(x) => format!("ok {} {}", dtok(&x.superficial_loss), x.force as u8),
                    None => "absent".to_string(),
                },
                Ok(_) => "rows".to_string(),
                Err(_) => "err".to_string(),
            }
        }
        "strep" => {
            let s = unstok(toks.first()?)?;
            let a = AffiliateDedupTable::new().deduped_affiliate(&s);
            format!("{} {} {}", stok(a.id()), stok(a.name()), a.registered() as u8)
        }
        "date" => {
            let s = unstok(toks.first()?)?;
            match acb::util::date::parse_standard_date(&s) {
                Ok(d) => format!("ok {} {}", date_tok(d), stok(&d.to_string())),
                Err(_) => "err".to_string(),
            }
        }
        "act" => {
            // parse_csv_action is private: observed through a one-row CSV
            let s = unstok(toks.first()?)?;
            let text = format!("action\n\"{}\"\n", s.replace('"', "\"\""));
            let mut rd = DescribedReader::from_string("act".to_string(), text);
            match parse_tx_csv(
                &mut rd,
                0,
                &TxCsvParseOptions::default(),
                &mut WriteHandle::empty_write_handle(),
            ) {
                Ok(v) if v.len() == 1 => match v[0].action {
                    Some(a) => format!("ok {}", stok(&a.to_string())),
                    None => "absent".to_string(),
                },
                Ok(_) => "rows".to_string(),
                Err(_) => "err".to_string(),
            }
        }
        "cur" => stok(Currency::new(&unstok(toks.first()?)?).as_str()),
        "trim" => stok(unstok(toks.first()?)?.trim()),
        "lower" => {
            let s = unstok(toks.first()?)?;
            format!("{} {}", stok(&s.to_lowercase()), stok(&s.to_uppercase()))
        }
        _ => return None,
    })
}

pub fn run_cells(id: &str, cells: &[(String, String)], out: &mut String) {
    out.push_str(&format!("case {} csvrt kind=cell n={}\n", id, cells.len()));
    for (k, a) in cells {
        out.push_str(&format!("in {} {}\n", k, a));
        let (k2, a2) = (k.clone(), a.clone());
        match catch(move || cell_obs(&k2, &a2)) {
            Ok(Some(o)) => out.push_str(&format!("impl {} {}\n", k, o)),
            Ok(None) => out.push_str(&format!("impl {} badinput\n", k)),
            Err(p) => out.push_str(&format!("impl {} panic {}\n", k, p.replace(' ', "_"))),
        }
    }
    out.push_str("end\n");
}

pub fn parse_cells(lines: &[String]) -> Vec<(String, String)> {
    let mut v = Vec::new();
    for l in lines.iter().skip(1) {
        if let Some(rest) = l.strip_prefix("in ") {
            let mut it = rest.splitn(2, ' ');
            let k = it.next().unwrap_or("").to_string();
            let a = it.next().unwrap_or("").to_string();
            v.push((k, a));
        }
    }
    v
}

pub fn run_generated(seed: u64, i: u64, r: &mut Rng, out: &mut String) {
    if i % 4 == 3 {
        let cells = gen_cells(r);
        run_cells(&format!("K{}-{}", seed, i), &cells, out);
    } else {
        let c = gen_rt(r);
        run_rt(&format!("R{}-{}", seed, i), &c, out);
    }
}

pub fn replay(lines: &[String], out: &mut String) -> bool {
    let head: Vec<&str> = lines[0].split_whitespace().collect();
    let id = head.get(1).copied().unwrap_or("R");
    if head.iter().any(|t| *t == "kind=cell") {
        run_cells(id, &parse_cells(lines), out);
        true
    } else if let Some(c) = parse_rt(lines) {
        run_rt(id, &c, out);
        true
    } else {
        false
    }
}
