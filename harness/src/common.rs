//! Helpers shared by all families: panic capture, affiliates, decimals, dates.
use std::cell::RefCell;
use std::panic::{self, AssertUnwindSafe};

use acb::portfolio::Affiliate;
use rust_decimal::Decimal;
use time::Date;

thread_local! {
    static LAST_PANIC: RefCell<String> = RefCell::new(String::new());
}

pub fn install_panic_hook() {
    panic::set_hook(Box::new(|info| {
        let loc = info
            .location()
            .map(|l| format!("{}:{}", l.file(), l.line()))
            .unwrap_or_else(|| "?".to_string());
        let msg = if let Some(s) = info.payload().downcast_ref::<&str>() {
            s.to_string()
        } else if let Some(s) = info.payload().downcast_ref::<String>() {
            s.clone()
        } else {
            "?".to_string()
        };
        LAST_PANIC.with(|p| *p.borrow_mut() = format!("{} {}", loc, msg));
    }));
}

/// Runs `f`, returning Err(location + message) if it panicked.
pub fn catch<T>(f: impl FnOnce() -> T) -> Result<T, String> {
    match panic::catch_unwind(AssertUnwindSafe(f)) {
        Ok(v) => Ok(v),
        Err(_) => Err(LAST_PANIC.with(|p| p.borrow().clone())),
    }
}

/// single-line, space-free rendering of arbitrary text for the protocol
pub fn oneline(s: &str) -> String {
    s.replace('\\', "\\\\").replace('\n', "\\n").replace('\r', "\\r")
}

pub fn unescape(s: &str) -> String {
    let mut out = String::new();
    let mut it = s.chars();
    while let Some(c) = it.next() {
        if c == '\\' {
            match it.next() {
                Some('n') => out.push('\n'),
                Some('r') => out.push('\r'),
                Some('\\') => out.push('\\'),
                Some(x) => {
                    out.push('\\');
                    out.push(x)
                }
                None => out.push('\\'),
            }
        } else {
            out.push(c);
        }
    }
    out
}

/// Reads protocol cases from stdin and re-runs those that `parse` can rebuild.
pub fn replay_stdin<C>(parse: impl Fn(&[String]) -> Option<C>, run: impl Fn(&str, &C, &mut String)) -> String {
    let mut buf = String::new();
    std::io::Read::read_to_string(&mut std::io::stdin(), &mut buf).unwrap();
    let mut cur: Vec<String> = Vec::new();
    let mut out = String::new();
    for l in buf.lines() {
        if l.starts_with("case ") {
            cur = vec![l.to_string()];
        } else if l == "end" {
            if let Some(c) = parse(&cur) {
                let id = cur[0].split_whitespace().nth(1).unwrap_or("R").to_string();
                run(&id, &c, &mut out);
            }
            cur.clear();
        } else if !cur.is_empty() {
            cur.push(l.to_string());
        }
    }
    if out.is_empty() {
        eprintln!("no replayable case on stdin");
        std::process::exit(2);
    }
    out
}

pub fn dec(s: &str) -> Decimal {
    Decimal::from_str_exact(s).unwrap()
}

pub fn d_i(mantissa: i64, scale: u32) -> Decimal {
    Decimal::new(mantissa, scale)
}

pub fn jd(d: Date) -> i32 {
    d.to_julian_day()
}

pub fn date_from_jd(j: i32) -> Date {
    Date::from_julian_day(j).unwrap()
}

pub fn date_str(d: Date) -> String {
    format!("{:04}-{:02}-{:02}", d.year(), d.month() as u8, d.day())
}

/// Universe of affiliates of a case: key = rank of id() string.
pub struct AffUniverse {
    pub affs: Vec<Affiliate>, // sorted by id
}

impl AffUniverse {
    pub fn new(names: &[&str]) -> Self {
        let mut affs: Vec<Affiliate> = Vec::new();
        // The default affiliate is always part of the ranking (opening positions use it).
        let mut all: Vec<String> = names.iter().map(|s| s.to_string()).collect();
        all.push("Default".to_string());
        for n in all {
            let a = Affiliate::from_strep(&n);
            if !affs.iter().any(|x| x.id() == a.id()) {
                affs.push(a);
            }
        }
        affs.sort_by(|a, b| a.id().cmp(b.id()));
        AffUniverse { affs }
    }
    pub fn key(&self, a: &Affiliate) -> usize {
        self.affs.iter().position(|x| x.id() == a.id()).expect("affiliate not in universe")
    }
    pub fn tok(&self, a: &Affiliate) -> String {
        format!("{} {}", self.key(a), if a.registered() { "R" } else { "N" })
    }
    pub fn default_key(&self) -> usize {
        self.key(&Affiliate::default())
    }
}

pub fn opt_dec(d: Option<Decimal>) -> String {
    match d {
        Some(v) => v.to_string(),
        None => "-".to_string(),
    }
}

/// Replay modes: the protocol lines of every case on stdin (from `case` up to, not including, `end`).
pub fn read_cases_stdin() -> Vec<Vec<String>> {
    let mut buf = String::new();
    std::io::Read::read_to_string(&mut std::io::stdin(), &mut buf).unwrap();
    let mut res = Vec::new();
    let mut cur: Vec<String> = Vec::new();
    for l in buf.lines() {
        if l.starts_with("case ") {
            cur = vec![l.to_string()];
        } else if l == "end" {
            if !cur.is_empty() {
                res.push(std::mem::take(&mut cur));
            }
        } else if !cur.is_empty() {
            cur.push(l.to_string());
        }
    }
    res
}
