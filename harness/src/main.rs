//! acb_verif_harness: correspondence harness between the real acb code and the Lean model.
//! Usage: acb_verif_harness <family> --seed N --count N
//! Writes protocol lines (see lean/Driver/Proto.lean) to stdout.
mod appgen;
mod common;
mod costs;
mod determinism;
mod gains;
mod ledger;
mod rng;

use std::io::Write;

fn arg_val(args: &[String], name: &str, default: u64) -> u64 {
    args.iter()
        .position(|a| a == name)
        .and_then(|i| args.get(i + 1))
        .and_then(|v| v.parse().ok())
        .unwrap_or(default)
}

fn main() {
    // multi-call: re-executed as the real `acb` front end (family determinism)
    if std::env::var("ACB_VERIF_MULTICALL").as_deref() == Ok("acb") {
        std::process::exit(if acb::cmd::command_main().is_ok() { 0 } else { 1 });
    }
    let args: Vec<String> = std::env::args().collect();
    if args.len() < 2 {
        eprintln!("usage: acb_verif_harness <family> --seed N --count N");
        std::process::exit(2);
    }
    common::install_panic_hook();
    let seed = arg_val(&args, "--seed", 1);
    let count = arg_val(&args, "--count", 100);
    let stdout = std::io::stdout();
    let mut w = std::io::BufWriter::new(stdout.lock());
    match args[1].as_str() {
        "ledger" => {
            let mut r = rng::Rng::new(seed);
            for i in 0..count {
                let mut cr = r.fork();
                let c = ledger::gen_case(&mut cr);
                let mut s = String::new();
                ledger::run_case(&format!("L{}-{}", seed, i), &c, &mut s);
                w.write_all(s.as_bytes()).unwrap();
            }
        }
        "ledger-replay" => {
            // stdin: protocol lines of one or more cases (only `case` and `tx` lines are used)
            let mut buf = String::new();
            std::io::Read::read_to_string(&mut std::io::stdin(), &mut buf).unwrap();
            let mut cur: Vec<String> = Vec::new();
            let mut n = 0;
            for l in buf.lines() {
                if l.starts_with("case ") {
                    cur = vec![l.to_string()];
                } else if l == "end" {
                    if let Some(c) = ledger::parse_case(&cur) {
                        let id = cur[0].split_whitespace().nth(1).unwrap_or("R").to_string();
                        let mut s = String::new();
                        ledger::run_case(&id, &c, &mut s);
                        w.write_all(s.as_bytes()).unwrap();
                        n += 1;
                    }
                    cur.clear();
                } else if !cur.is_empty() {
                    cur.push(l.to_string());
                }
            }
            if n == 0 {
                eprintln!("no replayable case on stdin");
                std::process::exit(2);
            }
        }
        "costs" => {
            let mut r = rng::Rng::new(seed);
            for i in 0..count {
                let mut cr = r.fork();
                let c = costs::gen_case(&mut cr);
                let mut s = String::new();
                costs::run_case(&format!("K{}-{}", seed, i), &c, &mut s);
                w.write_all(s.as_bytes()).unwrap();
            }
        }
        "determinism" => {
            let runs = arg_val(&args, "--runs", 10) as usize;
            let mut r = rng::Rng::new(seed);
            for i in 0..count {
                let mut cr = r.fork();
                let c = determinism::gen_case(&mut cr);
                let mut s = String::new();
                determinism::run_case(&format!("D{}-{}", seed, i), &c, runs, &mut s);
                w.write_all(s.as_bytes()).unwrap();
            }
            determinism::cleanup();
        }
        "determinism-replay" => {
            let runs = arg_val(&args, "--runs", 30) as usize;
            let s = common::replay_stdin(determinism::parse_case, |id, c, out| determinism::run_case(id, c, runs, out));
            determinism::cleanup();
            w.write_all(s.as_bytes()).unwrap();
        }
        "gains" => {
            let mut r = rng::Rng::new(seed);
            for i in 0..count {
                let mut cr = r.fork();
                let c = gains::gen_case(&mut cr);
                let mut s = String::new();
                gains::run_case(&format!("G{}-{}", seed, i), &c, &mut s);
                w.write_all(s.as_bytes()).unwrap();
            }
        }
        "gains-replay" => {
            let s = common::replay_stdin(gains::parse_case, gains::run_case);
            w.write_all(s.as_bytes()).unwrap();
        }
        "costs-replay" => {
            let s = common::replay_stdin(costs::parse_case, costs::run_case);
            w.write_all(s.as_bytes()).unwrap();
        }
        f => {
            eprintln!("unknown family {}", f);
            std::process::exit(2);
        }
    }
    w.flush().unwrap();
}
