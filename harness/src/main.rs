//! acb_verif_harness: correspondence harness between the real acb code and the Lean model.
//! Usage: acb_verif_harness <family> --seed N --count N
//! Writes protocol lines (see lean/Driver/Proto.lean) to stdout.
mod app;
mod cli;
mod appgen;
mod costs;
mod determinism;
mod gains;
mod common;
mod etrade;
mod fmv;
mod fmvpdf;
mod errvis;
mod fuzz;
mod fx;
mod fxcache;
mod fxcommon;
mod fxcrash;
mod fxmain;
mod ledger;
mod pages;
mod rng;
mod splitneutral;
mod summary;
mod symbase;
mod questrade;
mod csvrt;
mod layout;

use std::io::Write;

fn arg_val(args: &[String], name: &str, default: u64) -> u64 {
    args.iter()
        .position(|a| a == name)
        .and_then(|i| args.get(i + 1))
        .and_then(|v| v.parse().ok())
        .unwrap_or(default)
}

/// Generic `<family>-replay`: stdin holds protocol lines of one or more cases; `f` re-runs one case
/// from its `case` + input lines and appends the new protocol lines.
fn replay_stdin(w: &mut dyn Write, f: fn(&[String], &mut String) -> bool) {
    let mut buf = String::new();
    std::io::Read::read_to_string(&mut std::io::stdin(), &mut buf).unwrap();
    let mut cur: Vec<String> = Vec::new();
    let mut n = 0;
    for l in buf.lines() {
        if l.starts_with("case ") {
            cur = vec![l.to_string()];
        } else if l == "end" {
            let mut s = String::new();
            if !cur.is_empty() && f(&cur, &mut s) {
                w.write_all(s.as_bytes()).unwrap();
                n += 1;
            }
            cur.clear();
        } else if !cur.is_empty() {
            cur.push(l.to_string());
        }
    }
    if n == 0 {
        eprintln!("no replayable case on stdin");
        std::process::exit(2);
    }
}

fn main() {
    // multi-call: re-executed as the real `acb` front end (family determinism)
    if std::env::var("ACB_VERIF_MULTICALL").as_deref() == Ok("acb") {
        std::process::exit(if acb::cmd::command_main().is_ok() { 0 } else { 1 });
    }
    // ... or as the real `questrade-statement-fmv` tool (family fmvpdf)
    if std::env::var("ACB_VERIF_MULTICALL").as_deref() == Ok("qfmv") {
        std::process::exit(if acb::peripheral::questrade_statement_fmv_impl::run().is_ok() { 0 } else { 1 });
    }
    let args: Vec<String> = std::env::args().collect();
    if args.len() < 2 {
        eprintln!("usage: acb_verif_harness <family> --seed N --count N");
        std::process::exit(2);
    }
    common::install_panic_hook();
    let seed = arg_val(&args, "--seed", 1);
    let count = arg_val(&args, "--count", 100);
    let stdout = std::io::stdout();
    let mut w = std::io::BufWriter::new(stdout.lock());
    match args[1].as_str() {
        "ledger" => {
            let mut r = rng::Rng::new(seed);
            for i in 0..count {
                let mut cr = r.fork();
                let c = if i % 25 == 7 { ledger::gen_bulk_case(&mut cr) } else if i % 25 == 13 { ledger::gen_extreme_case(&mut cr) } else { ledger::gen_case(&mut cr) };
                let mut s = String::new();
                ledger::run_case(&format!("L{}-{}", seed, i), &c, &mut s);
                w.write_all(s.as_bytes()).unwrap();
            }
        }
        "window" => {
            // first the systematic enumeration (1 sale x 1 buy x offsets -33..33 x file order x buyer
            // kind = 402 cases), then random cases
            let mut r = rng::Rng::new(seed ^ 0xC02);
            for i in 0..count {
                let mut cr = r.fork();
                let c = if i >= 402 && i % 7 == 3 { ledger::gen_window_boundary_case(&mut cr) } else { ledger::gen_window_case(&mut cr, if i < 402 { Some(i) } else { None }) };
                let mut s = String::new();
                ledger::run_case(&format!("W{}-{}", seed, i), &c, &mut s);
                w.write_all(s.as_bytes()).unwrap();
            }
        }
        "symbase" => {
            let mut r = rng::Rng::new(seed ^ 0xC16);
            for i in 0..count {
                let mut cr = r.fork();
                let mut s = String::new();
                if i % 10 == 9 {
                    symbase::run_parse_case(&format!("Y{}-{}", seed, i), &mut cr, &mut s);
                } else if i % 10 == 4 {
                    symbase::run_casekey_case(&format!("Y{}-{}", seed, i), &mut cr, &mut s);
                } else {
                    symbase::run_case(&format!("Y{}-{}", seed, i), &mut cr, &mut s);
                }
                w.write_all(s.as_bytes()).unwrap();
            }
        }
        "splitneutral" => {
            let mut r = rng::Rng::new(seed ^ 0xC15);
            for i in 0..count {
                let mut cr = r.fork();
                let mut s = String::new();
                splitneutral::run_case(&format!("N{}-{}", seed, i), &mut cr, &mut s);
                w.write_all(s.as_bytes()).unwrap();
            }
        }
        "errvis" => {
            let mut r = rng::Rng::new(seed ^ 0xE44);
            for i in 0..count {
                let mut cr = r.fork();
                let mut s = String::new();
                errvis::run_case(&format!("V{}-{}", seed, i), &mut cr, &mut s);
                w.write_all(s.as_bytes()).unwrap();
            }
        }
        "fuzz" => {
            let mut r = rng::Rng::new(seed ^ 0xC05);
            for i in 0..count {
                let mut cr = r.fork();
                let mut s = String::new();
                fuzz::run_case(&format!("Z{}-{}", seed, i), &mut cr, &mut s);
                w.write_all(s.as_bytes()).unwrap();
            }
        }
        "summary" => {
            let mut r = rng::Rng::new(seed ^ 0xC10);
            for i in 0..count {
                let mut cr = r.fork();
                let mut s = String::new();
                summary::run_case(&format!("U{}-{}", seed, i), &mut cr, &mut s);
                w.write_all(s.as_bytes()).unwrap();
            }
        }
        "app" => {
            let mut r = rng::Rng::new(seed ^ 0xA99);
            for i in 0..count {
                let mut cr = r.fork();
                let c = app::gen_case(&mut cr);
                let mut s = String::new();
                app::run_case(&format!("A{}-{}", seed, i), &c, &mut s);
                w.write_all(s.as_bytes()).unwrap();
            }
        }
        "ledger-replay" => {
            // stdin: protocol lines of one or more cases (only `case` and `tx` lines are used)
            let mut buf = String::new();
            std::io::Read::read_to_string(&mut std::io::stdin(), &mut buf).unwrap();
            let mut cur: Vec<String> = Vec::new();
            let mut n = 0;
            for l in buf.lines() {
                if l.starts_with("case ") {
                    cur = vec![l.to_string()];
                } else if l == "end" {
                    if let Some(c) = ledger::parse_case(&cur) {
                        let id = cur[0].split_whitespace().nth(1).unwrap_or("R").to_string();
                        let mut s = String::new();
                        ledger::run_case(&id, &c, &mut s);
                        w.write_all(s.as_bytes()).unwrap();
                        n += 1;
                    }
                    cur.clear();
                } else if !cur.is_empty() {
                    cur.push(l.to_string());
                }
            }
            if n == 0 {
                eprintln!("no replayable case on stdin");
                std::process::exit(2);
            }
        }
        "etrade" => {
            let root = etrade::scratch_root();
            for (i, c) in etrade::recorded().iter().enumerate() {
                let mut s = String::new();
                etrade::run_case(&format!("ER{}", i), c, &root, &mut s);
                w.write_all(s.as_bytes()).unwrap();
            }
            let mut r = rng::Rng::new(seed);
            for i in 0..count {
                let mut cr = r.fork();
                let c = etrade::gen_case(&mut cr);
                let mut s = String::new();
                etrade::run_case(&format!("E{}-{}", seed, i), &c, &root, &mut s);
                w.write_all(s.as_bytes()).unwrap();
            }
            let _ = std::fs::remove_dir_all(&root);
        }
        "etrade-blowup" => {
            etrade::blowup(count as u32);
            return;
        }
        "fmv" => {
            for (i, c) in fmv::corpus().iter().enumerate() {
                let mut s = String::new();
                fmv::run_case(&format!("FC{}", i), c, &mut s);
                w.write_all(s.as_bytes()).unwrap();
            }
            let mut r = rng::Rng::new(seed);
            for i in 0..count {
                let mut cr = r.fork();
                let c = fmv::gen_case(&mut cr);
                let mut s = String::new();
                fmv::run_case(&format!("F{}-{}", seed, i), &c, &mut s);
                w.write_all(s.as_bytes()).unwrap();
            }
        }
        "fmv-replay" => {
            let mut n = 0;
            for c in common::read_cases_stdin() {
                let mut s = String::new();
                if fmv::replay(&c, &mut s) {
                    w.write_all(s.as_bytes()).unwrap();
                    n += 1;
                }
            }
            if n == 0 {
                eprintln!("no replayable case on stdin");
                std::process::exit(2);
            }
        }
        "pages" => {
            let exh = arg_val(&args, "--exh", if count >= 2000 { 4 } else { 3 }) as u32;
            pages::run_family(seed, count, exh, &mut w);
        }
        "pages-replay" => {
            let mut docs = pages::Docs::new();
            let mut n = 0;
            for c in common::read_cases_stdin() {
                let mut s = String::new();
                if pages::replay(&c, &mut docs, &mut s) {
                    w.write_all(s.as_bytes()).unwrap();
                    n += 1;
                }
            }
            if n == 0 {
                eprintln!("no replayable case on stdin");
                std::process::exit(2);
            }
        }
        "questrade" => {
            let scratch = questrade::Scratch::new();
            // minimised past failures first (corpus/C18/*.case next to the harness crate)
            for s in questrade::corpus_cases(&scratch) {
                w.write_all(s.as_bytes()).unwrap();
            }
            // Rng::new(seed) is affine in the seed (streams of consecutive seeds overlap, shifted
            // by one draw); start from a mixed state instead so that seeds are independent.
            let mut r = rng::Rng(rng::Rng::new(seed ^ 0x5154).next());
            for i in 0..count {
                let mut cr = r.fork();
                let c = questrade::gen_case(&mut cr);
                let mut s = String::new();
                questrade::run_case(&format!("Q{}-{}", seed, i), &c, &scratch, &mut s);
                w.write_all(s.as_bytes()).unwrap();
            }
        }
        "questrade-replay" => {
            let scratch = questrade::Scratch::new();
            let mut buf = String::new();
            std::io::Read::read_to_string(&mut std::io::stdin(), &mut buf).unwrap();
            let mut cur: Vec<String> = Vec::new();
            let mut n = 0;
            for l in buf.lines() {
                if l.starts_with("case ") {
                    cur = vec![l.to_string()];
                } else if l == "end" {
                    if let Some(c) = questrade::parse_case(&cur) {
                        let id = cur[0].split_whitespace().nth(1).unwrap_or("R").to_string();
                        let mut s = String::new();
                        questrade::run_case(&id, &c, &scratch, &mut s);
                        w.write_all(s.as_bytes()).unwrap();
                        n += 1;
                    }
                    cur.clear();
                } else if !cur.is_empty() {
                    cur.push(l.to_string());
                }
            }
            if n == 0 {
                eprintln!("no replayable case on stdin");
                std::process::exit(2);
            }
        }
        "csvrt" => {
            let mut r = rng::Rng::new(seed);
            for i in 0..count {
                let mut cr = r.fork();
                let mut s = String::new();
                csvrt::run_generated(seed, i, &mut cr, &mut s);
                w.write_all(s.as_bytes()).unwrap();
            }
        }
        "layout" => {
            let mut r = rng::Rng::new(seed);
            for i in 0..count {
                let mut cr = r.fork();
                let c = layout::gen_case(&mut cr);
                let mut s = String::new();
                layout::run_case(&format!("Y{}-{}", seed, i), &c, &mut s);
                w.write_all(s.as_bytes()).unwrap();
            }
        }
        "layout-replay" => replay_stdin(&mut w, layout::replay),
        "app-replay" => replay_stdin(&mut w, app::replay),
        "summary-replay" => replay_stdin(&mut w, summary::replay),
        "csvrt-replay" => replay_stdin(&mut w, csvrt::replay),
        "fmvpdf" => {
            let mut r = rng::Rng::new(seed ^ 0xF3D);
            for i in 0..count {
                let mut cr = r.fork();
                let mut s = String::new();
                fmvpdf::run_case(&format!("P{}-{}", seed, i), &mut cr, &mut s);
                w.write_all(s.as_bytes()).unwrap();
            }
            fmvpdf::cleanup();
        }
        "cli" => {
            let mut r = rng::Rng::new(seed ^ 0xC11);
            for i in 0..count {
                let mut cr = r.fork();
                let mut s = String::new();
                cli::run_case(&format!("I{}-{}", seed, i), &mut cr, &mut s);
                w.write_all(s.as_bytes()).unwrap();
            }
            cli::cleanup();
        }
        "costs" => {
            let mut r = rng::Rng::new(seed);
            for i in 0..count {
                let mut cr = r.fork();
                let c = costs::gen_case(&mut cr);
                let mut s = String::new();
                costs::run_case(&format!("K{}-{}", seed, i), &c, &mut s);
                w.write_all(s.as_bytes()).unwrap();
            }
        }
        "determinism" => {
            let runs = arg_val(&args, "--runs", 10) as usize;
            let mut r = rng::Rng::new(seed);
            for i in 0..count {
                let mut cr = r.fork();
                let c = determinism::gen_case(&mut cr);
                let mut s = String::new();
                determinism::run_case(&format!("D{}-{}", seed, i), &c, runs, &mut s);
                w.write_all(s.as_bytes()).unwrap();
            }
            determinism::cleanup();
        }
        "determinism-replay" => {
            let runs = arg_val(&args, "--runs", 30) as usize;
            let s = common::replay_stdin(determinism::parse_case, |id, c, out| determinism::run_case(id, c, runs, out));
            determinism::cleanup();
            w.write_all(s.as_bytes()).unwrap();
        }
        "gains" => {
            let mut r = rng::Rng::new(seed);
            for i in 0..count {
                let mut cr = r.fork();
                let c = gains::gen_case(&mut cr);
                let mut s = String::new();
                gains::run_case(&format!("G{}-{}", seed, i), &c, &mut s);
                w.write_all(s.as_bytes()).unwrap();
            }
        }
        "gains-replay" => {
            let s = common::replay_stdin(gains::parse_case, gains::run_case);
            w.write_all(s.as_bytes()).unwrap();
        }
        "costs-replay" => {
            let s = common::replay_stdin(costs::parse_case, costs::run_case);
            w.write_all(s.as_bytes()).unwrap();
        }
        f if f.starts_with("fx") => fxmain::run(&args, seed, count, &mut w),
        f => {
            eprintln!("unknown family {}", f);
            std::process::exit(2);
        }
    }
    w.flush().unwrap();
}
