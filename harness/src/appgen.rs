//! Generator of whole-portfolio inputs (CSV text with explicit FX rates) shared by the
//! application-level families `costs` (C17), `gains` (C06) and `determinism` (C09), and helpers
//! to run the real application in-process on CSV text.
use std::collections::HashMap;

use acb::app::{run_acb_app_to_delta_models, run_acb_app_to_render_model, AppRenderResult};
use acb::fx::io::{pub_testlib::MockRemoteRateLoader, InMemoryRatesCache, RateLoader};
use acb::portfolio::bookkeeping::DeltaListResult;
use acb::portfolio::io::tx_csv::TxCsvParseOptions;
use acb::util::rc::RcRefCellT;
use acb::util::rw::{DescribedReader, WriteHandle};
use rust_decimal::Decimal;

use crate::common::*;
use crate::rng::Rng;

pub const HEADER: &str = "security,trade date,settlement date,action,shares,amount/share,commission,currency,exchange rate,split ratio,affiliate,memo";

#[derive(Clone, Debug)]
pub struct GenRow {
    pub sec: String,
    pub trade_jd: i32,
    pub settle_jd: i32,
    pub action: &'static str,
    pub shares: Option<Decimal>,
    pub price: Option<Decimal>,
    pub comm: Option<Decimal>,
    pub cur: &'static str,
    pub rate: Option<Decimal>,
    pub split: Option<&'static str>,
    pub aff: String,
}

impl GenRow {
    pub fn line(&self) -> String {
        let o = |d: &Option<Decimal>| d.map(|v| v.to_string()).unwrap_or_default();
        format!(
            "{},{},{},{},{},{},{},{},{},{},{},",
            self.sec,
            date_str(date_from_jd(self.trade_jd)),
            date_str(date_from_jd(self.settle_jd)),
            self.action,
            o(&self.shares),
            o(&self.price),
            o(&self.comm),
            self.cur,
            o(&self.rate),
            self.split.unwrap_or(""),
            self.aff
        )
    }
}

pub fn csv_text(rows: &[GenRow]) -> String {
    let mut s = String::from(HEADER);
    s.push('\n');
    for r in rows {
        s.push_str(&r.line());
        s.push('\n');
    }
    s
}

pub const SEC_POOL: [&str; 12] = ["AAA", "BBB", "CCC", "DDD", "EEE", "FOO", "XYZ", "ZED", "foo", "Foo", "aaa", "Xyz"];
/// affiliates as written in the CSV; "" is the default affiliate
pub const AFF_POOL: [&str; 7] = ["", "Default (R)", "Spouse", "Spouse (R)", "Defaulted", "Kid", "default2 (R)"];

pub struct GenOpts {
    /// minimum number of distinct non-default affiliates to force in
    pub min_affs: usize,
    pub min_secs: usize,
    /// probability (percent) that a case is built in "tie" style (yearly maxima tie)
    pub tie_pct: u64,
    pub global_split_pct: u64,
    pub oversell_pct: u64,
}

impl Default for GenOpts {
    fn default() -> Self {
        GenOpts { min_affs: 0, min_secs: 1, tie_pct: 20, global_split_pct: 6, oversell_pct: 1 }
    }
}

pub const START_JD: i32 = 2457024; // 2015-01-01
const DAY_STEPS: [i32; 14] = [0, 0, 0, 0, 1, 1, 2, 5, 20, 40, 100, 200, 364, 500];

fn rand_money(r: &mut Rng, max_int: i64, max_dp: u32) -> Decimal {
    let dp = if r.chance(50) { 0 } else { r.below(max_dp as u64 + 1) as u32 };
    let scale = 10i64.pow(dp);
    Decimal::new(r.range(1, max_int * scale), dp).normalize()
}

/// Next settlement day; sometimes jumps to just after a year boundary so that the trade date
/// falls in the previous year.
fn next_day(r: &mut Rng, day: i32) -> i32 {
    if r.chance(8) {
        // first or second day of the next year
        let d = date_from_jd(day);
        let ny = time::Date::from_calendar_date(d.year() + 1, time::Month::January, 1).unwrap();
        return jd(ny) + r.range(0, 1) as i32;
    }
    day + *r.pick(&DAY_STEPS)
}

/// A mostly valid multi-security, multi-affiliate history in settlement-date order.
pub fn gen_rows(r: &mut Rng, o: &GenOpts) -> Vec<GenRow> {
    let n_secs = (o.min_secs as i64).max(r.range(1, 5)) as usize;
    let mut secs: Vec<&str> = Vec::new();
    while secs.len() < n_secs {
        let c = *r.pick(&SEC_POOL);
        if !secs.contains(&c) {
            secs.push(c);
        }
    }
    let n_other = (o.min_affs as i64).max(match r.below(10) {
        0..=3 => 0,
        4..=6 => 1,
        7..=8 => 2,
        _ => 4,
    }) as usize;
    let mut affs: Vec<&str> = vec![""];
    while affs.len() < 1 + n_other {
        let c = *r.pick(&AFF_POOL[1..]);
        if !affs.contains(&c) {
            affs.push(c);
        }
    }
    let tie = r.chance(o.tie_pct);
    // per security: style of splits (global rows or per-affiliate rows, never both: a global split
    // within a day of an affiliate split is rejected by design)
    let global_style: Vec<bool> = secs.iter().map(|_| r.chance(50)).collect();
    let n = match r.below(10) {
        0..=2 => r.range(2, 6),
        3..=7 => r.range(5, 16),
        _ => r.range(12, 40),
    } as usize;
    let mut bal: HashMap<(usize, usize), Decimal> = HashMap::new();
    let mut price: Vec<Decimal> = secs.iter().map(|_| Decimal::new(r.range(100, 9000), 2)).collect();
    let mut day = START_JD + r.range(0, 800) as i32;
    let mut rows: Vec<GenRow> = Vec::new();
    while rows.len() < n {
        day = next_day(r, day);
        let si = r.below(secs.len() as u64) as usize;
        let ai = if r.chance(55) { 0 } else { r.below(affs.len() as u64) as usize };
        let registered = affs[ai].contains("(R)");
        if !tie {
            let step = Decimal::new(r.range(-900, 1000), 2);
            price[si] = (price[si] + step).max(Decimal::new(1, 2));
        }
        let (cur, rate) = if tie || r.chance(60) {
            ("CAD", None)
        } else {
            ("USD", Some(Decimal::new(r.range(9000, 15000), 4).normalize()))
        };
        let comm = if tie || r.chance(55) { Decimal::ZERO } else { Decimal::new(r.range(0, 1500), 2).normalize() };
        let trade = day - r.range(0, 2) as i32;
        let have = *bal.get(&(si, ai)).unwrap_or(&Decimal::ZERO);
        let mk = |action: &'static str, shares: Option<Decimal>, px: Option<Decimal>, comm: Option<Decimal>, split: Option<&'static str>, aff: &str| GenRow {
            sec: secs[si].to_string(),
            trade_jd: trade,
            settle_jd: day,
            action,
            shares,
            price: px,
            comm,
            cur,
            rate,
            split,
            aff: aff.to_string(),
        };
        let roll = r.below(100);
        if have.is_zero() && roll < 85 || roll < 38 {
            let sh = if tie { Decimal::new(10, 0) } else { rand_money(r, 200, 3) };
            *bal.entry((si, ai)).or_insert(Decimal::ZERO) += sh;
            rows.push(mk("Buy", Some(sh), Some(price[si]), Some(comm), None, affs[ai]));
            // buy and sell out on the same day (the F-17 shape), sometimes followed by a re-buy
            if r.chance(if tie { 40 } else { 12 }) {
                let all = *bal.get(&(si, ai)).unwrap();
                rows.push(mk("Sell", Some(all), Some(price[si]), Some(Decimal::ZERO), None, affs[ai]));
                bal.insert((si, ai), Decimal::ZERO);
                if r.chance(40) {
                    rows.push(mk("Buy", Some(sh), Some(price[si]), Some(Decimal::ZERO), None, affs[ai]));
                    bal.insert((si, ai), sh);
                }
            }
        } else if roll < 80 {
            let sh = if r.chance(o.oversell_pct) {
                have + Decimal::ONE
            } else if have.is_zero() {
                continue;
            } else if tie || r.chance(35) {
                have
            } else {
                let q = rand_money(r, 100, 3);
                if q > have { have } else { q }
            };
            if sh <= have {
                bal.insert((si, ai), have - sh);
            }
            rows.push(mk("Sell", Some(sh), Some(price[si]), Some(comm), None, affs[ai]));
        } else if roll < 88 {
            if registered || have.is_zero() {
                continue;
            }
            // return of capital, small enough not to exceed the cost base in most cases
            let per = Decimal::new(r.range(0, 50), 2).normalize();
            rows.push(GenRow { trade_jd: day, ..mk("RoC", None, Some(per), None, None, affs[ai]) });
        } else if roll < 88 + o.global_split_pct.max(6) {
            let forms = ["2-for-1", "3-for-1", "3-for-2", "1-for-2"];
            let mut f = *r.pick(&forms);
            if f == "1-for-2" {
                // a reverse split must leave whole shares; otherwise use a forward split
                let whole = |b: &Decimal| (*b / Decimal::new(2, 0)).fract().is_zero();
                let ok = if global_style[si] {
                    (0..affs.len()).all(|a| bal.get(&(si, a)).map(whole).unwrap_or(true))
                } else {
                    bal.get(&(si, ai)).map(whole).unwrap_or(true)
                };
                if !ok {
                    f = "2-for-1";
                }
            }
            let (post, pre) = match f {
                "2-for-1" => (2, 1),
                "3-for-1" => (3, 1),
                "3-for-2" => (3, 2),
                _ => (1, 2),
            };
            let factor = Decimal::new(post, 0) / Decimal::new(pre, 0);
            if global_style[si] {
                for a in 0..affs.len() {
                    if let Some(b) = bal.get_mut(&(si, a)) {
                        *b = *b * factor;
                    }
                }
                rows.push(GenRow { trade_jd: day, cur: "", rate: None, ..mk("Split", None, None, None, Some(f), "") });
            } else {
                if let Some(b) = bal.get_mut(&(si, ai)) {
                    *b = *b * factor;
                }
                let nm = if affs[ai].is_empty() { "Default" } else { affs[ai] };
                rows.push(GenRow { trade_jd: day, cur: "", rate: None, ..mk("Split", None, None, None, Some(f), nm) });
            }
        } else {
            continue;
        }
    }
    rows
}

pub fn make_rate_loader() -> RateLoader {
    RateLoader::new(
        false,
        Box::new(InMemoryRatesCache::new()),
        Box::new(MockRemoteRateLoader { remote_year_rates: RcRefCellT::new(HashMap::new()) }),
        WriteHandle::empty_write_handle(),
    )
}

fn readers(csv: &str) -> Vec<DescribedReader> {
    vec![DescribedReader::from_string("gen.csv".to_string(), csv.to_string())]
}

pub fn run_deltas(csv: &str) -> Result<Result<HashMap<String, DeltaListResult>, String>, String> {
    let csv = csv.to_string();
    catch(move || {
        async_std::task::block_on(run_acb_app_to_delta_models(
            readers(&csv),
            HashMap::new(),
            &TxCsvParseOptions::default(),
            make_rate_loader(),
            WriteHandle::empty_write_handle(),
        ))
    })
}

pub fn run_render(csv: &str, full: bool, costs: bool) -> Result<Result<AppRenderResult, String>, String> {
    let csv = csv.to_string();
    catch(move || {
        async_std::task::block_on(run_acb_app_to_render_model(
            readers(&csv),
            HashMap::new(),
            &TxCsvParseOptions::default(),
            full,
            costs,
            make_rate_loader(),
            WriteHandle::empty_write_handle(),
        ))
    })
}

/// "$12.5" / "-$3" / "+$4" / "$-0.00" -> decimal text; None for "-" or anything else
pub fn money_tok(cell: &str) -> Option<String> {
    let c = cell.trim();
    let (neg, rest) = if let Some(x) = c.strip_prefix("-$") {
        (true, x)
    } else if let Some(x) = c.strip_prefix("+$") {
        (false, x)
    } else if let Some(x) = c.strip_prefix('$') {
        (false, x)
    } else {
        return None;
    };
    let d = Decimal::from_str_exact(rest).ok()?;
    Some(if neg { (-d).to_string() } else { d.to_string() })
}
