//! Family `ledger`: generated single-security histories through the real
//! `txs_to_delta_list`, observations of every TxDelta.
use std::rc::Rc;

use acb::portfolio::bookkeeping::txs_to_delta_list;
use acb::portfolio::{
    Affiliate, BuyTxSpecifics, Currency, CurrencyAndExchangeRate, PortfolioSecurityStatus,
    RocTxSpecifics, SFLInput, SellTxSpecifics, SflaTxSpecifics, SplitRatio, SplitTxSpecifics, Tx,
    TxActionSpecifics, TxDelta,
};
use acb::util::decimal::{GreaterEqualZeroDecimal, LessEqualZeroDecimal, PosDecimal};
use rust_decimal::Decimal;

use crate::common::*;
use crate::rng::Rng;

pub const BASE_JD: i32 = 2458850; // 2020-01-01

fn pos(d: Decimal) -> PosDecimal {
    PosDecimal::try_from(d).unwrap()
}
fn gez(d: Decimal) -> GreaterEqualZeroDecimal {
    GreaterEqualZeroDecimal::try_from(d).unwrap()
}

pub fn cer(cur: &str, rate: Decimal) -> CurrencyAndExchangeRate {
    CurrencyAndExchangeRate::rq_new(Currency::new(cur), pos(rate))
}

pub struct LedgerCase {
    pub uni: AffUniverse,
    pub init: Option<(Decimal, Decimal)>, // shares, acb (default affiliate)
    pub txs: Vec<Tx>,
}

pub const AFF_POOL: [&str; 8] = [
    "Default", "Default (R)", "Spouse", "Spouse (R)", "alice", "Bob (R)", "zed", "Carol",
];

fn rand_amount(r: &mut Rng, max_int: i64, max_dp: u32) -> Decimal {
    let dp = if r.chance(40) { 0 } else { r.below(max_dp as u64 + 1) as u32 };
    let scale = 10i64.pow(dp);
    let m = r.range(1, max_int * scale);
    Decimal::new(m, dp).normalize()
}

fn rand_rate(r: &mut Rng) -> (String, Decimal) {
    match r.below(10) {
        0..=4 => ("CAD".to_string(), Decimal::ONE),
        // a broker's own conversion rate has more decimals than the Bank of Canada's four
        5..=7 => (
            "USD".to_string(),
            if r.chance(30) { Decimal::new(r.range(900000, 1500000), 6) } else { Decimal::new(r.range(9000, 15000), 4) },
        ),
        _ => (
            "XYZ".to_string(),
            if r.chance(25) { Decimal::new(r.range(1, 99999), 8) } else { Decimal::new(r.range(1, 300000), 4) },
        ),
    }
}

pub const DAY_STEPS: [i32; 16] = [0, 0, 0, 0, 1, 1, 2, 3, 5, 10, 28, 29, 30, 31, 32, 200];

/// Generates a mostly valid history (kind = style of history).
pub fn gen_case(r: &mut Rng) -> LedgerCase {
    let n_aff = 1 + r.below(4) as usize;
    let mut names: Vec<&str> = Vec::new();
    if r.chance(70) {
        names.push("Default");
    }
    while names.len() < n_aff {
        let c = *r.pick(&AFF_POOL);
        if !names.contains(&c) {
            names.push(c);
        }
    }
    let uni = AffUniverse::new(&names);
    let affs: Vec<Affiliate> = names.iter().map(|n| Affiliate::from_strep(n)).collect();

    let init = if r.chance(25) {
        let sh = if r.chance(15) { Decimal::ZERO } else { rand_amount(r, 200, 3) };
        let acb = if r.chance(15) { Decimal::ZERO } else { rand_amount(r, 5000, 2) };
        Some((sh, acb))
    } else {
        None
    };

    let n = match r.below(10) {
        0..=3 => r.range(1, 6),
        4..=7 => r.range(4, 15),
        _ => r.range(10, 40),
    } as usize;

    // Generator-side balances (approximate: computed with the same Decimal ops)
    let mut bal: Vec<Decimal> = vec![Decimal::ZERO; affs.len()];
    if let Some((sh, _)) = init {
        for (i, a) in affs.iter().enumerate() {
            if a.id() == Affiliate::default().id() {
                bal[i] = sh;
            }
        }
    }
    let mut price = Decimal::new(r.range(100, 20000), 2);
    let mut day = BASE_JD + r.range(0, 400) as i32;
    let nonterm = r.chance(50);
    let mut txs = Vec::new();
    for idx in 0..n {
        day += *r.pick(&DAY_STEPS);
        let ai = r.below(affs.len() as u64) as usize;
        let af = affs[ai].clone();
        // price random walk, biased down so that losses are common
        let step = Decimal::new(r.range(-1500, 1200), 2);
        price = (price + step).max(Decimal::new(1, 2));
        let (cur, rate) = rand_rate(r);
        let (ccur, crate_) = if r.chance(20) {
            let (c, x) = rand_rate(r);
            (Some(c), Some(x))
        } else {
            (None, None)
        };
        let comm = if r.chance(50) { Decimal::ZERO } else { Decimal::new(r.range(0, 2000), 2) };
        let total: Decimal = bal.iter().sum();
        let mut roll = r.below(100);
        // mostly-valid histories: offences of each kind are injected with low probability only
        let offend = r.chance(3);
        if !offend {
            if (42..78).contains(&roll) && bal[ai].is_zero() {
                roll = 0; // nothing to sell: buy instead
            }
            if (78..90).contains(&roll) && af.registered() {
                roll = 0; // RoC / SfLA on a registered affiliate is an error
            }
        }
        let act = if roll < 42 || total.is_zero() && roll < 80 {
            let sh = if nonterm && r.chance(30) {
                Decimal::new(r.range(1, 30), 0)
            } else {
                rand_amount(r, 100, 4)
            };
            bal[ai] += sh;
            // now and then shares acquired for nothing (a spin-off, a stock dividend)
            let buy_price = if r.chance(4) { Decimal::ZERO } else { price };
            TxActionSpecifics::Buy(BuyTxSpecifics {
                shares: pos(sh),
                amount_per_share: gez(buy_price),
                commission: gez(comm),
                tx_currency_and_rate: cer(&cur, rate),
                separate_commission_currency: match (&ccur, crate_) {
                    (Some(c), Some(x)) => Some(cer(c, x)),
                    _ => None,
                },
            })
        } else if roll < 78 {
            // Sell: mostly within holdings
            let have = bal[ai];
            let sh = if offend && !have.is_zero() && r.chance(40) {
                have + Decimal::new(r.range(1, 9), 7) // an over-sale by less than a millionth of a share
            } else if have.is_zero() || offend {
                rand_amount(r, 50, 2) // likely oversell
            } else if r.chance(30) {
                have
            } else if nonterm && r.chance(50) {
                // a third / seventh of holdings
                let div = Decimal::new(*r.pick(&[2i64, 3, 4, 7]), 0);
                let q = (have / div).round_dp(r.below(6) as u32);
                if q.is_zero() || q > have { have } else { q }
            } else {
                let q = rand_amount(r, 100, 4);
                if q > have { have } else { q }
            };
            // inputs carry at most 10 decimal places (the range C05 names)
            let sh = {
                let t = sh.round_dp_with_strategy(10, rust_decimal::RoundingStrategy::ToZero);
                if t.is_zero() { Decimal::new(1, 10) } else { t }
            };
            if sh <= have {
                bal[ai] -= sh;
            }
            let sfl = if r.chance(3) {
                let v = if r.chance(30) { Decimal::ZERO } else { -rand_amount(r, 500, 2) };
                Some(SFLInput { superficial_loss: LessEqualZeroDecimal::try_from(v).unwrap(), force: r.chance(60) })
            } else {
                None
            };
            TxActionSpecifics::Sell(SellTxSpecifics {
                shares: pos(sh),
                amount_per_share: gez(price),
                commission: gez(comm),
                tx_currency_and_rate: cer(&cur, rate),
                separate_commission_currency: match (&ccur, crate_) {
                    (Some(c), Some(x)) => Some(cer(c, x)),
                    _ => None,
                },
                specified_superficial_loss: sfl,
            })
        } else if roll < 86 {
            let per = Decimal::new(r.range(0, 300), 2 + r.below(3) as u32);
            TxActionSpecifics::Roc(RocTxSpecifics { amount_per_held_share: gez(per), tx_currency_and_rate: cer(&cur, rate) })
        } else if roll < 90 {
            TxActionSpecifics::Sfla(SflaTxSpecifics {
                shares_affected: pos(rand_amount(r, 20, 2)),
                amount_per_share: pos(rand_amount(r, 50, 4)),
            })
        } else {
            // (the last three: ratios not in lowest terms — "2-for-4" is "1-for-2")
            let forms: [(&str, &str, bool); 13] = [
                ("2", "1", false), ("3", "1", false), ("3", "2", false), ("1", "2", true), ("1", "2", false),
                ("1", "3", true), ("1", "3", false), ("7", "3", false), ("1.5", "1", false), ("2", "3", true),
                ("2", "4", true), ("3", "6", true), ("2", "6", true),
            ];
            let (post, pre, mut int_only) = *r.pick(&forms);
            if int_only && !offend && !(bal[ai] * dec(post) / dec(pre)).is_integer() {
                int_only = false;
            }
            let ratio = SplitRatio { pre_split: pos(dec(pre)), post_split: pos(dec(post)), reverse_integer_only: int_only };
            bal[ai] = bal[ai] * (dec(post) / dec(pre));
            TxActionSpecifics::Split(SplitTxSpecifics { ratio })
        };
        let settle = date_from_jd(day);
        let trade = date_from_jd(day - r.range(0, 2) as i32);
        txs.push(Tx {
            security: "FOO".to_string(),
            trade_date: trade,
            settlement_date: settle,
            action_specifics: act,
            memo: String::new(),
            affiliate: af,
            read_index: idx as u32,
        });
    }
    LedgerCase { uni, init, txs }
}

pub fn tx_line(uni: &AffUniverse, tx: &Tx) -> String {
    let head = format!(
        "tx {} {} {} {}",
        jd(tx.trade_date),
        jd(tx.settlement_date),
        tx.read_index,
        uni.tok(&tx.affiliate)
    );
    let body = match &tx.action_specifics {
        TxActionSpecifics::Buy(b) => format!(
            "buy {} {} {} {} {}",
            *b.shares, *b.amount_per_share, *b.commission, *b.tx_currency_and_rate.exchange_rate,
            opt_dec(b.separate_commission_currency.as_ref().map(|c| *c.exchange_rate))
        ),
        TxActionSpecifics::Sell(s) => format!(
            "sell {} {} {} {} {} {} {}",
            *s.shares, *s.amount_per_share, *s.commission, *s.tx_currency_and_rate.exchange_rate,
            opt_dec(s.separate_commission_currency.as_ref().map(|c| *c.exchange_rate)),
            opt_dec(s.specified_superficial_loss.as_ref().map(|x| *x.superficial_loss)),
            s.specified_superficial_loss.as_ref().map(|x| if x.force { 1 } else { 0 }).unwrap_or(0)
        ),
        TxActionSpecifics::Roc(x) => format!("roc {} {}", *x.amount_per_held_share, *x.tx_currency_and_rate.exchange_rate),
        TxActionSpecifics::Sfla(x) => format!("sfla {} {}", *x.shares_affected, *x.amount_per_share),
        TxActionSpecifics::Split(x) => format!(
            "split {} {} {}",
            *x.ratio.post_split, *x.ratio.pre_split, if x.ratio.reverse_integer_only { 1 } else { 0 }
        ),
    };
    format!("{} {}", head, body)
}

pub fn status_toks(s: &PortfolioSecurityStatus) -> String {
    format!("{} {} {}", *s.share_balance, *s.all_affiliate_share_balance, opt_dec(s.total_acb.map(|a| *a)))
}

pub fn delta_line(uni: &AffUniverse, d: &TxDelta) -> String {
    let act = match &d.tx.action_specifics {
        TxActionSpecifics::Buy(_) => "buy",
        TxActionSpecifics::Sell(_) => "sell",
        TxActionSpecifics::Roc(_) => "roc",
        TxActionSpecifics::Sfla(_) => "sfla",
        TxActionSpecifics::Split(_) => "split",
    };
    let sfl = match &d.sfl {
        Some(s) => format!(
            "{} {} {} {}",
            *s.superficial_loss, *s.ratio.numerator, *s.ratio.denominator, if s.potentially_over_applied { 1 } else { 0 }
        ),
        None => "- - - -".to_string(),
    };
    let amt = match &d.tx.action_specifics {
        TxActionSpecifics::Sfla(x) => (*x.shares_affected * *x.amount_per_share).to_string(),
        _ => "-".to_string(),
    };
    let gen = if d.tx.memo.starts_with("Automatic SfL ACB adjustment") { 1 } else { 0 };
    format!(
        "impl delta {} {} {} {} {} {} {} {} {} {}",
        uni.tok(&d.tx.affiliate),
        act,
        status_toks(&d.pre_status),
        status_toks(&d.post_status),
        opt_dec(d.capital_gain),
        sfl,
        amt,
        gen,
        d.tx.read_index,
        jd(d.tx.settlement_date)
    )
}

/// Human-readable CSV text of the case (for replay files).
pub fn case_csv(c: &LedgerCase) -> String {
    let csv_txs: Vec<acb::portfolio::CsvTx> = c.txs.iter().map(|t| t.to_csvtx()).collect();
    let mut buf = acb::util::rw::WriteHandle::string_buff_write_handle();
    let (mut wh, sb) = (buf.0.clone(), buf.1.clone());
    let _ = &mut buf;
    match acb::portfolio::io::tx_csv::write_txs_to_csv(&csv_txs, &mut wh) {
        Ok(()) => sb.borrow().as_str().to_string(),
        Err(e) => format!("<csv error {}>", e),
    }
}

pub fn run_case(id: &str, c: &LedgerCase, out: &mut String) {
    let init_tok = match c.init {
        Some((sh, acb)) => format!("{}:{}", sh, acb),
        None => "-".to_string(),
    };
    out.push_str(&format!("case {} ledger dflt={} init={}\n", id, c.uni.default_key(), init_tok));
    for tx in &c.txs {
        out.push_str(&tx_line(&c.uni, tx));
        out.push('\n');
    }
    let init_status = c.init.map(|(sh, acb)| {
        Rc::new(PortfolioSecurityStatus {
            security: "FOO".to_string(),
            share_balance: gez(sh),
            all_affiliate_share_balance: gez(sh),
            total_acb: Some(gez(acb)),
        })
    });
    let txs = c.txs.clone();
    let res = catch(move || txs_to_delta_list(&txs, init_status));
    match res {
        Ok(dl) => {
            for d in dl.deltas_or_partial_deltas() {
                out.push_str(&delta_line(&c.uni, d));
                out.push('\n');
            }
            match &dl.0 {
                Ok(_) => out.push_str("impl result ok\n"),
                Err(e) => out.push_str(&format!("impl result err {}\n", oneline(&e.err_msg))),
            }
        }
        Err(p) => out.push_str(&format!("impl result panic {}\n", oneline(&p))),
    }
    out.push_str(&format!("repro {}\n", oneline(&case_csv(c))));
    out.push_str("end\n");
}

/// A random window case in which the first superficial sale gets a user-specified superficial
/// loss at a chosen distance from the amount the implementation itself computes (the 0.001
/// tolerance boundary and its neighbours), without '!'.
pub fn gen_window_boundary_case(r: &mut Rng) -> LedgerCase {
    let mut c = gen_window_case(r, None);
    for t in c.txs.iter_mut() {
        if let TxActionSpecifics::Sell(s) = &mut t.action_specifics {
            s.specified_superficial_loss = None;
        }
    }
    let txs = c.txs.clone();
    let computed: Option<(u32, Decimal)> = catch(move || txs_to_delta_list(&txs, None)).ok().and_then(|dl| {
        dl.deltas_or_partial_deltas().iter().find_map(|d| {
            d.sfl.as_ref().map(|s| (d.tx.read_index, *s.superficial_loss))
        })
    });
    if let Some((idx, v)) = computed {
        // the exact boundary only where the implementation's own amount is a short decimal (after
        // 28-digit rounding noise the comparison at exactly 0.001 is decided by the noise)
        let exact = v.normalize().scale() <= 8;
        let deltas: &[&str] = if exact {
            &["0", "0.001", "-0.001", "0.0011", "-0.0011", "0.0009", "-0.0009", "0.0010000001", "-0.5"]
        } else {
            &["0", "0.0011", "-0.0011", "0.0009", "-0.0009", "-0.5"]
        };
        let spec = (v + dec(*r.pick(deltas))).round_dp(10);
        if spec <= Decimal::ZERO {
            for t in c.txs.iter_mut() {
                if t.read_index == idx {
                    if let TxActionSpecifics::Sell(s) = &mut t.action_specifics {
                        s.specified_superficial_loss =
                            Some(SFLInput { superficial_loss: LessEqualZeroDecimal::try_from(spec).unwrap(), force: false });
                    }
                }
            }
        }
    }
    c
}

// ---------------------------------------------------------------------------------------
// Replay: rebuild a case from its protocol lines (`case ...` + `tx ...`), so that a reported
// case can be re-run against the current implementation and shrunk.

fn aff_name(key: usize, registered: bool, dflt: usize) -> String {
    let base = if key == dflt && !registered {
        "Default".to_string()
    } else if key < dflt {
        format!("a{:03}", key)
    } else {
        format!("e{:03}", key)
    };
    if registered { format!("{} (R)", base) } else { base }
}

pub fn parse_case(lines: &[String]) -> Option<LedgerCase> {
    let head: Vec<&str> = lines.first()?.split_whitespace().collect();
    let mut dflt = 0usize;
    let mut init = None;
    for t in &head {
        if let Some(v) = t.strip_prefix("dflt=") {
            dflt = v.parse().ok()?;
        }
        if let Some(v) = t.strip_prefix("init=") {
            if v != "-" {
                let mut it = v.split(':');
                let sh = Decimal::from_str_exact(it.next()?).ok()?;
                let acb = Decimal::from_str_exact(it.next()?).ok()?;
                init = Some((sh, acb));
            }
        }
    }
    let mut names: Vec<String> = Vec::new();
    let mut txs = Vec::new();
    let opt = |s: &str| -> Option<Option<Decimal>> {
        if s == "-" { Some(None) } else { Decimal::from_str_exact(s).ok().map(Some) }
    };
    let cur = |rate: Decimal| -> &'static str { if rate == Decimal::ONE { "CAD" } else { "XYZ" } };
    for l in &lines[1..] {
        let t: Vec<&str> = l.split_whitespace().collect();
        if t.first() != Some(&"tx") {
            continue;
        }
        let trade: i32 = t[1].parse().ok()?;
        let settle: i32 = t[2].parse().ok()?;
        let idx: u32 = t[3].parse().ok()?;
        let key: usize = t[4].parse().ok()?;
        let reg = t[5] == "R";
        let name = aff_name(key, reg, dflt);
        if !names.contains(&name) {
            names.push(name.clone());
        }
        let d = |s: &str| Decimal::from_str_exact(s).ok();
        let act = match t[6] {
            "buy" => {
                let rate = d(t[10])?;
                TxActionSpecifics::Buy(BuyTxSpecifics {
                    shares: PosDecimal::try_from(d(t[7])?).ok()?,
                    amount_per_share: GreaterEqualZeroDecimal::try_from(d(t[8])?).ok()?,
                    commission: GreaterEqualZeroDecimal::try_from(d(t[9])?).ok()?,
                    tx_currency_and_rate: cer(cur(rate), rate),
                    separate_commission_currency: opt(t[11])?.map(|x| cer(cur(x), x)),
                })
            }
            "sell" => {
                let rate = d(t[10])?;
                let sfl = opt(t[12])?.map(|v| SFLInput {
                    superficial_loss: LessEqualZeroDecimal::try_from(v).unwrap(),
                    force: t[13] == "1",
                });
                TxActionSpecifics::Sell(SellTxSpecifics {
                    shares: PosDecimal::try_from(d(t[7])?).ok()?,
                    amount_per_share: GreaterEqualZeroDecimal::try_from(d(t[8])?).ok()?,
                    commission: GreaterEqualZeroDecimal::try_from(d(t[9])?).ok()?,
                    tx_currency_and_rate: cer(cur(rate), rate),
                    separate_commission_currency: opt(t[11])?.map(|x| cer(cur(x), x)),
                    specified_superficial_loss: sfl,
                })
            }
            "roc" => {
                let rate = d(t[8])?;
                TxActionSpecifics::Roc(RocTxSpecifics {
                    amount_per_held_share: GreaterEqualZeroDecimal::try_from(d(t[7])?).ok()?,
                    tx_currency_and_rate: cer(cur(rate), rate),
                })
            }
            "sfla" => TxActionSpecifics::Sfla(SflaTxSpecifics {
                shares_affected: PosDecimal::try_from(d(t[7])?).ok()?,
                amount_per_share: PosDecimal::try_from(d(t[8])?).ok()?,
            }),
            "split" => TxActionSpecifics::Split(SplitTxSpecifics {
                ratio: SplitRatio {
                    post_split: PosDecimal::try_from(d(t[7])?).ok()?,
                    pre_split: PosDecimal::try_from(d(t[8])?).ok()?,
                    reverse_integer_only: t[9] == "1",
                },
            }),
            _ => return None,
        };
        txs.push(Tx {
            security: "FOO".to_string(),
            trade_date: date_from_jd(trade),
            settlement_date: date_from_jd(settle),
            action_specifics: act,
            memo: String::new(),
            affiliate: Affiliate::from_strep(&name),
            read_index: idx,
        });
    }
    let refs: Vec<&str> = names.iter().map(|s| s.as_str()).collect();
    Some(LedgerCase { uni: AffUniverse::new(&refs), init, txs })
}

// ---------------------------------------------------------------------------------------
// Family `window` (C02): a loss sale with acquisitions, later sales and splits placed at chosen
// day offsets around it (…,-31,-30,-29,-1,0 before/after in file order,1,29,30,31,…).

pub const OFFSETS: [i32; 17] = [-45, -31, -30, -29, -15, -2, -1, 0, 0, 1, 2, 15, 29, 30, 31, 32, 60];

pub fn mk_tx(day: i32, af: &Affiliate, act: TxActionSpecifics) -> Tx {
    Tx {
        security: "FOO".to_string(),
        trade_date: date_from_jd(day),
        settlement_date: date_from_jd(day),
        action_specifics: act,
        memo: String::new(),
        affiliate: af.clone(),
        read_index: 0,
    }
}

pub fn buy(sh: Decimal, px: Decimal) -> TxActionSpecifics {
    TxActionSpecifics::Buy(BuyTxSpecifics {
        shares: pos(sh),
        amount_per_share: gez(px),
        commission: gez(Decimal::ZERO),
        tx_currency_and_rate: cer("CAD", Decimal::ONE),
        separate_commission_currency: None,
    })
}

pub fn sell(sh: Decimal, px: Decimal, sfl: Option<SFLInput>) -> TxActionSpecifics {
    TxActionSpecifics::Sell(SellTxSpecifics {
        shares: pos(sh),
        amount_per_share: gez(px),
        commission: gez(Decimal::ZERO),
        tx_currency_and_rate: cer("CAD", Decimal::ONE),
        separate_commission_currency: None,
        specified_superficial_loss: sfl,
    })
}

/// Figures at the ends of the range C05 names (magnitude below 10^12, ten decimal places): huge and
/// tiny share counts, prices and rates, forced superficial losses of 1e-10.
pub fn gen_extreme_case(r: &mut Rng) -> LedgerCase {
    let names = ["Default", "Spouse"];
    let uni = AffUniverse::new(&names);
    let affs: Vec<Affiliate> = names.iter().map(|n| Affiliate::from_strep(n)).collect();
    let big = Decimal::new(999_999_999_999, 0);
    let tiny = Decimal::new(1, 10);
    let pick = |r: &mut Rng, zero_ok: bool| -> Decimal {
        match r.below(8) {
            0 | 1 => big,
            2 | 3 => tiny,
            4 if zero_ok => Decimal::ZERO,
            5 => Decimal::new(999_999_999_999, 10) + Decimal::new(99, 0),
            _ => Decimal::new(r.range(1, 100000), 2),
        }
    };
    let mut day = BASE_JD + 100;
    let mut txs = Vec::new();
    let mut have = Decimal::ZERO;
    let n = 2 + r.below(4);
    for i in 0..n {
        day += *r.pick(&[0, 1, 10, 40]);
        let af = if r.chance(80) { affs[0].clone() } else { affs[1].clone() };
        let px = pick(r, true);
        let rate = if r.chance(50) { Decimal::ONE } else { pick(r, false) };
        let cur = if rate == Decimal::ONE { "CAD" } else { "USD" };
        let act = if i == 0 || have.is_zero() || r.chance(35) {
            let sh = pick(r, false);
            have += sh;
            TxActionSpecifics::Buy(BuyTxSpecifics {
                shares: pos(sh),
                amount_per_share: gez(px),
                commission: gez(if r.chance(70) { Decimal::ZERO } else { pick(r, true) }),
                tx_currency_and_rate: cer(cur, rate),
                separate_commission_currency: None,
            })
        } else {
            let sh = if r.chance(60) { have } else { pick(r, false).min(have) };
            have -= sh;
            let sfl = if r.chance(35) {
                Some(SFLInput { superficial_loss: LessEqualZeroDecimal::try_from(-tiny).unwrap(), force: true })
            } else {
                None
            };
            TxActionSpecifics::Sell(SellTxSpecifics {
                shares: pos(sh),
                amount_per_share: gez(px),
                commission: gez(Decimal::ZERO),
                tx_currency_and_rate: cer(cur, rate),
                separate_commission_currency: None,
                specified_superficial_loss: sfl,
            })
        };
        let mut t = mk_tx(day, &af, act);
        t.read_index = txs.len() as u32;
        txs.push(t);
    }
    LedgerCase { uni, init: None, txs }
}

/// Bulk positions in a cheap foreign-currency stock: 10^5..10^7 shares at a few cents or dollars,
/// exchange rates with ten decimal places, so that per-share figures sit within 1e-9 of a whole
/// cent while totals are large (any per-share rounding shows up in the totals).
pub fn gen_bulk_case(r: &mut Rng) -> LedgerCase {
    let names = ["Default", "Spouse"];
    let uni = AffUniverse::new(&names);
    let affs: Vec<Affiliate> = names.iter().map(|n| Affiliate::from_strep(n)).collect();
    let mut day = BASE_JD + 500;
    let mut txs = Vec::new();
    let mut have = Decimal::ZERO;
    let rate10 = |r: &mut Rng| Decimal::new(r.range(9000, 15000), 4) + Decimal::new(r.range(0, 9), 10);
    let n = 2 + r.below(5);
    let near_cent = r.chance(60);
    for i in 0..n {
        day += *r.pick(&[1, 3, 40, 100, 200]);
        let mut px = Decimal::new(r.range(5, 999), 2);
        let mut rate = rate10(r);
        if near_cent {
            // price x rate = a whole number of cents plus a few 1e-11
            let (pn, kmax) = *r.pick(&[(50i64, 1i64), (25, 3), (20, 4), (10, 9), (5, 9)]);
            px = Decimal::new(pn, 2);
            rate = Decimal::new(*r.pick(&[120i64, 124, 128, 132, 136, 140]), 2) + Decimal::new(r.range(1, kmax), 10);
        }
        let act = if i == 0 || (r.chance(35) && i + 1 < n) {
            let sh = Decimal::new(r.range(100_000, 10_000_000), 0);
            have += sh;
            TxActionSpecifics::Buy(BuyTxSpecifics {
                shares: pos(sh),
                amount_per_share: gez(px),
                commission: gez(Decimal::ZERO),
                tx_currency_and_rate: cer("USD", rate),
                separate_commission_currency: None,
            })
        } else {
            let sh = if r.chance(25) || have < Decimal::new(10, 0) {
                have
            } else {
                (have * Decimal::new(r.range(1, 9), 1)).round_dp(0)
            };
            if sh.is_zero() {
                continue;
            }
            have -= sh;
            TxActionSpecifics::Sell(SellTxSpecifics {
                shares: pos(sh),
                amount_per_share: gez(px),
                commission: gez(Decimal::ZERO),
                tx_currency_and_rate: cer("USD", rate),
                separate_commission_currency: None,
                specified_superficial_loss: None,
            })
        };
        let mut t = mk_tx(day, &affs[0], act);
        t.read_index = txs.len() as u32;
        txs.push(t);
    }
    LedgerCase { uni, init: None, txs }
}

/// `enum_idx`: Some(k) enumerates systematically (1 sale x 1 buy x offset x buyer kind), None = random.
pub fn gen_window_case(r: &mut Rng, enum_idx: Option<u64>) -> LedgerCase {
    let names = ["Default", "Spouse", "Spouse (R)"];
    let uni = AffUniverse::new(&names);
    let affs: Vec<Affiliate> = names.iter().map(|n| Affiliate::from_strep(n)).collect();
    let base = BASE_JD + 1000;
    // (day, file-order key, tx)
    let mut rows: Vec<(i32, i32, Tx)> = Vec::new();
    let seller = affs[0].clone();
    rows.push((base - 400, 0, mk_tx(base - 400, &seller, buy(Decimal::new(100, 0), Decimal::new(50, 0)))));
    if let Some(k) = enum_idx {
        // offsets -33..=33, before/after in file order, three kinds of buyer
        let off = (k % 67) as i32 - 33;
        let after_in_file = (k / 67) % 2 == 1;
        let buyer = &affs[((k / 134) % 3) as usize];
        let sold = Decimal::new(40, 0);
        rows.push((base, 10, mk_tx(base, &seller, sell(sold, Decimal::new(30, 0), None))));
        let key = if after_in_file { 20 } else { 5 };
        rows.push((base + off, key, mk_tx(base + off, buyer, buy(Decimal::new(10, 0), Decimal::new(31, 0)))));
    } else if r.chance(6) {
        // sell-out at a loss, then a split of the affiliate that will receive the adjustment while it
        // holds nothing, then its repurchase — all inside the window
        let buyer = if r.chance(60) { seller.clone() } else { affs[1].clone() };
        rows.push((base, 10, mk_tx(base, &seller, sell(Decimal::new(100, 0), Decimal::new(r.range(2000, 4500), 2), None))));
        let a = *r.pick(&[1i32, 5, 10, 20]);
        let b = a + 1 + r.below((29 - a) as u64) as i32;
        let forms: [(&str, &str); 4] = [("2", "1"), ("3", "2"), ("1", "2"), ("5", "2")];
        let (post, pre) = *r.pick(&forms);
        let ratio = SplitRatio { pre_split: pos(dec(pre)), post_split: pos(dec(post)), reverse_integer_only: false };
        rows.push((base + a, 13, mk_tx(base + a, &buyer, TxActionSpecifics::Split(SplitTxSpecifics { ratio }))));
        rows.push((base + b, 15, mk_tx(base + b, &buyer, buy(rand_amount(r, 200, 2), Decimal::new(r.range(1000, 3000), 2)))));
        if r.chance(50) {
            rows.push((base + 60, 20, mk_tx(base + 60, &buyer, sell(Decimal::new(1, 0), Decimal::new(r.range(1000, 6000), 2), None))));
        }
    } else if r.chance(6) {
        // dust at the end of the window: the seller sells all but a few ten-millionths of a share
        // and a few ten-millionths are bought back — the affiliates together still hold shares,
        // however few (the first purchase of the case gave the seller 100 shares)
        let dust = Decimal::new(r.range(1, 9), 7);
        let sold = Decimal::new(100, 0) - dust;
        rows.push((base, 10, mk_tx(base, &seller, sell(sold, Decimal::new(r.range(1000, 4500), 2), None))));
        let off = *r.pick(&[-20, -1, 1, 15, 30]);
        let buyer = if r.chance(50) { seller.clone() } else { affs[1].clone() };
        rows.push((base + off, 10 + if off < 0 { -5 } else { 5 }, mk_tx(base + off, &buyer, buy(Decimal::new(r.range(1, 9), 7), Decimal::new(r.range(1000, 4500), 2)))));
        if r.chance(50) {
            // ... or the dust is all that is left
            let who = if buyer == seller { seller.clone() } else { buyer.clone() };
            let _ = who;
        }
    } else if r.chance(8) {
        // a loss sale of many shares with a tiny repurchase (e.g. a reinvested dividend): the denied
        // part of the loss is a fraction of a cent
        rows.push((base - 390, 0, mk_tx(base - 390, &seller, buy(Decimal::new(1400, 0), Decimal::new(50, 0)))));
        let px = Decimal::new(5000 - r.range(1, 12), 2);
        rows.push((base, 10, mk_tx(base, &seller, sell(Decimal::new(1000, 0), px, None))));
        for _ in 0..(1 + r.below(2)) {
            let off = *r.pick(&[-29, -10, -1, 1, 10, 30]);
            let buyer = if r.chance(70) { seller.clone() } else { affs[1].clone() };
            let tiny = Decimal::new(r.range(1, 300), 3);
            rows.push((base + off, 10 + if off < 0 { -5 } else { 5 }, mk_tx(base + off, &buyer, buy(tiny, Decimal::new(r.range(4000, 5000), 2)))));
        }
    } else {
        let n_sales = 1 + r.below(3) as i32;
        let mut day = base;
        for s in 0..n_sales {
            let who = if r.chance(75) { seller.clone() } else { affs[1].clone() };
            // the first sale sometimes sells the seller's whole position (100 shares): the adjustment
            // then lands on an affiliate holding nothing, until the repurchase
            let sold = if s == 0 && who == seller && r.chance(20) { Decimal::new(100, 0) } else { rand_amount(r, 30, 3) };
            let sfl = if r.chance(12) {
                let v = if r.chance(20) { Decimal::ZERO } else { -rand_amount(r, 300, 4) };
                Some(SFLInput { superficial_loss: LessEqualZeroDecimal::try_from(v).unwrap(), force: r.chance(50) })
            } else {
                None
            };
            rows.push((day, 10 + s * 100, mk_tx(day, &who, sell(sold, Decimal::new(r.range(1000, 4500), 2), sfl))));
            // acquisitions
            for _ in 0..r.below(4) {
                let off = *r.pick(&OFFSETS);
                let buyer = r.pick(&affs).clone();
                let key = 10 + s * 100 + if r.chance(50) { -5 } else { 5 };
                rows.push((day + off, key, mk_tx(day + off, &buyer, buy(rand_amount(r, 40, 3), Decimal::new(r.range(2000, 6000), 2)))));
            }
            // later / earlier sales by others
            for _ in 0..r.below(3) {
                let off = *r.pick(&OFFSETS);
                let who2 = r.pick(&affs).clone();
                rows.push((day + off, 10 + s * 100 + 7, mk_tx(day + off, &who2, sell(rand_amount(r, 8, 2), Decimal::new(r.range(2000, 6000), 2), None))));
            }
            // splits (per affiliate), forward / reverse / fractional
            for _ in 0..r.below(3) {
                let off = *r.pick(&OFFSETS);
                let forms: [(&str, &str); 6] = [("2", "1"), ("3", "2"), ("1.0", "2.0"), ("1.0", "3.0"), ("7", "3"), ("1.5", "1")];
                let (post, pre) = *r.pick(&forms);
                let who3 = r.pick(&affs).clone();
                let ratio = SplitRatio { pre_split: pos(dec(pre)), post_split: pos(dec(post)), reverse_integer_only: false };
                rows.push((day + off, 10 + s * 100 + 3, mk_tx(day + off, &who3, TxActionSpecifics::Split(SplitTxSpecifics { ratio }))));
            }
            day += *r.pick(&[20, 29, 30, 31, 45, 90]);
        }
        // make sure the other affiliates hold something early on
        rows.push((base - 300, 1, mk_tx(base - 300, &affs[1], buy(Decimal::new(60, 0), Decimal::new(45, 0)))));
        if r.chance(50) {
            rows.push((base - 300, 2, mk_tx(base - 300, &affs[2], buy(Decimal::new(25, 0), Decimal::new(45, 0)))));
        }
    }
    rows.sort_by(|a, b| (a.0, a.1).cmp(&(b.0, b.1)));
    let txs: Vec<Tx> = rows
        .into_iter()
        .enumerate()
        .map(|(i, (_, _, mut t))| {
            t.read_index = i as u32;
            // trade date 0-3 days before settlement, independently per row: the window rule is
            // about SETTLEMENT dates, and rows near a boundary must differ in their lag to show a
            // scan that reads the trade date instead
            if enum_idx.is_none() || r.chance(50) {
                let lag = r.below(4) as i32;
                t.trade_date = date_from_jd(jd(t.settlement_date) - lag);
            }
            t
        })
        .collect();
    LedgerCase { uni, init: None, txs }
}
