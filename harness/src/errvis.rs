//! Family `errvis` (C04, application level): a security whose history is rejected — the message
//! must identify the transaction and reach the user in every output mode (text, CSV, render model),
//! the rows shown are the ledger's prefix, and the security is left out of every capital-gain total.
use std::collections::{BTreeMap, HashMap};

use acb::app::outfmt::csv::CsvWriter;
use acb::app::outfmt::text::TextWriter;
use acb::app::{run_acb_app_to_render_model, run_acb_app_to_writer};
use acb::portfolio::io::tx_csv::TxCsvParseOptions;
use acb::portfolio::Tx;
use acb::util::rw::{DescribedReader, WriteHandle};
use rust_decimal::Decimal;

use crate::app;
use crate::common::*;
use crate::rng::Rng;

fn readers(rows: &[Tx]) -> Vec<DescribedReader> {
    vec![DescribedReader::from_string("all.csv".to_string(), app::txs_to_csv(rows))]
}

pub fn run_case(id: &str, r: &mut Rng, out: &mut String) {
    let mut c = app::gen_case(r);
    if r.chance(8) {
        app::add_twin_failures(&mut c, r);
    }
    let inits = c.inits.clone();
    let reference = app::run_app(&c.rows, &[], &inits);
    let Ok(Ok(by_sec)) = &reference else { return };
    let n_err = by_sec.values().filter(|d| d.0.is_err()).count();
    // cases without a rejected security are kept for the render comparison only (every 4th)
    if n_err == 0 && !r.chance(25) {
        return;
    }
    out.push_str(&format!("case {} errvis secs={} nerr={}\n", id, by_sec.len(), n_err));
    // render model (as the web UI gets it), full values
    let rows = c.rows.clone();
    let im = app::init_map(&inits);
    let model = catch(move || {
        async_std::task::block_on(run_acb_app_to_render_model(
            readers(&rows), im, &TxCsvParseOptions::default(), true, false, app::rate_loader(), WriteHandle::empty_write_handle(),
        ))
    });
    // text and csv writers
    let run_writer = |csv: bool| -> Result<String, String> {
        let rows = c.rows.clone();
        let im = app::init_map(&inits);
        catch(move || {
            let (wh, sb) = WriteHandle::string_buff_write_handle();
            let mut tw;
            let mut cw;
            let writer: &mut dyn acb::app::outfmt::model::AcbWriter = if csv {
                cw = CsvWriter::new_to_writer(wh);
                &mut cw
            } else {
                tw = TextWriter::new(wh);
                &mut tw
            };
            let _ = async_std::task::block_on(run_acb_app_to_writer(
                writer, readers(&rows), im, &TxCsvParseOptions::default(), true, false, app::rate_loader(), WriteHandle::empty_write_handle(),
            ));
            let s = sb.borrow().as_str().to_string();
            s
        })
    };
    let text = run_writer(false);
    let csv = run_writer(true);
    let (Ok(Ok(model)), Ok(text), Ok(csv)) = (&model, &text, &csv) else {
        // which mode, and whether it panicked or returned an error although the reference run
        // (run_acb_app_to_delta_models) completed
        let what = match (&model, &text, &csv) {
            (Err(p), _, _) => format!("panic render-model: {}", oneline(p)),
            (_, Err(p), _) => format!("panic text-writer: {}", oneline(p)),
            (_, _, Err(p)) => format!("panic csv-writer: {}", oneline(p)),
            (Ok(Err(e)), _, _) => format!("moderr render-model returned an error: {}", oneline(&format!("{:?}", e))),
            _ => "panic ?".to_string(),
        };
        let bs: Vec<String> = inits.iter().map(|(s, n, c)| format!("-b {}:{}:{}", s, n, c)).collect();
        out.push_str(&format!("impl {}\nrepro {}\nend\n", what, oneline(&format!("{}\n{}", bs.join(" "), app::txs_to_csv(&c.rows)))));
        return;
    };
    let mut secs: Vec<&String> = by_sec.keys().collect();
    secs.sort();
    // expected aggregate: securities that completed
    let mut exp: BTreeMap<i32, Decimal> = BTreeMap::new();
    let mut exp_total = Decimal::ZERO;
    for s in &secs {
        let dl = &by_sec[*s];
        match &dl.0 {
            Ok(deltas) => {
                for d in deltas {
                    if let Some(g) = d.capital_gain {
                        *exp.entry(d.tx.settlement_date.year()).or_insert(Decimal::ZERO) += g;
                        exp_total += g;
                    }
                }
            }
            Err(e) => {
                let shown = e.partial_deltas.len();
                let table = model.security_tables.get(*s);
                let in_model = table.map(|t| t.errors.iter().any(|m| m == &e.err_msg)).unwrap_or(false);
                let rows_model = table.map(|t| t.rows.len()).unwrap_or(usize::MAX);
                // the message as it appears in the CSV (quotes doubled inside a quoted field)
                let in_text = text.contains(&e.err_msg);
                let in_csv = csv.contains(&e.err_msg) || csv.contains(&e.err_msg.replace('"', "\"\""));
                // the offending transaction: the first row of the security the ledger did not get to
                let sec_rows: Vec<&Tx> = {
                    let mut v: Vec<&Tx> = c.rows.iter().filter(|t| &t.security == *s).collect();
                    v.sort_by_key(|t| t.settlement_date);
                    v
                };
                let dates: Vec<String> = sec_rows.iter().map(|t| t.trade_date.to_string()).collect();
                let names_date = dates.iter().any(|d| e.err_msg.contains(d.as_str()));
                out.push_str(&format!(
                    "vis {} model={} text={} csv={} rows_model={} rows_ledger={} names_date={}\n",
                    app::sec_num(s), in_model as u8, in_text as u8, in_csv as u8, rows_model, shown, names_date as u8
                ));
            }
        }
    }
    // the report shows the ledger's figures: per row, the "New ACB" and "Cap. Gain" cells of the
    // render model (full values) are the delta's cost base and capital gain
    let money = |cell: &str| -> Option<Decimal> {
        let tok = cell.split(|ch: char| ch.is_whitespace()).next().unwrap_or("");
        let t = tok.replace('$', "").replace(',', "").replace('+', "");
        if t == "-" || t.is_empty() { None } else { t.parse::<Decimal>().ok() }
    };
    for s in &secs {
        let deltas = by_sec[*s].deltas_or_partial_deltas();
        if let Some(t) = model.security_tables.get(*s) {
            let col = |name: &str| t.header.iter().position(|h| h == name);
            if let (Some(c_acb), Some(c_gain)) = (col("New ACB"), col("Cap. Gain")) {
                for (i, d) in deltas.iter().enumerate() {
                    let Some(row) = t.rows.get(i) else { break };
                    let want_acb = d.post_status.total_acb.map(|a| *a);
                    let got_acb = money(&row[c_acb]);
                    let close = |a: Option<Decimal>, b: Option<Decimal>| match (a, b) {
                        (None, None) => true,
                        (Some(x), Some(y)) => (x - y).abs() <= Decimal::new(1, 9) || ((x - y).abs() / x.abs().max(Decimal::ONE)) <= Decimal::new(1, 20),
                        _ => false,
                    };
                    if !close(want_acb, got_acb) {
                        out.push_str(&format!("rmis {} {} newacb ledger={} shown={}\n", app::sec_num(s), i, want_acb.map(|x| x.to_string()).unwrap_or("-".into()), oneline(&row[c_acb]).replace(' ', "_")));
                    }
                    let got_gain = money(&row[c_gain]);
                    if !close(d.capital_gain, got_gain) {
                        out.push_str(&format!("rmis {} {} gain ledger={} shown={}\n", app::sec_num(s), i, d.capital_gain.map(|x| x.to_string()).unwrap_or("-".into()), oneline(&row[c_gain]).replace(' ', "_")));
                    }
                }
            }
        }
    }
    // the footer of a security's table is that security's own total gain (0 when it was rejected)
    for s in &secs {
        if let Some(t) = model.security_tables.get(*s) {
            let want: Decimal = match &by_sec[*s].0 {
                Ok(deltas) => deltas.iter().filter_map(|d| d.capital_gain).sum(),
                Err(_) => Decimal::ZERO,
            };
            if let Some(got) = t.footer.get(9).and_then(|c| money(c)) {
                out.push_str(&format!("aggexp foot{} {}\n", app::sec_num(s), want));
                out.push_str(&format!("agg foot{} {}\n", app::sec_num(s), got));
            }
        }
    }
    for (y, v) in &exp {
        out.push_str(&format!("aggexp {} {}\n", y, v));
    }
    out.push_str(&format!("aggexp total {}\n", exp_total));
    for row in &model.aggregate_gains_table.rows {
        let label = if row[0] == "Since inception" { "total".to_string() } else { row[0].clone() };
        let val = row[1].replace('$', "").replace(',', "").replace('+', "");
        out.push_str(&format!("agg {} {}\n", label, val));
    }
    let mut repro = String::new();
    for (s, sh, acb) in &inits {
        repro.push_str(&format!("-b {}:{}:{}\n", s, sh, acb));
    }
    repro.push_str(&app::txs_to_csv(&c.rows));
    out.push_str(&format!("repro {}\n", oneline(&repro)));
    out.push_str("end\n");
    let _: HashMap<u8, u8> = HashMap::new();
}
